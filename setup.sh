#!/bin/sh
# Build the framework from files on disk only (offline): translator output, Lean library + driver, harness.
set -e
cd "$(dirname "$0")"
export CARGO_NET_OFFLINE=true
python3 tools/translate.py /repo lean/LaytheVerif/Gen
(cd lean && lake build LaytheVerif driver)
cp -f /repo/Cargo.lock harness/Cargo.lock
(cd harness && RUSTFLAGS="--cfg laythe_verif -Awarnings" cargo build --offline --quiet)
echo setup-ok
