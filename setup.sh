#!/bin/sh
# Build the framework from files on disk only (offline): translator output, Lean library + drivers, harness bins.
set -e
cd "$(dirname "$0")"
export CARGO_NET_OFFLINE=true
python3 tools/translate.py /repo lean/LaytheVerif/Gen
PROPS=$(ls lean/LaytheVerif/Props/*.lean | sed 's#lean/##; s#\.lean$##; s#/#.#g')
EXES=$(grep -A1 '^\[\[lean_exe\]\]' lean/lakefile.toml | grep '^name' | sed 's/name = "\(.*\)"/\1/')
(cd lean && lake build $PROPS $EXES)
cp -f /repo/Cargo.lock harness/Cargo.lock
export RUSTFLAGS="--cfg laythe_verif -Awarnings"
(cd harness && cargo build --offline --quiet --bins)
(cd harness && cargo build --offline --quiet --bins --features nan_boxing --target-dir target-nb)
(cd harness && cargo build --offline --quiet --release --bin vharness)
echo setup-ok
