#!/usr/bin/env python3
"""translate_c03.py: Gen/SuperSites.lean — the facts of the two `super` instructions of the VM that the class
model (Model/Classes.lean §6/§7) is written from, extracted from the Rust text:

  ops.rs    `op_super_invoke`, `op_get_super`: where the class the lookup starts from is taken from, every
            inline-cache accessor called (with its arguments), every `get_method` lookup, every `bind_method`
            and `resolve_call`, in source order;
  cache.rs  for every cache *getter* those ops use: whether it takes the class as a parameter and whether its
            only `Some(..)` stands under `cache.class == class`.

Props/C03.lean proves `super_sites_eq_gen` / `super_getters_eq_gen`: the generated rows are the ones written next
to the model (`Classes.superSiteFacts`, `Classes.invokeGetterFacts`), so an edit of either function re-opens a
proof of C03 (and the check then searches for a concrete failing program)."""
import os
import re

from translate import HEADER, TranslateError, strip_comments, read, write_if_changed, _norm, _lean_str_list, fn_body, block, _strip_cfg

OPS = ["op_super_invoke", "op_get_super"]


def _args(text):
    return [_norm(a) for a in text.split(",") if a.strip()]


def gen_super_sites(repo, out):
    rel_ops, rel_cache = "laythe_vm/src/vm/ops.rs", "laythe_vm/src/cache.rs"
    ops = _strip_cfg(strip_comments(read(repo, rel_ops)))
    cache = _strip_cfg(strip_comments(read(repo, rel_cache)))
    facts, used_getters = [], []
    for op in OPS:
        _, body = fn_body(ops, op, "ops.rs: " + op)
        events = []
        for m in re.finditer(r"let\s+(\w+)\s*=\s*(self\s*\.\s*fiber[^;]*?\.to_class\(\))\s*;", body):
            events.append((m.start(), "class", [m.group(1), re.sub(r"\s+", "", m.group(2))]))
        for m in re.finditer(r"\.\s*((get|set|clear)_\w+_cache)\s*\(([^;{]*?)\)\s*[;{\n,]", body):
            events.append((m.start(), m.group(2), [m.group(1)] + _args(m.group(3))))
            if m.group(2) == "get":
                used_getters.append(m.group(1))
        for m in re.finditer(r"\b(\w+)\s*\.\s*get_method\s*\(([^)]*)\)", body):
            events.append((m.start(), "lookup", ["%s.get_method(%s)" % (m.group(1), _norm(m.group(2)))]))
        for m in re.finditer(r"self\s*\.\s*(bind_method|resolve_call|invoke_from_class)\s*\(([^)]*)\)", body):
            kind = "bind" if m.group(1) == "bind_method" else "call"
            events.append((m.start(), kind, ["self.%s(%s)" % (m.group(1), ", ".join(_args(m.group(2))))]))
        if not any(k == "class" for _, k, _ in events):
            raise TranslateError("ops.rs: %s does not take a class from the fiber (`.to_class()`)" % op)
        facts += [(op, k, a) for _, k, a in sorted(events, key=lambda e: e[0])]
    impl = block("impl InlineCache", cache, "impl InlineCache")
    getters = []
    for name in sorted(set(used_getters)):
        params, body = fn_body(impl, name, "cache.rs: InlineCache::" + name)
        has_class = re.search(r"\bclass\s*:\s*ObjRef<Class>", params) is not None
        somes = len(re.findall(r"\bSome\s*\(", body)) + len(re.findall(r"\.\s*(?:map|and_then|cloned|copied)\s*\(", body))
        guarded = has_class and somes == 2 and re.search(
            r"Some\s*\(\s*cache\s*\)\s*=>\s*\{?\s*if\s+cache\.class\s*==\s*class\s*\{\s*Some\(cache\.\w+\)\s*\}\s*else\s*\{\s*None\s*\}", body) is not None
        getters.append((name, has_class, guarded))
    if not getters:
        raise TranslateError("ops.rs: the super instructions use no inline cache getter")
    L = [HEADER.replace("translate.py", "translate_c03.py") % (rel_ops + ", " + rel_cache), "namespace LaytheVerif.Gen.SuperSites\n",
         "/-- (op function, kind of fact, text): `class` = [variable, where it comes from]; `get`/`set`/`clear` = cache accessor",
         "and its arguments; `lookup` = a `get_method` call; `bind` / `call` = how the method found is used — in source order -/",
         "def facts : List (String × String × List String) := ["]
    L.append(",\n".join('  ("%s", "%s", %s)' % (op, k, _lean_str_list(a)) for op, k, a in facts))
    L.append("]\n")
    L.append("/-- (cache getter used by those ops, it has a parameter `class: ObjRef<Class>`, its only `Some` stands under `cache.class == class`) -/")
    L.append("def getters : List (String × Bool × Bool) := [")
    L.append(",\n".join('  ("%s", %s, %s)' % (n, "true" if h else "false", "true" if g else "false") for n, h, g in getters))
    L.append("]\n")
    L.append("end LaytheVerif.Gen.SuperSites\n")
    write_if_changed(os.path.join(out, "SuperSites.lean"), "\n".join(L))


if __name__ == "__main__":
    import sys
    gen_super_sites(sys.argv[1], sys.argv[2])
    print(open(os.path.join(sys.argv[2], "SuperSites.lean")).read())
