#!/usr/bin/env python3
"""Regenerate /verif/MANIFEST.json from the table below (edit here, not the JSON)."""
import json
import os
import subprocess

VERIF = os.path.dirname(os.path.dirname(os.path.abspath(__file__)))

CLAIMED = {
    "C07": dict(
        text="Lean theorems over all operation histories of the channel-queue model (FIFO/exactly-once/capacity/close/rendezvous/views); model tied to laythe_core::object::Channel by a differential op-sequence stream with an independent spec monitor",
        note="Trusted: Lean kernel, axioms propext/Quot.sound/Classical.choice, hand-written queue model (validated by the chanq stream, not proved equal to the Rust), harness crate",
        technique="Lean 4 invariant proof over operation histories + model/implementation correspondence stream"),
    "C06": dict(
        text="A bytecode verifier over the symbolic post-optimisation code (depth + handler-stack certificate, checked locally) whose soundness over ALL control-flow paths is a Lean theorem (C06_verifier_sound, join agreement, capacity/operand/handler-depth/return clauses); the compiler's stack_effect table is proved equal to the VM's pops/pushes on every instruction ([G] lemma over the regenerated table), encoder lengths and jump formulas are proved to land exactly on the label offsets; the verified verifier is run on every function of the fixture corpus and of generated programs (translation validation), executed depths/handler counts from the interpreter probe are compared with the certificate, and the model encoder is compared byte-for-byte with the real encoder",
        note="Trusted: Lean kernel + standard axioms, translator row for byte_code.rs, hand-written vmEffect/mayRaise (tied to vm/ops.rs by the probe stream, not proved from Rust), compile-dump and probe hooks; C06_full (every accepted program has a certificate) is not proved: the verifier is run instead",
        technique="Lean 4 proof of verifier soundness + generated-table lemmas; verified checker run on all emitted functions; probe and encode correspondence"),
    "C10": dict(
        text="Lean theorems over a heap-of-vectors model with forwarding headers: well-formedness of every reachable heap, contents shared through every alias (old or new address) for all mutation histories, identity stable inside the stated envelope and unconditionally for non-relocating objects, the envelope is tight; D7 witness; regenerated native/scan tables proved equal to the model's; exact model and identity Spec both compared with the real VM on generated mutation histories with aliases in six kinds of location",
        note="Trusted: Lean kernel + standard axioms, translator rows, hand-written machine (checked by the listfwd stream), harness; C10_full is false on the pinned code (D7, known finding)",
        technique="Lean 4 invariant/refinement proofs over heap histories + generated tables + model/Spec/implementation three-way stream"),
    "C14": dict(
        text="Lean theorems over all 2^64 bit patterns with constants and method bodies regenerated from value.rs: round-trip, injectivity, class disjointness, kind/test agreement, arithmetic NaNs are numbers, equality agreement outside the exactly stated excluded set (and real difference on it), hash consistency; witnesses for D8; value engine in both builds vs model and Spec on boundary patterns; generated programs and the fixture corpus diffed across both builds",
        note="Trusted: Lean kernel + standard axioms, gen_nanbox translator (typed expression translation of value.rs), harness built in both feature configurations; IEEE semantics of f64 shared by Rust and Lean Float for the spec cross-check",
        technique="Lean 4 proofs over BitVec/Nat bit patterns with generated definitions + two-build differential streams"),
    "C12": dict(
        text="Lean theorem C12_preserves: for every instruction semantics satisfying the local laws, every well-delimited stream, every entry/label, all states and fuel, optimised = original; label-restart and line theorems; rule table proved equal to the one regenerated from peephole.rs; model tied to the real peephole_optimize on exhaustive windows, random streams and every fixture function; implementation output judged by an executable free-semantics Spec",
        note="Trusted: Lean kernel + the three standard axioms, translator rows for byte_code.rs/peephole.rs, hand-written optimiser model (checked against peephole_optimize through the cfg hook), free semantics as Spec; the local laws are proved for the free semantics, not for ops.rs",
        technique="Lean 4 semantic-preservation proof (generic over instruction semantics) + generated rule table + differential windows/streams"),
    "C18": dict(
        text="Lean theorems: encoder line table aligned with code bytes for every instruction list (generated per-helper emit tables), saved ip-1 lies inside the suspended instruction incl. its cache slot, the optimiser keeps slots behind their owners, the backtrace captured by an unwind lists exactly the frames between raise and catching frame innermost first, the outcome->status table is total; witnesses for the traceback-line defect; line tables of every dumped function recomputed by the model; generated call-chain programs with randomised line layout judged by an executable Lean Spec and the exact Lines model",
        note="Trusted: Lean kernel + standard axioms, translator rows (encoder helpers, run status), hand-written unwinding model (tied by the call-chain stream), release harness build; which token's line the compiler attaches is sampled, not proved",
        technique="Lean 4 proofs about the line-table encoder and the unwinding machine + generated tables + Spec/model/implementation stream"),
}

REASON_PENDING = "check under construction in this round; will be claimed when its theorem module and tie exist (see DESIGN.md §9)"


def main():
    hooks = subprocess.run(["git", "-C", "/repo", "log", "--format=%H %s"], stdout=subprocess.PIPE, text=True).stdout
    commits = [l.split()[0] for l in hooks.splitlines() if "verif hook" in l]
    checks = []
    for pid in sorted(CLAIMED):
        c = CLAIMED[pid]
        checks.append({
            "property_id": pid,
            "quick_cmd": "./check %s --tier quick" % pid,
            "thorough_cmd": "./check %s --tier thorough" % pid,
            "evidence_file": "/verif/evidence/%s.json" % pid,
            "replay_cmd_template": "./check %s --replay {path}" % pid,
            "engine": "lean",
            "level_claimed": {"category": c.get("category", "proof"), "text": c["text"], "design_ref": "DESIGN.md §5 " + pid},
            "level_note": c["note"],
            "technique": c["technique"],
        })
    na = [{"property_id": "C%02d" % i, "reason": REASON_PENDING} for i in range(1, 21) if "C%02d" % i not in CLAIMED]
    m = {
        "version": 1,
        "setup_cmd": "./setup.sh",
        "hooks": {
            "guard": "cfg(laythe_verif)",
            "enable": "RUSTFLAGS=\"--cfg laythe_verif\" (set by /verif/check when it builds /verif/harness against /repo)",
            "baseline_off_cmd": "cd /repo && cargo test --workspace --no-fail-fast --offline",
            "source_commits": commits,
            "add_only": True,
        },
        "engines": [
            {"name": "lean", "path": "/verif/lean", "serves_properties": sorted(CLAIMED),
             "kind_free_text": "Lean 4 library of models and theorems (LaytheVerif) + compiled line-protocol driver"},
            {"name": "harness", "path": "/verif/harness", "serves_properties": sorted(CLAIMED),
             "kind_free_text": "Rust crate with path dependencies on /repo driving the real code in-process (cfg laythe_verif hooks)"},
            {"name": "translator", "path": "/verif/tools/translate.py", "serves_properties": sorted(CLAIMED),
             "kind_free_text": "regenerates LaytheVerif/Gen/*.lean from /repo's Rust text on every run"},
        ],
        "checks": checks,
        "not_applicable": na,
        "notes": "Every check: translate -> lake build of the property's theorem module (+ #print axioms audit) -> cargo build of the harness against /repo with hooks -> correspondence streams -> known findings -> evidence. See DESIGN.md.",
    }
    with open(os.path.join(VERIF, "MANIFEST.json"), "w") as f:
        json.dump(m, f, indent=1)


if __name__ == "__main__":
    main()
