#!/usr/bin/env python3
"""Regenerate /verif/MANIFEST.json from the table below (edit here, not the JSON)."""
import json
import os
import subprocess

VERIF = os.path.dirname(os.path.dirname(os.path.abspath(__file__)))

CLAIMED = {
    "C07": dict(
        text="Lean theorems over all operation histories of the channel-queue model (FIFO/exactly-once/capacity/close/rendezvous/views); model tied to laythe_core::object::Channel by a differential op-sequence stream with an independent spec monitor",
        note="Trusted: Lean kernel, axioms propext/Quot.sound/Classical.choice, hand-written queue model (validated by the chanq stream, not proved equal to the Rust), harness crate",
        technique="Lean 4 invariant proof over operation histories + model/implementation correspondence stream"),
    "C06": dict(
        text="A bytecode verifier over the symbolic post-optimisation code (depth + handler-stack certificate, checked locally) whose soundness over ALL control-flow paths is a Lean theorem (C06_verifier_sound, join agreement, capacity/operand/handler-depth/return clauses); the compiler's stack_effect table is proved equal to the VM's pops/pushes on every instruction ([G] lemma over the regenerated table), encoder lengths and jump formulas are proved to land exactly on the label offsets; the verified verifier is run on every function of the fixture corpus and of generated programs (translation validation), executed depths/handler counts from the interpreter probe are compared with the certificate, and the model encoder is compared byte-for-byte with the real encoder",
        note="Trusted: Lean kernel + standard axioms, translator row for byte_code.rs, hand-written vmEffect/mayRaise (tied to vm/ops.rs by the probe stream, not proved from Rust), compile-dump and probe hooks; C06_full (every accepted program has a certificate) is not proved: the verifier is run instead",
        technique="Lean 4 proof of verifier soundness + generated-table lemmas; verified checker run on all emitted functions; probe and encode correspondence"),
    "C10": dict(
        text="Lean theorems over a heap-of-vectors model with forwarding headers: well-formedness of every reachable heap, contents shared through every alias (old or new address) for all mutation histories, identity stable inside the stated envelope and unconditionally for non-relocating objects, the envelope is tight; D7 witness; regenerated native/scan tables proved equal to the model's; exact model and identity Spec both compared with the real VM on generated mutation histories with aliases in six kinds of location",
        note="Trusted: Lean kernel + standard axioms, translator rows, hand-written machine (checked by the listfwd stream), harness; C10_full is false on the pinned code (D7, known finding)",
        technique="Lean 4 invariant/refinement proofs over heap histories + generated tables + model/Spec/implementation three-way stream"),
    "C13": dict(
        text="Lean theorem C13_transparent: for property read, property write, invoke and super-invoke sites and every history of receivers (first execution, monomorphic, polymorphic, field shadowing a method, non-instances) the cached implementation does exactly what the slow path does, given frozen class tables; that a cached class address is never reused is itself a theorem about heap histories with the caches among the roots (C13_cached_class_pinned, tied to Vm::trace / InlineCache::trace by a generated row; witness for the untraced code, defect D16, repaired); slot ids of a compile are distinct and in range; site-history programs with expected output from the slow-path rules run with caches on, forced off (hook) and under full collections at every allocation with classes created and dropped at run time; generated programs and fixtures caches-on vs caches-off",
        note="Trusted: Lean kernel + standard axioms, hand-written cache model (tied by the cache-off differential and the site-history programs), cache-off hook; REPL cache replacement is C19's known finding D13",
        technique="Lean 4 history-transparency proof of the cache state machines + cache-off differential and site-history streams"),
    "C14": dict(
        text="Lean theorems over all 2^64 bit patterns with constants and method bodies regenerated from value.rs: round-trip, injectivity, class disjointness, kind/test agreement, arithmetic NaNs are numbers, the collector dereferences exactly the object-tagged patterns (boxed Value::trace regenerated), equality agreement with the Spec on all pairs (C14_full is a theorem: D8 repaired in /repo, boxed PartialEq/Hash regenerated from the impl text), hash consistency on all words and identical hashing of numbers in both builds; open finding DC14.1 (hash of nil/bool keys differs: map order); value engine in both builds vs model and Spec on boundary patterns; generated programs, object-zoo programs under a collection at every allocation and the fixture corpus diffed across both builds",
        note="Trusted: Lean kernel + standard axioms, gen_nanbox translator (typed expression translation of value.rs), harness built in both feature configurations; IEEE semantics of f64 shared by Rust and Lean Float for the spec cross-check",
        technique="Lean 4 proofs over BitVec/Nat bit patterns with generated definitions + two-build differential streams"),
    "C11": dict(
        text="Lean theorems unbounded in length/index/history: index normalisation iff-characterisation, slices = drop/take with clamped bounds, every list operation sequence (incl. capacity-crossing relocations) refines the List operations with no write outside the allocation for every capacity including 0 and failing ops leaving the receiver unchanged, remove/insert reject every non-integer index, sort is a sorted permutation or returns exactly the comparator's failure, iterator-typed parameters reject non-iterators, tuples, strings by character, maps refine finite maps, iterator sources/terminals/adaptors equal the stream functions with callbacks left to right and short circuits, every size hint equals the number of elements left at every point of the stream, len = elements left, skip is lazy (C11_skip_lazy); generated signature table, parameter-kind validity and guard texts; op sequences per receiver kind rendered for the Lean model/Spec engines and as Laythe programs, exhaustive boundary indices for lengths 0-4, multi-byte strings, raising/mutating callbacks, GC schedules",
        note="Trusted: Lean kernel + standard axioms, gen_coll_signatures translator, hand-written native models (tied by the streams); split characterisation, n-ary zip/chain, until and sort stability are not proved; D40-D45 all repaired in /repo (no open finding); hash-map iterators are judged by a counting monitor, not by the Lean model (their order depends on addresses)",
        technique="Lean 4 refinement proofs of collection natives against List/finite-map/stream specifications + model/Spec/implementation op-sequence streams"),
    "C12": dict(
        text="Lean theorem C12_preserves: for every instruction semantics satisfying the local laws, every well-delimited stream, every entry/label, all states and fuel, optimised = original; label-restart and line theorems; rule table proved equal to the one regenerated from peephole.rs; model tied to the real peephole_optimize on exhaustive windows, random streams and every fixture function; implementation output judged by an executable free-semantics Spec",
        note="Trusted: Lean kernel + the three standard axioms, translator rows for byte_code.rs/peephole.rs, hand-written optimiser model (checked against peephole_optimize through the cfg hook), free semantics as Spec; the local laws are proved for the free semantics, not for ops.rs",
        technique="Lean 4 semantic-preservation proof (generic over instruction semantics) + generated rule table + differential windows/streams"),
    "C18": dict(
        text="Lean theorems: encoder line table aligned with code bytes for every instruction list (generated per-helper emit tables), saved ip-1 lies inside the suspended instruction incl. its cache slot, the optimiser keeps slots behind their owners, the backtrace captured by an unwind lists exactly the frames between raise and catching frame innermost first, the outcome->status table is total and faithful also for exits and errors that cross any number of native callbacks and for compile errors of imported modules, a nested interpreter loop only runs handlers above its bottom frame; the traceback of an unhandled error lists exactly the frames of the moment of the raise with their raise-time ips however many catch clauses declined it (D181-D185 repaired in /repo; open: D186, frames abandoned when a catch filter is not a class); line tables of every dumped function recomputed by the model; generated call-chain programs with randomised line layout judged by an executable Lean Spec and the exact Lines model",
        note="Trusted: Lean kernel + standard axioms, translator rows (encoder helpers, run status), hand-written unwinding model (tied by the call-chain stream), release harness build; which token's line the compiler attaches is sampled, not proved",
        technique="Lean 4 proofs about the line-table encoder and the unwinding machine + generated tables + Spec/model/implementation stream"),
    "C01": dict(
        text="Lean theorems: Pratt rule tables regenerated from parser.rs are sane (precedence order, rows, recursion levels; by decide), every operator agrees between a model written in ops.rs branch order and the language-rule reference for all operand values, expression lowering to the generated instruction type is correct for every expression in arbitrary surrounding code (errors and short-circuit included), Pratt parser round-trip for every expression with at least the required parentheses, call protocol (arity error, frame push/return, frame limit); reference interpreter LayRef (Lean) is the oracle for generated programs in four positions and several layouts with an exhaustive operand-kind matrix; parser and lowering models compared with the real front end on operator fragments",
        note="Trusted: Lean kernel + standard axioms, gen_pratt translator, hand-written LayRef/Machine/Lower models (tied by the streams), Float arithmetic opaque; whole-pipeline statement C01_full and statement lowering not proved",
        technique="Lean 4 structural-induction proofs (lowering, parser round-trip, operator agreement) + generated Pratt tables + reference-interpreter differential stream"),
    "C02": dict(
        text="Lean theorems: capture chain soundness for any nesting depth, resolution is lexical for every program of the scoping fragment (simulation between the compiler's flat locals/capture chain and nested Spec environments), by-value access only if uncaptured, fresh box per execution, for-item declared once, a `let` without initialiser reads nil in every position (plain, captured, re-executed in a loop); generated symbol-state and capture tables; compiler access paths compared with the real PRE stream on every generated program, programs judged by a Lean cell-environment interpreter and the slot/box/capture machine",
        note="Trusted: Lean kernel + standard axioms, gen_scope translator, hand-written resolver/compiler/machine models (tied by the two streams); environment/machine simulation (C02_env_simulation) is checked per program, not proved",
        technique="Lean 4 simulation proofs over scoping programs + generated tables + compile-log and program streams"),
    "C03": dict(
        text="Lean theorems for class chains of any depth: field-index bijection, instance slot count, field set = names assigned on self in the chain's initialisers, fixed compile-time index valid in every descendant, flattened lookup = most-derived-first walk (methods and init), lexical super lookup, the implicit superclass is the built-in Object whatever the program names its own things (D26 repaired in /repo; open D26b: assigning to the module copy of Object), fused invoke = get-then-call, field shadows method, bound-method receiver, and that the emitted Class/Inherit/Field/Method sequence builds exactly that class, a super-invoke site executed for any sequence of superclass objects (class factories) calls what the lexical walk finds (SuperInvoke cache model, accessors regenerated from the VM text); API-level stream against laythe_core Class/Instance, generated class programs (incl. class factories called with several parents) judged by an executable Lean class semantics, compile-log tie for the field numbering",
        note="Trusted: Lean kernel + standard axioms, hand-written class/VM-call model (tied by the three streams), harness; whole-program equivalence (C03_full) is sampled, not proved",
        technique="Lean 4 structural-induction proofs over class chains + API/program/compile-log correspondence streams"),
    "C04": dict(
        text="Lean theorems: unwinding to a handler whose recorded depth equals the true depth resumes at the catch offset with exactly the slots that existed at the try and the same frame count, for any deeper frames and temporaries; catch chain (first matching clause, continue unwinding, non-Error filter); only Error instances can be raised; native boundary; a locally consistent handler-height/depth annotation is an invariant of every control-flow path and the executable checkers for handler balance and handler depth are sound, every clause's class test runs at exactly the handler's recorded depth + 1 (C04_clause_entry_depth), the lowering with captured (boxed) clause variables passes both checkers; witnesses for the repaired defects D1/D3 and the open D185; regenerated exit-rule/try-emission tables; verified checkers run on every emitted function, interpreter probe compared with the annotation, generated try/catch programs with first-class closures (captured locals and clause variables) judged by a definitional Lean interpreter",
        note="Trusted: Lean kernel (axioms propext, Quot.sound), translate_c04.py, hand-written handler machine and lowering skeleton (tied by the streams), probe and compile-log hooks; the repaired lowering being balanced for all statements is sampled, not proved; natives' own error propagation is not modelled (known finding D12 family)",
        technique="Lean 4 proofs about the handler machine and verified flow checkers + generated tables + Spec-interpreter program stream"),
    "C05": dict(
        text="Lean theorems on the allocator model for every heap, mutator history and collection schedule: marking = reachability (with the model's own fuel), a collection (nursery or full) keeps every reachable object owned with its payload untouched, and along every valid history under any schedule everything the mutator can reach is still owned (C05_no_live_object_freed); random mutator/collector histories against the real Allocator judged by a reachability monitor and replayed through the model; by kernel evaluation over the regenerated table of every `impl Trace` every field that can reach a managed object is marked by a total form (explicit, pinned exception list), the collection phases/sweeps/threshold text are pinned by generated rows; programs (generated, object-zoo, fixtures) under many collection schedules in both value representations must behave identically",
        note="Trusted: Lean kernel + standard axioms, hand-written allocator model (alloc stream), allocator hooks, translate_trace.py (field/type classification whitelist, reasons of the exception list reviewed by hand); the natives' push_root discipline is outside the model and covered only by the schedule stream; observational equivalence of two schedules is not proved (only its safety core)",
        technique="Lean 4 invariant proof over mutator/collector histories + allocator correspondence stream + schedule differential"),
    "C08": dict(
        text="Lean theorems on an exact executable scheduler model: state-machine invariants for every network and reachable state, deadlock only with an empty run queue, exit iff main returned, launch passes arguments, only activate/unblock can assert, producer/consumer family by induction with the D4 exclusion stated exactly; kernel-evaluated witnesses for D4/D5/D17/D18 and C08_full_false; generated FiberState assertion table; random networks as model input and Laythe programs, judged by the exact model and by a Lean search over the abstract process network",
        note="Trusted: Lean kernel + standard axioms, hand-written scheduler model (exact agreement on the stream), harness; C08_full is false on the pinned code (known findings D4, D5, D6, D17, D18, D25-callback, D26)",
        technique="Lean 4 invariant proofs over an exact scheduler model + witnesses + model/Spec/implementation network stream"),
    "C09": dict(
        text="Lean theorems (same allocator model as C05): along every history and schedule two reachable strings are the same object iff their contents are equal, no table key dangles, a hit returns the requested content, a miss means no reachable equal string; allocator stream with intern operations judged by a content monitor; generated string-producing expression pairs compared with ==, as map keys and via has/index under collection schedules",
        note="Trusted: as C05; the single entry point (every string allocation goes through manage_str) is an assumption of the model",
        technique="Lean 4 invariant proof over histories + allocator correspondence stream + schedule differential on string programs"),
    "C15": dict(
        text="Lean theorems: scanner total on every input (one final EOF, tokens inside the input, disjoint, increasing, unterminated strings become error tokens), every declaration-loop iteration incl. synchronize consumes a token so parsing terminates, by decide over the regenerated table every u8/u16 narrowing is guarded or saturating (only handler_slots, a TODO in the source, is listed as unguarded), a clean resolver run implies the compiler reaches no lookup panic for every scoping-event sequence and, at AST level, for every program of the skeleton (event order of for/try/catch tied by a generated table), the parser's loop depth is balanced, never underflows and break/continue are accepted only inside loops; scanner model vs real diagnostics, 15 malformed-input families through compile-only and run paths judged by outcome rules, contract stream, boundary counts, nesting depths, REPL sessions",
        note="Trusted: Lean kernel + standard axioms, translate_c15.py, hand-written scanner/loop/contract models; the parser grammar (~2300 lines) and code generation are sampled by the malformed stream, not modelled; D21, D31, D151-D155 repaired in /repo (no open finding)",
        technique="Lean 4 totality/progress proofs for scanner and declaration loop + decide over generated narrowing table + malformed-input outcome stream"),
    "C16": dict(
        text="Lean theorems: signature check soundness for all arities and argument lists; by decide +kernel over the table of all natives regenerated from laythe_lib, every body unwrap site is justified by the declared signature, receiver convention or a dominating test (no exception list), no instance field is unwrapped unchecked, the frame count never exceeds MAX_FRAME_SIZE along every call/native-enter/leave/return sequence (no bypass), the hook call family hands every signal of a resolved call back without a panic, no native uses a standard sort that panics on a non-total order, Display nests at most 64 levels on every (also cyclic) graph, for every program of the recursion skeleton (calls, stack-ful and stackless natives with callbacks, try at any level) temporary roots are balanced on every exit, assert_roots never fires, the frame limit holds and a caught overflow leaves frames and roots as at the try (call_native's root/frame event order regenerated from the VM text); fiber stack and channel capacity texts; non-callable dispatch table; real signature checker compared with the model, native x argument-kind matrix through real programs in isolated workers (debug and release), recursion shapes with exact frame counts, recursion through every callback-taking native x alignment x catch level with temp-root accounting against a control run, error-in-handler shapes, Display of cyclic/deep graphs compared exactly with the model, deep-format matrix (11 builders x 10 sinks at depth 10000, debug and release)",
        note="Trusted: Lean kernel + standard axioms, translate_natives.py (text scan of native bodies), harness workers; host panics and memory faults are runtime behaviour: the model predicts where they cannot happen, the streams search for the rest; 21 genuine crashes repaired in /repo; open: D11, D6, DC16.7, DC16.13 (recursive mark), DC16.14 (iterator chain recursion)",
        technique="Lean 4 decide-over-generated-table proofs + signature-check soundness + native matrix and recursion streams"),
    "C17": dict(
        text="Lean theorems on the import state machine: for every acyclic module graph and every order/multiplicity/form of imports each body starts at most once and has completed before its importer continues, export tables and import objects are exactly the export declarations, non-exported names and missing modules give the import error, the loader never reaches todo!/unwrap (all path lengths), the package map is constant, `std.p` is the library module or an import error and any other package an import error whatever user modules are called, `self.p` is the file of path p with its body completed (D25-module-shadows-package and DC17.1 repaired in /repo; package writes and the library tree tied by generated rows); generated multi-file programs judged by a run-once Spec and the exact model",
        note="Trusted: Lean kernel + standard axioms, hand-written import model (tied by the multi-file stream), harness; termination of every run (C17_full) not proved; open finding DC17.2 (a completing child fiber wakes an importer whose module body is still parked)",
        technique="Lean 4 invariant proofs over the import machine + multi-file program stream"),
    "C19": dict(
        text="Lean theorems on the REPL compile loop: symbols persist to the same slot across entries, a failing compile changes nothing, a whole session's property and invoke cache ids are consecutive, disjoint and inside vectors that only grow (C19_full holds: D13 repaired in /repo, the old restarted numbering kept as a regression fact), fibers left pending by earlier entries survive erroneous entries on the C08 scheduler model (DC19.1, a failed import skipping a cache entry, repaired in /repo; open: DC19.2 deadlocked entry fiber resumes at a stale ip, DC19.3 wake-up owed by an ended script is lost; repl loop order regenerated from the VM text); generated sessions run through Vm::repl vs the concatenated module, incl. functions with cache sites defined in one entry and called from later ones and fibers/channels that live across entries, plus a compile-log tie of module slots and cache ids read back from the encoded bytes",
        note="Trusted: Lean kernel + standard axioms, hand-written REPL model, vh_repl harness; the lengths of the cache vectors are not observable through a hook (ids in range are proved on the model and seen as the absence of the debug assertion); that grow keeps cached state is exercised, not modelled",
        technique="Lean 4 invariant proofs over REPL sessions + session/concatenation differential stream"),
    "C20": dict(
        text="Lean theorems (same allocator model): after every collection bytes_allocated = sum of owned sizes, nursery empty, next_gc = 2x; after a full collection in any reachable state the allocator owns exactly the reachable objects and the intern table is exactly the reachable strings; only garbage is reclaimed; witness for the repaired nursery accounting defect; allocator stream judged by an accounting monitor, layout-checking global allocator (size/alignment of every release; every owned block's accounted size vs the size it was obtained with), stats after forced full collections of real programs",
        note="Trusted: as C05 plus the checking GlobalAlloc wrapper of the harness; bounded-heap corollary (C20_bounded_heap) not proved",
        technique="Lean 4 accounting proofs on the allocator model + allocator correspondence stream + layout-checking allocator"),
}

REASON_PENDING = "check under construction in this round; will be claimed when its theorem module and tie exist (see DESIGN.md §9)"


def main():
    hooks = subprocess.run(["git", "-C", "/repo", "log", "--format=%H %s"], stdout=subprocess.PIPE, text=True).stdout
    commits = [l.split()[0] for l in hooks.splitlines() if "verif hook" in l]
    checks = []
    for pid in sorted(CLAIMED):
        c = CLAIMED[pid]
        checks.append({
            "property_id": pid,
            "quick_cmd": "./check %s --tier quick" % pid,
            "thorough_cmd": "./check %s --tier thorough" % pid,
            "evidence_file": "/verif/evidence/%s.json" % pid,
            "replay_cmd_template": "./check %s --replay {path}" % pid,
            "engine": "lean",
            "level_claimed": {"category": c.get("category", "proof"), "text": c["text"], "design_ref": "DESIGN.md §5 " + pid},
            "level_note": c["note"],
            "technique": c["technique"],
        })
    na = [{"property_id": "C%02d" % i, "reason": REASON_PENDING} for i in range(1, 21) if "C%02d" % i not in CLAIMED]
    m = {
        "version": 1,
        "setup_cmd": "./setup.sh",
        "hooks": {
            "guard": "cfg(laythe_verif)",
            "enable": "RUSTFLAGS=\"--cfg laythe_verif\" (set by /verif/check when it builds /verif/harness against /repo)",
            "baseline_off_cmd": "cd /repo && cargo test --workspace --no-fail-fast --offline",
            "source_commits": commits,
            "add_only": True,
        },
        "engines": [
            {"name": "lean", "path": "/verif/lean", "serves_properties": sorted(CLAIMED),
             "kind_free_text": "Lean 4 library of models and theorems (LaytheVerif) + compiled line-protocol driver"},
            {"name": "harness", "path": "/verif/harness", "serves_properties": sorted(CLAIMED),
             "kind_free_text": "Rust crate with path dependencies on /repo driving the real code in-process (cfg laythe_verif hooks)"},
            {"name": "translator", "path": "/verif/tools/translate.py", "serves_properties": sorted(CLAIMED),
             "kind_free_text": "regenerates LaytheVerif/Gen/*.lean from /repo's Rust text on every run"},
        ],
        "checks": checks,
        "not_applicable": na,
        "notes": "Every check: translate -> lake build of the property's theorem module (+ #print axioms audit) -> cargo build of the harness against /repo with hooks -> correspondence streams -> known findings -> evidence. See DESIGN.md.",
    }
    with open(os.path.join(VERIF, "MANIFEST.json"), "w") as f:
        json.dump(m, f, indent=1)


if __name__ == "__main__":
    main()
