#!/bin/bash
# usage: tools/merge_agent.sh <name> <base-commit>  — merge a builder workspace /tmp/w_<name>/verif into /verif:
# new files are copied; shared files (translate.py, lakefile.toml, known_findings.jsonl, .gitignore) are merged by patch.
set -u
N="$1"; BASE="$2"; W="/tmp/w_$N/verif"
cd /verif
# 1. copy files that do not exist in /verif or are owned by the agent (anything new relative to the base commit)
( cd "$W" && find . -type f \
    -not -path './lean/.lake/*' -not -path './harness/target*' -not -path './work/*' -not -path './replays/*' \
    -not -path './evidence/*' -not -path './lean/LaytheVerif/Gen/*' -not -name '*.pyc' -not -path './.git/*' \
    -not -name '.repo_path' -not -path './harness/Cargo.toml' -not -path './harness/Cargo.lock' -not -name '.*.lock' -not -path './__pycache__/*' -not -path '*/__pycache__/*' ) | sed 's#^\./##' | sort > /tmp/merge_$N.files
NEW=""
while read -r f; do
  if ! git cat-file -e "$BASE:$f" 2>/dev/null; then
    # new file (did not exist at base)
    if [ -e "/verif/$f" ] && ! cmp -s "$W/$f" "/verif/$f"; then echo "CONFLICT(new file exists in /verif): $f"; else mkdir -p "$(dirname "/verif/$f")"; cp -p "$W/$f" "/verif/$f"; NEW="$NEW $f"; fi
  else
    if ! git show "$BASE:$f" | cmp -s - "$W/$f"; then
      echo "CHANGED shared file: $f"
      git show "$BASE:$f" > /tmp/merge_base_file
      diff -u /tmp/merge_base_file "$W/$f" > /tmp/merge_$N.$(basename $f).patch
      if patch -p0 --dry-run "/verif/$f" < /tmp/merge_$N.$(basename $f).patch >/dev/null 2>&1; then
        patch -p0 "/verif/$f" < /tmp/merge_$N.$(basename $f).patch >/dev/null && echo "  patched $f"
      else
        echo "  PATCH FAILED for $f (see /tmp/merge_$N.$(basename $f).patch)"
      fi
    fi
  fi
done < /tmp/merge_$N.files
echo "new files:$NEW" | tr ' ' '\n' | head -80
