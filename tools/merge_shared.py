#!/usr/bin/env python3
"""Structured merge of the two shared files a builder workspace may extend:
lean/lakefile.toml ([[lean_exe]] blocks) and tools/translate.py (top-level defs + gen_* calls in main)."""
import re
import sys

name = sys.argv[1]
W = "/tmp/w_%s/verif" % name

# lakefile
mine = open("/verif/lean/lakefile.toml").read()
theirs = open(W + "/lean/lakefile.toml").read()
for m in re.finditer(r"\[\[lean_exe\]\]\nname = \"([^\"]+)\"\nroot = \"([^\"]+)\"\n", theirs):
    if 'name = "%s"' % m.group(1) not in mine:
        mine = mine.rstrip("\n") + "\n\n" + m.group(0)
        print("lakefile: added exe", m.group(1))
open("/verif/lean/lakefile.toml", "w").write(mine)

# translate.py
def toplevel(src):
    """Split into top-level blocks keyed by def/class name (or None for other text)."""
    blocks = []
    cur_name, cur = None, []
    for line in src.split("\n"):
        m = re.match(r"(def|class)\s+([A-Za-z_0-9]+)", line)
        is_top = bool(m) or (line and not line[0].isspace() and not line.startswith("#") and not line.startswith(")") and not line.startswith("]") and not line.startswith("}"))
        if m:
            blocks.append((cur_name, cur))
            cur_name, cur = m.group(2), [line]
        elif is_top and cur_name is not None and not line.startswith(("@",)):
            blocks.append((cur_name, cur))
            cur_name, cur = None, [line]
        else:
            cur.append(line)
    blocks.append((cur_name, cur))
    return blocks

mine = open("/verif/tools/translate.py").read()
theirs = open(W + "/tools/translate.py").read()
mine_names = {n for n, _ in toplevel(mine) if n}
add = []
tb = toplevel(theirs)
for i, (n, lines) in enumerate(tb):
    if n and n not in mine_names and n != "main":
        add.append("\n".join(lines).rstrip("\n") + "\n")
        print("translate.py: added", n)
    elif n is None and i > 0:
        txt = "\n".join(lines).strip()
        # module-level constants/regexes defined by the agent between functions
        if txt and txt not in mine and not txt.startswith(("import ", "from ", "if __name__", '"""', "#!/")):
            add.append(txt + "\n")
            print("translate.py: added module-level text:", txt[:60].replace("\n", " "))
if add:
    i = mine.index("def main():")
    mine = mine[:i] + "\n\n".join(add) + "\n\n" + mine[i:]
calls = re.findall(r"^\s+(gen_[a-z_0-9]+\(repo, out\))\s*$", theirs, flags=re.M)
for c in calls:
    if not re.search(r"^\s+" + re.escape(c) + r"\s*$", mine, flags=re.M):
        mine = mine.replace("    except TranslateError as e:", "        %s\n    except TranslateError as e:" % c, 1)
        print("translate.py: added call", c)
imports = re.findall(r"^(import [a-z_]+|from [a-z_.]+ import [^\n]+)$", theirs, flags=re.M)
for imp in imports:
    if imp not in mine:
        mine = mine.replace("import os\n", "import os\n%s\n" % imp, 1)
        print("translate.py: added import", imp)
open("/verif/tools/translate.py", "w").write(mine)
