"""C19: Gen/ReplLoop.lean — what the read-compile-run loop does with the state that outlives an entry.

From the Rust *text* of laythe_vm/src/vm/*.rs:
  queueSites      every place that names `fiber_queue`, as (file, enclosing fn, method called on it)
                  — the field declaration and its initialiser in `Vm::new` are recognised and skipped,
                  any other shape is an error;
  interpretSelf / prepareSelf / replSelf
                  the members of `self` that `Vm::interpret`, `Vm::prepare` and `Vm::repl` mention, in
                  source order (`self.compile`, `self.prepare`, `self.execute`, ..).
Props/C19Fibers.lean proves that these are the tables Model/ReplFibers.lean was written from
(`queue_sites_as_modelled`, `interpret_as_modelled`, ..): an edit that makes `interpret` / `prepare` /
`repl` touch the run queue (or anything else of `self`) re-opens those proofs.
"""
import os
import re

from translate import HEADER, TranslateError, block, read, strip_comments, write_if_changed

VM_DIR = "laythe_vm/src/vm"


def enclosing_fn(text, pos):
    """name of the innermost `fn` whose body contains `pos`"""
    best = None
    for m in re.finditer(r"\bfn\s+([A-Za-z_][A-Za-z0-9_]*)\s*(?:<[^>{}]*>)?\s*\(", text):
        if m.start() > pos:
            break
        try:
            i = text.index("{", m.end())
        except ValueError:
            continue
        semi = text.find(";", m.end())
        if semi != -1 and semi < i:
            continue        # a declaration without body
        depth = 0
        for j in range(i, len(text)):
            if text[j] == "{":
                depth += 1
            elif text[j] == "}":
                depth -= 1
                if depth == 0:
                    break
        if i < pos <= j:
            best = m.group(1)
    return best


def self_members(body):
    return re.findall(r"\bself\s*\.\s*([A-Za-z_][A-Za-z0-9_]*)", body)


def lean_str(s):
    return '"' + s.replace("\\", "\\\\").replace('"', '\\"') + '"'


def gen_repl_loop(repo, out):
    d = os.path.join(repo, VM_DIR)
    try:
        files = sorted(f for f in os.listdir(d) if f.endswith(".rs"))
    except OSError as e:
        raise TranslateError("cannot list %s: %s" % (VM_DIR, e))
    sites = []
    for f in files:
        text = strip_comments(read(repo, VM_DIR + "/" + f))
        for m in re.finditer(r"\bfiber_queue\b", text):
            before = text[max(0, m.start() - 40):m.start()]
            after = text[m.end():m.end() + 60]
            if re.match(r"\s*:\s*VecDeque\s*<", after):
                continue                                    # the field: `fiber_queue: VecDeque<Ref<Fiber>>,`
            if re.match(r"\s*:\s*VecDeque::new\(\)", after):
                fn = enclosing_fn(text, m.start())
                if fn != "new":
                    raise TranslateError("%s: fiber_queue initialised outside Vm::new (in %s)" % (f, fn))
                continue
            mm = re.match(r"\s*\.\s*([A-Za-z_][A-Za-z0-9_]*)\s*\(", after)
            if not re.search(r"self\s*\.\s*$", before) or not mm:
                raise TranslateError("%s: use of fiber_queue not understood: ..%s[fiber_queue]%s.." % (
                    f, before[-25:].replace("\n", " "), after[:30].replace("\n", " ")))
            fn = enclosing_fn(text, m.start())
            if fn is None:
                raise TranslateError("%s: fiber_queue used outside a function" % f)
            sites.append((f, fn, mm.group(1)))
    mod = strip_comments(read(repo, VM_DIR + "/mod.rs"))
    members = {}
    for fn, marker in (("interpret", "fn interpret("), ("prepare", "fn prepare("), ("repl", "pub fn repl(")):
        if mod.count(marker) != 1:
            raise TranslateError("mod.rs: expected exactly one `%s`" % marker)
        members[fn] = self_members(block(marker, mod, "Vm::" + fn))
    if "execute" not in members["interpret"] or "interpret" not in members["repl"]:
        raise TranslateError("mod.rs: repl -> interpret -> execute not recognised")
    L = [HEADER % (VM_DIR + "/*.rs") + "namespace LaytheVerif.Gen.ReplLoop\n",
         "/-- every place in laythe_vm/src/vm that names `Vm.fiber_queue` (besides the field and its initialiser in\n"
         "`Vm::new`): (file, enclosing function, method called on the queue), in source order -/",
         "def queueSites : List (String × String × String) := [\n  " +
         ",\n  ".join("(%s, %s, %s)" % (lean_str(a), lean_str(b), lean_str(c)) for a, b, c in sites) + "]\n"]
    for fn in ("interpret", "prepare", "repl"):
        L.append("/-- the members of `self` that `Vm::%s` mentions, in source order -/" % fn)
        L.append("def %sSelf : List String := [%s]\n" % (fn, ", ".join(lean_str(x) for x in members[fn])))
    L.append("end LaytheVerif.Gen.ReplLoop\n")
    write_if_changed(os.path.join(out, "ReplLoop.lean"), "\n".join(L))
