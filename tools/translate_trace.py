#!/usr/bin/env python3
"""translate_trace.py: Gen/TraceTable.lean — for every `impl Trace for X` of the runtime (laythe_core,
laythe_vm, laythe_lib; test modules removed) the fields of X and, per field, how `fn trace` marks it.

A field is marked *totally* when the statement that mentions it has one of the recognised shapes
(call on the field, loop over all its elements, `if let Some` on an Option field); any other statement
mentioning `self.<field>` is reported verbatim as `other:<text>` and does not count.  Field types are
classified as `plain` (cannot hold a reference to a managed object) by a whitelist; everything else
must be marked.  The Lean side proves `covered row = true` for every row except an explicit list of
exceptions, each with its reason (Props/TraceCover.lean)."""
import os
import re

from translate import HEADER, TranslateError, strip_comments, read, write_if_changed, _norm, _brace_end

ROOTS = ["laythe_core/src", "laythe_vm/src", "laythe_lib/src"]

# types that cannot reach a managed object
PLAIN = re.compile(
    r"^(?:u8|u16|u32|u64|usize|i8|i16|i32|i64|isize|f32|f64|bool|char|String|PathBuf|&'static str|"
    r"\*const u8|\*mut u8|\*const Value|\*mut Value|NonNull<u8>|Cell<u32>|Cell<usize>|Cell<bool>|AtomicBool|"
    r"Arity|IdEmitter|FiberState|ChannelQueueState|ChannelKind|Environment|NativeEnvironment|ParameterKind|TokenKind|"
    r"Vec<u8>|Vec<u16>|Vec<usize>|Vec<Line>|Vec<\*const u8>|Option<usize>|Option<u16>|FunKind|Regex|"
    r"PhantomData<[^>]*>|std::str::Chars<'static>|Chars<'static>|Peekable<Chars<'static>>|CharIndices<'static>|"
    r"Range<usize>|SystemTime|Instant|RefCell<Stdio>|Io|IoImpl|Box<dyn [A-Za-z]+Io[A-Za-z]*>|"
    r"ObjectKind|ChannelQueueKind|Vec<SymbolicByteCode>|Option<FunKind>|\*mut CallFrame|Option<LineOffsets>|Bump)$")


def strip_tests(text):
    """remove `#[cfg(test)] mod NAME { .. }` blocks"""
    out, i = [], 0
    for m in re.finditer(r"#\[cfg\(test\)\]\s*(?:pub\s+)?mod\s+\w+\s*\{", text):
        if m.start() < i:
            continue
        out.append(text[i:m.start()])
        i = _brace_end(text, m.end() - 1, "test module") + 1
    out.append(text[i:])
    return "".join(out)


def split_top(text, sep):
    parts, depth, cur = [], 0, ""
    for ch in text:
        if ch in "({[<" and not (ch == "<" and cur.endswith("-")):
            depth += 1
        elif ch in ")}]>" and not (ch == ">" and (cur.endswith("-") or cur.endswith("="))):
            depth -= 1
        if ch == sep and depth == 0:
            parts.append(cur)
            cur = ""
        else:
            cur += ch
    if cur.strip():
        parts.append(cur)
    return parts


def statements(body):
    """top-level statements of a block: split at `;` and after `}` at depth 0"""
    sts, depth, cur = [], 0, ""
    for ch in body:
        cur += ch
        if ch in "({[":
            depth += 1
        elif ch in ")}]":
            depth -= 1
            if depth == 0 and ch == "}":
                sts.append(cur)
                cur = ""
        elif ch == ";" and depth == 0:
            sts.append(cur[:-1])
            cur = ""
    if cur.strip():
        sts.append(cur)
    return [_norm(s) for s in sts if _norm(s) and not _norm(s).startswith("#[")]


FORMS = [
    ("call", r"self\.(\w+)\.trace\(\)"),
    ("each", r"self\.(\w+)\.iter\(\)\.for_each\(\|(\w+)\| \{? ?\2\.trace\(\);? ?\}?\)"),
    ("each", r"for (\w+) in &self\.(\w+) \{ \1\.trace\(\);? \}"),
    ("each-kv", r"self\.(\w+)\.iter\(\)\.for_each\(\|\((\w+), (\w+)\)\| \{ \2\.trace\(\); \3\.trace\(\); \}\)"),
    ("each-k", r"self\.(\w+)\.iter\(\)\.for_each\(\|\((\w+), _\)\| \{ \2\.trace\(\); \}\)"),
    ("each-v", r"self\.(\w+)\.iter\(\)\.for_each\(\|\(_, (\w+)\)\| \{ \2\.trace\(\); \}\)"),
    ("each-v", r"self\.(\w+)\.values\(\)\.for_each\(\|(\w+)\| \{? ?\2\.trace\(\);? ?\}?\)"),
    ("some", r"if let Some\((\w+)\) = &?self\.(\w+) \{ \1\.trace\(\);? \}"),
    ("some", r"self\.(\w+)\.map\(\|(\w+)\| \2\.trace\(\)\)"),
    ("some", r"self\.(\w+)\.as_ref\(\)\.map\(\|(\w+)\| \2\.trace\(\)\)"),
]


def classify(st):
    for form, pat in FORMS:
        m = re.fullmatch(pat, st)
        if m:
            g = m.groups()
            field = g[1] if pat.startswith("for ") or pat.startswith("if let") else g[0]
            return field, form
    fields = re.findall(r"self\.(\w+)", st)
    return (fields[0] if fields else "?"), "other:" + st


def rows(repo):
    out = []
    for root in ROOTS:
        for dp, _, fns in sorted(os.walk(os.path.join(repo, root))):
            for fn in sorted(fns):
                if not fn.endswith(".rs"):
                    continue
                rel = os.path.relpath(os.path.join(dp, fn), repo)
                text = strip_tests(strip_comments(read(repo, rel)))
                for m in re.finditer(r"impl(?:<[^{]*?>)?\s+Trace\s+for\s+([A-Za-z_]\w*)(?:<[^{]*?>)?\s*(?:where[^{]*)?\{", text):
                    name = m.group(1)
                    end = _brace_end(text, m.end() - 1, "impl Trace for " + name)
                    impl = text[m.end():end]
                    tm = re.search(r"fn\s+trace\s*\(\s*&self\s*\)\s*\{", impl)
                    body = ""
                    if tm:
                        body = impl[tm.end():_brace_end(impl, tm.end() - 1, name + "::trace")]
                    sm = re.search(r"\bstruct\s+%s\s*(?:<[^{;(]*?>)?\s*(?:where[^{]*)?\{" % re.escape(name), text)
                    fields = None
                    if sm:
                        sb = text[sm.end():_brace_end(text, sm.end() - 1, "struct " + name)]
                        fields = []
                        for part in split_top(sb, ","):
                            part = re.sub(r"#\[[^\]]*\]", "", part)
                            fm = re.match(r"\s*(?:pub(?:\([^)]*\))?\s+)?(\w+)\s*:\s*(.+?)\s*$", _norm(part), flags=re.S)
                            if fm:
                                fields.append((fm.group(1), fm.group(2)))
                    marks = [classify(s) for s in statements(body)]
                    out.append((rel, name, fields, marks))
    return out


def q(x):
    return '"%s"' % x.replace("\\", "\\\\").replace('"', '\\"')


def gen(repo, out):
    rs = rows(repo)
    if len(rs) < 40:
        raise TranslateError("only %d Trace impls found" % len(rs))
    L = [HEADER % "every `impl Trace for X` under laythe_core/src, laythe_vm/src, laythe_lib/src (test modules removed)",
         "namespace LaytheVerif.Gen.TraceTable\n",
         "structure Row where",
         "  file : String",
         "  name : String",
         "  /-- `none`: no braced struct of that name in the file (enum, macro parameter, primitive, tuple struct) -/",
         "  fields : Option (List (String × String × Bool))   -- (field, type, plain: cannot reach a managed object)",
         "  marks : List (String × String)                     -- (field, form) per statement of `fn trace`",
         "",
         "def rows : List Row := ["]
    items = []
    for rel, name, fields, marks in rs:
        if fields is None:
            fs = "none"
        else:
            fs = "(some [%s])" % ", ".join("(%s, %s, %s)" % (q(f), q(t), "true" if PLAIN.match(t) else "false") for f, t in fields)
        ms = "[%s]" % ", ".join("(%s, %s)" % (q(f), q(fm)) for f, fm in marks)
        items.append("  { file := %s, name := %s,\n    fields := %s,\n    marks := %s }" % (q(rel), q(name), fs, ms))
    L.append(",\n".join(items))
    L.append("]\n")
    L.append("end LaytheVerif.Gen.TraceTable\n")
    write_if_changed(os.path.join(out, "TraceTable.lean"), "\n".join(L))


if __name__ == "__main__":
    import sys
    gen(sys.argv[1], sys.argv[2])
