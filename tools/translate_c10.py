"""C10: the ORDER of the events inside the mutating `List` methods and inside the list natives that can refuse
an operation  ->  Gen/ListFwdOrder.lean.

`gen_listfwd` (translate.py) records, per native, the order of heap action / has_moved / scan_roots.  What it does
not record is where the *refusals* sit: `List::insert` must decide that an index is out of bounds BEFORE it
reserves capacity (`ensure_capacity` relocates the buffer), `List::remove`/`pop` before they write, and the natives
refuse a fractional / negative index before they call into the list at all.  These rows pin that text; the lemmas
`gen_method_order_match`, `gen_native_guards_match`, `gen_determine_index_match`, `gen_number_params_match` in
Props/C10.lean connect them to the model (Model/ListFwd.lean: `listInsert`, `listRemove`, `listPop`, `listPush`,
`callNative`, `determineIndex`, `numberParam`), so that moving a check re-opens a proof.
"""
import os
import re

from translate import HEADER, TranslateError, block, read, strip_comments, write_if_changed


def _events(text, table):
    """[(event name)] in textual order; `table`: (name, regex); a regex group 1, if any, is appended after ':'."""
    found = []
    for name, pat in table:
        for m in re.finditer(pat, text, flags=re.S):
            label = name
            if m.groups() and m.group(1) is not None:
                label += ":" + re.sub(r"\s+", " ", m.group(1)).strip()
            found.append((m.start(), label))
    return [e for _, e in sorted(found)]


METHOD_EVENTS = [
    ("read_len", r"self\.0\.read_len\(\)"),
    ("check", r"\bif\s+([^{}]*?)\s*\{"),                          # the bound test, with its condition
    ("refuse", r"(?:return\s+IndexedResult::OutOfBounds|\bNone\b(?!\s*=>))"),
    ("reserve", r"self\.ensure_capacity\(\s*([^,]*?)\s*,"),      # may relocate: `needed`
    ("copy", r"ptr::copy\("),
    ("read_value", r"\.read_value\("),
    ("write_value", r"\.write_value\("),
    ("write_len", r"\.write_len\(\s*([^()]*?)\s*\)"),
]

NATIVE_EVENTS = [
    ("fract", r"if\s+index\.fract\(\)\s*!=\s*0\.0\s*\{\s*return\s+self\.call_error"),
    ("negative", r"if\s+index\s*<\s*0\.0\s*\{\s*return\s+self\.call_error"),
    ("moved", r"\.has_moved\(\)"),
    ("scan", r"hooks\.scan_roots\(\)"),
    ("insert", r"\blist\.insert\("),
    ("remove", r"\blist\.remove\("),
    ("determine_index", r"\bdetermine_index\("),
    ("write", r"\blist\[index\]\s*=[^=]"),
    ("read", r"Ok\(list\[index\]\)"),
    ("oob_error", r"IndexedResult::OutOfBounds\s*=>\s*self\.call_error"),
    ("index_error", r"Err\(message\)\s*=>\s*self\.call_error"),
]


def gen_listfwd_order(repo, out):
    rel = "laythe_core/src/object/list.rs"
    lsrc = strip_comments(read(repo, rel))
    impl = block("impl List {", lsrc, "impl List")
    methods = []
    for name in ("pop", "remove", "push", "insert"):
        b = block("pub fn %s" % name, impl, "List::" + name)
        here = re.search(r"ListLocation::Here\(\s*\w+\s*\)\s*=>\s*\{", b)
        if not here:
            raise TranslateError("List::%s: the `Here` arm not found" % name)
        arm = block(here.group(0), b, "List::%s Here arm" % name)
        evs = _events(arm, METHOD_EVENTS)
        if not evs:
            raise TranslateError("List::%s: no events recognised" % name)
        methods.append((name, evs))

    rel2 = "laythe_lib/src/global/primitives/list.rs"
    src = strip_comments(read(repo, rel2))
    natives = []
    for name in ("ListIndexGet", "ListIndexSet", "ListInsert", "ListRemove"):
        body = block("impl LyNative for %s " % name, src, "impl LyNative for " + name)
        call = block("fn call", body, name + "::call")
        natives.append((name, _events(call, NATIVE_EVENTS)))
    det = block("fn determine_index", src)
    det_rules = []
    for m in re.finditer(r"\bif\s+([^{}]*?)\s*\{|Ok\(([^()]*(?:\([^()]*\)[^()]*)*)\)|(return\s+Err|\bErr)\(", det):
        if m.group(1) is not None:
            det_rules.append("if " + re.sub(r"\s+", " ", m.group(1)))
        elif m.group(2) is not None:
            det_rules.append("Ok " + re.sub(r"\s+", " ", m.group(2)))
        else:
            det_rules.append("Err")
    if len(det_rules) < 6:
        raise TranslateError("determine_index not understood: %r" % det_rules)

    # which parameter of each list native is declared ParameterKind::Number (check_native_arity refuses other kinds up front)
    metas = {}
    for m in re.finditer(r"const\s+(LIST_[A-Z_]+)\s*:\s*NativeMetaBuilder\s*=\s*(.*?);", src, flags=re.S):
        metas[m.group(1)] = re.findall(r"ParameterBuilder::new\(\s*\"(\w+)\"\s*,\s*ParameterKind::(\w+)\s*\)", m.group(2))
    params = []
    for m in re.finditer(r"native(?:_with_error)?!\((List[A-Za-z]+),\s*(LIST_[A-Z_]+)\);", src):
        if m.group(2) not in metas:
            raise TranslateError("list natives: meta %s not found" % m.group(2))
        if m.group(1) in ("ListIndexGet", "ListIndexSet", "ListInsert", "ListRemove", "ListPush", "ListPop", "ListClear", "ListHas",
                          "ListIndex", "ListLen"):
            params.append((m.group(1), ["%s:%s" % p for p in metas[m.group(2)]]))
    ops = strip_comments(read(repo, "laythe_vm/src/vm/ops.rs"))
    cn = block("unsafe fn call_native", ops)
    i_chk, i_env = cn.find("check_native_arity"), cn.find("native.environment()")
    arity_first = 0 <= i_chk < i_env

    def q(x):
        return '"%s"' % re.sub(r"\s+", " ", x).replace('"', "'")

    def rows(xs):
        return ",\n".join("  (%s, [%s])" % (q(n), ", ".join(q(e) for e in evs)) for n, evs in xs)
    L = [HEADER % ", ".join([rel, rel2, "laythe_vm/src/vm/ops.rs"]), "namespace LaytheVerif.Gen.ListFwd\n",
         "/-- `List::{pop,remove,push,insert}`, the `Here` arm: its events in the order of the text — bound test (with its condition),\n"
         "refusal, `ensure_capacity` (may relocate the buffer; with `needed`), copies and writes -/",
         "def methodEvents : List (String × List String) := [", rows(methods), "]\n",
         "/-- the list natives that can refuse an index: guards, `has_moved`/`scan_roots`, the call into the list and the error arms, in\n"
         "the order of the text of `call` -/",
         "def nativeGuards : List (String × List String) := [", rows(natives), "]\n",
         "/-- `determine_index` (`[]`, `[]=`): its tests and results in the order of the text -/",
         "def determineIndexRules : List String := [%s]\n" % ", ".join(q(r) for r in det_rules),
         "/-- declared parameters (name:kind) of the list natives the model implements -/",
         "def nativeParams : List (String × List String) := [", rows(params), "]\n",
         "/-- `call_native` runs `check_native_arity` (arity and parameter kinds) before it dispatches on the native's environment -/",
         "def arityCheckedFirst : Bool := %s\n" % ("true" if arity_first else "false"),
         "end LaytheVerif.Gen.ListFwd\n"]
    write_if_changed(os.path.join(out, "ListFwdOrder.lean"), "\n".join(L))
