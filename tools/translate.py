#!/usr/bin/env python3
"""Regenerate LaytheVerif/Gen/*.lean from the Rust sources of /repo.  usage: translate.py <repo> <outdir>"""
import os
import sys


def main():
    repo, out = sys.argv[1], sys.argv[2]
    os.makedirs(out, exist_ok=True)
    return 0


if __name__ == "__main__":
    sys.exit(main())
