#!/bin/bash
# run every claimed quick check once, sequentially; log rc and wall time
cd /verif
OUT=${1:-/verif/work/run_all.log}
mkdir -p /verif/work
: > $OUT
for p in $(python3 -c "import json;print(' '.join(c['property_id'] for c in json.load(open('MANIFEST.json'))['checks']))"); do
  s=$(date +%s)
  ./check $p --tier quick > /verif/work/run_all_$p.out 2>&1
  rc=$?
  e=$(date +%s)
  echo "$p rc=$rc wall=$((e-s))s violations=$(grep -c '^VIOLATION' /verif/work/run_all_$p.out) known=$(grep -c '^KNOWN-FINDING' /verif/work/run_all_$p.out)" >> $OUT
done
echo DONE >> $OUT
