#!/usr/bin/env python3
"""translate_c20.py: Gen/DropArms.lean — `impl Drop for ObjectHandle` and `ObjectHandle::size` of
laythe_core/src/reference/obj_reference.rs, arm by arm (C20: every block the allocator lets go of is
handed back to the system allocator, with the layout its size was accounted with).

Per `ObjectKind` arm of `drop` (the `drop_kind!` macro expanded):
  deallocs   `dealloc(` calls that stand directly in the arm's statement list — reached whenever the arm runs
  guarded    `dealloc(` calls inside any nested block or parenthesis (under an `if`, a loop, a `match`, a closure ...)
  exits      `return` / `break` / `continue` / `?` / `forget` / `ManuallyDrop` in the arm (ways of not reaching the end)
  ptr        first argument of the unconditional `dealloc`
  layout     second argument of the unconditional `dealloc`
  lenExpr    right-hand side of the `let cap = ..` / `let len = ..` the layout refers to ("" if none)
and for the same kind in `size`: the layout expression whose `.size()` is returned and its `let cap/len` right-hand side.
Also: the variants of `ObjectKind`, the statements of `drop` before the `match`, and both function bodies as text.

Lemmas/DropGen.lean proves from the generated table that every arm hands its block back unconditionally, exactly
once, with the layout `size` accounts — an edit of either function re-opens that proof (and with it C20)."""
import os
import re

from translate import HEADER, TranslateError, strip_comments, read, write_if_changed, _norm, block, _arms, _unit_enum

REL = "laythe_core/src/reference/obj_reference.rs"
EXIT_WORDS = [r"\breturn\b", r"\bbreak\b", r"\bcontinue\b", r"\?\s*;", r"\bforget\b", r"\bManuallyDrop\b", r"\bpanic!", r"\bunreachable!", r"\bloop\b"]


def _macro_body(text, name, what):
    m = re.search(r"macro_rules!\s*%s\s*\{\s*\(\s*\$o\s*:\s*ty\s*\)\s*=>\s*\{\{" % name, text)
    if not m:
        raise TranslateError("%s: macro %s!($o:ty) not found" % (what, name))
    j = text.find("}};", m.end())
    if j < 0:
        raise TranslateError("%s: end of macro %s! not found" % (what, name))
    return text[m.end():j], text[:m.start()] + text[text.index("}", j + 3) + 1:]


def _strip_braces(rhs):
    r = rhs.strip()
    if r.startswith("{") and r.endswith("}"):
        return r[1:-1]
    return r


def _expand(rhs, macro, body, what):
    r = rhs.strip()
    m = re.fullmatch(r"%s!\s*\((.*)\)" % macro, r, flags=re.S)
    if m:
        return body.replace("$o", _norm(m.group(1)))
    if re.search(r"\b\w+!\s*\(", r) and not r.startswith("{"):
        raise TranslateError("%s: unknown macro in arm %r" % (what, r[:60]))
    return _strip_braces(r)


def _call_args(text, i):
    """text[i] is the '(' of a call: (arguments split at top-level commas, index after the ')')"""
    depth, args, cur = 0, [], ""
    angle = 0       # inside a turbofish `::<A, B>` a comma does not separate arguments
    j = i
    while j < len(text):
        c = text[j]
        if c == "<" and (angle > 0 or text[:j].rstrip().endswith("::")):
            angle += 1
            cur += c
        elif c == ">" and angle > 0:
            angle -= 1
            cur += c
        elif angle > 0:
            cur += c
        elif c in "([{":
            depth += 1
            if depth > 1:
                cur += c
        elif c in ")]}":
            depth -= 1
            if depth == 0:
                if _norm(cur):
                    args.append(_norm(cur))
                return args, j + 1
            cur += c
        elif c == "," and depth == 1:
            args.append(_norm(cur))
            cur = ""
        else:
            cur += c
        j += 1
    raise TranslateError("unbalanced call at %r" % text[i:i + 40])


def _len_expr(body):
    m = re.findall(r"\blet\s+(?:cap|len)\s*(?::\s*usize\s*)?=\s*([^;]*);", body)
    if len(m) > 1:
        raise TranslateError("obj_reference.rs: more than one `let cap/len` in an arm")
    return _norm(m[0]) if m else ""


def _drop_arm(kind, body):
    depth = 0
    uncond, guarded = [], 0
    i = 0
    while i < len(body):
        c = body[i]
        m = re.compile(r"\bdealloc\s*\(").match(body, i)
        if m and (i == 0 or not (body[i - 1].isalnum() or body[i - 1] in "_.:")):
            args, j = _call_args(body, m.end() - 1)
            if depth == 0:
                uncond.append(args)
            else:
                guarded += 1
            i = j
            continue
        if c in "([{":
            depth += 1
        elif c in ")]}":
            depth -= 1
        i += 1
    exits = sum(len(re.findall(w, body)) for w in EXIT_WORDS)
    ptr, layout = "", ""
    if len(uncond) == 1:
        if len(uncond[0]) != 2:
            raise TranslateError("obj_reference.rs: drop arm %s: dealloc with %d arguments" % (kind, len(uncond[0])))
        ptr, layout = uncond[0]
    return {"kind": kind, "deallocs": len(uncond), "guarded": guarded, "exits": exits, "ptr": ptr, "layout": layout,
            "lenExpr": _len_expr(body)}


def _size_arm(kind, body):
    stmts = [s for s in body.split(";")]
    last = _norm(stmts[-1])
    m = re.fullmatch(r"(.*)\.\s*size\s*\(\s*\)", last, flags=re.S)
    if not m:
        raise TranslateError("obj_reference.rs: size arm %s does not end in `<layout>.size()`: %r" % (kind, last[:60]))
    return _norm(m.group(1)), _len_expr(body)


def q(x):
    return '"%s"' % x.replace("\\", "\\\\").replace('"', '\\"')


def gen_drop_arms(repo, out):
    src = strip_comments(read(repo, REL))
    if re.search(r"#\[cfg\(", block("impl Drop for ObjectHandle", src, "impl Drop for ObjectHandle")):
        raise TranslateError("obj_reference.rs: cfg-gated code inside `impl Drop for ObjectHandle`")
    kinds = _unit_enum(strip_comments(read(repo, "laythe_core/src/object/mod.rs")), "ObjectKind", "laythe_core/src/object/mod.rs")
    # --- drop
    impl = block("impl Drop for ObjectHandle", src, "impl Drop for ObjectHandle")
    whole = block("fn drop", impl, "ObjectHandle::drop")
    inner = whole.strip()
    m = re.fullmatch(r"unsafe\s*\{(.*)\}", inner, flags=re.S)
    if m:
        inner = m.group(1)
    macro, rest = _macro_body(inner, "drop_kind", "ObjectHandle::drop")
    mm = re.search(r"\bmatch\s+kind\s*\{", rest)
    if not mm:
        raise TranslateError("ObjectHandle::drop: `match kind` not found")
    prelude = _norm(rest[:mm.start()])
    match_body = block(rest[mm.start():mm.end() - 1], rest, "ObjectHandle::drop: match kind")
    after = _norm(rest[rest.index(match_body) + len(match_body) + 1:])
    arms = _arms(match_body, "ObjectKind", "ObjectHandle::drop")
    # --- size
    impl_h = block("impl ObjectHandle {", src, "impl ObjectHandle")
    size_whole = block("pub fn size", impl_h, "ObjectHandle::size")
    smacro, srest = _macro_body(size_whole, "kind_size", "ObjectHandle::size")
    sm = re.search(r"\bmatch\s+self\s*\.\s*kind\s*\(\s*\)\s*\{", srest)
    if not sm:
        raise TranslateError("ObjectHandle::size: `match self.kind()` not found")
    sarms = _arms(block(srest[sm.start():sm.end() - 1], srest, "ObjectHandle::size: match"), "ObjectKind", "ObjectHandle::size")
    rows = []
    for k in kinds:
        if k not in arms:
            raise TranslateError("ObjectHandle::drop: no arm for ObjectKind::%s" % k)
        if k not in sarms:
            raise TranslateError("ObjectHandle::size: no arm for ObjectKind::%s" % k)
        row = _drop_arm(k, _expand(arms[k][1], "drop_kind", macro, "ObjectHandle::drop"))
        row["sizeLayout"], row["sizeLenExpr"] = _size_arm(k, _expand(sarms[k][1], "kind_size", smacro, "ObjectHandle::size"))
        rows.append(row)
    extra = sorted(set(arms) - set(kinds))
    if extra:
        raise TranslateError("ObjectHandle::drop: arms for unknown kinds %s" % extra)
    L = [HEADER.replace("translate.py", "translate_c20.py") % REL, "namespace LaytheVerif.Gen.DropArms\n",
         "/-- one `ObjectKind` arm of `impl Drop for ObjectHandle` next to the arm of `ObjectHandle::size` (see tools/translate_c20.py) -/",
         "structure Arm where\n  kind : String\n  deallocs : Nat\n  guarded : Nat\n  exits : Nat\n  ptr : String\n  layout : String\n  lenExpr : String\n"
         "  sizeLayout : String\n  sizeLenExpr : String\n  deriving Repr, DecidableEq\n",
         "/-- the variants of `ObjectKind` (laythe_core/src/object/mod.rs) -/",
         "def kinds : List String := [%s]\n" % ", ".join(q(k) for k in kinds),
         "/-- what `drop` does before `match kind` -/",
         "def prelude : String := %s\n" % q(prelude),
         "/-- what `drop` does after the match -/",
         "def epilogue : String := %s\n" % q(after),
         "/-- exit words (`return`, `forget`, ...) in the prelude -/",
         "def preludeExits : Nat := %d\n" % sum(len(re.findall(w, prelude)) for w in EXIT_WORDS),
         "def dropKindMacro : String := %s\n" % q(_norm(macro)),
         "def kindSizeMacro : String := %s\n" % q(_norm(smacro)),
         "def arms : List Arm := [\n%s\n]\n" % ",\n".join(
             "  { kind := %s, deallocs := %d, guarded := %d, exits := %d, ptr := %s, layout := %s, lenExpr := %s,\n    sizeLayout := %s, sizeLenExpr := %s }"
             % (q(r["kind"]), r["deallocs"], r["guarded"], r["exits"], q(r["ptr"]), q(r["layout"]), q(r["lenExpr"]), q(r["sizeLayout"]), q(r["sizeLenExpr"]))
             for r in rows),
         "/-- the whole body of `drop`, normalised -/",
         "def dropBody : String := %s\n" % q(_norm(whole)),
         "end LaytheVerif.Gen.DropArms\n"]
    write_if_changed(os.path.join(out, "DropArms.lean"), "\n".join(L))
