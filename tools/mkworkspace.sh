#!/bin/sh
# usage: tools/mkworkspace.sh <name>   — private copy of /verif and /repo under /tmp/w_<name> for
# isolated development / mutation testing (harness path deps and REPO are redirected to the copy).
set -e
N="$1"; W="/tmp/w_$N"
rm -rf "$W"; mkdir -p "$W"
rsync -a --exclude target /repo/ "$W/repo/"
rsync -a --exclude target --exclude target-nb --exclude replays --exclude .git --exclude ".audit_*" /verif/ "$W/verif/"
sed -i "s#\"/repo/#\"$W/repo/#" "$W/verif/harness/Cargo.toml"
echo "$W/repo" > "$W/verif/.repo_path"
echo "$W"
