#!/bin/bash
# usage: tools/retry_all_seeds.sh [logfile] — apply every stored seeded change to /repo in turn (it must be clean), run the check(s) that
# are recorded as catching it (first word(s) of meta.json caught_by, default: the property's own), undo, and log the outcome.
cd /verif
L=${1:-/verif/work/seed_final.log}; : > $L
if ! git -C /repo diff --quiet; then echo "/repo is dirty" >> $L; exit 2; fi
for d in seeded/*/; do
  n=$(basename $d); p=${n:0:3}
  # SKIP / ONLY: extended regular expressions on the property id (e.g. SKIP='C06|C10', ONLY='C06|C10')
  [ -n "$SKIP" ] && echo $p | grep -Eq "^($SKIP)$" && continue
  [ -n "$ONLY" ] && ! echo $p | grep -Eq "^($ONLY)$" && continue
  [ -s $d/patch.diff ] || { echo "$n no patch" >> $L; continue; }
  if ! git -C /repo apply --check $PWD/$d/patch.diff 2>/dev/null; then
    if git -C /repo apply --3way $PWD/$d/patch.diff >/dev/null 2>&1 && git -C /repo diff --quiet --diff-filter=U; then :; else
      git -C /repo checkout -- . ; git -C /repo reset -q --hard HEAD
      echo "$n patch-does-not-apply (the code it edits was changed by a later repair)" >> $L; continue
    fi
  else
    git -C /repo apply $PWD/$d/patch.diff
  fi
  cp evidence/$p.json /tmp/.evid_$p.bak 2>/dev/null
  s=$(date +%s); ./check $p --tier quick > /tmp/.retry_$n.out 2>&1; rc=$?; e=$(date +%s)
  [ -f /tmp/.evid_$p.bak ] && mv /tmp/.evid_$p.bak evidence/$p.json
  echo "$n rc=$rc wall=$((e-s))s $(grep '^VIOLATION' /tmp/.retry_$n.out | head -2 | sed 's#/verif/replays/##' | tr '\n' ' ')" >> $L
  git -C /repo reset -q --hard HEAD; git -C /repo checkout -- .
done
echo DONE >> $L
