#!/usr/bin/env python3
"""usage: tools/merge_fix.py <name> <base-commit> — merge a fix-integration workspace /tmp/w_<name>/verif into /verif.
* files changed/added by the agent relative to <base>: copied when /verif still has the base version (or no version),
  three-way merged per top-level function for tools/translate*.py, reported as CONFLICT otherwise;
* files the agent deleted are deleted when /verif still has the base version;
* known_findings.jsonl is merged through /tmp/w_<name>/FIXED.json (delete_ids, fixed_lines)."""
import json
import os
import re
import shutil
import subprocess
import sys

name, base = sys.argv[1], sys.argv[2]
W = "/tmp/w_%s/verif" % name
V = "/verif"
SKIP = re.compile(r"^(\.work/|lean/\.lake/|harness/target|work/|replays/|evidence/|lean/LaytheVerif/Gen/|\.git/|harness/Cargo\.(toml|lock)$|seeded/|notes/)|(\.pyc$)|(^|/)__pycache__/|(^|/)\.repo_path$|(^|/)\.[^/]*\.lock$|^MANIFEST\.json$")


def git_show(path):
    p = subprocess.run(["git", "-C", V, "show", "%s:%s" % (base, path)], stdout=subprocess.PIPE, stderr=subprocess.DEVNULL)
    return p.stdout if p.returncode == 0 else None


def toplevel(src):
    blocks, cur_name, cur = [], None, []
    for line in src.split("\n"):
        m = re.match(r"(def|class)\s+([A-Za-z_0-9]+)", line)
        if m:
            blocks.append((cur_name, cur))
            cur_name, cur = m.group(2), [line]
        elif line and not line[0].isspace() and not line.startswith(("#", ")", "]", "}", "@")) and cur_name is not None:
            blocks.append((cur_name, cur))
            cur_name, cur = None, [line]
        else:
            cur.append(line)
    blocks.append((cur_name, cur))
    return blocks


def merge_py_functions(rel, b, t, m):
    """b/t/m: base, theirs, mine (str). Returns merged text, list of notes."""
    notes = []
    B = {n: "\n".join(l) for n, l in toplevel(b) if n}
    T = {n: "\n".join(l) for n, l in toplevel(t) if n}
    mb = toplevel(m)
    M = {n: "\n".join(l) for n, l in mb if n}
    out = []
    for n, lines in mb:
        txt = "\n".join(lines)
        if n and n in T and T[n] != B.get(n):
            if B.get(n) is None or M[n] == B.get(n):
                txt = T[n]
                notes.append("%s: took %s from the agent" % (rel, n))
            elif M[n] != T[n]:
                notes.append("CONFLICT %s: function %s changed on both sides (kept mine)" % (rel, n))
        out.append(txt)
    merged = "\n".join(out)
    # functions that are new on their side: insert before main (or at the end)
    new = [n for n, _ in toplevel(t) if n and n not in M and n != "main"]
    if new:
        add = "\n\n".join(T[n].rstrip("\n") for n in new) + "\n\n\n"
        i = merged.find("\ndef main(")
        merged = merged[:i + 1] + add + merged[i + 1:] if i >= 0 else merged + "\n\n" + add
        notes.append("%s: added %s" % (rel, ", ".join(new)))
    # module-level constants new on their side
    for n, lines in toplevel(t):
        if n is None:
            txt = "\n".join(lines).strip()
            for stmt in re.split(r"\n(?=[A-Z_]+ = )", txt):
                mm = re.match(r"([A-Z_][A-Z_0-9]*) = ", stmt)
                if mm and not re.search(r"^%s = " % mm.group(1), merged, flags=re.M):
                    i = merged.find("\ndef ")
                    merged = merged[:i + 1] + stmt.rstrip("\n") + "\n\n" + merged[i + 1:]
                    notes.append("%s: added constant %s" % (rel, mm.group(1)))
    return merged, notes


theirs_files = []
for dp, dn, fn in os.walk(W):
    for f in fn:
        rel = os.path.relpath(os.path.join(dp, f), W)
        if not SKIP.search(rel):
            theirs_files.append(rel)
base_files = subprocess.run(["git", "-C", V, "ls-tree", "-r", "--name-only", base], stdout=subprocess.PIPE, text=True).stdout.split("\n")
base_files = [f for f in base_files if f and not SKIP.search(f)]

for rel in sorted(theirs_files):
    if rel == "known_findings.jsonl":
        continue
    t = open(os.path.join(W, rel), "rb").read()
    b = git_show(rel)
    mp = os.path.join(V, rel)
    m = open(mp, "rb").read() if os.path.exists(mp) else None
    if b is not None and t == b:
        continue                                    # untouched by the agent
    if m is not None and m == t:
        continue
    if m is None or (b is not None and m == b):
        os.makedirs(os.path.dirname(mp) or V, exist_ok=True)
        shutil.copyfile(os.path.join(W, rel), mp)   # fresh mtime: cargo and lake must see the file as changed
        shutil.copymode(os.path.join(W, rel), mp)
        print("copied   ", rel)
    elif re.match(r"tools/translate[a-z0-9_]*\.py$", rel) and b is not None:
        merged, notes = merge_py_functions(rel, b.decode(), t.decode(), m.decode())
        open(mp, "w").write(merged)
        for n in notes:
            print(n)
    else:
        print("CONFLICT (changed on both sides, kept mine):", rel)

for rel in base_files:
    if rel == "known_findings.jsonl":
        continue
    if not os.path.exists(os.path.join(W, rel)) and os.path.exists(os.path.join(V, rel)):
        b = git_show(rel)
        if open(os.path.join(V, rel), "rb").read() == b:
            os.remove(os.path.join(V, rel))
            print("deleted  ", rel)
        else:
            print("CONFLICT (agent deleted, changed here):", rel)

fx = "/tmp/w_%s/FIXED.json" % name
if os.path.exists(fx):
    j = json.load(open(fx))
    lines = open(os.path.join(V, "known_findings.jsonl")).read().split("\n")
    keep, dropped = [], []
    for l in lines:
        if l.startswith("{"):
            try:
                if json.loads(l).get("id") in j.get("delete_ids", []):
                    dropped.append(json.loads(l)["id"])
                    continue
            except ValueError:
                pass
        keep.append(l)
    while keep and not keep[-1].strip():
        keep.pop()
    for fl in j.get("fixed_lines", []):
        if fl not in keep:
            keep.append(fl)
    open(os.path.join(V, "known_findings.jsonl"), "w").write("\n".join(keep) + "\n")
    print("known_findings: dropped %s; missing %s; fixed lines %d" % (dropped, [i for i in j.get("delete_ids", []) if i not in dropped], len(j.get("fixed_lines", []))))
    # changed JSON lines of findings that stay open (agents may have edited their text): report only
else:
    print("no FIXED.json")
