#!/usr/bin/env python3
"""Regenerate the seeded-change tables of DESIGN.md section C (rounds 2..4) from seeded/<id>_rN/meta.json.
The tables sit between `<!-- seeded-table rN -->` and `<!-- /seeded-table rN -->` markers."""
import glob
import html
import json
import os
import re

VERIF = os.path.dirname(os.path.dirname(os.path.abspath(__file__)))


def rows(rnd):
    out = ["| id | change | caught by | history |", "|---|---|---|---|"]
    for d in sorted(glob.glob(os.path.join(VERIF, "seeded", "C??_r%d" % rnd))):
        pid = os.path.basename(d).split("_")[0]
        try:
            m = json.load(open(os.path.join(d, "meta.json")))
        except (OSError, ValueError):
            continue
        summ = html.unescape(str(m.get("summary", ""))).replace("|", "\\|").replace("\n", " ")
        if len(summ) > 300:
            summ = summ[:300].rsplit(" ", 1)[0] + " …"
        files = m.get("files_touched", [])
        if isinstance(files, str):
            files = [files]
        out.append("| %s | %s — `%s` | %s | %s |" % (
            pid, summ, ", ".join(files),
            str(m.get("caught_by", "(not recorded)")).replace("|", "\\|"),
            str(m.get("history", "")).replace("|", "\\|")))
    return "\n".join(out)


def main():
    p = os.path.join(VERIF, "DESIGN.md")
    s = open(p).read()
    for rnd in (2, 3, 4):
        a, b = "<!-- seeded-table r%d -->" % rnd, "<!-- /seeded-table r%d -->" % rnd
        if a in s and b in s:
            s = re.sub(re.escape(a) + r".*?" + re.escape(b), lambda _m: a + "\n" + rows(rnd) + "\n" + b, s, flags=re.S)
    open(p, "w").write(s)


if __name__ == "__main__":
    main()
