"""C15 rows of the translator (called from translate.py):

  gen_tokens(repo, out)  -> Gen/Tokens.lean   enum TokenKind (ir/token.rs) and the keyword table encoded by the
                                               hand-written trie `Scanner::identifier_type` (scanner.rs)
  gen_limits(repo, out)  -> Gen/Limits.lean   every narrowing `as u8` / `as u16` in the compiler (compiler/mod.rs,
                                               parser.rs, peephole.rs, byte_code.rs) with the guard that dominates it
                                               (or none), the numeric limits of the front end, and the shape of the
                                               parser's declaration loop (which arms advance first, which token kinds
                                               stop `synchronize`, that `synchronize` advances otherwise).

Purpose-built text scans.  Text that is not understood raises TranslateError (the check reports a broken
correspondence); a *guard that is no longer found* is NOT an error of the translator: the row is emitted as unguarded so
that the Lean obligation `C15_limits_guarded` fails and names the site.
"""
import os
import re

import sys

_t = sys.modules.get("__main__")
if not hasattr(_t, "TranslateError"):
    import translate as _t
HEADER, TranslateError, block, read, strip_comments, write_if_changed = (
    _t.HEADER, _t.TranslateError, _t.block, _t.read, _t.strip_comments, _t.write_if_changed)


def _fn_bodies(src):
    """{name: [body, ...]} for every `fn name` in (comment-stripped) Rust text; bodies by brace matching."""
    out = {}
    for m in re.finditer(r"\bfn\s+([a-z_][a-z_0-9]*)\s*(?:<[^>{;]*>)?\s*\(", src):
        i = src.find("{", m.end())
        semi = src.find(";", m.end())
        if i < 0 or (0 <= semi < i):
            continue
        depth = 0
        for j in range(i, len(src)):
            if src[j] == "{":
                depth += 1
            elif src[j] == "}":
                depth -= 1
                if depth == 0:
                    out.setdefault(m.group(1), []).append((i, j, src[i + 1:j]))
                    break
    return out


def _production(src):
    """drop `#[cfg(test)] mod …` and the `#[cfg(laythe_verif)] pub mod verif {…}` blocks."""
    for marker in (r"#\[cfg\(test\)\]\s*mod\s+\w+\s*\{", r"#\[cfg\(laythe_verif\)\]\s*pub\s+mod\s+\w+\s*\{"):
        while True:
            m = re.search(marker, src)
            if not m:
                break
            i = m.end() - 1
            depth = 0
            for j in range(i, len(src)):
                if src[j] == "{":
                    depth += 1
                elif src[j] == "}":
                    depth -= 1
                    if depth == 0:
                        break
            else:
                raise TranslateError("unbalanced braces after %r" % marker)
            src = src[:m.start()] + src[j + 1:]
    return src


def _const(e):
    """value of a bound expression."""
    e = re.sub(r"\s+", " ", e.strip())
    e = re.sub(r"^\((.*)\)$", r"\1", e)
    table = {"u8::MAX": 255, "u16::MAX": 65535, "u8::MAX as usize": 255, "u16::MAX as usize": 65535, "u8::MAX as u16": 255,
             "std::u8::MAX": 255, "std::u16::MAX": 65535}
    if e in table:
        return table[e]
    if re.fullmatch(r"\d+", e):
        return int(e)
    raise TranslateError("cannot evaluate bound expression %r" % e)


# ---------------------------------------------------------------------------------------------
# ir/token.rs + scanner.rs -> Gen/Tokens.lean


def gen_tokens(repo, out):
    rel = "laythe_vm/src/compiler/ir/token.rs"
    src = strip_comments(read(repo, rel))
    body = re.sub(r"#\[[^\]]*\]", "", block("pub enum TokenKind", src))
    kinds = re.findall(r"\b([A-Z][A-Za-z0-9_]*)\s*,", body)
    if len(kinds) < 60 or kinds[-1] != "Eof" or "Error" not in kinds:
        raise TranslateError("enum TokenKind: unexpected shape (%d variants)" % len(kinds))
    rel2 = "laythe_vm/src/compiler/scanner.rs"
    ssrc = _production(strip_comments(read(repo, rel2)))
    trie = block("fn identifier_type", ssrc)
    path = {}
    kws = []
    for line in trie.split("\n"):
        m = re.match(r"^(\s*)'(.)'\s*=>\s*(.*)$", line)
        if not m:
            if "check_keyword" in line:
                raise TranslateError("identifier_type: keyword check outside a char arm: %r" % line.strip())
            continue
        ind, ch, rest = len(m.group(1)), m.group(2), m.group(3)
        for k in [k for k in path if k >= ind]:
            del path[k]
        path[ind] = ch
        prefix = "".join(path[k] for k in sorted(path))
        c = re.search(r'check_keyword\(\s*(\d+)\s*,\s*"([a-z]*)"\s*,\s*TokenKind::([A-Za-z_]+)\s*\)', rest)
        l = re.search(r"check_keyword_len\(\s*(\d+)\s*,\s*TokenKind::([A-Za-z_]+)\s*\)", rest)
        if c:
            if int(c.group(1)) != len(prefix):
                raise TranslateError("identifier_type: offset %s does not match the match depth of %r" % (c.group(1), prefix))
            kws.append((prefix + c.group(2), c.group(3)))
        elif l:
            if int(l.group(1)) != len(prefix):
                raise TranslateError("identifier_type: length %s does not match the match depth of %r" % (l.group(1), prefix))
            kws.append((prefix, l.group(2)))
        elif "check_keyword" in rest:
            raise TranslateError("identifier_type: cannot parse %r" % rest)
    if len(kws) < 20:
        raise TranslateError("identifier_type: only %d keywords found" % len(kws))
    for _, k in kws:
        if k not in kinds:
            raise TranslateError("identifier_type: unknown TokenKind %s" % k)
    # the character classes
    cls = {}
    for fn, name in (("is_digit", "digit"), ("is_alpha", "alpha"), ("is_identifier_postfix", "postfix")):
        b = re.sub(r"\s+", " ", block("fn %s" % fn, ssrc).strip())
        cls[name] = b
    expect = {"digit": "c.is_ascii_digit()", "alpha": "c.is_ascii_uppercase() || c.is_ascii_lowercase() || c == '_'",
              "postfix": "c == '?' || c == '!'"}
    def q(k):
        return "\u00ab%s\u00bb" % k if k in ("Type", "Prop", "Sort") else k

    L = [HEADER % (rel + ", " + rel2), "namespace LaytheVerif.Gen\n",
         "/-- `enum TokenKind` (ir/token.rs), in declaration order. -/", "inductive TokenKind where"]
    L += ["  | %s" % q(k) for k in kinds]
    L.append("  deriving DecidableEq, Repr, Inhabited\n")
    L.append("def TokenKind.name : TokenKind → _root_.String")
    L += ['  | .%s => "%s"' % (q(k), k) for k in kinds]
    L.append("")
    L.append("def tokenKinds : List TokenKind := [" + ", ".join("." + q(k) for k in kinds) + "]\n")
    L.append("/-- The keywords recognised by the trie `Scanner::identifier_type` (path characters ++ `check_keyword` rest). -/")
    L.append("def keywords : List (String × TokenKind) := [")
    L.append(",\n".join('  ("%s", .%s)' % (w, q(k)) for w, k in kws))
    L.append("]\n")
    L.append("/-- Bodies of `is_digit`, `is_alpha`, `is_identifier_postfix` (text; the model's predicates are proved against the expected text). -/")
    L.append("def charClassText : List (String × String) := [")
    L.append(",\n".join('  ("%s", "%s")' % (n, cls[n].replace('"', '\\"')) for n in ("digit", "alpha", "postfix")))
    L.append("]\n")
    L.append("def charClassExpected : List (String × String) := [")
    L.append(",\n".join('  ("%s", "%s")' % (n, expect[n]) for n in ("digit", "alpha", "postfix")))
    L.append("]\n")
    L.append("end LaytheVerif.Gen\n")
    write_if_changed(os.path.join(out, "Tokens.lean"), "\n".join(L))
    return kinds, kws


# ---------------------------------------------------------------------------------------------
# narrowing sites and their guards -> Gen/Limits.lean

# How each narrowing site is understood.  key: (file, function, regex on the operand text).
#   guard: (file, function, regex with groups (cmp, bound)) | None ; the regex is searched in every body of that function
#   kind : "error"  — the guarded branch reports a diagnostic (the compile fails)
#          "branch" — the narrowing sits in the branch where the comparison holds
#          "arg"    — the bound is the `max` argument handed to consume_arguments at the named call site
#          "indirect" — bounded through another guarded quantity (explained in `why`)
#          "clamp"  — the regex is matched against the OPERAND text itself: `(<quantity> + k).min(<bound>)`, the narrowed
#                     value is at most <bound> whatever the quantity is (saturation); file/function are None
#   a guard regex may use the named groups (?P<cmp>) (?P<bound>) and (?P<gadd>) — the constant the guard adds to the quantity
#   before comparing (`if segments.len() + 2 > MAX`); unnamed regexes use groups (1, 2) = (cmp, bound)
#   addend: constant added to the guarded quantity before narrowing
F_C = "laythe_vm/src/compiler/mod.rs"
F_P = "laythe_vm/src/compiler/parser.rs"
F_O = "laythe_vm/src/compiler/peephole.rs"
F_B = "laythe_vm/src/byte_code.rs"

ERR = r"[^;{}]*\{[^{}]*(?:self\s*\.\s*error|return\s+self\s*\.\s*error|\.push\(\s*Diagnostic::error)"

SITES = [
    # id, file, fn, operand regex, target, quantity, guard spec list (all must be found), addend, why
    ("local_slot", F_C, "resolve_local", r"local_count - i - 1", "u8", "locals",
     [(F_C, "declare_local_variable", r"if\s+self\.locals\.len\(\)\s*(==|>=|>)\s*([^{]+?)\s*\{" , "error"),
      (F_C, "declare_and_define_parameter", r"if\s+self\.locals\.len\(\)\s*(==|>=|>)\s*([^{]+?)\s*\{", "error")], 0,
     "index of a local < locals.len(); every push is preceded by the check"),
    ("capture_slot", F_C, "add_capture", r"\bi\b", "u8", "captures",
     [(F_C, "add_capture", r"if\s+capture_count\s*(==|>=|>)\s*([^{]+?)\s*\{", "error")], 0,
     "position of an existing capture < captures.len() <= capture_count"),
    ("module_slot_stuff", F_C, "stuff", r"self\.module_symbol_count", "u16", "moduleSymbols",
     [(F_C, "stuff", r"if\s+self\.module_symbol_count\s*(==|>=|>)\s*([^{]+?)\s*\{", "error")], 0, ""),
    ("module_slot_declare", F_C, "declare_module_variable", r"self\.module_symbol_count", "u16", "moduleSymbols",
     [(F_C, "declare_module_variable", r"if\s+self\.module_symbol_count\s*(==|>=|>)\s*([^{]+?)\s*\{", "error")], 0, ""),
    # `(line + 1).min(u16::MAX as usize) as u16` (saturating).  The unguarded `line as u16 + 1` of the old text is still
    # *understood* (operand `line`): it yields a row without a guard, so that C15_limits_guarded fails and names the site.
    ("line_number", F_C, "emit_byte", r"line|\(line \+ 1\)\.min\([^()]*\)", "u16", "lines",
     [(None, None, r"\(line \+ 1\)\.min\((?P<bound>[^()]+)\)", "clamp")], 1,
     "line index of the instruction + 1, saturated at the largest representable line"),
    ("constant_known", F_C, "make_constant", r"\*index", "u16", "constants",
     [(F_C, "make_constant", r"if\s+index\s*(==|>=|>)\s*([^{]+?)\s*\{", "error")], 0,
     "indices in the map were inserted after the check"),
    ("constant_new", F_C, "make_constant", r"index", "u16", "constants",
     [(F_C, "make_constant", r"if\s+index\s*(==|>=|>)\s*([^{]+?)\s*\{", "error")], 0, ""),
    ("constant_short", F_C, "emit_constant", r"index", "u8", "constantIndex",
     [(F_C, "emit_constant", r"if\s+index\s*(<=|<)\s*([^{]+?)\s*\{", "branch")], 0, ""),
    ("arity", F_C, "function", r"fun\.call_sig\.params\.len\(\)", "u8", "parameters",
     [(F_P, "call_params", r"if\s+arity\s*(==|>=|>)\s*([^{]+?)\s*\{", "error")], 0, ""),
    ("launch_args", F_C, "launch", r"call\.args\.len\(\)", "u8", "arguments",
     [(F_P, "call", r"consume_arguments\(\s*None\s*,\s*TokenKind::RightParen\s*,\s*()([^)]+?)\s*\)", "arg"),
      (F_P, "consume_arguments", r"if\s+args\.len\(\)\s*(==|>=|>)\s*(max)\s*\{", "error")], 0, ""),
    ("call_args", F_C, "call", r"call\.args\.len\(\)", "u8", "arguments",
     [(F_P, "call", r"consume_arguments\(\s*None\s*,\s*TokenKind::RightParen\s*,\s*()([^)]+?)\s*\)", "arg"),
      (F_P, "consume_arguments", r"if\s+args\.len\(\)\s*(==|>=|>)\s*(max)\s*\{", "error")], 0, ""),
    ("prop_get_slot", F_C, "property_get", r"position", "u16", "fields",
     [(F_C, "emit_fields", r"let\s+constant\s*=\s*self\.make_()(constant)\(", "indirect"),
      (F_C, "make_constant", r"if\s+index\s*(==|>=|>)\s*([^{]+?)\s*\{", "error")], 0,
     "every recorded field becomes a constant of the enclosing chunk in emit_fields"),
    ("prop_set_slot", F_C, "property_set", r"position", "u16", "fields",
     [(F_C, "emit_fields", r"let\s+constant\s*=\s*self\.make_()(constant)\(", "indirect"),
      (F_C, "make_constant", r"if\s+index\s*(==|>=|>)\s*([^{]+?)\s*\{", "error")], 0,
     "every recorded field becomes a constant of the enclosing chunk in emit_fields"),
    ("interpolate_count", F_C, "interpolation", r"\(?interpolation\.segments\.len\(\) \+ 2\)?", "u16", "interpolationSegments",
     # the check is the first statement of the `loop {` whose only exit (`StringEnd => { break; }`) pushes nothing, so it
     # dominates the exit: the final count satisfies the negated comparison
     [(F_P, "interpolation", r"loop \{ if\s+segments\.len\(\)(?: \+ (?P<gadd>\d+))?\s*(?P<cmp>==|>=|>)\s*(?P<bound>[^{]+?)\s*\{", "error"),
      (F_P, "interpolation", r"TokenKind::StringEnd => \{ ()(break); \}", "indirect")], 2, "segments + 2"),
    ("list_count", F_C, "list", r"list\.items\.len\(\)", "u16", "listItems",
     [(F_P, "list", r"consume_arguments\(\s*None\s*,\s*TokenKind::RightBracket\s*,\s*()([^)]+?)\s*\)", "arg"),
      (F_P, "consume_arguments", r"if\s+args\.len\(\)\s*(==|>=|>)\s*(max)\s*\{", "error")], 0, ""),
    ("tuple_count", F_C, "tuple", r"list\.items\.len\(\)", "u16", "tupleItems",
     [(F_P, "grouping", r"consume_arguments\(\s*Some\(expr\)\s*,\s*TokenKind::RightParen\s*,\s*()([^)]+?)\s*\)", "arg"),
      (F_P, "consume_arguments", r"if\s+args\.len\(\)\s*(==|>=|>)\s*(max)\s*\{", "error")], 0, ""),
    ("map_count", F_C, "map", r"map\.entries\.len\(\)", "u16", "mapEntries",
     [(F_P, "map", r"if\s+entries\.len\(\)\s*(==|>=|>)\s*([^{]+?)\s*\{", "error")], 0, ""),
    ("handler_slots", F_O, "apply_stack_effects", r"\(?slots(?: \+ params)?\)?", "u16", "stackDepthAtTry", [], 0,
     "depth at a `try` statement = locals in scope (+ loop temporaries); marked TODO in the source"),
    ("jump_distance", F_B, "op_jump", r"jump", "u16", "jumpDistance",
     [(F_B, "op_jump", r"self\.jump_()(error)\(jump\)", "indirect"),
      (F_B, "jump_error", r"if\s+jump\s*(==|>=|>)\s*([^{]+?)\s*\{", "error")], 0, "checked right after the narrowing"),
    ("handler_jump", F_B, "encode", r"\(?jump\)?", "u16", "jumpDistance",
     [(F_B, "encode", r"self\.jump_()(error)\(jump\)", "indirect"),
      (F_B, "jump_error", r"if\s+jump\s*(==|>=|>)\s*([^{]+?)\s*\{", "error")], 0, "checked right after the narrowing"),
]


def _narrowings(src):
    """all `<operand> as u8|u16` in production text: (position, operand text, target)."""
    out = []
    for m in re.finditer(r"\bas\s+(u8|u16)\b", src):
        j = m.start()
        k = j
        # operand: walk left over one balanced primary expression
        k -= 1
        while k >= 0 and src[k].isspace():
            k -= 1
        end = k + 1
        depth = 0
        while k >= 0:
            c = src[k]
            if c in ")]":
                depth += 1
            elif c in "([":
                if depth == 0:
                    break
                depth -= 1
            elif depth == 0 and not (c.isalnum() or c in "_.*:"):
                # allow binary operators only inside parentheses
                break
            k -= 1
        operand = src[k + 1:end].strip()
        out.append((j, operand, m.group(1)))
    return out


def gen_limits(repo, out):
    texts = {f: _production(strip_comments(read(repo, f))) for f in (F_C, F_P, F_O, F_B)}
    fns = {f: _fn_bodies(t) for f, t in texts.items()}
    rows = []
    unclassified = []
    used = set()
    for f in (F_C, F_P, F_O, F_B):
        src = texts[f]
        for pos, operand, target in _narrowings(src):
            if re.fullmatch(r"(std::)?u8::MAX", operand):
                continue  # `u8::MAX as u16`: widening of a constant
            fn = None
            for name, bodies in fns[f].items():
                for (a, b, _) in bodies:
                    if a <= pos <= b and (fn is None or a > fn[1]):
                        fn = (name, a)
            fname = fn[0] if fn else "?"
            spec = None
            op1 = operand[1:-1].strip() if operand.startswith("(") and operand.endswith(")") else operand
            for s in SITES:
                if s[1] == f and s[2] == fname and (re.fullmatch(s[3], operand) or re.fullmatch(s[3], op1)) and (s[0], pos) not in used:
                    if any(u[0] == s[0] for u in used):
                        continue
                    spec = s
                    break
            if spec is None:
                unclassified.append("%s: fn %s: `%s as %s`" % (f, fname, operand, target))
                continue
            used.add((spec[0], pos))
            rows.append((spec, operand, target))
    missing = [s[0] for s in SITES if not any(u[0] == s[0] for u in used)]
    if unclassified:
        raise TranslateError("narrowing sites not understood (add them to SITES in tools/translate_c15.py):\n  " + "\n  ".join(unclassified))
    if missing:
        raise TranslateError("expected narrowing sites no longer present: %s" % ", ".join(missing))
    L = [HEADER % ", ".join((F_C, F_P, F_O, F_B)), "namespace LaytheVerif.Gen\n",
         "/-- How a narrowing site is protected. `error`: the dominating check reports a diagnostic; `branch`: the narrowing\n"
         "sits in the branch where the comparison holds; `clamp`: the operand itself is `(… ).min(bound)` (saturation);\n"
         "`none`: no guard found in the source text.  `guardAddend`: the constant the guard adds to the quantity before it\n"
         "compares (`if segments.len() + 2 > MAX`); `addend`: the constant added to the quantity before it is narrowed. -/",
         "inductive GuardKind where\n  | error | branch | clamp | none\n  deriving DecidableEq, Repr\n",
         "inductive Cmp where\n  | eq | ge | gt | le | lt | na\n  deriving DecidableEq, Repr\n",
         "structure NarrowSite where\n  id : String\n  file : String\n  fn : String\n  operand : String\n  targetMax : Nat\n"
         "  quantity : String\n  guard : GuardKind\n  cmp : Cmp\n  bound : Nat\n  guardAddend : Nat\n  addend : Nat\n  guardFn : String\n  deriving DecidableEq, Repr\n",
         "/-- Every `as u8` / `as u16` in the production code of the compiler, with the guard that dominates it. -/",
         "def narrowSites : List NarrowSite := ["]
    cmpname = {"==": "eq", ">=": "ge", ">": "gt", "<=": "le", "<": "lt", "": "na"}
    rs = []
    limits = {}
    for spec, operand, target in rows:
        sid, f, fname, _, _, quantity, guards, addend, why = spec
        kind, cmp_, bound, gfn, gadd = "none", "", 0, "", 0
        found_all = bool(guards)
        arg_bound = None
        for (gf, gfnname, rx, gkind) in guards:
            if gkind == "clamp":
                # saturation written in the operand itself
                op0 = operand[1:-1].strip() if re.fullmatch(r"\([^()]*\)", operand) else operand
                m = re.fullmatch(rx, op0)
                if not m:
                    found_all = False
                    break
                kind, cmp_, bound, gfn, addend = "clamp", "<=", _const(m.group("bound")), "%s::%s" % (os.path.basename(f), fname), 0
                continue
            bodies = fns[gf].get(gfnname, [])
            m = None
            for (_, _, body) in bodies:
                body1 = re.sub(r"\s+", " ", body)
                m = re.search(rx, body1)
                if m and gkind == "error":
                    # the guarded block must report an error
                    tail = body1[m.end() - 1:]
                    blk = block("", tail) if tail.startswith("{") else ""
                    if not re.search(r"self\s*\.\s*error|Diagnostic::error", blk):
                        m = None
                if m:
                    break
            if not m:
                found_all = False
                break
            if gkind == "arg":
                arg_bound = _const(m.group(2))
            elif gkind == "indirect":
                pass
            else:
                named = "cmp" in m.re.groupindex
                cmp_ = m.group("cmp") if named else m.group(1)
                b = (m.group("bound") if named else m.group(2)).strip()
                gadd = int(m.group("gadd") or 0) if "gadd" in m.re.groupindex else 0
                bound = arg_bound if b == "max" else _const(b)
                if b == "max" and arg_bound is None:
                    raise TranslateError("site %s: `max` without a call-site bound" % sid)
                kind = gkind
                gfn = "%s::%s" % (os.path.basename(gf), gfnname)
        if not found_all:
            kind, cmp_, bound, gfn, gadd, addend = "none", "", 0, "", 0, spec[7]
        if gadd > bound:
            raise TranslateError("site %s: the guard adds %d to the quantity but compares with %d" % (sid, gadd, bound))
        tmax = 255 if target == "u8" else 65535
        rs.append('  { id := "%s", file := "%s", fn := "%s", operand := "%s", targetMax := %d, quantity := "%s", guard := .%s, cmp := .%s, '
                  'bound := %d, guardAddend := %d, addend := %d, guardFn := "%s" }'
                  % (sid, os.path.basename(f), fname, operand.replace('"', "'"), tmax, quantity, kind, cmpname[cmp_], bound, gadd, addend, gfn))
        if kind not in ("none", "clamp"):
            # the largest count of the quantity the guard lets through
            limits.setdefault(quantity, bound - gadd)
    L.append(",\n".join(rs))
    L.append("]\n")
    # numeric limits of the front end (the largest count accepted without a diagnostic is derived in Props/C15)
    L.append("/-- (quantity, bound used by its guard minus the constant the guard adds to the quantity). -/")
    L.append("def limits : List (String × Nat) := [")
    L.append(",\n".join('  ("%s", %d)' % (q, b) for q, b in sorted(limits.items())))
    L.append("]\n")
    # label-count limit in peephole_compile
    body = re.sub(r"\s+", " ", block("pub fn peephole_compile", texts[F_O]))
    m = re.search(r"if label_count > ([^{]+?) (\{.*)", body)
    L.append("/-- `peephole_compile`: what happens when a function has more labels than the bound: `diagnostic` = the guarded block\n"
             "is `return Err(… Diagnostic::error() …)`; a macro name (`todo`, `panic`, `unimplemented`, `unreachable`) = host panic;\n"
             "`absent` = no such check, `other` = a block that is not understood. -/")
    if m:
        blk = block("", m.group(2)).strip()
        mac = re.match(r"(todo|panic|unimplemented|unreachable)!", blk)
        if re.fullmatch(r"return Err\(bumpalo::vec!\[in alloc; Diagnostic::error\(\)\.with_message\(.*\) ?\]\);", blk):
            what = "diagnostic"
        elif mac:
            what = mac.group(1)
        else:
            what = "other"
        L.append('def labelLimit : Nat × String := (%d, "%s")\n' % (_const(m.group(1)), what))
    else:
        L.append('def labelLimit : Nat × String := (0, "absent")\n')
    L += gen_parser_loop(texts[F_P], fns[F_P])
    L += gen_resolver_pairs(repo)
    L += gen_scope_order(repo)
    L += gen_loop_depth(repo, texts[F_P], texts[F_C])
    L.append("end LaytheVerif.Gen\n")
    write_if_changed(os.path.join(out, "FrontLimits.lean"), "\n".join(L))
    return rows


# ---------------------------------------------------------------------------------------------
# parser.rs: shape of the declaration loop


def _one(fns, name):
    b = fns.get(name)
    if not b or len(b) != 1:
        raise TranslateError("parser.rs: expected exactly one fn %s" % name)
    return re.sub(r"\s+", " ", b[0][2])


def gen_parser_loop(src, fns):
    L = []
    # decl / stmt arms: (token kind, first action)
    arms = []
    for fn in ("decl", "stmt"):
        body = _one(fns, fn)
        mb = block("match self.current.kind()", body, "%s(): match on current kind" % fn)
        for m in re.finditer(r"((?:TokenKind::\w+\s*\|?\s*)+|_)\s*=>\s*self\s*\.?\s*(\w+)\(\)", mb):
            pats = re.findall(r"TokenKind::(\w+)", m.group(1)) or ["_"]
            for p in pats:
                arms.append((fn, p, m.group(2)))
        n_arrows = len(re.findall(r"=>", mb))
        if n_arrows != len([a for a in arms if a[0] == fn]):
            raise TranslateError("%s(): %d arms in the text, %d understood" % (fn, n_arrows, len([a for a in arms if a[0] == fn])))
    # expr_stmt -> expr -> parse_precedence -> advance first
    chain = []
    es = _one(fns, "expr_stmt")
    chain.append(("expr_stmt", "expr" if re.match(r"\s*let expr = self\.expr\(\)\?;", es) else "?"))
    ex = _one(fns, "expr")
    chain.append(("expr", "parse_precedence" if re.match(r"\s*self\.parse_precedence\(", ex) else "?"))
    pp = _one(fns, "parse_precedence")
    chain.append(("parse_precedence", "advance" if re.match(r"\s*self\.advance\(\)\?;", pp) else "?"))
    # advance(): shifts unconditionally
    adv = _one(fns, "advance")
    adv_shifts = bool(re.match(r"\s*self\.previous = mem::replace\(&mut self\.current, self\.scanner\.scan_token\(\)\);", adv))
    # synchronize
    sy = _one(fns, "synchronize")
    m = re.search(r"while (.+?) \{ tokens\.push\(self\.previous\.clone\(\)\); match self\.current\.kind\(\) \{ (.+?) => \{ break; \},? _ => \(\),? \} "
                  r"self\.advance\(\)\?; \}", sy)
    if not m:
        raise TranslateError("synchronize(): loop shape not understood")
    cond = m.group(1).strip()
    stops = re.findall(r"TokenKind::(\w+)", m.group(2))
    if re.sub(r"TokenKind::\w+|\||\s", "", m.group(2)):
        raise TranslateError("synchronize(): stop pattern not understood: %r" % m.group(2))
    cm = re.fullmatch(r"self\.current\.kind\(\) != TokenKind::Eof \|\| self\.previous\.kind\(\) == TokenKind::(\w+)", cond)
    if not cm:
        raise TranslateError("synchronize(): loop condition not understood: %r" % cond)
    # parse_inner loop
    pi = _one(fns, "parse_inner")
    pm = re.search(r"while !to_fe_result\(self\.match_kind\(TokenKind::Eof\)\)\? \{ decls\.push\(to_fe_result\(self\.decl\(\)\)\?\) \}", pi)
    # block(): loop guard
    bl = _one(fns, "block")
    bm = re.search(r"while !self\.check\(TokenKind::RightBrace\) && !self\.check\(TokenKind::Eof\) \{ decls\.push\(self\.decl\(\)", bl)
    L.append("/-- Arms of `Parser::decl` and `Parser::stmt`: (function, token kind or `_`, first call). -/")
    L.append("def parserArms : List (String × String × String) := [")
    L.append(",\n".join('  ("%s", "%s", "%s")' % a for a in arms))
    L.append("]\n")
    L.append("/-- `expr_stmt → expr → parse_precedence → advance()?` : first action of each. -/")
    L.append("def exprChain : List (String × String) := [" + ", ".join('("%s", "%s")' % c for c in chain) + "]\n")
    L.append("/-- `advance()` starts with `self.previous = mem::replace(&mut self.current, self.scanner.scan_token())`. -/")
    L.append("def advanceShifts : Bool := %s\n" % ("true" if adv_shifts else "false"))
    L.append("/-- Token kinds at which `synchronize` stops (names of `TokenKind`). -/")
    L.append("def syncStops : List String := [" + ", ".join('"%s"' % s for s in stops) + "]\n")
    L.append("/-- `synchronize` loops `while current != Eof || previous == <this kind>` and ends each iteration with `self.advance()?`. -/")
    L.append('def syncContinuesAfter : String := "%s"\n' % cm.group(1))
    L.append("/-- `parse_inner`: `while !match_kind(Eof)? { decl()? }`; `block`: `while !check(RightBrace) && !check(Eof) { decl()? }`. -/")
    L.append("def declLoopShape : Bool × Bool := (%s, %s)\n" % ("true" if pm else "false", "true" if bm else "false"))
    return L


# ---------------------------------------------------------------------------------------------
# resolver.rs: every declare is paired with a define (so no symbol stays Uninitialized)


def gen_resolver_pairs(repo):
    rel = "laythe_vm/src/compiler/resolver.rs"
    src = _production(strip_comments(read(repo, rel)))
    fns = _fn_bodies(src)
    rows = []
    for name, bodies in sorted(fns.items()):
        for (_, _, body) in bodies:
            b = re.sub(r"\s+", " ", body)
            decls = re.findall(r"\.declare_variable\(\s*&?([^)]*?)\s*\)", b)
            if name == "declare_module_scoped":
                decls = re.findall(r"\.declare_module_variable\(\s*&?([^)]*?)\s*\)", b)
            defs = re.findall(r"\.define_variable\(\s*&?([^)]*?)\s*\)", b)
            if decls or defs:
                ok = sorted(decls) == sorted(defs)
                # each define after its declare
                for d in set(decls):
                    i = b.find("_variable(%s)" % d)
                    i = i if i >= 0 else b.find("_variable(&%s)" % d)
                    j = b.rfind("define_variable(%s)" % d)
                    j = j if j >= 0 else b.rfind("define_variable(&%s)" % d)
                    ok = ok and 0 <= i < j
                rows.append((name, len(decls), len(defs), ok))
    L = ["/-- resolver.rs: per function, number of `declare_variable` / `define_variable` calls and whether every declared\n"
         "name is defined later in the same body (so no symbol is left `Uninitialized`). -/",
         "def resolverDeclareDefine : List (String × Nat × Nat × Bool) := ["]
    L.append(",\n".join('  ("%s", %d, %d, %s)' % (n, a, b, "true" if ok else "false") for n, a, b, ok in rows))
    L.append("]\n")
    # the module-level pre-pass declares, the main pass defines: declare_module_variable callers
    mods = sorted(n for n, bodies in fns.items() if any("declare_module_variable(" in b[2] for b in bodies))
    L.append("def resolverModuleDeclarers : List String := [" + ", ".join('"%s"' % m for m in mods) + "]\n")
    return L


# ---------------------------------------------------------------------------------------------
# resolver.rs / compiler/mod.rs: the order of the scoping actions of `for_`, `try_`, `catch`

_SCOPE_CALL = re.compile(r"\bself_*\s*\.\s*(declare_variable|define_variable|resolve_variable|variable_get|variable_set|expr|scope|"
                         r"loop_scope|block|catch|decl|stmt)\(")

# (pass, function) -> [(regex matched right after the `(` of the call, call name, label)]
_SCOPE_ROWS = {
    ("resolver", "for_"): [
        (r"\|self_\| \{", "scope", "scope"), (r"&mut for_\.iter\)", "expr", "iter"),
        (r"&iterator_token\)", "declare_variable", "declare $iter"), (r"&iterator_token\)", "define_variable", "define $iter"),
        (r"&for_\.item\)", "declare_variable", "declare item"), (r"&for_\.item\)", "define_variable", "define item"),
        (r"\|self_\| self_\.block\(&mut for_\.body\)\)", "scope", "scope"), (r"&mut for_\.body\)", "block", "body")],
    ("resolver", "try_"): [
        (r"\|self_\| self_\.block\(&mut try_\.block\)\)", "scope", "scope"), (r"&mut try_\.block\)", "block", "body"),
        (r"\|self_\| self_\.catch\(catch\)\)", "scope", "scope"), (r"catch\)", "catch", "catch")],
    ("resolver", "catch"): [
        (r"CLASS_OR_DEFAULT\)", "resolve_variable", "class"),
        (r"&catch\.name\)", "declare_variable", "declare var"), (r"&catch\.name\)", "define_variable", "define var"),
        (r"\|self_\| self_\.block\(&mut catch\.block\)\)", "scope", "scope"), (r"&mut catch\.block\)", "block", "body")],
    ("compiler", "for_"): [
        (r"for_\.end\(\), &for_\.symbols, \|self_\| \{", "scope", "scope"), (r"&for_\.iter\)", "expr", "iter"),
        (r"ITER_VAR, iter_span\)", "declare_variable", "declare $iter"),
        (r"ITER_VAR, SymbolState::LocalInitialized, iter_span\)", "define_variable", "define $iter"),
        (r"for_\.item\.str\(\), item_span\)", "declare_variable", "declare item"),
        (r"for_\.item\.str\(\), item_state, item_span\)", "define_variable", "define item"),
        (r"for_\.body\.end\(\), start_label, end_label, &for_\.body\.symbols, \|self_\| \{", "loop_scope", "scope"),
        (r"&for_\.body\)", "block", "body")],
    ("compiler", "try_"): [
        (r"try_\.block\.end\(\), &try_\.block\.symbols, \|self_\| \{", "scope", "scope"), (r"&try_\.block\)", "block", "body"),
        (r"catch, try_end_label\)", "catch", "catch")],
    ("compiler", "catch"): [
        (r"catch\.end\(\), &catch\.symbols, \|self_\| \{", "scope", "scope"),
        (r"catch\.class\.as_ref\(\)\.unwrap_or\(default_error\)\)", "variable_get", "class"),
        (r"catch\.name\.str\(\), catch\.name\.span\(\)\)", "declare_variable", "declare var"),
        (r"catch\.name\.str\(\), var_state, catch\.span\(\)\)", "define_variable", "define var"),
        (r"catch\.end\(\), &catch\.block\.symbols, \|self__\| \{", "scope", "scope"), (r"&catch\.block\)", "block", "body")],
}

# resolver `catch`: the class is named or it is the default `Error` — one lookup either way
_CATCH_CLASS = re.compile(r"if let Some\(class\) = &catch\.class \{ self\.resolve_variable\(class\) \} else \{ self\.resolve_variable\(&Token::new\( "
                          r"TokenKind::Identifier, Lexeme::Slice\(ERROR_CLASS_NAME\), catch\.name\.end\(\), catch\.name\.end\(\), \)\); \}")
# compiler `catch`: the default class token
_CATCH_DEFAULT = re.compile(r"let default_error = &Token::new\( TokenKind::Identifier, Lexeme::Slice\(ERROR_CLASS_NAME\), ")


def gen_scope_order(repo):
    """the scoping-relevant calls of `for_`, `try_`, `catch` in text order (= execution order: the bodies are straight-line
    apart from the class-or-default alternative of the resolver's `catch`, which is matched as one unit).  Every call of
    one of the `_SCOPE_CALL` methods must be one of the expected rows, otherwise the text is not understood."""
    out = []
    for pas, rel in (("resolver", "laythe_vm/src/compiler/resolver.rs"), ("compiler", F_C)):
        fns = _fn_bodies(_production(strip_comments(read(repo, rel))))
        for fn in ("for_", "try_", "catch"):
            bodies = fns.get(fn, [])
            if len(bodies) != 1:
                raise TranslateError("%s: expected exactly one fn %s" % (rel, fn))
            body = re.sub(r"\s+", " ", bodies[0][2])
            if (pas, fn) == ("resolver", "catch"):
                body, k = _CATCH_CLASS.subn("self.resolve_variable(CLASS_OR_DEFAULT);", body)
                if k != 1:
                    raise TranslateError("resolver.rs: catch(): the class-or-default lookup changed shape")
            if (pas, fn) == ("compiler", "catch") and not _CATCH_DEFAULT.search(body):
                raise TranslateError("compiler/mod.rs: catch(): the default class token changed shape")
            labels = []
            for m in _SCOPE_CALL.finditer(body):
                rest = body[m.end():]
                lab = None
                for rx, call, label in _SCOPE_ROWS[(pas, fn)]:
                    if call == m.group(1) and re.match(r" ?" + rx, rest):
                        lab = label
                        break
                if lab is None:
                    raise TranslateError("%s: fn %s: scoping call not understood: `%s%s`" % (rel, fn, m.group(0), rest[:50]))
                labels.append(lab)
            out.append(("%s.%s" % (pas, fn), labels))
    L = ["/-- resolver.rs and compiler/mod.rs: the scoping actions of `for_`, `try_`, `catch` in the order they are performed:\n"
         "`scope` = a scope is opened, `iter` = the iterable is visited, `class` = the catch class (or the default `Error`) is\n"
         "looked up, `declare`/`define` of the hidden `$iter`, the loop item, the catch variable, `body` = the block. -/",
         "def scopeOrder : List (String × List String) := ["]
    L.append(",\n".join('  ("%s", [%s])' % (n, ", ".join('"%s"' % x for x in ls)) for n, ls in out))
    L.append("]\n")
    return L


# ---------------------------------------------------------------------------------------------
# parser.rs `loop_depth` / compiler/mod.rs `loop_attributes`: every mention, and the shape of the save/restore pairs

_LD_KINDS = [  # (kind, regex, number of `loop_depth` tokens it accounts for)
    ("field", r"loop_depth: u16,", 1), ("init0", r"loop_depth: 0,", 1),
    ("inc", r"self\.loop_depth \+= 1;", 1), ("dec", r"self\.loop_depth -= 1;", 1),
    ("check0", r"if self\.loop_depth == 0 \{ return self\.error\(", 1),
    ("save0", r"let loop_depth = mem::replace\(&mut self\.loop_depth, 0\);", 2),
    ("restore", r"self\.loop_depth = loop_depth;", 2)]

_LA_KINDS = [
    ("field", r"loop_attributes: Option<LoopAttributes>,", 1), ("none", r"loop_attributes: None,", 1),
    ("replace", r"let loop_attributes = LoopAttributes \{ scope_depth: self\.scope_depth, start, end, \}; "
                r"let enclosing_loop = self\.loop_attributes\.replace\(loop_attributes\);", 3),
    ("restore", r"self\.loop_attributes = enclosing_loop;", 1),
    ("expect", r"let loop_attributes = self \.loop_attributes \.expect\(\"Parser should have caught the loop constraint\"\);", 2)]


def _mask_strings(src):
    """blank the braces inside string literals (same length), so that brace matching survives `"Expected '{{' after …"`."""
    return re.sub(r'"(?:[^"\\\n]|\\.)*"', lambda m: re.sub(r"[{}]", " ", m.group(0)), src)


def _sites(src, fns, word, kinds, what, local_uses=()):
    """every occurrence of `word` in `src` is accounted for by one of `kinds` (or is a read of the local variable of that
    name in one of the functions `local_uses`); returns [(function, kind)] in text order."""
    flat = re.sub(r"\s+", " ", src)
    found = []
    covered = 0
    masked = _mask_strings(flat)
    for kind, rx, ntok in kinds:
        for m in re.finditer(rx, flat):
            found.append((m.start(), kind))
            covered += ntok
    # positions in `flat` -> enclosing function: redo the function scan on the flattened text
    ffns = _fn_bodies(masked)
    rows = []
    for pos, kind in sorted(found):
        fn = None
        for name, bodies in ffns.items():
            for (a, b, _) in bodies:
                if a <= pos <= b and (fn is None or a > fn[1]):
                    fn = (name, a)
        rows.append((fn[0] if fn else "-", kind))
    extra = 0
    for name in local_uses:
        for (_a, _b, _) in ffns.get(name, []):
            extra += len(re.findall(r"(?<![.\w])%s\.\w" % word, flat[_a:_b]))
    total = len(re.findall(r"\b%s\b" % word, flat))
    if covered + extra != total:
        raise TranslateError("%s: %d mentions of `%s`, %d understood" % (what, total, word, covered + extra))
    return rows


def gen_loop_depth(repo, parser_src, compiler_src):
    # bodies from the text with string literals masked (positions preserved), read from the unmasked text
    pf = {n: [(a, b, parser_src[a + 1:b]) for (a, b, _) in bs] for n, bs in _fn_bodies(_mask_strings(parser_src)).items()}
    psites = _sites(parser_src, pf, "loop_depth", _LD_KINDS, "parser.rs")
    csites = _sites(compiler_src, _fn_bodies(compiler_src), "loop_attributes", _LA_KINDS, "compiler/mod.rs",
                    local_uses=("continue_", "break_"))
    shape = []
    lp = _one(pf, "loop_")
    shape.append(("loop_: inc; cb; dec; result", lp.strip() == "self.loop_depth += 1; let result = cb(self); self.loop_depth -= 1; result"))
    for fn in ("function", "lambda"):
        b = _one(pf, fn)
        m = re.search(r"let loop_depth = mem::replace\(&mut self\.loop_depth, 0\);(.*?)self\.loop_depth = loop_depth;(.*)$", b)
        # the result of the body is bound to a variable; nothing between save and restore can leave the function
        ok = bool(m) and not re.search(r"\?|\breturn\b|\bbreak\b|\bcontinue\b", m.group(1)) and \
            bool(re.match(r" let (\w+) = self\.(?:block\(block_return\)|fun_body\(BlockReturn::Can\))\.map\(", m.group(1)))
        shape.append(("%s: restore on every path" % fn, ok))
        # before the save the depth is not touched (early returns of the signature leave it alone)
        shape.append(("%s: signature before the save" % fn, bool(m) and "loop_depth" not in b[:m.start()]))
    for fn in ("break_", "continue_"):
        b = _one(pf, fn)
        shape.append(("%s: check first" % fn, bool(re.match(r"\s*if self\.loop_depth == 0 \{ return self\.error\(\"Cannot %s from outside of a loop\.\"\); \}" % fn[:-1], b))))
    users = sorted(n for n, bodies in pf.items() if any(re.search(r"\bself\.loop_\(", x[2]) for x in bodies))
    catchers = sorted(n for n, bodies in pf.items()
                      if any(re.search(r"\.or_else\(|\.ok\(\)|\.unwrap_or|if let Ok\(|\.is_err\(\)|\.is_ok\(\)|\.unwrap_or_default\(", x[2]) for x in bodies))
    L = ["/-- parser.rs: every mention of `loop_depth` as (function, kind): `inc`/`dec` in `loop_`, `check0` = `if self.loop_depth == 0\n"
         "{ return self.error(…) }`, `save0` = `let loop_depth = mem::replace(&mut self.loop_depth, 0);`, `restore` = `self.loop_depth =\n"
         "loop_depth;`. -/",
         "def loopDepthSites : List (String × String) := [" + ", ".join('("%s", "%s")' % r for r in psites) + "]\n",
         "/-- parser.rs: shape facts the model `Model/LoopDepth.lean` relies on. -/",
         "def loopDepthShape : List (String × Bool) := [",
         ",\n".join('  ("%s", %s)' % (n, "true" if ok else "false") for n, ok in shape), "]\n",
         "/-- parser.rs: the functions that call `self.loop_(…)`. -/",
         "def loopUsers : List String := [" + ", ".join('"%s"' % u for u in users) + "]\n",
         "/-- parser.rs: the functions that turn an `Err` of a callee into something else (`.or_else(`, `.ok()`, `unwrap_or`,\n"
         "`if let Ok(`, `is_err()`/`is_ok()`): the places where a failed parse continues — the model's `decl` nodes. -/",
         "def errorCatchers : List String := [" + ", ".join('"%s"' % u for u in catchers) + "]\n",
         "/-- compiler/mod.rs: every mention of the field `loop_attributes` as (function, kind): `none` = a fresh compiler starts\n"
         "outside of any loop, `replace`/`restore` in `loop_scope`, `expect` = `.expect(\"Parser should have caught the loop constraint\")`. -/",
         "def loopAttrSites : List (String × String) := [" + ", ".join('("%s", "%s")' % r for r in csites) + "]\n"]
    return L


def gen_all(repo, out):
    gen_tokens(repo, out)
    gen_limits(repo, out)
