"""Gen/Natives.lean, Gen/SigTable.lean, Gen/Limits.lean — the tables behind C16.

Purpose-built text scans (no Rust parser is installed):

* `laythe_core/src/signature.rs`      enum Arity / ParameterKind, the arms of `ParameterKind::is_valid`,
                                      the comparison skeleton of `Arity::check`
* `laythe_core/src/object/native.rs`  the comparison skeleton of `Native::check_if_valid_call`
* `laythe_core/src/object/mod.rs`     enum ObjectKind;  `reference/obj_reference.rs`: the unchecked `to_*` casts
* `laythe_lib/src/**`                 every `const X: NativeMetaBuilder = NativeMetaBuilder::{fun,method}(..)` with
                                      `.with_params`/`.with_stack`, the struct it is built into, where that struct
                                      is registered (function of a module / method or static method of a class),
                                      and for the body of `impl LyNative for S { fn call }`: which `args[i]` is
                                      indexed / unwrapped as which kind under which `args.len()` / `is_*` guard;
                                      plus every place where the *result* of a user callback (`hooks.call`,
                                      `hooks.call_method`) or an instance *field* is unwrapped without a check
* `laythe_vm/src/constants.rs`, `vm/ops.rs`  MAX_FRAME_SIZE, UNDEFINED_ARRAY, the frame-limit guards

Anything that is not understood raises TranslateError (the run is then reported as a broken
correspondence); a `call` body whose use of `args` is not fully recognised is emitted with
`classified := false` and its reason, never guessed.
"""
import glob
import os
import re

from translate import TranslateError, read, strip_comments, write_if_changed, HEADER


# ---------------------------------------------------------------------------------------------
# small text helpers


def match_close(text, i, open_ch="{", close_ch="}"):
    """index of the bracket closing the one at text[i]"""
    if text[i] != open_ch:
        raise TranslateError("match_close: expected %r at %d" % (open_ch, i))
    depth = 0
    for j in range(i, len(text)):
        c = text[j]
        if c == open_ch:
            depth += 1
        elif c == close_ch:
            depth -= 1
            if depth == 0:
                return j
    raise TranslateError("unbalanced %r" % open_ch)


def strip_strings(text):
    """blank the contents of string literals (keeps length) so brackets inside them do not count"""
    out = []
    i = 0
    n = len(text)
    while i < n:
        c = text[i]
        if c == '"':
            j = i + 1
            while j < n and text[j] != '"':
                j += 2 if text[j] == "\\" else 1
            out.append('"' + "_" * (j - i - 1) + '"')
            i = j + 1
        elif c == "'" and i + 2 < n and (text[i + 2] == "'" or (text[i + 1] == "\\" and i + 3 < n and text[i + 3] == "'")):
            j = text.index("'", i + 2)
            out.append("'" + "_" * (j - i - 1) + "'")
            i = j + 1
        else:
            out.append(c)
            i += 1
    return "".join(out)


def strip_test_modules(text):
    """remove `#[cfg(test)] mod x { ... }` blocks (natives that only exist for unit tests)"""
    while True:
        m = re.search(r"#\[cfg\(test\)\]\s*(?:pub\s+)?mod\s+\w+\s*\{", text)
        if not m:
            return text
        j = match_close(text, m.end() - 1)
        text = text[:m.start()] + text[j + 1:]


def enum_variants(src, name, what):
    m = re.search(r"pub enum %s\s*\{" % name, src)
    if not m:
        raise TranslateError("enum %s not found in %s" % (name, what))
    body = src[m.end():match_close(src, m.end() - 1)]
    body = re.sub(r"#\[[^\]]*\]", "", body)
    out = []
    for part in split_top(body, ","):
        part = part.strip()
        if not part:
            continue
        vm = re.fullmatch(r"([A-Z]\w*)\s*(\(([^)]*)\))?", part)
        if not vm:
            raise TranslateError("enum %s: cannot parse variant %r" % (name, part))
        out.append((vm.group(1), [t.strip() for t in (vm.group(3) or "").split(",") if t.strip()]))
    return out


def split_top(text, sep):
    """split on `sep` at bracket depth 0"""
    out, depth, cur = [], 0, []
    for c in text:
        if c in "([{":
            depth += 1
        elif c in ")]}":
            depth -= 1
        if c == sep and depth == 0:
            out.append("".join(cur))
            cur = []
        else:
            cur.append(c)
    out.append("".join(cur))
    return out


def fn_body(src, header_re, what):
    m = re.search(header_re, src)
    if not m:
        raise TranslateError("function not found: %s" % what)
    i = src.index("{", m.end() - 1)
    return src[i + 1:match_close(src, i)]


def lean_str(s):
    return '"' + s.replace("\\", "\\\\").replace('"', '\\"') + '"'


# ---------------------------------------------------------------------------------------------
# signature.rs / native.rs  ->  Gen/SigTable.lean


def norm(s):
    return re.sub(r"\s+", " ", s.strip())


def branch_skeleton(body, what):
    """For a `match <arity> { Fixed(..) => {..}, Variadic(..) => {..}, Default(..) => {..} }` return per branch
    the ordered list of events: `if <cond>` headers that return an error, `loop` for every is_valid loop with the
    iterator expression it ranges over, `shortcut <cond>` for early `return Ok`."""
    out = []
    for m in re.finditer(r"(?:Self|Arity)::(Fixed|Variadic|Default)\s*\(([^)]*)\)\s*=>\s*\{", body):
        j = match_close(body, m.end() - 1)
        arm = body[m.end():j]
        events = []
        pos = 0
        for e in re.finditer(r"\bif\s+([^{]+?)\s*\{|\bfor\s+(.+?)\s+in\s+([^{]+?)\s*\{", arm, flags=re.S):
            if e.start() < pos:
                continue
            bj = match_close(arm, e.end() - 1)
            blk = arm[e.end():bj]
            if e.group(1) is not None:
                cond = norm(e.group(1))
                if "is_valid" in cond:
                    continue  # the test inside a loop; reported with the loop
                if re.search(r"\bfor\b", blk):
                    events.append("if %s {" % cond)  # a wrapper such as `if arity != 0 {`: look inside
                elif re.search(r"return\s+Err", blk):
                    events.append("if %s => Err" % cond)
                    pos = bj
                elif re.search(r"return\s+Ok", blk):
                    events.append("if %s => Ok" % cond)
                    pos = bj
                else:
                    events.append("if %s" % cond)  # a wrapper such as `if arity != 0 {`: look inside
            else:
                rng = norm(e.group(3))
                neg = bool(re.search(r"if\s+!\s*[\w.]+\s*\.\s*is_valid\s*\(", blk)) and bool(re.search(r"return\s+Err", blk))
                events.append("for %s%s" % (rng, " => Err unless is_valid" if neg else " ?"))
                pos = bj
        out.append((m.group(1), [norm(x) for x in m.group(2).split(",") if x.strip()], events))
    if [b[0] for b in out] != ["Fixed", "Variadic", "Default"]:
        raise TranslateError("%s: expected Fixed/Variadic/Default branches, found %s" % (what, [b[0] for b in out]))
    return out


def gen_sigtable(repo, out):
    rel = "laythe_core/src/signature.rs"
    src = strip_comments(read(repo, rel))
    src = strip_test_modules(src)
    arity = enum_variants(src, "Arity", rel)
    pkinds = enum_variants(src, "ParameterKind", rel)
    vkinds = enum_variants(strip_comments(read(repo, "laythe_core/src/value.rs")), "ValueKind", "value.rs")
    okinds = enum_variants(strip_comments(read(repo, "laythe_core/src/object/mod.rs")), "ObjectKind", "object/mod.rs")
    if [a for a, _ in arity] != ["Fixed", "Variadic", "Default"] or [len(t) for _, t in arity] != [1, 1, 2]:
        raise TranslateError("enum Arity changed shape: %s" % arity)
    oknames = [k for k, _ in okinds]
    # ParameterKind::is_valid
    body = fn_body(src, r"pub fn is_valid\s*\(\s*&self\s*,\s*value\s*:\s*Value\s*\)\s*->\s*bool\s*", "ParameterKind::is_valid")
    early = []
    for m in re.finditer(r"if\s+\*self\s*==\s*ParameterKind::(\w+)\s*\{\s*return\s+true\s*;\s*\}", body):
        early.append(m.group(1))
    mm = re.search(r"match\s*\(\s*self\s*,\s*value\.kind\(\)\s*\)\s*\{", body)
    if not mm:
        raise TranslateError("is_valid: match (self, value.kind()) not found")
    rest = body[:mm.start()]
    rest = re.sub(r"if\s+\*self\s*==\s*ParameterKind::(\w+)\s*\{\s*return\s+true\s*;\s*\}", "", rest)
    if rest.strip():
        raise TranslateError("is_valid: text before the match not understood: %r" % rest.strip()[:80])
    mbody = body[mm.end():match_close(body, mm.end() - 1)]
    arms = []
    default = None
    for arm in split_top(mbody, ","):
        arm = arm.strip()
        if not arm:
            continue
        am = re.fullmatch(r"\(\s*ParameterKind::(\w+)\s*,\s*ValueKind::(\w+)\s*\)\s*=>\s*(.+)", arm, flags=re.S)
        if am:
            rhs = norm(am.group(3))
            if rhs == "true":
                objs = ["*"]
            else:
                r1 = re.fullmatch(r"matches!\s*\(\s*value\.to_obj\(\)\.kind\(\)\s*,\s*((?:ObjectKind::\w+\s*\|?\s*)+),?\s*\)", rhs)
                r2 = re.fullmatch(r"value\.is_obj_kind\(\s*ObjectKind::(\w+)\s*\)", rhs)
                if r1:
                    objs = re.findall(r"ObjectKind::(\w+)", r1.group(1))
                elif r2:
                    objs = [r2.group(1)]
                else:
                    raise TranslateError("is_valid: cannot understand arm %r" % arm[:100])
                if am.group(2) != "Obj":
                    raise TranslateError("is_valid: object test on a non-object arm %r" % arm[:100])
            for o in objs:
                if o != "*" and o not in oknames:
                    raise TranslateError("is_valid: unknown ObjectKind %s" % o)
            arms.append((am.group(1), am.group(2), objs))
            continue
        dm = re.fullmatch(r"_\s*=>\s*(true|false)", arm)
        if dm:
            default = dm.group(1)
            continue
        raise TranslateError("is_valid: cannot parse arm %r" % arm[:100])
    if default != "false":
        raise TranslateError("is_valid: default arm is not `_ => false`")
    # Arity::check and check_if_valid_call skeletons
    chk = fn_body(src, r"pub fn check\s*\(\s*&self\s*,\s*arg_count\s*:\s*u8\s*\)\s*->\s*ArityResult\s*", "Arity::check")
    arity_sk = branch_skeleton(chk, "Arity::check")
    nrel = "laythe_core/src/object/native.rs"
    nsrc = strip_comments(read(repo, nrel))
    civ = fn_body(nsrc, r"pub fn check_if_valid_call\s*<[^{]*?->\s*Result<\(\),\s*LyStr>\s*", "Native::check_if_valid_call")
    civ = strip_strings(civ)
    civ_sk = branch_skeleton(civ, "check_if_valid_call")
    if not re.search(r"let\s+args_count\s*=\s*args\.len\(\)\s*;", civ) or not re.search(r"let\s+parameters\s*=\s*&\*self\.meta\.signature\.parameters\s*;", civ):
        raise TranslateError("check_if_valid_call: preamble changed")
    if not re.search(r"let\s+variadic_type\s*=\s*parameters\[arity as usize\]\s*;", civ):
        raise TranslateError("check_if_valid_call: variadic_type binding changed")
    # method signature convention
    msig = fn_body(src, r"pub fn to_method_sig\s*\(", "to_method_sig")
    if not re.search(r'ParameterBuilder::new\(\s*"self"\s*,\s*ParameterKind::(\w+)\s*\)', msig):
        raise TranslateError("to_method_sig: receiver parameter not found")
    self_kind = re.search(r'ParameterBuilder::new\(\s*"self"\s*,\s*ParameterKind::(\w+)\s*\)', msig).group(1)
    marity = fn_body(src, r"fn method_arity\s*\(", "method_arity")
    marity_arms = [norm(a) for a in re.findall(r"Arity::\w+\([^)]*\)\s*=>\s*Arity::\w+\([^)]*\)", marity)]
    req = fn_body(src, r"pub fn required_parameter\s*\(", "required_parameter")
    req_arms = [norm(a) for a in re.findall(r"Self::\w+\([^)]*\)\s*=>\s*[^,]+", req)]
    # unchecked object casts
    osrc = strip_comments(read(repo, "laythe_core/src/reference/obj_reference.rs"))
    casts = sorted(set(re.findall(r"pub fn (to_[a-z_]+)\s*\(\s*self\s*\)\s*->", osrc)) - {"to_usize"})
    cast_map = {}
    for c in casts:
        k = {"to_str": "String", "to_box": "LyBox"}.get(c, c[3:].capitalize())
        if k not in oknames:
            raise TranslateError("obj_reference.rs: cast %s has no ObjectKind %s" % (c, k))
        cast_map[c] = k

    def strs(xs):
        return "[" + ", ".join(lean_str(x) for x in xs) + "]"

    L = [HEADER % (rel + ", laythe_core/src/object/native.rs, object/mod.rs, value.rs, reference/obj_reference.rs"),
         "namespace LaytheVerif.Gen.SigTable\n",
         "/-- variants of `enum ParameterKind` -/", "def parameterKinds : List String := " + strs(k for k, _ in pkinds) + "\n",
         "/-- variants of `enum ValueKind` -/", "def valueKinds : List String := " + strs(k for k, _ in vkinds) + "\n",
         "/-- variants of `enum ObjectKind` -/", "def objectKinds : List String := " + strs(oknames) + "\n",
         "/-- `if *self == ParameterKind::K { return true; }` lines at the top of `is_valid` -/",
         "def isValidEarly : List String := " + strs(early) + "\n",
         "/-- arms of `match (self, value.kind())` in `ParameterKind::is_valid` that yield `true`:\n"
         "    (parameter kind, value kind, object kinds accepted — `*` = no further test); default arm is `false` -/",
         "def isValidArms : List (String × String × List String) := ["]
    L.append(",\n".join("  (%s, %s, %s)" % (lean_str(a), lean_str(b), strs(c)) for a, b, c in arms))
    L.append("]\n")
    for nm, sk, doc in (("arityCheck", arity_sk, "`Arity::check`"), ("checkIfValidCall", civ_sk, "`Native::check_if_valid_call`")):
        L.append("/-- control skeleton of %s: per branch (variant, binders, ordered error tests and is_valid loops) -/" % doc)
        L.append("def %s : List (String × List String × List String) := [" % nm)
        L.append(",\n".join("  (%s, %s, %s)" % (lean_str(a), strs(b), strs(c)) for a, b, c in sk))
        L.append("]\n")
    L.append("/-- kind of the implicit receiver parameter `self` prepended by `to_method_sig` -/")
    L.append("def methodSelfKind : String := %s\n" % lean_str(self_kind))
    L.append("/-- arms of `SignatureBuilder::method_arity` -/")
    L.append("def methodArity : List String := " + strs(marity_arms) + "\n")
    L.append("/-- arms of `Arity::required_parameter` -/")
    L.append("def requiredParameter : List String := " + strs(req_arms) + "\n")
    L.append("/-- the unchecked casts of `ObjectRef` and the `ObjectKind` each one assumes -/")
    L.append("def objectCasts : List (String × String) := [" + ", ".join("(%s, %s)" % (lean_str(c), lean_str(cast_map[c])) for c in casts) + "]\n")
    L.append("end LaytheVerif.Gen.SigTable\n")
    write_if_changed(os.path.join(out, "SigTable.lean"), "\n".join(L))
    return {"pkinds": [k for k, _ in pkinds], "okinds": oknames, "casts": cast_map}


# ---------------------------------------------------------------------------------------------
# laythe_lib/src/**  ->  Gen/Natives.lean

PRIM_UNWRAP = {"to_num": "num", "to_bool": "bool", "to_obj": "obj"}
GUARD_OF = {"num": "is_num", "bool": "is_bool", "obj": "is_obj"}
# kind-agnostic sinks an argument value may be handed to (they accept every Value)
OPAQUE_SINKS = {
    "Call::Ok", "Ok", "val!", "hooks.call", "hooks.call_method", "hooks.get_method", "hooks.get_class",
    "insert", "remove", "contains", "contains_key", "get", "push", "Some", "hooks.push_root", "position",
}
CTOR_SINK = re.compile(r"^[A-Z]\w*::new$")  # iterator adaptors that store the value and later pass it to hooks.call


class Unclassified(Exception):
    pass


def parse_meta(text, consts, what):
    """`NativeMetaBuilder::fun("x", Arity::Fixed(1)).with_params(&[...]).with_stack()`"""
    t = norm(text)
    m = re.match(r"NativeMetaBuilder::(fun|method)\(\s*([^,]+?)\s*,\s*Arity::(Fixed|Variadic|Default)\(\s*(\d+)\s*(?:,\s*(\d+)\s*)?\)\s*,?\s*\)", t)
    if not m:
        raise TranslateError("%s: cannot parse native meta %r" % (what, t[:120]))
    kind, name_e, ar, a, b = m.groups()
    if name_e.startswith('"'):
        name = name_e.strip('"')
    elif name_e in consts:
        name = consts[name_e]
    else:
        raise TranslateError("%s: unknown name expression %r" % (what, name_e))
    if (ar == "Default") != (b is not None):
        raise TranslateError("%s: arity arguments %r" % (what, t[:120]))
    rest = t[m.end():]
    params = []
    stack = False
    while rest.strip():
        rest = rest.strip()
        pm = re.match(r"\.with_params\(\s*&\[(.*?)\]\s*,?\s*\)", rest)
        sm = re.match(r"\.with_stack\(\s*\)", rest)
        if pm:
            for p in split_top(pm.group(1), ","):
                p = p.strip()
                if not p:
                    continue
                q = re.fullmatch(r'ParameterBuilder::new\(\s*"([^"]*)"\s*,\s*ParameterKind::(\w+)\s*,?\s*\)', p)
                if not q:
                    raise TranslateError("%s: cannot parse parameter %r" % (what, p))
                params.append((q.group(1), q.group(2)))
            rest = rest[pm.end():]
        elif sm:
            stack = True
            rest = rest[sm.end():]
        else:
            raise TranslateError("%s: trailing text in native meta: %r" % (what, rest[:80]))
    arity = (ar, int(a), int(b) if b is not None else None)
    required = {"Fixed": int(a), "Variadic": int(a) + 1, "Default": int(b) if b else 0}[ar]
    if len(params) != required:
        raise TranslateError("%s: %d parameters declared, arity requires %d (to_sig would assert)" % (what, len(params), required))
    return {"is_method": kind == "method", "name": name, "arity": arity, "params": params, "stack": stack}


def chain_at(text, i):
    """parse `(.to_x())*` starting at text[i]; returns (list of names, end index)"""
    names = []
    while True:
        m = re.compile(r"\s*\.\s*(to_[a-z_]+)\s*\(\s*\)").match(text, i)
        if not m:
            return names, i
        names.append(m.group(1))
        i = m.end()


def classify_chain(names, casts):
    if not names:
        return "any"
    if names[0] in ("to_num", "to_bool"):
        return PRIM_UNWRAP[names[0]]
    if names[0] == "to_obj":
        if len(names) > 1 and names[1] in casts:
            return "ok:" + casts[names[1]]
        if len(names) > 1 and names[1] not in ("to_string", "to_owned", "to_vec"):
            raise Unclassified("unknown object cast .%s()" % names[1])
        return "obj"
    if names[0] in ("to_string", "to_owned", "to_vec"):
        return "any"
    raise Unclassified("unknown unwrap .%s()" % names[0])


def enclosing_blocks(text, pos):
    """headers of the `{` blocks that enclose text[pos], innermost first, as (header_text, open_index)"""
    out = []
    depth = 0
    i = pos - 1
    while i >= 0:
        c = text[i]
        if c == "}":
            depth += 1
        elif c == "{":
            if depth == 0:
                # header: back to the previous ; { } at depth 0 of parens
                j = i - 1
                pd = 0
                while j >= 0:
                    d = text[j]
                    if d in ")]":
                        pd += 1
                    elif d in "([":
                        if pd == 0:
                            break
                        pd -= 1
                    elif d in ";{}" and pd == 0:
                        break
                    j -= 1
                out.append((text[j + 1:i], i))
            else:
                depth -= 1
        i -= 1
    return out


def else_of(text, open_idx):
    """if the block opening at open_idx is an `else {`, the header of its `if`"""
    pre = text[:open_idx].rstrip()
    if not pre.endswith("else"):
        return None
    k = pre[:-4].rstrip()
    if not k.endswith("}"):
        return None
    # find the matching { of that }
    depth = 0
    i = len(k) - 1
    while i >= 0:
        if k[i] == "}":
            depth += 1
        elif k[i] == "{":
            depth -= 1
            if depth == 0:
                break
        i -= 1
    blocks = enclosing_blocks(k + " ", i + 1)
    return blocks[0][0] if blocks else None


def min_len_at(text, pos, av):
    """largest lower bound on `args.len()` implied by the blocks enclosing pos"""
    best = 0
    for header, oi in enclosing_blocks(text, pos):
        h = norm(header)
        for m in re.finditer(r"(?<![!\w])%s\.len\(\)\s*(>=|>|==)\s*(\d+)" % av, h):
            k = int(m.group(2))
            best = max(best, k + 1 if m.group(1) == ">" else k)
        if re.search(r"!\s*%s\.is_empty\(\)" % av, h):
            best = max(best, 1)
        eh = else_of(text, oi)
        if eh is not None and re.search(r"(?<!!)\b%s\.is_empty\(\)" % av, norm(eh)) and not re.search(r"!\s*%s\.is_empty" % av, eh):
            best = max(best, 1)
        if re.search(r"match\s+%s\.len\(\)\s*$" % av, h):
            # which arm are we in?  arms are `K => expr,` at depth 0 inside this block
            seg = text[oi + 1:pos]
            arms = split_top(seg, ",")
            am = re.match(r"\s*(\d+)\s*=>", arms[-1])
            if am:
                best = max(best, int(am.group(1)))
    return best


def kind_guarded(text, pos, expr_re, kind):
    """is the unwrap of `expr` as `kind` at pos dominated by a positive test of the same kind?"""
    if kind == "any":
        return False
    if kind.startswith("ok:"):
        test = r"%s\s*\.\s*is_obj_kind\(\s*ObjectKind::%s\s*\)" % (expr_re, kind[3:])
    else:
        test = r"%s\s*\.\s*%s\(\s*\)" % (expr_re, GUARD_OF[kind])
    for header, oi in enclosing_blocks(text, pos):
        if re.search(r"\bif\b", header) and re.search(r"(?<!!)(?<!! )" + test, header) and not re.search(r"!\s*" + test, header):
            return True
        # arm of `match x.kind() { ValueKind::Number => ... }`
        if kind in ("num", "bool", "obj") and re.search(r"match\s+%s\s*\.\s*kind\(\)\s*$" % expr_re, header):
            arms = split_top(text[oi + 1:pos], ",")
            am = re.match(r"\s*ValueKind::(\w+)\s*=>", arms[-1])
            if am and {"Number": "num", "Bool": "bool", "Obj": "obj"}.get(am.group(1)) == kind:
                return True
    # `if !x.is_num() { return ...; }` earlier at an enclosing level
    for m in re.finditer(r"\bif\s+!\s*" + test + r"\s*\{", text[:pos]):
        j = match_close(text, m.end() - 1)
        if j < pos and re.search(r"\breturn\b", text[m.end():j]):
            return True
    return False


def innermost_callee(text, pos):
    """name of the call / macro / constructor whose argument list directly contains text[pos]
    (array literals `&[..]` and tuples are looked through); None when at statement level"""
    depth = 0
    i = pos - 1
    while i >= 0:
        c = text[i]
        if c in ")]}":
            depth += 1
        elif c in "([{":
            if depth == 0:
                if c == "{":
                    return None
                pre = text[:i].rstrip()
                if c == "[":
                    if pre.endswith("&") or pre.endswith("=") or pre.endswith("(") or pre.endswith(","):
                        i -= 1
                        continue  # array literal: look further out
                    return "index"  # x[ .. ] indexing expression
                m = re.search(r"([A-Za-z_][\w]*(?:\s*(?:::|\.)\s*[A-Za-z_]\w*)*!?)$", pre)
                if not m:
                    i -= 1
                    continue  # parenthesised expression / tuple
                name = re.sub(r"\s+", "", m.group(1))
                if name in ("if", "match", "while", "return", "in"):
                    return None
                return name
            depth -= 1
        elif c == ";" and depth == 0:
            return None
        i -= 1
    return None


def sink_ok(name):
    if name is None or name == "index":
        return True
    if name in OPAQUE_SINKS or CTOR_SINK.match(name):
        return True
    last = name.split(".")[-1]
    if "." in name and last in OPAQUE_SINKS:
        return True
    return False


def expand_local_macros(body, file_src):
    """inline single-arm local `macro_rules!` invocations (e.g. `get_regex!(self, args[0], hooks)`)"""
    for _ in range(4):
        changed = False
        for m in re.finditer(r"\b(\w+)!\s*\(", body):
            name = m.group(1)
            d = re.search(r"macro_rules!\s*%s\s*\{" % name, file_src)
            if not d:
                continue
            mb = file_src[d.end():match_close(file_src, d.end() - 1)]
            am = re.match(r"\s*\(\s*(.*?)\s*\)\s*=>\s*\{", mb, flags=re.S)
            if not am:
                raise Unclassified("local macro %s! not understood" % name)
            formals = re.findall(r"\$(\w+)\s*:\s*\w+", am.group(1))
            eb = mb[am.end():match_close(mb, am.end() - 1)]
            j = match_close(body, m.end() - 1, "(", ")")
            actuals = [a.strip() for a in split_top(body[m.end():j], ",")]
            if len(actuals) != len(formals):
                raise Unclassified("local macro %s!: arity mismatch" % name)
            for f, a in zip(formals, actuals):
                eb = re.sub(r"\$%s\b" % f, a, eb)
            body = body[:m.start()] + "{" + eb + "}" + body[j + 1:]
            changed = True
            break
        if not changed:
            return body
    return body


def scan_value_uses(text, expr_pat, idx_of, av, casts, file_src, depth=0):
    """All uses of argument expressions matching expr_pat in text.  idx_of(match) -> (idx, rest).
    Returns list of sites (idx, rest, kind, minlen, guarded)."""
    sites = []
    for m in re.finditer(expr_pat, text):
        idx, rest = idx_of(m)
        names, end = chain_at(text, m.end())
        kind = classify_chain(names, casts)
        expr_re = re.escape(m.group(0))
        if kind == "any":
            # is_* tests and comparisons are fine; otherwise look at where the value goes
            after = text[m.end():m.end() + 40]
            if re.match(r"\s*\.\s*is_\w+\s*\(", after) or re.match(r"\s*\.\s*kind\s*\(", after):
                callee = None
            elif re.match(r"\s*\.\s*[a-z_]+\s*\(", after) and not re.match(r"\s*\.\s*(to_string|to_owned|clone)\s*\(", after):
                raise Unclassified("method %r called on argument value" % after.strip()[:20])
            else:
                callee = innermost_callee(text, m.start())
            if not sink_ok(callee):
                # a helper function of the same file: follow the value one level
                fm = re.search(r"\bfn\s+%s\s*(?:<[^>]*>)?\s*\(" % re.escape(callee), file_src) if callee and re.fullmatch(r"\w+", callee) else None
                if not fm or depth > 0:
                    raise Unclassified("argument value passed to %s" % callee)
                pj = match_close(file_src, fm.end() - 1, "(", ")")
                formals = [p.split(":")[0].strip() for p in split_top(file_src[fm.end():pj], ",") if p.strip()]
                # which actual position?
                ci = text.rfind(callee, 0, m.start())
                oi = text.index("(", ci)
                actuals = split_top(text[oi + 1:match_close(text, oi, "(", ")")], ",")
                pos = None
                off = oi + 1
                for k, a in enumerate(actuals):
                    if off <= m.start() < off + len(a) + 1:
                        pos = k
                    off += len(a) + 1
                if pos is None or pos >= len(formals):
                    raise Unclassified("cannot map argument into helper %s" % callee)
                bi = file_src.index("{", pj)
                hb = file_src[bi + 1:match_close(file_src, bi)]
                formal = formals[pos].replace("mut ", "").strip()
                sub = scan_value_uses(hb, r"(?<![\w.])%s\b(?!\s*[:(])" % re.escape(formal), lambda _m: (idx, rest), "\0", casts, file_src, depth + 1)
                ml = min_len_at(text, m.start(), av)
                sites += [(i, r, k, max(ml, l), g) for (i, r, k, l, g) in sub if k != "any"]
        ml = min_len_at(text, m.start(), av) if av != "\0" else 0
        g = kind_guarded(text, m.start(), expr_re, kind)
        sites.append((idx, rest, kind, ml, g))
    return sites


def scan_call_body(body, av, casts, file_src):
    """sites of one `fn call` body; av = name of the `&[Value]` parameter"""
    body = expand_local_macros(body, file_src)
    text = body
    # aliases `let [mut] x = args[i];`  → substitute textually in the remainder of the body
    while True:
        m = re.search(r"\blet\s+(?:mut\s+)?(\w+)\s*=\s*(%s\[(\d+)\])\s*;" % av, text)
        if not m:
            break
        name, expr = m.group(1), m.group(2)
        tail = text[m.end():]
        # stop at a shadowing `let name =`
        sm = re.search(r"\blet\s+(?:mut\s+)?%s\b" % name, tail)
        cut = sm.start() if sm else len(tail)
        tail = re.sub(r"(?<![\w.$])\*?%s\b(?!\s*[:(!])" % name, expr, tail[:cut]) + tail[cut:]
        text = text[:m.start()] + "let _ = (%s);" % expr + tail
    # iteration over the argument slice: `for x in args.iter().skip(k) {` / `for x in &args[k..] {` /
    # `for (i, x) in args.iter().skip(k).enumerate() {` (the counter `i` is not a Value and is left alone)
    while True:
        m = re.search(r"\bfor\s+(?:(\w+)\s+in\s+(?:&\s*%s\[(\d+)\.\.\]|%s\s*\.iter\(\)(?:\s*\.skip\((\d+)\))?)"
                      r"|\(\s*(\w+)\s*,\s*(\w+)\s*\)\s+in\s+%s\s*\.iter\(\)(?:\s*\.skip\((\d+)\))?\s*\.enumerate\(\))\s*\{" % (av, av, av), text)
        if not m:
            break
        var = m.group(1) or m.group(5)
        k = int(m.group(2) or m.group(3) or m.group(6) or 0)
        j = match_close(text, m.end() - 1)
        if m.group(4) and (m.group(4) == var or re.search(r"(?<![\w.])%s\s*\.\s*(to_|is_)" % m.group(4), text[m.end():j])):
            raise Unclassified("enumerate counter %s used as a value" % m.group(4))
        blk = re.sub(r"(?<![\w.])\*?%s\b(?!\s*[:(!])" % var, "%s[@%d]" % (av, k), text[m.end():j])
        text = text[:m.start()] + "for _ in _REST_ {" + blk + text[j:]
    # `args[k..].iter().map(|x| ...)` / `args.iter().map(|x| ...)`
    for m in list(re.finditer(r"\b%s\s*(?:\[(\d+)\.\.\])?\s*\.\s*iter\(\)\s*(?:\.\s*skip\((\d+)\)\s*)?\.\s*map\(\s*\|\s*(\w+)\s*\|" % av, text)):
        k = int(m.group(1) or m.group(2) or 0)
        var = m.group(3)
        oi = text.rfind("(", 0, m.end())
        j = match_close(text, oi, "(", ")")
        blk = re.sub(r"(?<![\w.])\*?%s\b(?!\s*[:(!])" % var, "%s[@%d]" % (av, k), text[m.end():j])
        text = text[:m.start()] + "_REST_.map(|_| " + blk + text[j:]
    sites = scan_value_uses(text, r"\b%s\[(@?)(\d+)\]" % av, lambda m: (int(m.group(2)), m.group(1) == "@"), av, casts, file_src)
    # whole-slice uses: `&args[k..]` handed to hooks.call / call_method
    resid = re.sub(r"\b%s\[@?\d+\]" % av, "_", text)
    for m in list(re.finditer(r"&\s*%s\[(\d+)\.\.\]" % av, resid)):
        callee = innermost_callee(resid, m.start())
        if not sink_ok(callee):
            raise Unclassified("argument slice passed to %s" % callee)
        sites.append((int(m.group(1)), True, "any", min_len_at(resid, m.start(), av), False))
    resid = re.sub(r"&\s*%s\[(\d+)\.\.\]" % av, "_", resid)
    resid = re.sub(r"\b%s\s*\.\s*(len|is_empty)\(\)" % av, "_", resid)
    lm = re.search(r"\b%s\b" % av, resid)
    if lm:
        raise Unclassified("use of `%s` not understood: %r" % (av, norm(resid[max(0, lm.start() - 30):lm.end() + 30])))
    return sorted(set(sites))


CALLBACK_DIRECT = re.compile(r"\bhooks\s*\.\s*(call|call_method)\s*\(|\.\s*next\s*\(\s*hooks\s*\)")


def calls_back(body, file_src):
    """can this `call` body run user code?  (hooks.call / hooks.call_method / enumerator.next(hooks), directly or
    through a helper function / macro of the same file that receives `hooks`)"""
    try:
        body = expand_local_macros(body, file_src)
    except Unclassified:
        return True
    if CALLBACK_DIRECT.search(body):
        return True
    for m in re.finditer(r"(?<![\w.:])([a-z_]\w*)\s*\(", body):
        name = m.group(1)
        j = match_close(body, m.end() - 1, "(", ")")
        if not re.search(r"\bhooks\b", body[m.end():j]):
            continue
        fm = re.search(r"\bfn\s+%s\s*(?:<[^>]*>)?\s*\(" % re.escape(name), file_src)
        if not fm:
            continue
        bi = file_src.find("{", fm.end())
        if bi < 0:
            continue
        if CALLBACK_DIRECT.search(file_src[bi:match_close(file_src, bi)]):
            return True
    return False


def result_unwraps(text, casts):
    """unchecked unwraps of the result of hooks.call / hooks.call_method in `text` → list of (kind, how)"""
    out = []
    for m in re.finditer(r"\bhooks\s*\.\s*(call|call_method)\s*\(", text):
        j = match_close(text, m.end() - 1, "(", ")")
        k = j + 1
        q = re.compile(r"\s*\?").match(text, k)
        if q:
            k = q.end()
        names, _ = chain_at(text, k)
        try:
            kind = classify_chain(names, casts)
        except Unclassified:
            kind = "unknown"
        if kind != "any":
            out.append((kind, "direct"))
    # results bound to a name
    bound = []
    for m in re.finditer(r"\blet\s+(?:mut\s+)?(\w+)\s*=\s*([^;]*?\bhooks\s*\.\s*(?:call|call_method)\b[^;]*);", text, flags=re.S):
        rhs = m.group(2)
        if re.search(r"\bmatch\b", rhs):
            continue
        bound.append((m.group(1), m.end()))
    for m in re.finditer(r"\bmatch\s+hooks\s*\.\s*(?:call|call_method)\s*\(", text):
        j = match_close(text, m.end() - 1, "(", ")")
        bi = text.index("{", j)
        bj = match_close(text, bi)
        for a in re.finditer(r"(?:Call::)?Ok\(\s*(\w+)\s*\)\s*=>", text[bi:bj]):
            bound.append((a.group(1), bi + a.end()))
    for name, start in bound:
        for u in re.finditer(r"(?<![\w.])%s\b" % re.escape(name), text[start:]):
            p = start + u.end()
            names, _ = chain_at(text, p)
            if not names:
                continue
            try:
                kind = classify_chain(names, casts)
            except Unclassified:
                kind = "unknown"
            if kind == "any":
                continue
            if not kind_guarded(text, start + u.start(), re.escape(name), kind):
                out.append((kind, "bound " + name))
    return out


def field_reads(text, casts):
    """unwraps of an instance field, `instance[k].to_obj().to_str()` or through a name the field was bound to
    (`let pattern = instance[k]; … pattern.to_obj().to_str()`) → list of (variable, index, kind, guarded):
    guarded = a positive test of the same kind on the same expression dominates the unwrap"""
    out = []
    for m in re.finditer(r"\b(\w+)\[(\d+)\]", text):
        if m.group(1) in ("args", "_args"):
            continue
        names, _ = chain_at(text, m.end())
        if not names:
            continue
        try:
            kind = classify_chain(names, casts)
        except Unclassified:
            kind = "unknown"
        if kind != "any":
            out.append((m.group(1), int(m.group(2)), kind, kind_guarded(text, m.start(), re.escape(m.group(0)), kind)))
    # the field bound to a name first
    for m in re.finditer(r"\blet\s+(?:mut\s+)?(\w+)\s*(?::\s*Value\s*)?=\s*(\w+)\[(\d+)\]\s*;", text):
        name, var, k = m.group(1), m.group(2), int(m.group(3))
        if var in ("args", "_args"):
            continue
        # the name lives to the end of the block of its `let`
        depth, end = 0, len(text)
        for i in range(m.end(), len(text)):
            if text[i] in "{([":
                depth += 1
            elif text[i] in "})]":
                depth -= 1
                if depth < 0:
                    end = i
                    break
        for u in re.finditer(r"(?<![\w.])%s\b" % re.escape(name), text[m.end():end]):
            names, _ = chain_at(text, m.end() + u.end())
            if not names:
                continue
            try:
                kind = classify_chain(names, casts)
            except Unclassified:
                kind = "unknown"
            if kind != "any":
                out.append((var, k, kind, kind_guarded(text, m.end() + u.start(), re.escape(name), kind)))
    return out


def field_unwraps(text, casts):
    """the unchecked ones of `field_reads`"""
    return [(v, k, kind) for v, k, kind, guarded in field_reads(text, casts) if not guarded]


def field_guarded(text, casts):
    """the tested ones of `field_reads`"""
    return [(v, k, kind) for v, k, kind, guarded in field_reads(text, casts) if guarded]


def enclosing_fn(text, pos):
    best = None
    for m in re.finditer(r"\bfn\s+(\w+)\s*(?:<[^>]*>)?\s*\(", text[:pos]):
        best = m
    return best.group(1) if best else "?"


def owner_of(src, pos, stmt, consts, rel):
    """class owning the method registered at src[pos] by the statement text `stmt` (`recv.add_method(`)"""
    best = None
    for m in re.finditer(r"\bfn\s+(\w+)\s*(?:<[^>]*>)?\s*\(", src[:pos]):
        best = m
    if not best:
        raise TranslateError("%s: registration outside a function" % rel)
    bi = src.index("{", best.end())
    upto = src[bi:pos]
    rm = re.match(r"\s*(\w+)\s*\.", stmt)
    if not rm:
        raise TranslateError("%s: receiver of add_method not understood: %r" % (rel, norm(stmt)[:80]))
    recv = rm.group(1)
    m = None
    for m in re.finditer(r"let\s+(?:mut\s+)?%s\s*=\s*([^;]+);" % recv, upto):
        pass
    if not m:
        raise TranslateError("%s: no `let %s = ...` before a method registration in %s" % (rel, recv, best.group(1)))
    rhs = norm(m.group(1))
    for v in re.findall(r"\b[a-z_]\w*\b", rhs):  # one level of `let name = hooks.manage_str(X_CLASS_NAME);`
        for lm in re.finditer(r"let\s+(?:mut\s+)?%s\s*=\s*([^;]+);" % v, upto):
            rhs += " " + norm(lm.group(1))
    for ident in re.findall(r"\b[A-Z][A-Z0-9_]+\b", rhs):
        if ident in consts and ident.endswith("_NAME") and not ident.endswith("_INSTANCE_NAME"):
            return consts[ident]
    names = sorted(set(v for k, v in consts.items() if k.endswith("_CLASS_NAME") and consts.get("__file_" + k) == rel))
    if len(names) == 1:
        return names[0]
    raise TranslateError("%s: cannot determine the class in %s (%r; candidates %s)" % (rel, best.group(1), rhs[:80], names))


def module_path_of(rel):
    """Laythe import path of the module a file's natives are exported from (None = global scope)"""
    table = [
        ("laythe_lib/src/global/", None),
        ("laythe_lib/src/math/", "std.math"),
        ("laythe_lib/src/io/fs/", "std.io.fs"),
        ("laythe_lib/src/io/stdio/", "std.io.stdio"),
        ("laythe_lib/src/io/global/", "std.io"),
        ("laythe_lib/src/env/", "std.env"),
        ("laythe_lib/src/regexp/", "std.regexp"),
    ]
    for pre, mod in table:
        if rel.startswith(pre):
            return mod
    raise TranslateError("natives in an unknown module directory: %s" % rel)


def collect_natives(repo, casts):
    files = sorted(glob.glob(os.path.join(repo, "laythe_lib", "src", "**", "*.rs"), recursive=True))
    if len(files) < 20:
        raise TranslateError("laythe_lib/src: only %d files found" % len(files))
    consts = {}
    core_consts = strip_comments(read(repo, "laythe_core/src/constants.rs"))
    for m in re.finditer(r'pub const (\w+)\s*:\s*&str\s*=\s*"([^"]*)"\s*;', core_consts):
        consts[m.group(1)] = m.group(2)
    srcs = {}
    for f in files:
        rel = os.path.relpath(f, repo)
        s = strip_test_modules(strip_comments(open(f).read()))
        srcs[rel] = s
        for m in re.finditer(r'(?:pub(?:\([a-z]+\))?\s+)?const (\w+)\s*:\s*&str\s*=\s*"([^"]*)"\s*;', s):
            consts[m.group(1)] = m.group(2)
            consts["__file_" + m.group(1)] = rel
        for m in re.finditer(r'(?:pub(?:\([a-z]+\))?\s+)?const (\w+)\s*:\s*&str\s*=\s*([A-Z][A-Z0-9_]*)\s*;', s):
            if m.group(2) not in consts:
                raise TranslateError("%s: constant %s = %s cannot be resolved" % (rel, m.group(1), m.group(2)))
            consts[m.group(1)] = consts[m.group(2)]
            consts["__file_" + m.group(1)] = rel
    # modules compiled only for tests: `#[cfg(test)] mod x;`
    test_only = set()
    for rel, s in srcs.items():
        for m in re.finditer(r"#\[cfg\(test\)\]\s*(?:pub\s+)?mod\s+(\w+)\s*;", s):
            d = os.path.dirname(rel)
            test_only.add(os.path.join(d, m.group(1) + ".rs"))
            test_only.add(os.path.join(d, m.group(1), "mod.rs"))
    rows, results, fields, skipped, guarded_fields = [], [], [], [], []
    all_src = "\n".join(s for rel, s in srcs.items() if rel not in test_only)
    for rel, s in sorted(srcs.items()):
        if rel in test_only:
            n = len(re.findall(r"impl LyNative for", s))
            if n:
                skipped.append("%s (%d test-only natives)" % (rel, n))
            continue
        metas = {}
        for m in re.finditer(r"const (\w+)\s*:\s*NativeMetaBuilder\s*=\s*", s):
            j = s.index(";", m.end())
            metas[m.group(1)] = parse_meta(s[m.end():j], consts, "%s:%s" % (rel, m.group(1)))
        impls = list(re.finditer(r"impl\s+LyNative\s+for\s+(\w+)\s*\{", s))
        used_meta = set()
        for im in impls:
            st = im.group(1)
            what = "%s:%s" % (rel, st)
            ibody = s[im.end():match_close(s, im.end() - 1)]
            # which meta
            mm = re.search(r"native(?:_with_error)?!\s*\(\s*%s\s*,\s*(\w+)\s*\)" % st, s)
            if mm:
                meta_name = mm.group(1)
            else:
                meta_name = None
                for sm in re.finditer(r"impl\s+%s\s*\{" % st, s):
                    sb = s[sm.end():match_close(s, sm.end() - 1)]
                    bm = re.search(r"(\w+)\s*\.\s*build\(\s*hooks\s*\)", sb)
                    if bm:
                        meta_name = bm.group(1)
                if meta_name is None:
                    raise TranslateError("%s: cannot find the NativeMetaBuilder it is built from" % what)
            if meta_name not in metas:
                raise TranslateError("%s: meta constant %s not found in the file" % (what, meta_name))
            used_meta.add(meta_name)
            meta = metas[meta_name]
            # registration
            regs = [r for r in re.finditer(r"\b%s::native\s*\(" % st, all_src)]
            regs_here = [r for r in re.finditer(r"\b%s::native\s*\(" % st, s)]
            if not regs:
                skipped.append("%s (never registered)" % what)
                continue
            if len(regs_here) != 1:
                raise TranslateError("%s: registered %d times in its file" % (what, len(regs_here)))
            rp = regs_here[0].start()
            stmt_start = max(s.rfind(";", 0, rp), s.rfind("{", 0, rp)) + 1
            stmt = s[stmt_start:rp]
            if "add_method" in stmt:
                owner = owner_of(s, rp, stmt, consts, rel)
                static = "meta_class()" in stmt
                nm = re.search(r"\b([A-Z][A-Z0-9_]*)\.name\b", stmt)
                if not nm or nm.group(1) != meta_name:
                    raise TranslateError("%s: registered under the name of %s, built from %s" % (what, nm.group(1) if nm else "?", meta_name))
            elif re.search(r"export_and_insert(_native)?\s*\(", stmt) or re.search(r"export_and_insert(_native)?\s*\(", s[max(0, stmt_start - 200):rp]):
                owner, static = "", False
            else:
                raise TranslateError("%s: registration statement not understood: %r" % (what, norm(stmt)[-120:]))
            if meta["is_method"] and owner == "":
                raise TranslateError("%s: a `method` meta registered as a module function" % what)
            # call bodies
            sites, reason = [], ""
            calls = list(re.finditer(r"fn\s+call\s*\(\s*&self\s*,\s*(\w+)\s*:\s*&mut\s+Hooks\s*,\s*(\w+)\s*:\s*&\[Value\]\s*\)\s*->\s*Call\s*\{", ibody))
            if not calls:
                raise TranslateError("%s: fn call(&self, hooks, args) not found" % what)
            try:
                for c in calls:
                    cb = ibody[c.end():match_close(ibody, c.end() - 1)]
                    cb = strip_strings(cb)
                    av = c.group(2)
                    if av.startswith("_"):
                        if av != "_" and re.search(r"\b%s\b" % av, cb):
                            raise Unclassified("underscore parameter %s is used" % av)
                        continue
                    sites += scan_call_body(cb, av, casts, s)
                sites = sorted(set(sites))
            except Unclassified as e:
                sites, reason = [], str(e)
            cbk = False
            for c in calls:
                cb = strip_strings(ibody[c.end():match_close(ibody, c.end() - 1)])
                cbk = cbk or calls_back(cb, s)
            rows.append({"callsBack": cbk, "struct": st, "file": rel, "module": module_path_of(rel), "owner": owner, "static": static,
                         "sites": sites, "unclassified": reason, **meta})
        unused = set(metas) - used_meta
        if unused:
            raise TranslateError("%s: NativeMetaBuilder constants without an `impl LyNative`: %s" % (rel, sorted(unused)))
        # callback-result and field unwraps anywhere in the (non-test) file
        s2 = strip_strings(s)
        # attribute each finding to its enclosing fn / impl
        for im in re.finditer(r"\bimpl(?:\s*<[^>]*>)?\s+(?:(\w+)\s+for\s+)?(\w+)[^{;]*\{", s2):
            j = match_close(s2, im.end() - 1)
            blk = s2[im.end():j]
            owner_name = im.group(2)
            for fm in re.finditer(r"\bfn\s+(\w+)\s*(?:<[^>]*>)?\s*\(", blk):
                bi = blk.find("{", fm.end())
                semi = blk.find(";", fm.end())
                if bi < 0 or (0 <= semi < bi):
                    continue
                fb = blk[bi:match_close(blk, bi) + 1]
                for kind, how in result_unwraps(fb, casts):
                    results.append((rel, "%s::%s" % (owner_name, fm.group(1)), kind, how))
                for var, k, kind in field_unwraps(fb, casts):
                    fields.append((rel, "%s::%s" % (owner_name, fm.group(1)), "%s[%d]" % (var, k), kind))
                for var, k, kind in field_guarded(fb, casts):
                    guarded_fields.append((rel, "%s::%s" % (owner_name, fm.group(1)), "%s[%d]" % (var, k), kind))
        for mm in re.finditer(r"macro_rules!\s*(\w+)\s*\{", s2):
            mb = s2[mm.end():match_close(s2, mm.end() - 1)]
            for kind, how in result_unwraps(mb, casts):
                results.append((rel, "macro %s!" % mm.group(1), kind, how))
            for var, k, kind in field_unwraps(mb, casts):
                fields.append((rel, "macro %s!" % mm.group(1), "%s[%d]" % (var, k), kind))
            for var, k, kind in field_guarded(mb, casts):
                guarded_fields.append((rel, "macro %s!" % mm.group(1), "%s[%d]" % (var, k), kind))
        # free functions
        top = s2
        for fm in re.finditer(r"(?m)^(?:pub(?:\([a-z]+\))?\s+)?fn\s+(\w+)\s*(?:<[^>]*>)?\s*\(", top):
            bi = top.find("{", fm.end())
            fb = top[bi:match_close(top, bi) + 1]
            for kind, how in result_unwraps(fb, casts):
                results.append((rel, "fn %s" % fm.group(1), kind, how))
            for var, k, kind in field_unwraps(fb, casts):
                fields.append((rel, "fn %s" % fm.group(1), "%s[%d]" % (var, k), kind))
            for var, k, kind in field_guarded(fb, casts):
                guarded_fields.append((rel, "fn %s" % fm.group(1), "%s[%d]" % (var, k), kind))
    # the VM's own unwraps of `str()` results
    ops = strip_strings(strip_comments(read(repo, "laythe_vm/src/vm/ops.rs")))
    ib = fn_body(ops, r"unsafe fn op_interpolate\s*\(", "op_interpolate")
    n_unchecked = len(re.findall(r"\.to_obj\(\)\s*\.to_str\(\)", ib))
    if n_unchecked and not re.search(r"is_obj_kind\(\s*ObjectKind::String\s*\)", ib):
        results.append(("laythe_vm/src/vm/ops.rs", "Vm::op_interpolate", "ok:String", "stack slice x%d" % n_unchecked))
    # the VM's own unwraps of instance fields (`Fiber::print_error` reads the message field of an uncaught error)
    for f in sorted(glob.glob(os.path.join(repo, "laythe_vm", "src", "**", "*.rs"), recursive=True)):
        rel = os.path.relpath(f, repo)
        t = strip_strings(strip_test_modules(strip_comments(open(f).read())))
        for fm in re.finditer(r"\bfn\s+(\w+)\s*(?:<[^>]*>)?\s*\(", t):
            bi = t.find("{", fm.end())
            semi = t.find(";", fm.end())
            if bi < 0 or (0 <= semi < bi):
                continue
            fb = t[bi:match_close(t, bi) + 1]
            for var, k, kind in field_unwraps(fb, casts):
                fields.append((rel, "fn %s" % fm.group(1), "%s[%d]" % (var, k), kind))
            for var, k, kind in field_guarded(fb, casts):
                guarded_fields.append((rel, "fn %s" % fm.group(1), "%s[%d]" % (var, k), kind))
    if len(rows) < 100:
        raise TranslateError("only %d natives found (expected well over 100)" % len(rows))
    counted = {}
    for r in results:
        counted[r] = counted.get(r, 0) + 1
    results = [(a, b, k, "%s x%d" % (h, n) if not h.startswith("stack") else h) for (a, b, k, h), n in counted.items()]
    return rows, sorted(set(results)), sorted(set(fields)), skipped, sorted(set(guarded_fields))


def lean_ukind(k):
    if k.startswith("ok:"):
        return "(.ok .%s)" % ok_ctor(k[3:])
    return "." + k


def ok_ctor(name):
    n = name[0].lower() + name[1:]
    return n + "_" if n in ("fun", "class", "instance", "open", "end", "from", "at", "in", "do", "then", "else", "if", "let", "have", "show", "where", "with", "deriving") else n


def value_classes(repo):
    """`BuiltInPrimitives::for_value`: value kind / object kind -> name of the class methods are looked up in"""
    rel = "laythe_lib/src/builtin.rs"
    src = strip_comments(read(repo, rel))
    body = fn_body(src, r"pub fn for_value\s*\(\s*&self\s*,\s*value\s*:\s*Value\s*\)", "BuiltInPrimitives::for_value")
    consts = {}
    for f in glob.glob(os.path.join(repo, "laythe_lib", "src", "**", "*.rs"), recursive=True):
        for m in re.finditer(r'const (\w+)\s*:\s*&str\s*=\s*"([^"]*)"\s*;', open(f).read()):
            consts[m.group(1)] = m.group(2)
    cc = strip_comments(read(repo, "laythe_core/src/constants.rs"))
    for m in re.finditer(r'pub const (\w+)\s*:\s*&str\s*=\s*"([^"]*)"\s*;', cc):
        consts[m.group(1)] = m.group(2)
    consts.setdefault("OBJECT_CLASS_NAME", consts.get("OBJECT", "Object"))
    pm = re.search(r"primitives\s*:\s*BuiltInPrimitives\s*\{", src[src.index("pub fn builtin_from_module"):])
    if not pm:
        raise TranslateError("builtin_from_module: primitives initialiser not found")
    base = src.index("pub fn builtin_from_module")
    pb = src[base + pm.end():match_close(src, base + pm.end() - 1)]
    fields = {}
    for part in split_top(pb, ","):
        fm = re.match(r"\s*(\w+)\s*:\s*module\s*\.\s*get_symbol_by_name\(\s*hooks\.manage_str\(\s*(\w+)\s*\)\s*\)", part, flags=re.S)
        if fm:
            if fm.group(2) not in consts:
                raise TranslateError("builtin_from_module: unknown class name constant %s" % fm.group(2))
            fields[fm.group(1)] = consts[fm.group(2)]
        elif part.strip():
            raise TranslateError("builtin_from_module: cannot parse %r" % norm(part)[:80])
    out = []
    for m in re.finditer(r"(ValueKind|ObjectKind)::(\w+)\s*=>\s*([^,{]+|\{)", body):
        ns, k, rhs = m.group(1), m.group(2), norm(m.group(3))
        if rhs == "{":
            if (ns, k) != ("ValueKind", "Obj"):
                raise TranslateError("for_value: block arm for %s::%s" % (ns, k))
            continue
        fm = re.fullmatch(r"self\.(\w+)", rhs)
        if fm:
            if fm.group(1) not in fields:
                raise TranslateError("for_value: unknown primitives field %s" % fm.group(1))
            cls = fields[fm.group(1)]
        elif rhs.startswith("panic!"):
            cls = "<panic>"
        elif "meta_class()" in rhs:
            cls = "<meta>"
        elif "to_instance().class()" in rhs:
            cls = "<instance>"
        elif "to_box()" in rhs:
            cls = "<box>"
        else:
            raise TranslateError("for_value: cannot understand arm %s::%s => %r" % (ns, k, rhs[:60]))
        out.append((ns, k, cls))
    return out


def gen_natives(repo, out):
    info = gen_sigtable(repo, out)
    vcls = value_classes(repo)
    rows, results, fields, skipped, guarded_fields = collect_natives(repo, info["casts"])
    pk = info["pkinds"]
    ok = info["okinds"]
    L = [HEADER % "laythe_lib/src/**/*.rs (+ laythe_core/src/signature.rs, object/mod.rs; laythe_vm/src/vm/ops.rs)",
         "namespace LaytheVerif.Gen\n",
         "/-- `laythe_core::signature::Arity` -/",
         "inductive Arity where\n  | fixed (n : Nat)\n  | variadic (n : Nat)\n  | default (lo hi : Nat)\n  deriving DecidableEq, Repr, Inhabited\n",
         "/-- `laythe_core::signature::ParameterKind` (regenerated from the enum) -/",
         "inductive PKind where"]
    L += ["  | %s" % ok_ctor(k) for k in pk]
    L.append("  deriving DecidableEq, Repr, Inhabited\n")
    L.append("/-- `laythe_core::object::ObjectKind` (regenerated from the enum) -/")
    L.append("inductive ObjKind where")
    L += ["  | %s" % ok_ctor(k) for k in ok]
    L.append("  deriving DecidableEq, Repr, Inhabited\n")
    L.append("def ObjKind.all : List ObjKind := [" + ", ".join("." + ok_ctor(k) for k in ok) + "]\n")
    L.append("def PKind.all : List PKind := [" + ", ".join("." + ok_ctor(k) for k in pk) + "]\n")
    L.append("def ObjKind.name : ObjKind → String")
    L += ["  | .%s => %s" % (ok_ctor(k), lean_str(k)) for k in ok]
    L.append("\ndef PKind.name : PKind → String")
    L += ["  | .%s => %s" % (ok_ctor(k), lean_str(k)) for k in pk]
    L.append("")
    L.append("/-- what a native body assumes about a value when it unwraps it:\n"
             "    `to_num()` / `to_bool()` / `to_obj()` (panics otherwise), `to_obj().to_<kind>()` (an *unchecked* cast),\n"
             "    `any` = the value is only indexed / passed on -/")
    L.append("inductive UKind where\n  | any | num | bool | obj | ok (k : ObjKind)\n  deriving DecidableEq, Repr, Inhabited\n")
    L.append("/-- one use of the argument slice in a `call` body -/")
    L.append("structure Site where\n  idx : Nat\n  /-- the use ranges over every index ≥ idx (iteration over the slice) -/\n  rest : Bool\n  kind : UKind\n"
             "  /-- lower bound on `args.len()` established by the enclosing `if args.len() > k` / `match args.len()` arm -/\n  minLen : Nat\n"
             "  /-- the unwrap is dominated by the matching `is_*` test -/\n  guarded : Bool\n  deriving DecidableEq, Repr, Inhabited\n")
    L.append("structure NativeRow where\n  struct : String\n  name : String\n  file : String\n  /-- Laythe import path of the exporting module (\"\" = global) -/\n  module : String\n"
             "  isMethod : Bool\n  /-- class the native is a method of (\"\" = module function) -/\n  owner : String\n  static : Bool\n  arity : Arity\n  params : List PKind\n"
             "  stack : Bool\n  /-- the body can run user code (hooks.call / call_method / enumerator.next) -/\n  callsBack : Bool\n  sites : List Site\n  /-- non-empty: the scan could not classify the body (reason) -/\n  unclassified : String\n  deriving DecidableEq, Repr, Inhabited\n")
    L.append("def natives : List NativeRow := [")
    rl = []
    for r in rows:
        ar, a, b = r["arity"]
        ars = {"Fixed": ".fixed %d" % a, "Variadic": ".variadic %d" % a, "Default": ".default %d %s" % (a, b)}[ar]
        sites = ", ".join("⟨%d, %s, %s, %d, %s⟩" % (i, "true" if rest else "false", lean_ukind(k), ml, "true" if g else "false")
                          for (i, rest, k, ml, g) in r["sites"])
        rl.append("  ⟨%s, %s, %s, %s, %s, %s, %s, %s, [%s], %s, %s,\n    [%s], %s⟩" % (
            lean_str(r["struct"]), lean_str(r["name"]), lean_str(r["file"]), lean_str(r["module"] or ""),
            "true" if r["is_method"] else "false", lean_str(r["owner"]), "true" if r["static"] else "false", ars,
            ", ".join("." + ok_ctor(k) for _, k in r["params"]), "true" if r["stack"] else "false", "true" if r["callsBack"] else "false", sites, lean_str(r["unclassified"])))
    L.append(",\n".join(rl))
    L.append("]\n")
    L.append("/-- places where the *result* of a user callback (`hooks.call`, `hooks.call_method`, a `str()` result on the\n"
             "    VM stack) is unwrapped without a test: (file, function, assumed kind, how) -/")
    L.append("def resultUnwraps : List (String × String × UKind × String) := [")
    L.append(",\n".join("  (%s, %s, %s, %s)" % (lean_str(a), lean_str(b), lean_ukind(k) if k != "unknown" else ".any", lean_str(h)) for a, b, k, h in results))
    L.append("]\n")
    L.append("/-- places where a *field of an instance* is unwrapped without a test (fields are assignable from Laythe) -/")
    L.append("def fieldUnwraps : List (String × String × String × UKind) := [")
    L.append(",\n".join("  (%s, %s, %s, %s)" % (lean_str(a), lean_str(b), lean_str(c), lean_ukind(k) if k != "unknown" else ".any") for a, b, c, k in fields))
    L.append("]\n")
    L.append("/-- places where a field of an instance is unwrapped *behind a test of its kind* (directly or through a name the\n"
             "    field was bound to): (file, function, field, tested kind) -/")
    L.append("def guardedFieldUnwraps : List (String × String × String × UKind) := [")
    L.append(",\n".join("  (%s, %s, %s, %s)" % (lean_str(a), lean_str(b), lean_str(c), lean_ukind(k) if k != "unknown" else ".any") for a, b, c, k in guarded_fields))
    L.append("]\n")
    L.append("/-- `BuiltInPrimitives::for_value`: (enum, kind, class whose methods a value of that kind dispatches to);\n"
             "    `<meta>` = the class's meta class, `<instance>` = the instance's own class, `<box>` = the boxed value's class -/")
    L.append("def valueClass : List (String × String × String) := [")
    L.append(",\n".join("  (%s, %s, %s)" % (lean_str(a), lean_str(b), lean_str(c)) for a, b, c in vcls))
    L.append("]\n")
    L.append("/-- natives that exist only for unit tests or are never registered (not part of the table) -/")
    L.append("def skippedNatives : List String := [" + ", ".join(lean_str(x) for x in skipped) + "]\n")
    L.append("end LaytheVerif.Gen\n")
    write_if_changed(os.path.join(out, "Natives.lean"), "\n".join(L))
    return rows, results, fields


# ---------------------------------------------------------------------------------------------
# constants.rs, vm/ops.rs, fiber  ->  Gen/Limits.lean


OVERFLOW_RETURN = (r"\s*return\s+self\.runtime_error_from_str\(\s*self\.builtin\.errors\.runtime\s*,\s*\"_*\"\s*,?\s*\)\s*;\s*")
_CN_GUARD = r"\bif\s+self\.fiber\.frames\(\)\.len\(\)\s*(?P<op>==|>=|>|<=|<|!=)\s*(?P<bound>\w+)\s*\{"
_CN_EVENT = re.compile(
    r"(?P<guard>" + _CN_GUARD + r")"
    r"|(?P<push_root>\b(?:self|hooks)\s*\.\s*push_root\s*\()"
    r"|(?P<pop_roots>\b(?:self|hooks)\s*\.\s*pop_roots\s*\(\s*(?P<n>\w+)\s*\))"
    r"|(?P<push_frame>\bself\s*\.\s*push_frame\s*\()"
    r"|(?P<pop_frame>\bself\s*\.\s*pop_frame\s*\(\s*\))"
    r"|(?P<call>\bnative\s*\.\s*call\s*\()"
    r"|(?P<assert_roots>\bassert_roots\s*\()"
    r"|(?P<ret>\breturn\b)")
_CN_ARMS = [("Ok", r"Call::Ok\(\s*\w+\s*\)\s*=>"), ("Err", r"Call::Err\(\s*LyError::Err\(\s*\w+\s*\)\s*\)\s*=>"),
            ("Exit", r"Call::Err\(\s*LyError::Exit\(\s*\w+\s*\)\s*\)\s*=>")]


def _cn_events(text):
    """root / frame events of a stretch of call_native in source order: [(token, match)]; a frame-limit test whose block is
    exactly the `Stack overflow.` return is the single token `guard <op> <bound>` (its `return` is consumed), any other
    frame-limit test is written out with the events of its block"""
    out = []
    i = 0
    while True:
        m = _CN_EVENT.search(text, i)
        if not m:
            return out
        i = m.end()
        if m.group("guard"):
            j = match_close(text, m.end() - 1)
            blk = text[m.end():j]
            head = "guard %s %s" % (m.group("op"), m.group("bound"))
            if re.fullmatch(OVERFLOW_RETURN, blk):
                out.append((head, m))
            else:
                inner = []
                for st in split_top(blk, ";"):
                    evs = [t for t, _ in _cn_events(st)]
                    inner += evs if evs else ([norm(st)] if norm(st) else [])
                out.append((head + " { " + "; ".join(inner) + " }", m))
            i = j + 1
        elif m.group("pop_roots"):
            out.append(("pop_roots %s" % m.group("n"), m))
        elif m.group("ret"):
            out.append(("return", m))
        else:
            out.append((m.lastgroup, m))


def _roots(tokens):
    """(temporary roots pushed, popped) by a list of event tokens; None for a `pop_roots` whose count is not a literal"""
    pushed = sum(1 for t in tokens if t == "push_root")
    popped = 0
    for t in tokens:
        if t.startswith("pop_roots "):
            if not t[10:].isdigit():
                raise TranslateError("call_native: pop_roots(%s): count is not a literal" % t[10:])
            popped += int(t[10:])
    return pushed, popped


def call_native_roots(cn):
    """`Vm::call_native` (strings blanked): the temporary roots (the stub `Fun` is rooted across `push_frame`) and the frames on
    every way out of the function.
    returns (pre, post, exits):
      pre   events of the arm `NativeEnvironment::Normal` in front of `native.call(..)`, in source order
      post  per arm of the `match` on the native's result, per environment: (environment, arm, events)
      exits per way out: (environment, exit, roots pushed textually before it, roots popped before it)
    The function is straight-line apart from blocks that return (the frame-limit test) and the final `match`: a root pushed or
    popped inside any other nested block is not understood."""
    mm = re.search(r"match\s+native\.environment\(\)\s*\{", cn)
    if not mm:
        raise TranslateError("call_native: `match native.environment()` not found")
    prelude = cn[:mm.start()]
    envs = cn[mm.end():match_close(cn, mm.end() - 1)]
    sl = re.search(r"NativeEnvironment::StackLess\s*=>\s*match\s+native\.call\([^;{]*\)\s*\{", envs)
    nm = re.search(r"NativeEnvironment::Normal\s*=>\s*\{", envs)
    if not sl or not nm:
        raise TranslateError("call_native: the arms NativeEnvironment::StackLess => match native.call(..) {..} / Normal => {..} changed shape")
    stackless = envs[sl.end():match_close(envs, sl.end() - 1)]
    normal = envs[nm.end():match_close(envs, nm.end() - 1)]
    rm = re.search(r"match\s+result\s*\{", normal)
    if not rm or len(re.findall(r"\bnative\s*\.\s*call\s*\(", normal)) != 1 or normal.find("native.call(") > rm.start():
        raise TranslateError("call_native (Normal): `let result = native.call(..); .. match result {..}` changed shape")
    straight = normal[:rm.start()]
    result_arms = normal[rm.end():match_close(normal, rm.end() - 1)]
    if normal[match_close(normal, rm.end() - 1) + 1:].strip():
        raise TranslateError("call_native (Normal): code after `match result {..}`")

    def no_nested_roots(text, what):
        # blocks other than the frame-limit tests (consumed by _cn_events) must not touch the roots or the frames
        t = text
        while True:
            g = re.search(_CN_GUARD, t)
            if not g:
                break
            t = t[:g.start()] + t[match_close(t, g.end() - 1) + 1:]
        depth = 0
        for k, c in enumerate(t):
            if c == "{":
                depth += 1
            elif c == "}":
                depth -= 1
            elif depth > 0 and c in "sh" and re.match(r"(?:self|hooks)\s*\.\s*(?:push_root|pop_roots|push_frame|pop_frame)\s*\(", t[k:]):
                raise TranslateError("call_native (%s): a root or a frame is pushed / popped inside a nested block" % what)

    no_nested_roots(straight, "Normal")
    no_nested_roots(prelude, "prelude")

    def arms_of(text, what):
        out = []
        for name, rx in _CN_ARMS:
            ms = list(re.finditer(rx, text))
            if len(ms) != 1:
                raise TranslateError("call_native (%s): expected exactly one arm %s" % (what, name))
            rest = text[ms[0].end():]
            k = len(rest) - len(rest.lstrip())
            if rest[k:k + 1] == "{":
                body = rest[k + 1:match_close(rest, k)]
            else:
                body = split_top(rest, ",")[0]
            out.append((name, [t for t, _ in _cn_events(body)]))
        return out

    exits = []
    pre_tokens = [t for t, _ in _cn_events(prelude)]
    k = 0
    for idx, t in enumerate(pre_tokens):
        if t == "return":
            exits.append(("", "return %d" % k) + _roots(pre_tokens[:idx]))
            k += 1
    before = [t for t in pre_tokens if t != "return"]
    post = []
    for name, toks in arms_of(stackless, "StackLess"):
        post.append(("StackLess", name, toks))
        exits.append(("StackLess", name) + _roots(before + toks))
    ev = _cn_events(straight)
    toks = [t for t, _ in ev]
    if "call" not in toks:
        raise TranslateError("call_native (Normal): native.call(..) sits inside a frame-limit test")
    for idx, t in enumerate(toks):
        if t.startswith("guard "):
            # the guarded block returns: the roots live there are the ones pushed in front of the test plus its own
            inner = [x for x in re.sub(r"^guard \S+ \S+( \{ (.*) \})?$", r"\2", t).split("; ") if x]
            if inner and "return" not in inner:
                raise TranslateError("call_native (Normal): a frame-limit test whose block does not return")
            inner = inner[:inner.index("return")] if inner else inner
            exits.append(("Normal", "frame-limit test %d" % sum(1 for x in toks[:idx] if x.startswith("guard "))) + _roots(before + toks[:idx] + inner))
        elif t == "return":
            raise TranslateError("call_native (Normal): a `return` outside a frame-limit test")
    pre = toks[:toks.index("call")]
    mid = toks[toks.index("call") + 1:]
    for name, atoks in arms_of(result_arms, "Normal"):
        post.append(("Normal", name, mid + atoks))
        exits.append(("Normal", name) + _roots(before + toks + atoks))
    return pre, post, exits


def gen_limits(repo, out):
    rel = "laythe_vm/src/constants.rs"
    src = strip_comments(read(repo, rel))
    m = re.search(r"pub const MAX_FRAME_SIZE\s*:\s*usize\s*=\s*(\d+)\s*;", src)
    if not m:
        raise TranslateError("MAX_FRAME_SIZE not found")
    max_frame = int(m.group(1))
    # the initial stack of a fiber: `Fiber::new` / `Fiber::split` copy `stack_count` slots out of a slice
    frel = "laythe_vm/src/fiber/mod.rs"
    fsrc = strip_test_modules(strip_comments(read(repo, frel)))
    fiber_init = []
    for fn in ("new", "split"):
        body = fn_body(fsrc, r"pub fn %s\s*<\s*C\s*:\s*TraceRoot\s*\+\s*GcContext\s*>\s*\(" % fn, "Fiber::%s" % fn)
        sm = re.findall(r"let\s+mut\s+stack\s*=\s*UniqueVector::new\(\s*allocator\.manage\(\s*VecBuilder::new\(\s*(&[^,]+?)\s*,\s*(\w+)\s*,?\s*\)\s*,\s*context\s*,?\s*\)\s*,?\s*\)\s*;", body)
        if len(sm) != 1:
            raise TranslateError("Fiber::%s: the construction of the initial stack (`let mut stack = UniqueVector::new(allocator.manage(VecBuilder::new(..` changed" % fn)
        slice_e, count_e = norm(sm[0][0]), sm[0][1]
        lm = re.fullmatch(r"&\s*(\w+)", slice_e)
        if lm:
            defs = list(re.finditer(r"let\s+%s\s*=\s*" % lm.group(1), body))
            if len(defs) != 1:
                raise TranslateError("Fiber::%s: `%s` is not bound exactly once" % (fn, lm.group(1)))
            slice_e = "&" + norm(split_top(body[defs[0].end():], ";")[0])
        fiber_init.append((fn, slice_e, count_e))
    ops = strip_comments(read(repo, "laythe_vm/src/vm/ops.rs"))
    guard_re = r"if\s+self\.fiber\.frames\(\)\.len\(\)\s*(==|>=|>|<=|<|!=)\s*([A-Z_0-9a-z]+)\s*\{"

    def guard_before_push(text, what):
        """the (comparison, bound) of the last limit test that returns the runtime error in front of the one push_frame"""
        if len(re.findall(r"self\.push_frame\(", text)) != 1:
            raise TranslateError("%s: expected exactly one push_frame" % what)
        pf = text.find("self.push_frame(")
        g = None
        for gm in re.finditer(guard_re, text[:pf]):
            blk = text[gm.end():match_close(text, gm.end() - 1)]
            if re.fullmatch(r"\s*return\s+self\.runtime_error_from_str\(\s*self\.builtin\.errors\.runtime\s*,\s*\"_*\"\s*,?\s*\)\s*;\s*", blk):
                g = (gm.group(1), gm.group(2))
        return g

    guards = []
    # call_native: the stub frame is pushed in the arm of NativeEnvironment::Normal only
    cn = strip_strings(fn_body(ops, r"unsafe fn call_native\s*\(", "call_native"))
    nm = re.search(r"NativeEnvironment::Normal\s*=>\s*\{", cn)
    if not nm:
        raise TranslateError("call_native: arm NativeEnvironment::Normal not found")
    normal = cn[nm.end():match_close(cn, nm.end() - 1)]
    native_push = len(re.findall(r"self\.push_frame\(", cn))
    if native_push != len(re.findall(r"self\.push_frame\(", normal)):
        raise TranslateError("call_native: a frame is pushed outside the arm NativeEnvironment::Normal")
    g = guard_before_push(normal, "call_native (Normal)")
    guards.append(("call_native", g[0] if g else "", g[1] if g else ""))
    cn_pre, cn_post, cn_exits = call_native_roots(cn)
    for fn in ("call_closure", "call"):
        body = fn_body(ops, r"unsafe fn %s\s*\(\s*&mut self\s*,\s*\w+\s*:\s*ObjRef<\w+>\s*,\s*arg_count\s*:\s*u8\s*\)\s*->\s*ExecutionSignal\s*" % fn, fn)
        g = guard_before_push(strip_strings(body), fn)
        guards.append((fn, g[0] if g else "", g[1] if g else ""))
    # every place of the VM (outside tests) that pushes a frame: file:function
    push_sites = []
    for f in sorted(glob.glob(os.path.join(repo, "laythe_vm", "src", "**", "*.rs"), recursive=True)):
        r_ = os.path.relpath(f, repo)
        t = strip_strings(strip_test_modules(strip_comments(open(f).read())))
        for pm in re.finditer(r"(?<!fn )\b(?:self|fiber)\s*\.\s*push_frame\s*\(", t):
            push_sites.append("%s:%s" % (r_[len("laythe_vm/src/"):], enclosing_fn(t, pm.start())))
    # chan(n): the tests of op_buffered_channel in front of the allocation of the buffer
    cm = re.search(r"pub const MAX_CHANNEL_CAPACITY\s*:\s*usize\s*=\s*([^;]+);", src)
    if not cm:
        raise TranslateError("MAX_CHANNEL_CAPACITY not found")
    cap_e = norm(cm.group(1))
    sh = re.fullmatch(r"1\s*<<\s*(\d+)", cap_e)
    if sh:
        max_chan = 1 << int(sh.group(1))
    elif cap_e.replace("_", "").isdigit():
        max_chan = int(cap_e.replace("_", ""))
    else:
        raise TranslateError("MAX_CHANNEL_CAPACITY = %r not understood" % cap_e)
    bc = strip_strings(fn_body(ops, r"unsafe fn op_buffered_channel\s*\(", "op_buffered_channel"))
    alloc = bc.find("Channel::with_capacity(")
    if alloc < 0 or not re.search(r"Channel::with_capacity\(\s*&hooks\s*,\s*capacity as usize\s*\)", bc):
        raise TranslateError("op_buffered_channel: Channel::with_capacity(&hooks, capacity as usize) not found")
    chan_tests = []
    for tm in re.finditer(r"\bif\s+([^{]+?)\s*\{", bc[:alloc]):
        blk = bc[tm.end():match_close(bc, tm.end() - 1)]
        em = re.match(r"\s*return\s+self\.runtime_error_from_str\(\s*self\.builtin\.errors\.(\w+)\s*,", blk)
        if not em:
            raise TranslateError("op_buffered_channel: a test in front of the allocation does not return an error: %r" % norm(tm.group(1)))
        chan_tests.append((norm(tm.group(1)), em.group(1)))
    # resolve_call dispatch arms
    rc = strip_strings(fn_body(ops, r"unsafe fn resolve_call\s*\(", "resolve_call"))
    arms = re.findall(r"ObjectKind::(\w+)\s*\(\s*\w+\s*\)\s*=>\s*\{\s*self\.(\w+)\(", rc)
    if not re.search(r"if\s+!callee\.is_obj\(\)\s*\{", rc) or not re.search(r"_\s*=>\s*\{", rc):
        raise TranslateError("resolve_call: non-object test or default arm not found")
    hook_arms, call_family, to_call_panics = hook_signals(repo)
    # DC16.15: the standard library's sorts panic when they notice that the comparator is not a total order; a native must not
    # sort with them (values of Laythe have no order of their own: every comparison of values is the program's comparator)
    std_sorts = []
    for f in sorted(glob.glob(os.path.join(repo, "laythe_lib", "src", "**", "*.rs"), recursive=True)):
        r_ = os.path.relpath(f, repo)
        t = strip_strings(strip_test_modules(strip_comments(open(f).read())))
        for sm in re.finditer(r"\.\s*(sort|sort_by|sort_by_key|sort_by_cached_key|sort_unstable|sort_unstable_by|sort_unstable_by_key|"
                              r"select_nth_unstable|select_nth_unstable_by|select_nth_unstable_by_key)\s*\(", t):
            std_sorts.append(("%s:%s" % (r_, enclosing_fn(t, sm.start())), sm.group(1)))
    display_depth, display_guard, display_impls = display_bound(repo)
    L = [HEADER % (rel + ", laythe_vm/src/vm/ops.rs, laythe_vm/src/vm/hooks.rs, laythe_vm/src/vm/error.rs, " + frel +
                   ", laythe_core/src/utils.rs, laythe_core/src/reference/obj_reference.rs, laythe_core/src/object/*.rs"),
         "namespace LaytheVerif.Gen.Limits\n",
         "/-- `MAX_FRAME_SIZE` -/", "def maxFrameSize : Nat := %d\n" % max_frame,
         "/-- the initial stack of `Fiber::new` / `Fiber::split`: (function, slice the slots are copied from, number of slots requested) -/",
         "def fiberInitStack : List (String × String × String) := [" + ", ".join("(%s, %s, %s)" % (lean_str(a), lean_str(b), lean_str(c)) for a, b, c in fiber_init) + "]\n",
         "/-- the test in front of `push_frame` in `call_native` (arm `NativeEnvironment::Normal`), `call_closure` and `call`:\n"
         "    (function, comparison of `frames().len()` with the bound, bound); the guarded block returns the `Stack overflow.` runtime error; \"\" = none -/",
         "def frameGuards : List (String × String × String) := [" + ", ".join("(%s, %s, %s)" % (lean_str(a), lean_str(b), lean_str(c)) for a, b, c in guards) + "]\n",
         "/-- `call_native` pushes its stub frame only in the arm `NativeEnvironment::Normal`: (number of push_frame calls, a frame-limit test precedes it) -/",
         "def nativeStubPush : Nat × Bool := (%d, %s)\n" % (native_push, "true" if guards[0][1] else "false"),
         "/-- `call_native`, arm `NativeEnvironment::Normal`: the frame-limit tests and the root / frame events in front of `native.call(..)`,\n"
         "    in source order; `guard <op> <bound>` = a test whose block is exactly the return of the `Stack overflow.` error, any other\n"
         "    frame-limit test is written out with the statements of its block -/",
         "def callNativeNormalPre : List String := [" + ", ".join(lean_str(x) for x in cn_pre) + "]\n",
         "/-- `call_native`: per environment and per arm of the `match` on the native's result, the root / frame events between\n"
         "    `native.call(..)` and the end of the arm -/",
         "def callNativeResultArms : List (String × String × List String) := [" +
         ", ".join("(%s, %s, [%s])" % (lean_str(a), lean_str(b), ", ".join(lean_str(x) for x in c)) for a, b, c in cn_post) + "]\n",
         "/-- `call_native`: every way out of the function — (environment, exit, temporary roots pushed textually before it, popped before it);\n"
         "    the function is straight-line apart from the blocks that return and the final `match` (checked by the translator) -/",
         "def callNativeRootExits : List (String × String × Nat × Nat) := [" +
         ", ".join("(%s, %s, %d, %d)" % (lean_str(a), lean_str(b), c, d) for a, b, c, d in cn_exits) + "]\n",
         "/-- every function of laythe_vm (tests excluded) that pushes a call frame, as `file:function` -/",
         "def pushFrameSites : List String := [" + ", ".join(lean_str(x) for x in push_sites) + "]\n",
         "/-- `MAX_CHANNEL_CAPACITY` -/", "def maxChannelCapacity : Nat := %d\n" % max_chan,
         "/-- `op_buffered_channel`: the tests between popping the capacity and `Channel::with_capacity(&hooks, capacity as usize)`,\n"
         "    in order: (condition, error class raised when it holds) -/",
         "def chanCapacityTests : List (String × String) := [" + ", ".join("(%s, %s)" % (lean_str(a), lean_str(b)) for a, b in chan_tests) + "]\n",
         "/-- object kinds `resolve_call` dispatches on, with the handler; every other kind and every non-object raises `… is not callable.` -/",
         "def resolveCallArms : List (String × String) := [" + ", ".join("(%s, %s)" % (lean_str(a), lean_str(b)) for a, b in arms) + "]\n",
         "/-- every `match self.resolve_call(..)` of the VM outside the interpreter loop: (file:function, callee expression,\n"
         "    signals with an arm of their own, what the `_` arm does) -/",
         "def resolveCallMatches : List (String × String × List String × String) := [" +
         ", ".join("(%s, %s, [%s], %s)" % (lean_str(a), lean_str(b), ", ".join(lean_str(x) for x in c), lean_str(d)) for a, b, c, d in hook_arms) + "]\n",
         "/-- the functions a call resolved by `resolve_call` runs through before a signal comes back (closure of `self.f(..)`\n"
         "    calls among the functions of vm/ops.rs and vm/error.rs that answer an `ExecutionSignal`), each with the signals its text names -/",
         "def callFamily : List (String × List String) := [" +
         ", ".join("(%s, [%s])" % (lean_str(a), ", ".join(lean_str(x) for x in b)) for a, b in call_family) + "]\n",
         "/-- `to_call_result`: the variants of `ExecutionResult` whose arm is an unconditional `internal_error` -/",
         "def toCallResultPanics : List String := [" + ", ".join(lean_str(x) for x in to_call_panics) + "]\n",
         "/-- calls of the standard library's sorting routines in laythe_lib (tests excluded): (file:function, routine) -/",
         "def libStdSorts : List (String × String) := [" + ", ".join("(%s, %s)" % (lean_str(a), lean_str(b)) for a, b in std_sorts) + "]\n",
         "/-- `DISPLAY_MAX_DEPTH` (laythe_core/src/utils.rs) -/", "def displayMaxDepth : Nat := %d\n" % display_depth,
         "/-- `fmt_nested`: the test under which the nested values are *not* written (`...` is written instead) -/",
         "def displayGuard : String := %s\n" % lean_str(display_guard),
         "/-- the `Display` impls `ObjectRef`'s Display dispatches to: (object kind, type, writes another value / iterates,\n"
         "    every such write sits inside the closure handed to `fmt_nested`) -/",
         "def displayImpls : List (String × String × Bool × Bool) := [" +
         ", ".join("(%s, %s, %s, %s)" % (lean_str(a), lean_str(b), "true" if c else "false", "true" if d else "false") for a, b, c, d in display_impls) + "]\n",
         "end LaytheVerif.Gen.Limits\n"]
    write_if_changed(os.path.join(out, "Limits.lean"), "\n".join(L))
    return max_frame


def hook_signals(repo):
    """DC16.10: which signals of a resolved call the hooks (`run_fun`, `run_method`) and `runtime_error` have an arm for,
    and which signals the functions behind `resolve_call` can answer"""
    fns = {}
    for rel in ("laythe_vm/src/vm/ops.rs", "laythe_vm/src/vm/error.rs"):
        t = strip_strings(strip_comments(read(repo, rel)))
        for fm in re.finditer(r"\bfn\s+(\w+)\s*(?:<[^>]*>)?\s*\(", t):
            j = match_close(t, fm.end() - 1, "(", ")")
            hm = re.match(r"\s*->\s*(Option<\s*ExecutionSignal\s*>|ExecutionSignal)\s*\{", t[j + 1:])
            if not hm:
                continue
            bi = j + 1 + hm.end() - 1
            fns[fm.group(1)] = t[bi:match_close(t, bi) + 1]
    if "resolve_call" not in fns or "call_native" not in fns:
        raise TranslateError("resolve_call / call_native answering ExecutionSignal not found")
    family, todo = [], ["resolve_call"]
    while todo:
        f = todo.pop()
        if f in family:
            continue
        family.append(f)
        for cm in re.finditer(r"\bself\s*\.\s*(\w+)\s*\(", fns[f]):
            if cm.group(1) in fns and cm.group(1) not in family:
                todo.append(cm.group(1))
    order = ["Ok", "OkReturn", "ContextSwitch", "Exit", "RuntimeError", "CompileError"]
    call_family = []
    for f in sorted(family):
        sigs = set(re.findall(r"ExecutionSignal::(\w+)", fns[f]))
        unknown = sigs - set(order)
        if unknown:
            raise TranslateError("%s names unknown signals %s" % (f, sorted(unknown)))
        call_family.append((f, [x for x in order if x in sigs]))
    arms = []
    for rel in sorted(glob.glob(os.path.join(repo, "laythe_vm", "src", "vm", "*.rs"))):
        r_ = os.path.relpath(rel, repo)
        t = strip_test_modules(strip_comments(open(rel).read()))
        for mm in re.finditer(r"\bmatch\s+self\s*\.\s*resolve_call\(\s*([^,]+?)\s*,", t):
            bi = t.index("{", mm.end())
            body = t[bi + 1:match_close(t, bi)]
            parts = [x.strip() for x in split_top(body, ",") if x.strip()]
            own, default = [], ""
            for a in parts:
                am = re.match(r"ExecutionSignal::(\w+)\s*=>", a)
                if am:
                    own.append(am.group(1))
                elif re.match(r"_\s*=>", a):
                    default = norm(strip_strings(a[a.index("=>") + 2:]))
                else:
                    raise TranslateError("%s: arm of `match self.resolve_call(..)` not understood: %r" % (r_, norm(a)[:80]))
            arms.append(("%s:%s" % (r_[len("laythe_vm/src/"):], enclosing_fn(t, mm.start())), norm(mm.group(1)), own, default))
    if not any(a[0] == "vm/hooks.rs:run_fun" for a in arms) or not any(a[0] == "vm/hooks.rs:run_method" for a in arms):
        raise TranslateError("hooks.rs: `match self.resolve_call(..)` of run_fun / run_method not found")
    hk = strip_strings(strip_comments(read(repo, "laythe_vm/src/vm/hooks.rs")))
    tb = fn_body(hk, r"fn to_call_result\s*\(", "to_call_result")
    mi = tb.index("{", tb.index("match execute_result"))
    panics = []
    for a in split_top(tb[mi + 1:match_close(tb, mi)], ","):
        am = re.match(r"\s*ExecutionResult::(\w+)(?:\([^)]*\))?\s*=>\s*(.*)$", a, flags=re.S)
        if not am:
            if a.strip():
                raise TranslateError("to_call_result: arm not understood: %r" % norm(a)[:80])
            continue
        if re.match(r"\{?\s*self\.internal_error\(", am.group(2)):
            panics.append(am.group(1))
    return arms, call_family, panics


def display_bound(repo):
    """DC16.11: the bound of Display's native recursion (`fmt_nested`) and the Display impls that go through it"""
    u = strip_comments(read(repo, "laythe_core/src/utils.rs"))
    dm = re.search(r"const DISPLAY_MAX_DEPTH\s*:\s*usize\s*=\s*(\d+)\s*;", u)
    if not dm:
        raise TranslateError("utils.rs: DISPLAY_MAX_DEPTH not found")
    fb = fn_body(u, r"pub fn fmt_nested\s*\(", "fmt_nested")
    # let enter = DISPLAYING.with(|displaying| { let mut displaying = ..; if <guard> { return false; } displaying.push(address); true });
    gm = re.search(r"let\s+enter\s*=\s*DISPLAYING\.with\(\|displaying\|\s*\{\s*let\s+mut\s+displaying\s*=\s*displaying\.borrow_mut\(\)\s*;\s*"
                   r"if\s+([^{]+?)\s*\{\s*return\s+false\s*;\s*\}\s*displaying\.push\(address\)\s*;\s*true\s*\}\s*\)\s*;\s*"
                   r"if\s+!enter\s*\{\s*return\s+write!\(f,\s*\"\.\.\.\"\)\s*;\s*\}\s*"
                   r"let\s+result\s*=\s*nested\(f\)\s*;\s*DISPLAYING\.with\(\|displaying\|\s*displaying\.borrow_mut\(\)\.pop\(\)\)\s*;\s*result\s*$", fb)
    if not gm:
        raise TranslateError("utils.rs: fmt_nested changed shape (test; push; nested(f); pop)")
    guard = norm(gm.group(1))
    # the impls ObjectRef's Display dispatches to
    orf = strip_comments(read(repo, "laythe_core/src/reference/obj_reference.rs"))
    im = re.search(r"impl\s+fmt::Display\s+for\s+ObjectRef\s*\{", orf)
    if not im:
        raise TranslateError("impl fmt::Display for ObjectRef not found")
    ib = orf[im.end():match_close(orf, im.end() - 1)]
    kinds = re.findall(r"ObjectKind::(\w+)\(\s*(\w+)\s*\)\s*=>\s*write!\(\s*f\s*,\s*\"\{(\w+)\}\"\s*\)", ib)
    if len(kinds) != len(re.findall(r"ObjectKind::\w+", ib)) or not kinds or any(a != b for _, a, b in kinds):
        raise TranslateError("Display for ObjectRef: an arm is not `ObjectKind::K(x) => write!(f, \"{x}\")`")
    type_of = {"String": "LyStr"}
    impls = []
    files = sorted(glob.glob(os.path.join(repo, "laythe_core", "src", "object", "**", "*.rs"), recursive=True))
    texts = {os.path.relpath(f, repo): strip_test_modules(strip_comments(open(f).read())) for f in files}
    for kind, _, _ in kinds:
        ty = type_of.get(kind, kind)
        found = None
        for rel_, t in texts.items():
            m = re.search(r"impl(?:\s*<[^>]*>)?\s+(?:fmt::)?Display\s+for\s+%s\b[^{]*\{" % ty, t)
            if m:
                found = t[m.end():match_close(t, m.end() - 1)]
                break
        if found is None:
            raise TranslateError("no `impl Display for %s` under laythe_core/src/object" % ty)
        # a write of something that may be a value again: an interpolated name / argument that is not a `{:p}` pointer,
        # `self.name()`-like text or the object's own string data
        def nested_writes(text):
            n = 0
            blank = strip_strings(text)   # same length: brackets inside string literals do not count
            for w in re.finditer(r"write!\(", blank):
                inner = text[w.end():match_close(blank, w.end() - 1, "(", ")")]
                pm = re.fullmatch(r'\s*f\s*,\s*"((?:[^"\\]|\\.)*)"\s*(?:,(.*))?', inner, flags=re.S)
                if not pm:
                    raise TranslateError("Display for %s: write! not understood: %r" % (ty, norm(inner)[:80]))
                fmt = pm.group(1)
                argl = [a.strip() for a in split_top(pm.group(2), ",") if a.strip()] if pm.group(2) else []
                holes = re.findall(r"\{([^{}]*)\}", fmt.replace("{{", "").replace("}}", ""))
                ai = 0
                for h in holes:
                    name, _, spec = h.partition(":")
                    if name:
                        expr = name
                    else:
                        expr = argl[ai] if ai < len(argl) else "?"
                        ai += 1
                    if spec == "p":
                        continue
                    # the object's own name (a string) is not a value that nests
                    if re.fullmatch(r"&?\*?self\.(class\(\)\.)?name(\(\))?", expr):
                        continue
                    n += 1
            n += len(re.findall(r"\bfor\b[^{]*\bin\b", text))
            return n
        total = nested_writes(found)
        inside = 0
        fm_ = re.search(r"fmt_nested\(\s*f\s*,[^|]*\|f\|\s*\{", found)
        if fm_:
            cb = found[fm_.end():match_close(strip_strings(found), fm_.end() - 1)]
            inside = nested_writes(cb)
        impls.append((kind, ty, total > 0, total > 0 and inside == total))
    return int(dm.group(1)), guard, impls
