#!/bin/bash
# usage: tools/try_seed.sh <PID> [checks...]  — confirm a seeded change in its worktree /tmp/seed_<PID> (build, demo with/without,
# test suite), store it under /verif/seeded/<PID>/, apply it to /repo, run the given checks (default: the property's own), undo.
PID=$1; shift
CHECKS=${@:-$PID}
WT=/tmp/seed_$PID; OUT=/tmp/seed_${PID}_out; DST=/verif/seeded/$PID
mkdir -p $DST
cp -r $OUT/* $DST/ 2>/dev/null
git -C $WT diff > $DST/patch.diff
LOG=$DST/confirm.log; : > $LOG
echo "== build with change" >> $LOG
(cd $WT && cargo build --offline -q 2>&1 | grep -E "^error" | head -5) >> $LOG
DEMO=$DST/demo.lay
run_demo() { (cd $WT && timeout 120 cargo run --offline -q -p laythe -- $OUT/demo.lay 2>$DST/.stderr; echo "exit=$?") ; }
if [ -f $OUT/demo.lay ]; then
  run_demo > $DST/.with.out
  git -C $WT stash -q
  (cd $WT && cargo build --offline -q 2>/dev/null)
  run_demo > $DST/.without.out
  git -C $WT stash pop -q
  (cd $WT && cargo build --offline -q 2>/dev/null)
  echo "== demo with change differs from expected: $(if diff -q <(grep -v '^exit=' $DST/.with.out) $OUT/expected_stdout.txt >/dev/null 2>&1; then echo NO; else echo yes; fi)  ($(tail -1 $DST/.with.out))" >> $LOG
  echo "== demo without change equals expected: $(if diff -q <(grep -v '^exit=' $DST/.without.out) $OUT/expected_stdout.txt >/dev/null 2>&1; then echo yes; else echo NO; fi)  ($(tail -1 $DST/.without.out))" >> $LOG
fi
echo "== test suite with change (failures):" >> $LOG
(cd $WT && cargo test --workspace --no-fail-fast --offline 2>&1 | grep -E "^test .* FAILED" | sort) >> $LOG
# run the checks against /repo with the patch applied
if ! git -C /repo diff --quiet; then echo "/repo is dirty, refusing" >> $LOG; cat $LOG; exit 2; fi
git -C /repo apply $DST/patch.diff || { echo "patch does not apply to /repo" >> $LOG; cat $LOG; exit 2; }
for c in $CHECKS; do
  s=$(date +%s)
  (cd /verif && ./check $c --tier quick > $DST/check_$c.out 2>&1); rc=$?
  e=$(date +%s)
  echo "== ./check $c on the seeded tree: rc=$rc wall=$((e-s))s $(grep -c '^VIOLATION' $DST/check_$c.out) violation line(s): $(grep '^VIOLATION' $DST/check_$c.out | head -3 | tr '\n' ' ')" >> $LOG
  for r in $(grep '^VIOLATION' $DST/check_$c.out | sed 's/.*replay=\([^ ]*\).*/\1/'); do cp $r $DST/ 2>/dev/null; done
done
git -C /repo checkout -- .
rm -f $DST/.stderr
cat $LOG
