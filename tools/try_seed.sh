#!/bin/bash
# usage: tools/try_seed.sh <PID> [checks...]  — confirm a seeded change in its worktree /tmp/seed_<PID> (build, demo with/without,
# test suite), store it under /verif/seeded/<PID>/, apply it to /repo, run the given checks (default: the property's own), undo.
PID=$1; shift
CHECKS=${@:-$PID}
# ROUND=2 (3, ...): later rounds of seeding live in /tmp/seed2_<PID> and are stored as seeded/<PID>_r2
R=${ROUND:-1}
if [ "$R" = 1 ]; then WT=/tmp/seed_$PID; OUT=/tmp/seed_${PID}_out; DST=/verif/seeded/$PID
else WT=/tmp/seed${R}_$PID; OUT=/tmp/seed${R}_${PID}_out; DST=/verif/seeded/${PID}_r$R; fi
mkdir -p $DST
cp -r $OUT/* $DST/ 2>/dev/null
[ -d $WT ] && git -C $WT diff > $DST/patch.diff
LOG=$DST/confirm.log; : > $LOG
DEMO=$DST/demo.lay
# DEMO_CMD: how to run the demonstration inside the worktree (default: the cli on demo.lay); CONFIRM=0 skips the confirmation part
DEMO_CMD=${DEMO_CMD:-"cargo run --offline -q -p laythe -- $OUT/demo.lay"}
run_demo() { (cd $WT && timeout 300 bash -c "$DEMO_CMD" 2>$DST/.stderr; echo "exit=$?") ; }
if [ "${CONFIRM:-1}" = 1 ]; then
  echo "== build with change" >> $LOG
  (cd $WT && cargo build --offline -q 2>&1 | grep -E "^error" | head -5) >> $LOG
  run_demo > $DST/.with.out
  # (never `git stash` here: the stash stack is shared by all worktrees of the repository)
  git -C $WT apply -R $DST/patch.diff
  (cd $WT && cargo build --offline -q 2>/dev/null)
  run_demo > $DST/.without.out
  git -C $WT apply $DST/patch.diff
  (cd $WT && cargo build --offline -q 2>/dev/null)
  echo "== demo with change differs from expected: $(if diff -q <(grep -v '^exit=' $DST/.with.out) $OUT/expected_stdout.txt >/dev/null 2>&1; then echo NO; else echo yes; fi)  ($(tail -1 $DST/.with.out))" >> $LOG
  echo "== demo without change equals expected: $(if diff -q <(grep -v '^exit=' $DST/.without.out) $OUT/expected_stdout.txt >/dev/null 2>&1; then echo yes; else echo NO; fi)  ($(tail -1 $DST/.without.out))" >> $LOG
echo "== test suite with change (failures):" >> $LOG
(cd $WT && cargo test --workspace --no-fail-fast --offline 2>&1 | grep -E "^test .* FAILED" | sort) >> $LOG
cp $LOG $DST/confirm_part.log
else
  cat $DST/confirm_part.log >> $LOG 2>/dev/null
fi
[ "${CHECKS_RUN:-1}" = 1 ] || { cat $LOG; exit 0; }
# run the checks against /repo with the patch applied
if ! git -C /repo diff --quiet; then echo "/repo is dirty, refusing" >> $LOG; cat $LOG; exit 2; fi
git -C /repo apply $DST/patch.diff || { echo "patch does not apply to /repo" >> $LOG; cat $LOG; exit 2; }
for c in $CHECKS; do
  s=$(date +%s)
  # evidence committed in /verif must describe runs on /repo itself, not on a seeded tree: keep the seeded run's evidence with the seed
  cp /verif/evidence/$c.json $DST/.evidence_$c.bak 2>/dev/null
  (cd /verif && ./check $c --tier quick > $DST/check_$c.out 2>&1); rc=$?
  cp /verif/evidence/$c.json $DST/evidence_seeded_$c.json 2>/dev/null
  [ -f $DST/.evidence_$c.bak ] && mv $DST/.evidence_$c.bak /verif/evidence/$c.json
  e=$(date +%s)
  echo "== ./check $c on the seeded tree: rc=$rc wall=$((e-s))s $(grep -c '^VIOLATION' $DST/check_$c.out) violation line(s): $(grep '^VIOLATION' $DST/check_$c.out | head -3 | tr '\n' ' ')" >> $LOG
  for r in $(grep '^VIOLATION' $DST/check_$c.out | sed 's/.*replay=\([^ ]*\).*/\1/'); do cp $r $DST/ 2>/dev/null; done
done
git -C /repo checkout -- .
rm -f $DST/.stderr
cat $LOG
