/-
[G] The allocator model (`Model/Alloc.lean`) was written from this text of laythe_core/src/allocator.rs:
the order of the phases of a collection (context roots, temporary roots, intern-table eviction, object
sweep, box sweep, accounting, threshold), the sweep bodies (what is retained, what is counted), the
allocation entry points (allocate, count, test the threshold, collect with the new block rooted) and
`manage_str` (table hit returns the cached string, miss allocates and inserts).  `tools/translate.py`
regenerates `Gen/AllocSteps.lean` from the source on every run; an edit to any of these functions
re-opens this lemma (and with it C05, C09 and C20).
-/
import LaytheVerif.Gen.AllocSteps
namespace LaytheVerif.AllocGen
open LaytheVerif.Gen

theorem before_eq_gen : AllocSteps.before = "self.gc_count += 1;" := rfl

theorem collectSteps_eq_gen : AllocSteps.collectSteps = [
  "self.trace_root(context)",
  "self.temp_roots.iter().for_each(|root| { self.trace(&**root); })",
  "self.sweep_intern_cache()",
  "let obj_heap_size = self.sweep_obj_heap()",
  "let heap_size = self.sweep_heap()",
  "self.bytes_allocated = heap_size + obj_heap_size",
  "self.next_gc = self.bytes_allocated * GC_HEAP_GROW_FACTOR"
] := rfl

theorem bodies_eq_gen : AllocSteps.bodies = [
  ("sweep_obj_heap", "if self.gc_count % 10 == 0 { self.sweep_obj_full() } else { self.sweep_obj_nursery() }"),
  ("sweep_obj_nursery", "let mut remaining: usize = 0; self.obj_heap.iter().for_each(|obj| { (*obj).unmark(); remaining += obj.size(); }); self .obj_heap .extend(self.nursery_obj_heap.drain(..).filter(|obj| { let retain = (*obj).unmark(); if retain { remaining += obj.size(); } else { remaining += 0; } retain })); remaining"),
  ("sweep_obj_full", "let mut remaining: usize = 0; self.obj_heap.retain(|obj| { let retain = (*obj).unmark(); if retain { remaining += obj.size(); } else { remaining += 0; } retain }); self .obj_heap .extend(self.nursery_obj_heap.drain(..).filter(|obj| { let retain = (*obj).unmark(); if retain { remaining += obj.size(); } else { remaining += 0; } retain })); remaining"),
  ("sweep_heap", "let mut remaining: usize = 0; self.heap.retain(|item| { let retain = item.unmark(); if retain { remaining += item.size(); } else { remaining += 0 } retain }); remaining"),
  ("sweep_intern_cache", "self.intern_cache.retain(|_, &mut string| string.marked());"),
  ("collect_garbage_with_value", "self.push_root(item); self.collect_garbage(context); self.pop_roots(1)"),
  ("allocate", "let result = data.alloc(); let handle = result.handle; let reference = result.reference; self.bytes_allocated += result.size; self.heap.push(handle); if self.bytes_allocated > self.next_gc { self.collect_garbage_with_value(context, reference); } reference"),
  ("allocate_obj", "let result = data.alloc(); let obj = result.reference; self.bytes_allocated += result.size; self.nursery_obj_heap.push(result.handle); if self.bytes_allocated > self.next_gc { self.collect_garbage_with_value(context, obj); } obj"),
  ("manage_str", "let string = src.as_ref(); if let Some(cached) = self.intern_cache.get(string) { return *cached; } let managed = self.allocate_obj(string, context); let static_str: &'static str = unsafe { &*(&*managed as *const str) }; self.intern_cache.insert(static_str, managed); managed")
] := rfl

theorem growFactor_eq_gen : AllocSteps.growFactor = 2 := rfl

theorem triggers_eq_gen : AllocSteps.triggers = [("allocate", [("self.bytes_allocated > self.next_gc", "collect_garbage_with_value")]), ("allocate_obj", [("self.bytes_allocated > self.next_gc", "collect_garbage_with_value")]), ("manage_str", [])] := rfl

end LaytheVerif.AllocGen
