/- "Everything reachable is owned" is an invariant of every mutator/collector history. -/
import LaytheVerif.Lemmas.AllocMark
namespace LaytheVerif.Alloc

/-- The safety invariant: every object reachable from the roots `R` and the temp roots is owned by
the allocator (so it has not been freed), and owned ids are allocated ids. -/
def Inv (a : A) (R : List Nat) : Prop :=
  (∀ x, Reach a (R ++ a.temp) x → x ∈ a.owned) ∧ (∀ x ∈ a.owned, x < a.objs.length)

theorem reach_mono {a : A} {R R' : List Nat} (h : ∀ r ∈ R, r ∈ R') {x : Nat} (hx : Reach a R x) : Reach a R' x := by
  induction hx with
  | root hr => exact Reach.root (h _ hr)
  | step _ hy ih => exact Reach.step ih hy

/-- Roots that are themselves reachable add nothing. -/
theorem reach_of_reachable_roots {a : A} {R R' : List Nat} (h : ∀ r ∈ R', Reach a R r) {x : Nat}
    (hx : Reach a R' x) : Reach a R x := by
  induction hx with
  | root hr => exact h _ hr
  | step _ hy ih => exact Reach.step ih hy

theorem reach_edges_congr {a b : A} {R : List Nat} (h : ∀ x, Reach a R x → b.edges x = a.edges x) {x : Nat}
    (hx : Reach b R x) : Reach a R x := by
  induction hx with
  | root hr => exact Reach.root hr
  | step _ hy ih => exact Reach.step ih (by rw [← h _ ih]; exact hy)

theorem reach_of_edges_eq {a b : A} {R : List Nat} (h : ∀ x, b.edges x = a.edges x) {x : Nat}
    (hx : Reach b R x) : Reach a R x := by
  induction hx with
  | root hr => exact Reach.root hr
  | step _ hy ih => exact Reach.step ih (by rw [← h]; exact hy)

/-! ### collection -/

/-- `collect_garbage_with_value`: a collection during which `extra` is additionally rooted. -/
def A.collectWith (a : A) (R extra : List Nat) (force : Option Bool) : A :=
  { (({ a with temp := a.temp ++ extra } : A).collect R force) with temp := a.temp }

theorem collect_objs (a : A) (R : List Nat) (force : Option Bool) : (a.collect R force).objs = a.objs := rfl
theorem collect_temp (a : A) (R : List Nat) (force : Option Bool) : (a.collect R force).temp = a.temp := rfl
theorem collect_edges (a : A) (R : List Nat) (force : Option Bool) (x : Nat) :
    (a.collect R force).edges x = a.edges x := rfl

theorem mem_owned_collect (a : A) (R : List Nat) (force : Option Bool) (x : Nat) :
    x ∈ (a.collect R force).owned ↔ x ∈ a.owned ∧ (x ∈ a.marked R ∨ (x ∈ a.old ∧ ¬ force.getD ((a.gcCount + 1) % FULL_EVERY == 0))) := by
  simp only [A.owned, A.collect, List.mem_append, List.mem_filter, List.contains_iff_mem, List.nil_append]
  by_cases hf : force.getD ((a.gcCount + 1) % FULL_EVERY == 0) = true
  · simp [hf, List.mem_filter]
    constructor
    · rintro ((⟨h, m⟩ | ⟨h, m⟩) | ⟨h, m⟩) <;> simp [h, m]
    · rintro ⟨(h | h) | h, m⟩ <;> simp [h, m]
  · simp [hf, List.mem_filter]
    constructor
    · rintro ((h | ⟨h, m⟩) | ⟨h, m⟩) <;> simp [h, *]
    · rintro ⟨(h | h) | h, m⟩
      · rcases m with m | m
        · exact Or.inl (Or.inr ⟨h, m⟩)
        · exact Or.inl (Or.inl m)
      · exact Or.inl (Or.inl h)
      · rcases m with m | m
        · exact Or.inr ⟨h, m⟩
        · exact Or.inl (Or.inl m)

/-- **C05_collect_preserves_reachable.** For every heap, root set, temp-root stack and extra
rooted values, a collection — nursery or full — keeps every object reachable from them owned, and
changes no object's payload. -/
theorem collect_preserves_reachable (a : A) (R : List Nat) (force : Option Bool) (x : Nat)
    (hr : Reach a (R ++ a.temp) x) (ho : x ∈ a.owned) :
    x ∈ (a.collect R force).owned ∧ (a.collect R force).objs = a.objs :=
  ⟨(mem_owned_collect a R force x).mpr ⟨ho, Or.inl ((marked_iff_reach a R x).mpr hr)⟩, rfl⟩

theorem collect_owned_subset (a : A) (R : List Nat) (force : Option Bool) (x : Nat)
    (h : x ∈ (a.collect R force).owned) : x ∈ a.owned := ((mem_owned_collect a R force x).mp h).1

theorem collectWith_inv (a : A) (R extra : List Nat) (force : Option Bool) (hi : Inv a R) :
    Inv (a.collectWith R extra force) R := by
  obtain ⟨h1, h2⟩ := hi
  let a' : A := { a with temp := a.temp ++ extra }
  constructor
  · intro x hx
    -- reachability does not depend on the owner lists
    have hx' : Reach a (R ++ a.temp) x :=
      reach_of_edges_eq (a := a) (b := a.collectWith R extra force) (fun _ => rfl) hx
    have hx'' : Reach a' (R ++ a'.temp) x := by
      have h3 : Reach a (R ++ (a.temp ++ extra)) x :=
        reach_mono (fun r hr => by
          simp only [List.mem_append] at hr ⊢; rcases hr with h | h <;> simp [h]) hx'
      exact reach_of_edges_eq (a := a') (b := a) (fun _ => rfl) h3
    have := collect_preserves_reachable a' R force x hx'' (h1 x hx')
    exact this.1
  · intro x hx
    have : x ∈ a'.owned := collect_owned_subset a' R force x hx
    exact h2 x this

end LaytheVerif.Alloc
