import LaytheVerif.Model.Machine
/-! Helper lemmas for `C01_ops_agree`: Rust's `str::cmp` against the rule "lexicographic by code point". -/
set_option linter.unusedSimpArgs false
namespace LaytheVerif.C01Ops
open LaytheVerif.LayRef LaytheVerif.Machine

theorem char_eq_of_toNat {a b : Char} (h : a.toNat = b.toNat) : a = b :=
  Char.ext (UInt32.toNat_inj.mp h)

theorem cmp_lt (a b : List Char) : (cmpChars a b == .lt) = lexLt a b := by
  induction a generalizing b with
  | nil => cases b <;> simp [cmpChars, lexLt]
  | cons x xs ih =>
    cases b with
    | nil => simp [cmpChars, lexLt]
    | cons y ys =>
      simp only [cmpChars, lexLt]
      by_cases h1 : x.toNat < y.toNat
      · simp [h1]
      · by_cases h2 : x.toNat > y.toNat
        · have : ¬ x.toNat = y.toNat := by omega
          simp [h1, h2, this]
        · have h3 : x.toNat = y.toNat := by omega
          simp [h1, h2, h3, ih]

theorem cmp_gt (a b : List Char) : (cmpChars a b == .gt) = lexLt b a := by
  induction a generalizing b with
  | nil => cases b <;> simp [cmpChars, lexLt]
  | cons x xs ih =>
    cases b with
    | nil => simp [cmpChars, lexLt]
    | cons y ys =>
      simp only [cmpChars, lexLt]
      by_cases h1 : x.toNat < y.toNat
      · have : ¬ y.toNat < x.toNat := by omega
        have : ¬ y.toNat = x.toNat := by omega
        simp [h1, *]
      · by_cases h2 : x.toNat > y.toNat
        · simp [h1, h2]
        · have h3 : y.toNat = x.toNat := by omega
          have h4 : ¬ y.toNat < x.toNat := by omega
          simp [h1, h2, h3, ih]

/-- trichotomy: `a ≤ b` (not `b < a`) iff `a = b` or `a < b` -/
theorem not_lt_iff (a b : List Char) : (!lexLt b a) = (decide (a = b) || lexLt a b) := by
  induction a generalizing b with
  | nil => cases b <;> simp [lexLt]
  | cons x xs ih =>
    cases b with
    | nil => simp [lexLt]
    | cons y ys =>
      simp only [lexLt]
      by_cases h1 : x.toNat < y.toNat
      · have : ¬ y.toNat < x.toNat := by omega
        have : ¬ y.toNat = x.toNat := by omega
        simp [h1, *]
      · by_cases h2 : y.toNat < x.toNat
        · have hne : ¬ x = y := fun h => by subst h; omega
          have : ¬ x.toNat = y.toNat := by omega
          simp [h1, h2, hne, this]
        · have h3 : x.toNat = y.toNat := by omega
          have hxy : x = y := char_eq_of_toNat h3
          subst hxy
          have := ih ys
          simp [h1, this]

theorem str_beq (s t : String) : (s == t) = decide (s.toList = t.toList) := by
  rw [Bool.eq_iff_iff]
  simp [String.toList_inj]

end LaytheVerif.C01Ops
