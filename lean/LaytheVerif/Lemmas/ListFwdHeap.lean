/-
Heap lemmas for C10: following forwards, the well-formedness invariant, and the fact that *every*
heap program (`HCmd`) preserves it and never changes the identity of an allocated object.
-/
import LaytheVerif.Model.ListFwd
namespace LaytheVerif.ListFwd

/-- Invariant of every reachable heap. -/
structure WF (h : Heap) : Prop where
  /-- forwards point forward, to allocated cells -/
  fwd_lt : ∀ a t, h.mem a = .fwd t → a < t ∧ t < h.next
  /-- a forward leads to a list cell -/
  fwd_list : ∀ a t, h.mem a = .fwd t → (∃ o c xs, h.mem t = .vec o c xs) ∨ (∃ u, h.mem t = .fwd u)
  /-- a `Here` vector is allocated, and the header it was created at (`oid`) leads to it -/
  vec_oid : ∀ b o c xs, h.mem b = .vec o c xs → b < h.next ∧ o ≤ b ∧ final h o = b
  /-- unallocated cells are free -/
  free_ge : ∀ a, h.next ≤ a → h.mem a = .free

theorem isFwd_iff (h : Heap) (a : Nat) : isFwd h a = true ↔ ∃ t, h.mem a = .fwd t := by
  unfold isFwd; split <;> simp_all

theorem isFwd_false_iff (h : Heap) (a : Nat) : isFwd h a = false ↔ ∀ t, h.mem a ≠ .fwd t := by
  unfold isFwd; split <;> simp_all

theorem resolve_notFwd (h : Heap) (f : Nat) (a : Nat) (hn : isFwd h a = false) : resolve h f a = a := by
  cases f with
  | zero => rfl
  | succ f =>
    simp only [resolve]
    split
    · next t ht => simp [isFwd, ht] at hn
    · rfl

/-- resolving with more fuel than needed changes nothing -/
theorem resolve_more (h : Heap) : ∀ f a e, isFwd h (resolve h f a) = false → resolve h (f + e) a = resolve h f a := by
  intro f
  induction f with
  | zero =>
    intro a e hx
    simp only [resolve] at hx
    simp only [Nat.zero_add, resolve]
    exact resolve_notFwd h e a hx
  | succ f ih =>
    intro a e hx
    rw [Nat.add_right_comm]
    simp only [resolve] at hx ⊢
    split
    · next t ht => simp only [ht] at hx; exact ih t e hx
    · rfl

/-- enough fuel always reaches the end of the chain -/
theorem resolve_end (h : Heap) (w : WF h) : ∀ f a, a < h.next → h.next ≤ a + f + 1 → isFwd h (resolve h f a) = false := by
  intro f
  induction f with
  | zero =>
    intro a ha hf
    simp only [resolve]
    rw [isFwd_false_iff]
    intro t ht
    have := w.fwd_lt a t ht
    omega
  | succ f ih =>
    intro a ha hf
    simp only [resolve]
    split
    · next t ht =>
      have := w.fwd_lt a t ht
      exact ih t this.2 (by omega)
    · next hne =>
      rw [isFwd_false_iff]
      intro t ht
      exact hne t ht

theorem final_notFwd (h : Heap) (w : WF h) (a : Nat) : isFwd h (final h a) = false := by
  unfold final
  by_cases ha : a < h.next
  · exact resolve_end h w h.next a ha (by omega)
  · have hf : h.mem a = .free := w.free_ge a (by omega)
    have : isFwd h a = false := by simp [isFwd, hf]
    rw [resolve_notFwd h _ a this]; exact this

theorem final_of_notFwd (h : Heap) (a : Nat) (hn : isFwd h a = false) : final h a = a :=
  resolve_notFwd h _ a hn

theorem resolve_lt (h : Heap) (w : WF h) : ∀ f a, a < h.next → resolve h f a < h.next := by
  intro f
  induction f with
  | zero => intro a ha; simpa [resolve]
  | succ f ih =>
    intro a ha
    simp only [resolve]
    split
    · next t ht => exact ih t (w.fwd_lt a t ht).2
    · exact ha

theorem final_lt (h : Heap) (w : WF h) (a : Nat) (ha : a < h.next) : final h a < h.next :=
  resolve_lt h w _ a ha

theorem resolve_ge (h : Heap) (w : WF h) : ∀ f a, a ≤ resolve h f a := by
  intro f
  induction f with
  | zero => intro a; simp [resolve]
  | succ f ih =>
    intro a
    simp only [resolve]
    split
    · next t ht =>
      have := (w.fwd_lt a t ht).1
      have := ih t
      omega
    · exact Nat.le_refl a

/-- any sufficient fuel gives `final` -/
theorem resolve_eq_final (h : Heap) (w : WF h) (f : Nat) (a : Nat) (hf : h.next ≤ a + f + 1) :
    resolve h f a = final h a := by
  unfold final
  by_cases ha : a < h.next
  · by_cases hle : f ≤ h.next
    · have e := resolve_more h f a (h.next - f) (resolve_end h w f a ha hf)
      rw [show f + (h.next - f) = h.next by omega] at e
      exact e.symm
    · have e := resolve_more h h.next a (f - h.next) (resolve_end h w h.next a ha (by omega))
      rw [show h.next + (f - h.next) = f by omega] at e
      exact e
  · have hfree : h.mem a = .free := w.free_ge a (by omega)
    have : isFwd h a = false := by simp [isFwd, hfree]
    rw [resolve_notFwd h _ a this, resolve_notFwd h _ a this]

theorem final_fwd (h : Heap) (w : WF h) (a t : Nat) (ht : h.mem a = .fwd t) : final h a = final h t := by
  have hl := w.fwd_lt a t ht
  have h1 : final h a = resolve h (h.next - 1 + 1) a := by
    unfold final; congr 1; omega
  rw [h1]
  simp only [resolve, ht]
  exact resolve_eq_final h w _ t (by omega)

/-- the end of a chain that starts at a list header is a `Here` vector -/
theorem resolve_list (h : Heap) (w : WF h) : ∀ f a, ((∃ o c xs, h.mem a = .vec o c xs) ∨ (∃ u, h.mem a = .fwd u)) →
    isFwd h (resolve h f a) = false → ∃ o c xs, h.mem (resolve h f a) = .vec o c xs := by
  intro f
  induction f with
  | zero =>
    intro a hl hn
    simp only [resolve] at hn ⊢
    rcases hl with hl | ⟨u, hu⟩
    · exact hl
    · simp [isFwd, hu] at hn
  | succ f ih =>
    intro a hl hn
    simp only [resolve] at hn ⊢
    split
    · next t ht =>
      simp only [ht] at hn
      exact ih t (w.fwd_list a t ht) hn
    · next hne =>
      rcases hl with hl | ⟨u, hu⟩
      · exact hl
      · exact absurd hu (hne u)

theorem final_list (h : Heap) (w : WF h) (a : Nat)
    (hl : (∃ o c xs, h.mem a = .vec o c xs) ∨ (∃ u, h.mem a = .fwd u)) : ∃ o c xs, h.mem (final h a) = .vec o c xs :=
  resolve_list h w _ a hl (final_notFwd h w a)

/-! ### heaps that agree on their forwards resolve alike -/

def fwdOf (h : Heap) (a : Nat) : Option Nat :=
  match h.mem a with
  | .fwd t => some t
  | _ => none

theorem resolve_congr (h h' : Heap) (e : ∀ x, fwdOf h' x = fwdOf h x) : ∀ f a, resolve h' f a = resolve h f a := by
  intro f
  induction f with
  | zero => intro a; rfl
  | succ f ih =>
    intro a
    have ea := e a
    simp only [resolve]
    unfold fwdOf at ea
    split <;> split <;> simp_all

theorem isFwd_congr (h h' : Heap) (e : ∀ x, fwdOf h' x = fwdOf h x) (a : Nat) : isFwd h' a = isFwd h a := by
  have ea := e a
  unfold fwdOf at ea
  unfold isFwd
  split <;> split <;> simp_all

/-- same forwards, `next` grown by at most allocation of non-forward cells: `final` is unchanged -/
theorem final_congr (h h' : Heap) (w : WF h) (e : ∀ x, fwdOf h' x = fwdOf h x) (hn : h.next ≤ h'.next)
    (a : Nat) : final h' a = final h a := by
  unfold final
  rw [resolve_congr h h' e]
  have := resolve_more h h.next a (h'.next - h.next) (by have := final_notFwd h w a; unfold final at this; exact this)
  rw [show h.next + (h'.next - h.next) = h'.next by omega] at this
  exact this

/-! ### the primitives preserve `WF` and identities -/

/-- `h'` extends `h`: nothing allocated is lost, and the identity of every allocated address is
unchanged (the immutable identity of the Spec). -/
structure Ext (h h' : Heap) : Prop where
  next_le : h.next ≤ h'.next
  ident_eq : ∀ a, a < h.next → ident h' a = ident h a
  /-- list headers stay list headers, other objects keep their kind -/
  list_stays : ∀ a, ((∃ o c xs, h.mem a = .vec o c xs) ∨ (∃ u, h.mem a = .fwd u)) →
      ((∃ o c xs, h'.mem a = .vec o c xs) ∨ (∃ u, h'.mem a = .fwd u))
  obj_stays : ∀ a o, h.mem a = .obj o → ∃ o', h'.mem a = .obj o'

theorem Ext.refl (h : Heap) : Ext h h := ⟨Nat.le_refl _, fun _ _ => rfl, fun _ x => x, fun _ o x => ⟨o, x⟩⟩

theorem Ext.trans {h1 h2 h3 : Heap} (a : Ext h1 h2) (b : Ext h2 h3) : Ext h1 h3 where
  next_le := Nat.le_trans a.next_le b.next_le
  ident_eq := fun x hx => by rw [b.ident_eq x (Nat.lt_of_lt_of_le hx a.next_le), a.ident_eq x hx]
  list_stays := fun x hx => b.list_stays x (a.list_stays x hx)
  obj_stays := fun x o hx => by
    obtain ⟨o', ho'⟩ := a.obj_stays x o hx
    exact b.obj_stays x o' ho'

/-- in-place change of one cell that keeps its forward status and, for a vector, its oid -/
theorem wf_set (h : Heap) (w : WF h) (b : Nat) (c : Cell)
    (hkeep : (∃ o cap xs ys, h.mem b = .vec o cap xs ∧ c = .vec o cap ys) ∨ (∃ o o', h.mem b = .obj o ∧ c = .obj o')) :
    WF (h.set b c) ∧ Ext h (h.set b c) ∧ (∀ a, final (h.set b c) a = final h a) := by
  have hf : ∀ x, fwdOf (h.set b c) x = fwdOf h x := by
    intro x
    unfold fwdOf Heap.set
    by_cases hx : x = b
    · subst hx
      rcases hkeep with ⟨o, cap, xs, ys, h1, h2⟩ | ⟨o, o', h1, h2⟩ <;> simp [h1, h2]
    · simp [hx]
  have hfin : ∀ a, final (h.set b c) a = final h a := fun a => final_congr h (h.set b c) w hf (Nat.le_refl _) a
  have hmem : ∀ x, x ≠ b → (h.set b c).mem x = h.mem x := by intro x hx; simp [Heap.set, hx]
  have hb : (h.set b c).mem b = c := by simp [Heap.set]
  refine ⟨⟨?_, ?_, ?_, ?_⟩, ⟨Nat.le_refl _, ?_, ?_, ?_⟩, hfin⟩
  · intro a t ht
    have : fwdOf h a = some t := by rw [← hf a]; simp [fwdOf, ht]
    have : h.mem a = .fwd t := by unfold fwdOf at this; split at this <;> simp_all
    exact w.fwd_lt a t this
  · intro a t ht
    have : fwdOf h a = some t := by rw [← hf a]; simp [fwdOf, ht]
    have hat : h.mem a = .fwd t := by unfold fwdOf at this; split at this <;> simp_all
    have hl := w.fwd_list a t hat
    by_cases htb : t = b
    · subst htb
      rw [hb]
      rcases hkeep with ⟨o, cap, xs, ys, h1, h2⟩ | ⟨o, o', h1, h2⟩
      · exact Or.inl ⟨o, cap, ys, h2⟩
      · rcases hl with ⟨o2, c2, xs2, h3⟩ | ⟨u, h3⟩ <;> simp [h1] at h3
    · rw [hmem t htb]; exact hl
  · intro x o cap xs hx
    by_cases hxb : x = b
    · subst hxb
      rw [hb] at hx
      rcases hkeep with ⟨o1, cap1, xs1, ys, h1, h2⟩ | ⟨o1, o', h1, h2⟩
      · rw [h2] at hx
        injection hx with e1 e2 e3
        subst e1
        have := w.vec_oid x o1 cap1 xs1 h1
        exact ⟨this.1, this.2.1, by rw [hfin]; exact this.2.2⟩
      · rw [h2] at hx; cases hx
    · rw [hmem x hxb] at hx
      have := w.vec_oid x o cap xs hx
      exact ⟨this.1, this.2.1, by rw [hfin]; exact this.2.2⟩
  · intro a ha
    have := w.free_ge a ha
    by_cases hab : a = b
    · subst hab
      rcases hkeep with ⟨o, cap, xs, ys, h1, h2⟩ | ⟨o, o', h1, h2⟩ <;> simp [h1] at this
    · rw [hmem a hab]; exact this
  · intro a _
    unfold ident
    rw [hfin]
    by_cases hab : final h a = b
    · rw [hab, hb]
      rcases hkeep with ⟨o, cap, xs, ys, h1, h2⟩ | ⟨o, o', h1, h2⟩ <;> simp [h1, h2]
    · rw [hmem _ hab]
  · intro a hl
    by_cases hab : a = b
    · subst hab
      rw [hb]
      rcases hkeep with ⟨o, cap, xs, ys, h1, h2⟩ | ⟨o, o', h1, h2⟩
      · exact Or.inl ⟨o, cap, ys, h2⟩
      · rcases hl with ⟨o2, c2, xs2, h3⟩ | ⟨u, h3⟩ <;> simp [h1] at h3
    · rw [hmem a hab]; exact hl
  · intro a o ho
    by_cases hab : a = b
    · subst hab
      rw [hb]
      rcases hkeep with ⟨o1, cap, xs, ys, h1, h2⟩ | ⟨o1, o', h1, h2⟩
      · simp [h1] at ho
      · exact ⟨o', h2⟩
    · rw [hmem a hab]; exact ⟨o, ho⟩

theorem wf_setItems (h : Heap) (w : WF h) (b : Nat) (ys : List Val) :
    WF (h.setItems b ys) ∧ Ext h (h.setItems b ys) ∧ (∀ a, final (h.setItems b ys) a = final h a) := by
  unfold Heap.setItems
  split
  · next o cap xs hb => exact wf_set h w b _ (Or.inl ⟨o, cap, xs, ys, hb, rfl⟩)
  · exact ⟨w, Ext.refl h, fun _ => rfl⟩

theorem wf_setObj (h : Heap) (w : WF h) (b : Nat) (o' : OCell) :
    WF (h.setObj b o') ∧ Ext h (h.setObj b o') ∧ (∀ a, final (h.setObj b o') a = final h a) := by
  unfold Heap.setObj
  split
  · next o hb => exact wf_set h w b _ (Or.inr ⟨o, o', hb, rfl⟩)
  · exact ⟨w, Ext.refl h, fun _ => rfl⟩

/-- allocation of a fresh cell that is not a forward; a fresh vector gets its own address as oid -/
theorem wf_alloc (h : Heap) (w : WF h) (c : Cell)
    (hc : (∃ cap xs, c = .vec h.next cap xs) ∨ (∃ o, c = .obj o)) :
    let h' : Heap := { mem := fun x => if x = h.next then c else h.mem x, next := h.next + 1 }
    WF h' ∧ Ext h h' ∧ (∀ a, final h' a = final h a) := by
  intro h'
  have hfree : h.mem h.next = .free := w.free_ge _ (Nat.le_refl _)
  have hmem : ∀ x, x ≠ h.next → h'.mem x = h.mem x := by intro x hx; simp [h', hx]
  have hn : h'.mem h.next = c := by simp [h']
  have hf : ∀ x, fwdOf h' x = fwdOf h x := by
    intro x
    unfold fwdOf
    by_cases hx : x = h.next
    · subst hx
      rw [hn, hfree]
      rcases hc with ⟨cap, xs, e⟩ | ⟨o, e⟩ <;> simp [e]
    · rw [hmem x hx]
  have hfin : ∀ a, final h' a = final h a := fun a => final_congr h h' w hf (by simp [h']) a
  refine ⟨⟨?_, ?_, ?_, ?_⟩, ⟨by simp [h'], ?_, ?_, ?_⟩, hfin⟩
  · intro a t ht
    have hne : a ≠ h.next := by
      intro e; subst e; rw [hn] at ht
      rcases hc with ⟨cap, xs, e⟩ | ⟨o, e⟩ <;> simp [e] at ht
    rw [hmem a hne] at ht
    have := w.fwd_lt a t ht
    exact ⟨this.1, by simp [h']; omega⟩
  · intro a t ht
    have hne : a ≠ h.next := by
      intro e; subst e; rw [hn] at ht
      rcases hc with ⟨cap, xs, e⟩ | ⟨o, e⟩ <;> simp [e] at ht
    rw [hmem a hne] at ht
    have hl := w.fwd_lt a t ht
    rw [hmem t (by omega)]
    exact w.fwd_list a t ht
  · intro b o cap xs hb
    by_cases hbn : b = h.next
    · subst hbn
      rw [hn] at hb
      rcases hc with ⟨cap', xs', e⟩ | ⟨o', e⟩
      · rw [e] at hb
        injection hb with e1 e2 e3
        subst e1
        refine ⟨by simp [h'], Nat.le_refl _, ?_⟩
        rw [hfin]
        exact final_of_notFwd h _ (by simp [isFwd, hfree])
      · rw [e] at hb; cases hb
    · rw [hmem b hbn] at hb
      have := w.vec_oid b o cap xs hb
      exact ⟨by simp [h']; omega, this.2.1, by rw [hfin]; exact this.2.2⟩
  · intro a ha
    have : h.next + 1 ≤ a := ha
    rw [hmem a (by omega)]
    exact w.free_ge a (by omega)
  · intro a ha
    unfold ident
    rw [hfin]
    have := final_lt h w a ha
    rw [hmem _ (by omega)]
  · intro a hl
    have hne : a ≠ h.next := by
      intro e; subst e
      rcases hl with ⟨o2, c2, xs2, h3⟩ | ⟨u, h3⟩ <;> simp [hfree] at h3
    rw [hmem a hne]; exact hl
  · intro a o ho
    have hne : a ≠ h.next := by intro e; subst e; simp [hfree] at ho
    rw [hmem a hne]; exact ⟨o, ho⟩

theorem wf_allocVec (h : Heap) (w : WF h) (cap : Nat) (xs : List Val) :
    WF (h.allocVec cap xs).1 ∧ Ext h (h.allocVec cap xs).1 ∧ (∀ a, final (h.allocVec cap xs).1 a = final h a) :=
  wf_alloc h w (.vec h.next cap xs) (Or.inl ⟨cap, xs, rfl⟩)

theorem wf_allocObj (h : Heap) (w : WF h) (o : OCell) :
    WF (h.allocObj o).1 ∧ Ext h (h.allocObj o).1 ∧ (∀ a, final (h.allocObj o).1 a = final h a) :=
  wf_alloc h w (.obj o) (Or.inr ⟨o, rfl⟩)

/-- the heap after `grow` of the `Here` vector `b` -/
def grown (h : Heap) (b : Nat) (o nc : Nat) (xs : List Val) : Heap :=
  { mem := fun x => if x = h.next then .vec o nc xs else if x = b then .fwd h.next else h.mem x, next := h.next + 1 }

theorem grow_eq (h : Heap) (b nc o cap : Nat) (xs : List Val) (hb : h.mem b = .vec o cap xs) :
    h.grow b nc = (grown h b o nc xs, h.next) := by
  unfold Heap.grow grown; simp [hb]

/-- where every chain ends after `grow b`: chains that ended at `b` now end at the new vector -/
theorem grow_resolve (h : Heap) (w : WF h) (b o cap nc : Nat) (xs : List Val) (hb : h.mem b = .vec o cap xs) :
    ∀ f a, isFwd h (resolve h f a) = false →
      resolve (grown h b o nc xs) (f + 1) a = if resolve h f a = b then h.next else resolve h f a := by
  have hbl : b < h.next := (w.vec_oid b o cap xs hb).1
  have hfree : h.mem h.next = .free := w.free_ge _ (Nat.le_refl _)
  have hnn : (grown h b o nc xs).mem h.next = .vec o nc xs := by simp [grown]
  have hbb : (grown h b o nc xs).mem b = .fwd h.next := by
    have : b ≠ h.next := by omega
    simp [grown, this]
  have hoth : ∀ x, x ≠ h.next → x ≠ b → (grown h b o nc xs).mem x = h.mem x := by
    intro x h1 h2; simp [grown, h1, h2]
  -- a cell that is not a forward in `h`
  have base : ∀ g a, isFwd h a = false →
      resolve (grown h b o nc xs) (g + 1) a = if a = b then h.next else a := by
    intro g a hn
    simp only [resolve]
    by_cases hab : a = b
    · subst hab
      rw [hbb]
      simp only [if_true]
      cases g with
      | zero => rfl
      | succ g => simp [resolve, hnn]
    · by_cases han : a = h.next
      · subst han; rw [hnn]; simp [hab]
      · rw [hoth a han hab]
        simp only [hab, if_false]
        rw [isFwd_false_iff] at hn
        split
        · next t ht => exact absurd ht (hn t)
        · rfl
  intro f
  induction f with
  | zero =>
    intro a hn
    have hn' : isFwd h a = false := hn
    exact base 0 a hn'
  | succ f ih =>
    intro a hn
    cases hm : h.mem a with
    | fwd t =>
      have hab : a ≠ b := by intro e; subst e; rw [hb] at hm; cases hm
      have han : a ≠ h.next := by intro e; subst e; rw [hfree] at hm; cases hm
      have e1 : resolve h (f + 1) a = resolve h f t := by simp [resolve, hm]
      rw [e1] at hn ⊢
      have e2 : resolve (grown h b o nc xs) (f + 1 + 1) a = resolve (grown h b o nc xs) (f + 1) t := by
        conv => lhs; unfold resolve
        rw [hoth a han hab, hm]
      rw [e2]
      exact ih t hn
    | _ =>
      have hnf : isFwd h a = false := by simp [isFwd, hm]
      have e1 : resolve h (f + 1) a = a := resolve_notFwd h _ a hnf
      rw [e1]
      exact base (f + 1) a hnf

theorem grow_final (h : Heap) (w : WF h) (b o cap nc : Nat) (xs : List Val) (hb : h.mem b = .vec o cap xs) (a : Nat) :
    final (grown h b o nc xs) a = if final h a = b then h.next else final h a := by
  have := grow_resolve h w b o cap nc xs hb h.next a (by have := final_notFwd h w a; unfold final at this; exact this)
  unfold final
  exact this

theorem wf_grown (h : Heap) (w : WF h) (b o cap nc : Nat) (xs : List Val) (hb : h.mem b = .vec o cap xs) :
    WF (grown h b o nc xs) ∧ Ext h (grown h b o nc xs) := by
  have hbl := w.vec_oid b o cap xs hb
  have hfree : h.mem h.next = .free := w.free_ge _ (Nat.le_refl _)
  have hnn : (grown h b o nc xs).mem h.next = .vec o nc xs := by simp [grown]
  have hbn : b ≠ h.next := by omega
  have hbb : (grown h b o nc xs).mem b = .fwd h.next := by simp [grown, hbn]
  have hoth : ∀ x, x ≠ h.next → x ≠ b → (grown h b o nc xs).mem x = h.mem x := by
    intro x h1 h2; simp [grown, h1, h2]
  have hfin := grow_final h w b o cap nc xs hb
  have hnext : (grown h b o nc xs).next = h.next + 1 := rfl
  refine ⟨⟨?_, ?_, ?_, ?_⟩, ⟨by simp [grown], ?_, ?_, ?_⟩⟩
  · intro a t ht
    by_cases han : a = h.next
    · subst han; rw [hnn] at ht; cases ht
    · by_cases hab : a = b
      · subst hab; rw [hbb] at ht; injection ht with e; subst e
        exact ⟨hbl.1, by rw [hnext]; omega⟩
      · rw [hoth a han hab] at ht
        have := w.fwd_lt a t ht
        exact ⟨this.1, by rw [hnext]; omega⟩
  · intro a t ht
    by_cases han : a = h.next
    · subst han; rw [hnn] at ht; cases ht
    · by_cases hab : a = b
      · subst hab; rw [hbb] at ht; injection ht with e; subst e
        exact Or.inl ⟨o, nc, xs, hnn⟩
      · rw [hoth a han hab] at ht
        have hl := w.fwd_lt a t ht
        by_cases htb : t = b
        · subst htb; exact Or.inr ⟨h.next, hbb⟩
        · rw [hoth t (by omega) htb]; exact w.fwd_list a t ht
  · intro x o2 c2 xs2 hx
    by_cases hxn : x = h.next
    · subst hxn
      rw [hnn] at hx
      injection hx with e1 e2 e3
      subst e1
      refine ⟨by rw [hnext]; omega, by omega, ?_⟩
      rw [hfin, hbl.2.2]; simp
    · by_cases hxb : x = b
      · subst hxb; rw [hbb] at hx; cases hx
      · rw [hoth x hxn hxb] at hx
        have := w.vec_oid x o2 c2 xs2 hx
        refine ⟨by rw [hnext]; omega, this.2.1, ?_⟩
        rw [hfin, this.2.2]; simp [hxb]
  · intro a ha
    rw [hnext] at ha
    rw [hoth a (by omega) (by omega)]
    exact w.free_ge a (by omega)
  · intro a ha
    unfold ident
    rw [hfin]
    by_cases hab : final h a = b
    · simp only [hab, if_true, hnn, hb]
    · simp only [hab, if_false]
      have := final_lt h w a ha
      rw [hoth _ (by omega) hab]
  · intro a hl
    by_cases han : a = h.next
    · subst han; exact Or.inl ⟨o, nc, xs, hnn⟩
    · by_cases hab : a = b
      · subst hab; exact Or.inr ⟨h.next, hbb⟩
      · rw [hoth a han hab]; exact hl
  · intro a o2 ho
    have han : a ≠ h.next := by intro e; subst e; simp [hfree] at ho
    have hab : a ≠ b := by intro e; subst e; simp [hb] at ho
    rw [hoth a han hab]; exact ⟨o2, ho⟩

theorem wf_grow (h : Heap) (w : WF h) (b nc : Nat) : WF (h.grow b nc).1 ∧ Ext h (h.grow b nc).1 := by
  cases hb : h.mem b with
  | vec o cap xs => rw [grow_eq h b nc o cap xs hb]; exact wf_grown h w b o cap nc xs hb
  | _ => simp [Heap.grow, hb]; exact ⟨w, Ext.refl h⟩

/-! ### every heap program preserves `WF` and identities -/

theorem run_wf_ext {α : Type} (p : HCmd α) : ∀ h, WF h → WF (p.run h).2 ∧ Ext h (p.run h).2 := by
  induction p with
  | ret x => intro h w; exact ⟨w, Ext.refl h⟩
  | read a k ih => intro h w; exact ih (h.mem a) h w
  | limit k ih => intro h w; exact ih h.next h w
  | allocVec cap items k ih =>
    intro h w
    obtain ⟨w1, e1, _⟩ := wf_allocVec h w cap items
    obtain ⟨w2, e2⟩ := ih _ _ w1
    exact ⟨w2, e1.trans e2⟩
  | allocObj o k ih =>
    intro h w
    obtain ⟨w1, e1, _⟩ := wf_allocObj h w o
    obtain ⟨w2, e2⟩ := ih _ _ w1
    exact ⟨w2, e1.trans e2⟩
  | setItems b items k ih =>
    intro h w
    obtain ⟨w1, e1, _⟩ := wf_setItems h w b items
    obtain ⟨w2, e2⟩ := ih _ w1
    exact ⟨w2, e1.trans e2⟩
  | setObj a o k ih =>
    intro h w
    obtain ⟨w1, e1, _⟩ := wf_setObj h w a o
    obtain ⟨w2, e2⟩ := ih _ w1
    exact ⟨w2, e1.trans e2⟩
  | grow b nc k ih =>
    intro h w
    obtain ⟨w1, e1⟩ := wf_grow h w b nc
    obtain ⟨w2, e2⟩ := ih _ _ w1
    exact ⟨w2, e1.trans e2⟩

/-- a program that performs no relocation leaves every forward status as it was: references can
only become stale through `List::grow` -/
theorem run_no_grow {α : Type} (p : HCmd α) : ∀ h, WF h → p.grows h = 0 → ∀ a, isFwd (p.run h).2 a = isFwd h a := by
  induction p with
  | ret x => intro h _ _ a; rfl
  | read a k ih => intro h w g; exact ih (h.mem a) h w g
  | limit k ih => intro h w g; exact ih h.next h w g
  | allocVec cap items k ih =>
    intro h w g a
    obtain ⟨w1, _, _⟩ := wf_allocVec h w cap items
    rw [HCmd.run, ih _ _ w1 g a]
    have hfree : h.mem h.next = .free := w.free_ge _ (Nat.le_refl _)
    unfold isFwd Heap.allocVec
    by_cases ha : a = h.next
    · subst ha; simp [hfree]
    · simp [ha]
  | allocObj o k ih =>
    intro h w g a
    obtain ⟨w1, _, _⟩ := wf_allocObj h w o
    rw [HCmd.run, ih _ _ w1 g a]
    have hfree : h.mem h.next = .free := w.free_ge _ (Nat.le_refl _)
    unfold isFwd Heap.allocObj
    by_cases ha : a = h.next
    · subst ha; simp [hfree]
    · simp [ha]
  | setItems b items k ih =>
    intro h w g a
    obtain ⟨w1, _, _⟩ := wf_setItems h w b items
    rw [HCmd.run, ih _ w1 g a]
    unfold Heap.setItems
    split
    · next o cap xs hb =>
      unfold isFwd Heap.set
      by_cases ha : a = b
      · subst ha; simp [hb]
      · simp [ha]
    · rfl
  | setObj b o k ih =>
    intro h w g a
    obtain ⟨w1, _, _⟩ := wf_setObj h w b o
    rw [HCmd.run, ih _ w1 g a]
    unfold Heap.setObj
    split
    · next o' hb =>
      unfold isFwd Heap.set
      by_cases ha : a = b
      · subst ha; simp [hb]
      · simp [ha]
    · rfl
  | grow b nc k ih =>
    intro h w g a
    simp only [HCmd.grows] at g
    cases hb : h.mem b with
    | vec o cap xs => simp [hb] at g
    | _ =>
      simp only [hb] at g
      have e : h.grow b nc = (h, b) := by simp [Heap.grow, hb]
      rw [HCmd.run, e]
      rw [e] at g
      exact ih b h w (by simpa using g) a

theorem wf_empty : WF Heap.empty := by
  refine ⟨?_, ?_, ?_, ?_⟩ <;> intros <;> simp_all [Heap.empty]

end LaytheVerif.ListFwd
