/-
The `List` operations of list.rs, reduced to "find the final vector, then act on it", and their
effect on the contents seen through every alias.
-/
import LaytheVerif.Lemmas.ListFwdHeap
namespace LaytheVerif.ListFwd
open HCmd

@[simp] theorem run_pure {α : Type} (x : α) (h : Heap) : (pure x : HCmd α).run h = (x, h) := rfl

theorem run_bind_aux {α β : Type} (p : HCmd α) (f : α → HCmd β) : ∀ h, (p.bind f).run h = (f (p.run h).1).run (p.run h).2 := by
  induction p with
  | ret x => intro h; rfl
  | read a k ih => intro h; exact ih (h.mem a) h
  | limit k ih => intro h; exact ih h.next h
  | allocVec cap items k ih => intro h; exact ih _ _
  | allocObj o k ih => intro h; exact ih _ _
  | setItems b items k ih => intro h; exact ih _
  | setObj a o k ih => intro h; exact ih _
  | grow b nc k ih => intro h; exact ih _ _

@[simp] theorem run_bind {α β : Type} (p : HCmd α) (f : α → HCmd β) (h : Heap) :
    (p >>= f).run h = (f (p.run h).1).run (p.run h).2 := run_bind_aux p f h

@[simp] theorem run_setItemsM (b : Nat) (ys : List Val) (h : Heap) : (setItemsM b ys).run h = ((), h.setItems b ys) := rfl
@[simp] theorem run_growM (b nc : Nat) (h : Heap) : (growM b nc).run h = ((h.grow b nc).2, (h.grow b nc).1) := rfl
@[simp] theorem run_readM (a : Nat) (h : Heap) : (readM a).run h = (h.mem a, h) := rfl
@[simp] theorem run_limitM (h : Heap) : limitM.run h = (h.next, h) := rfl

/-- a list alias: the address of a list header, current (`Here`) or old (`Forwarded`) -/
def IsListAlias (h : Heap) (a : Nat) : Prop :=
  (∃ o c xs, h.mem a = .vec o c xs) ∨ (∃ u, h.mem a = .fwd u)

theorem IsListAlias.lt {h : Heap} (w : WF h) {a : Nat} (ha : IsListAlias h a) : a < h.next := by
  apply Classical.byContradiction
  intro hn
  have := w.free_ge a (by omega)
  rcases ha with ⟨o, c, xs, e⟩ | ⟨u, e⟩ <;> simp [this] at e

/-- every `List` method: with enough fuel it acts on the final vector of the alias -/
theorem withHere_run {β : Type} (d : β) (act : Nat → Nat → Nat → List Val → HCmd β) (h : Heap) :
    ∀ f a, (withHere d act (f + 1) a).run h =
      match h.mem (resolve h f a) with
      | .vec o cap xs => (act (resolve h f a) o cap xs).run h
      | _ => (d, h) := by
  intro f
  induction f with
  | zero =>
    intro a
    simp only [withHere, HCmd.run, resolve]
    cases h.mem a <;> simp
  | succ f ih =>
    intro a
    conv => lhs; unfold withHere
    simp only [HCmd.run, resolve]
    cases hm : h.mem a with
    | fwd t => simp only []; exact ih t
    | vec o cap xs => simp [hm]
    | free => simp [hm]
    | obj o => simp [hm]

theorem withHere_final {β : Type} (d : β) (act : Nat → Nat → Nat → List Val → HCmd β) (h : Heap) (_w : WF h)
    (a o cap : Nat) (xs : List Val) (hb : h.mem (final h a) = .vec o cap xs) :
    (withHere d act (h.next + 1) a).run h = (act (final h a) o cap xs).run h := by
  rw [withHere_run]
  show (match h.mem (final h a) with
      | .vec o cap xs => (act (final h a) o cap xs).run h
      | _ => (d, h)) = _
  rw [hb]

theorem items_eq {h : Heap} {a o cap : Nat} {xs : List Val} (hb : h.mem (final h a) = .vec o cap xs) : items h a = xs := by
  simp [items, hb]

/-- contents through any alias after an in-place write to the `Here` vector `b` -/
theorem items_setItems (h : Heap) (w : WF h) (b o cap : Nat) (xs ys : List Val) (hb : h.mem b = .vec o cap xs) (a' : Nat) :
    items (h.setItems b ys) a' = if final h a' = b then ys else items h a' := by
  obtain ⟨_, _, hfin⟩ := wf_setItems h w b ys
  unfold items
  rw [hfin]
  simp only [Heap.setItems, hb, Heap.set]
  by_cases e : final h a' = b
  · simp [e]
  · simp [e]

/-- contents through any alias after `grow b` followed by a write to the new vector -/
theorem items_grown (h : Heap) (w : WF h) (b o cap nc : Nat) (xs ys : List Val) (hb : h.mem b = .vec o cap xs)
    (a' : Nat) (ha' : a' < h.next) :
    items ((grown h b o nc xs).setItems h.next ys) a' = if final h a' = b then ys else items h a' := by
  obtain ⟨w1, _⟩ := wf_grown h w b o cap nc xs hb
  have hnn : (grown h b o nc xs).mem h.next = .vec o nc xs := by simp [grown]
  rw [items_setItems _ w1 h.next o nc xs ys hnn, grow_final h w b o cap nc xs hb]
  have hlt := final_lt h w a' ha'
  by_cases e : final h a' = b
  · simp [e]
  · have hne : final h a' ≠ h.next := by omega
    simp only [e, if_false, hne]
    unfold items
    rw [grow_final h w b o cap nc xs hb]
    simp only [e, if_false]
    simp [grown, hne, e]

/-- `ensure_capacity` + write: the contents become `ys` through every alias of the list, and stay
what they were through every alias of any other list — whether or not the list relocates. -/
theorem items_ensure (reloc : Bool) (h : Heap) (w : WF h) (b o cap n : Nat) (xs ys : List Val) (hb : h.mem b = .vec o cap xs)
    (a' : Nat) (ha' : a' < h.next) :
    items ((ensureCapacity reloc b n cap >>= fun l => setItemsM l ys).run h).2 a' =
      if final h a' = b then ys else items h a' := by
  unfold ensureCapacity
  split
  · simp only [run_bind, run_growM, run_setItemsM]
    rw [grow_eq h b (max (cap * 2) n) o cap xs hb]
    exact items_grown h w b o cap (max (cap * 2) n) xs ys hb a' ha'
  · simp only [run_bind, run_pure, run_setItemsM]
    exact items_setItems h w b o cap xs ys hb a'

end LaytheVerif.ListFwd
