/-
Lemmas/ScopeLex.lean — the compiler's name resolution (flat `locals` searched in reverse, truncated
by depth at scope exit, continued through the chain of enclosing compilers by `resolve_capture`) is
lexical scoping: simulation between the compiler state and the Spec's environments.
-/
import LaytheVerif.Model.Scope
import LaytheVerif.Lemmas.ScopeChain
namespace LaytheVerif.Scope
open Spec

/-! ### lists of locals as flattened scopes -/

def Local.key (l : Local) : Name × Nat × Nat := (l.sym.name, l.decl, l.depth)

/-- binder of the last entry with that name -/
def rliK : List (Name × Nat × Nat) → Name → Option Nat
  | [], _ => none
  | k :: rest, x =>
    match rliK rest x with
    | some d => some d
    | none => if k.1 = x then some k.2.1 else none

theorem rli_key (L : List Local) (x : Name) :
    (resolveLocalIn L x).map (fun r => r.2.decl) = rliK (L.map Local.key) x := by
  induction L with
  | nil => simp [resolveLocalIn, rliK]
  | cons l L ih =>
    simp only [resolveLocalIn, List.map_cons, rliK]
    cases h : resolveLocalIn L x with
    | some r => simp [h] at ih; simp [← ih]
    | none =>
      simp [h] at ih
      rw [← ih]
      by_cases hn : l.sym.name = x <;> simp [hn, Local.key]

theorem rli_get (L : List Local) (x : Name) (i : Nat) (l : Local) (h : resolveLocalIn L x = some (i, l)) :
    L[i]? = some l ∧ l.sym.name = x := by
  induction L generalizing i with
  | nil => simp [resolveLocalIn] at h
  | cons a L ih =>
    simp only [resolveLocalIn] at h
    cases hr : resolveLocalIn L x with
    | some r =>
      obtain ⟨j, l'⟩ := r
      simp [hr] at h; obtain ⟨rfl, rfl⟩ := h
      simpa using ih j hr
    | none =>
      simp [hr] at h
      obtain ⟨hn, rfl, rfl⟩ := h
      simp [hn]

theorem rliK_append (A B : List (Name × Nat × Nat)) (x : Name) :
    rliK (A ++ B) x = match rliK B x with | some d => some d | none => rliK A x := by
  induction A with
  | nil => simp [rliK]; cases rliK B x <;> rfl
  | cons a A ih =>
    simp only [List.cons_append, rliK, ih]
    cases rliK B x <;> simp

theorem rliK_scope (s : Scope) (dep : Nat) (x : Name) :
    rliK (s.map (fun nd => (nd.1, nd.2, dep))).reverse x = scopeFind x s := by
  induction s with
  | nil => simp [rliK, scopeFind]
  | cons a s ih =>
    simp only [List.map_cons, List.reverse_cons, rliK_append, rliK]
    by_cases ha : a.1 = x
    · simp [ha, scopeFind, List.find?]
    · simp only [ha, if_false, ih]
      simp [scopeFind, List.find?, ha]

/-- the locals a function level has when its scopes (innermost first) are `scopes` and its
outermost scope has depth `base + 1` -/
def flatLocals : List Scope → Nat → List (Name × Nat × Nat)
  | [], _ => []
  | s :: rest, base => flatLocals rest base ++ (s.map (fun nd => (nd.1, nd.2, base + rest.length + 1))).reverse

theorem rliK_flat (scopes : List Scope) (base : Nat) (x : Name) :
    rliK (flatLocals scopes base) x = lookupScopes x scopes := by
  induction scopes with
  | nil => simp [flatLocals, rliK, lookupScopes]
  | cons s rest ih =>
    simp only [flatLocals, rliK_append, rliK_scope, lookupScopes, ih]
    cases scopeFind x s <;> rfl

theorem flat_depth_le (scopes : List Scope) (base : Nat) :
    ∀ k ∈ flatLocals scopes base, k.2.2 ≤ base + scopes.length := by
  induction scopes with
  | nil => simp [flatLocals]
  | cons s rest ih =>
    intro k hk
    simp only [flatLocals, List.mem_append, List.mem_reverse, List.mem_map] at hk
    rcases hk with hk | ⟨nd, -, rfl⟩
    · have := ih k hk; simp; omega
    · simp; omega

theorem lookupScopes_append (A B : List Scope) (x : Name) :
    lookupScopes x (A ++ B) = match lookupScopes x A with | some d => some d | none => lookupScopes x B := by
  induction A with
  | nil => simp [lookupScopes]
  | cons a A ih => simp only [List.cons_append, lookupScopes, ih]; cases scopeFind x a <;> simp

/-- `drop_local_count` on keys -/
def dropK (keys : List (Name × Nat × Nat)) (sd : Nat) : Nat :=
  (keys.reverse.dropWhile (fun k => decide (k.2.2 > sd))).length

theorem dropLocalCount_key (L : List Local) (sd : Nat) : dropLocalCount L sd = dropK (L.map Local.key) sd := by
  simp only [dropLocalCount, dropK, ← List.map_reverse]
  rw [List.dropWhile_map, List.length_map]
  rfl

theorem dropWhile_all {α : Type} (p : α → Bool) (B R : List α) (h : ∀ k ∈ B, p k = true) :
    List.dropWhile p (B ++ R) = List.dropWhile p R := by
  induction B with
  | nil => rfl
  | cons b B ih =>
    simp only [List.cons_append, List.dropWhile_cons, h b (by simp), if_true]
    exact ih (fun k hk => h k (by simp [hk]))

theorem dropWhile_none {α : Type} (p : α → Bool) (R : List α) (h : ∀ k ∈ R, p k = false) :
    List.dropWhile p R = R := by
  cases R with
  | nil => rfl
  | cons r R => simp [List.dropWhile_cons, h r (by simp)]

theorem dropK_split (A B : List (Name × Nat × Nat)) (sd : Nat)
    (hA : ∀ k ∈ A, k.2.2 ≤ sd) (hB : ∀ k ∈ B, k.2.2 > sd) : dropK (A ++ B) sd = A.length := by
  simp only [dropK, List.reverse_append]
  rw [dropWhile_all _ _ _ (by intro k hk; simpa using hB k (by simpa using hk)),
      dropWhile_none _ _ (by intro k hk; simpa using hA k (by simpa using hk))]
  simp

/-! ### the relation between the compiler chain and the Spec environment -/

def isLocalState : SymState → Bool
  | .uninit | .localInit | .localCaptured => true
  | _ => false

/-- a symbol as the resolver leaves it in the table of a scope: a local state, and if it is still
`LocalInitialized` (not captured) then no occurrence in a more deeply nested function resolved to it -/
def symGood (s : RSym) : Bool := isLocalState s.state && (s.state != .localInit || s.hits.isEmpty)

theorem symGood_local {s : RSym} (h : symGood s = true) : isLocalState s.state = true := by
  simp only [symGood, Bool.and_eq_true] at h; exact h.1

theorem symGood_hits {s : RSym} (h : symGood s = true) (hs : s.state = .localInit) : s.hits = [] := by
  simp only [symGood, Bool.and_eq_true, Bool.or_eq_true, bne_iff_ne, ne_eq, List.isEmpty_iff] at h
  rcases h.2 with h2 | h2
  · exact absurd hs h2
  · exact h2

/-- every symbol of the table is `symGood` (what the resolver attaches to scopes, see `C02_resolver_tables_good`) -/
def tblLocal (t : Table) : Bool := t.all symGood

/-- every module-table symbol has a module state -/
def mtOk (t : Table) : Bool := t.all (fun s => s.state = .moduleInit ∨ s.state = .globalInit)

def LocalOk (l : Local) : Prop := symGood l.sym = true ∨ l.sym.name = UNINITIALIZED_VAR

/-- one function level: its locals are its scopes flattened, with the depths `begin_scope` gave them -/
def LevelRel (c : Comp) (scopes : List Scope) (base : Nat) : Prop :=
  c.locals.map Local.key = flatLocals scopes base ∧ c.scopeDepth = base + scopes.length ∧ scopes ≠ [] ∧
  c.captureCount = c.captures.length ∧ (∀ l ∈ c.locals, LocalOk l) ∧ (∀ t ∈ c.localTables, tblLocal t = true)

/-- the chain of compilers against the levels of the environment; the last one is the script -/
def Rel : List Comp → Env → Prop
  | [c], [scopes] => LevelRel c scopes 0 ∧ c.isScript = true
  | c :: c2 :: cs, scopes :: s2 :: env =>
    (∃ base, 1 ≤ base ∧ LevelRel c scopes base) ∧ c.isScript = false ∧ Rel (c2 :: cs) (s2 :: env)
  | _, _ => False

theorem Rel.ne {chain : List Comp} {env : Env} (h : Rel chain env) :
    ∃ c rest sc erest, chain = c :: rest ∧ env = sc :: erest ∧ rest.length = erest.length := by
  induction chain generalizing env with
  | nil => simp [Rel] at h
  | cons c rest ih =>
    cases env with
    | nil => cases rest <;> simp [Rel] at h
    | cons sc erest =>
      refine ⟨c, rest, sc, erest, rfl, rfl, ?_⟩
      cases rest with
      | nil => cases erest with
        | nil => rfl
        | cons _ _ => simp [Rel] at h
      | cons c2 cs => cases erest with
        | nil => simp [Rel] at h
        | cons s2 e2 =>
          simp only [Rel] at h
          obtain ⟨_, _, _, _, h1, h2, h3⟩ := ih h.2.2
          cases h1; cases h2; simp [h3]

/-- the head level, with some base -/
theorem Rel.head {c : Comp} {rest : List Comp} {sc : List Scope} {erest : Env} (h : Rel (c :: rest) (sc :: erest)) :
    ∃ base, LevelRel c sc base ∧ (rest = [] → base = 0) ∧ (rest ≠ [] → 1 ≤ base) := by
  cases rest with
  | nil => cases erest with
    | nil => exact ⟨0, h.1, fun _ => rfl, fun h => absurd rfl h⟩
    | cons _ _ => simp [Rel] at h
  | cons c2 cs => cases erest with
    | nil => simp [Rel] at h
    | cons s2 e2 =>
      obtain ⟨⟨base, hb, hl⟩, _, _⟩ := h
      exact ⟨base, hl, fun h => by simp at h, fun _ => hb⟩

/-- replace the head level -/
theorem Rel.update {c c' : Comp} {rest : List Comp} {sc sc' : List Scope} {erest : Env}
    (h : Rel (c :: rest) (sc :: erest)) (hs : c'.isScript = c.isScript)
    (hl : ∀ base, LevelRel c sc base → LevelRel c' sc' base) : Rel (c' :: rest) (sc' :: erest) := by
  cases rest with
  | nil => cases erest with
    | nil => exact ⟨hl 0 h.1, hs ▸ h.2⟩
    | cons _ _ => simp [Rel] at h
  | cons c2 cs => cases erest with
    | nil => simp [Rel] at h
    | cons s2 e2 =>
      obtain ⟨⟨base, hb, hlv⟩, h2, h3⟩ := h
      exact ⟨⟨base, hb, hl base hlv⟩, hs ▸ h2, h3⟩

theorem Rel.tail {c : Comp} {rest : List Comp} {sc : List Scope} {erest : Env}
    (h : Rel (c :: rest) (sc :: erest)) (hne : rest ≠ []) : Rel rest erest := by
  cases rest with
  | nil => exact absurd rfl hne
  | cons c2 cs => cases erest with
    | nil => simp [Rel] at h
    | cons s2 e2 => exact h.2.2

/-! ### the compiler's primitive operations against the Spec's -/

/-- an operation that leaves the module table and the occurrence log alone -/
def Silent (cs' cs : CS) : Prop := cs'.modTable = cs.modTable ∧ cs'.occs = cs.occs ∧ cs'.modOffsets = cs.modOffsets

theorem Silent.refl (cs : CS) : Silent cs cs := ⟨rfl, rfl, rfl⟩
theorem Silent.trans {a b c : CS} (h1 : Silent a b) (h2 : Silent b c) : Silent a c :=
  ⟨h1.1.trans h2.1, h1.2.1.trans h2.2.1, h1.2.2.trans h2.2.2⟩

theorem emit_rel (cs : CS) (e : Ev) (env : Env) (h : Rel cs.chain env) :
    Rel (cs.emit e).chain env ∧ Silent (cs.emit e) cs := by
  obtain ⟨c, rest, sc, erest, hc, he, _⟩ := h.ne
  subst he
  unfold CS.emit
  rw [hc] at h ⊢
  exact ⟨h.update rfl (fun base hl => hl), rfl, rfl, rfl⟩

theorem panic_rel (cs : CS) (m : String) : (cs.panic m).chain = cs.chain ∧ Silent (cs.panic m) cs := ⟨rfl, rfl, rfl, rfl⟩
theorem error_rel (cs : CS) (m : String) : (cs.error m).chain = cs.chain ∧ Silent (cs.error m) cs := ⟨rfl, rfl, rfl, rfl⟩

theorem beginScope_rel (cs : CS) (tbl : Table) (env : Env) (h : Rel cs.chain env) (ht : tblLocal tbl = true) :
    Rel (cs.beginScope tbl).chain (pushScope env) ∧ Silent (cs.beginScope tbl) cs := by
  obtain ⟨c, rest, sc, erest, hc, he, _⟩ := h.ne
  subst he
  unfold CS.beginScope
  rw [hc] at h ⊢
  refine ⟨?_, rfl, rfl, rfl⟩
  simp only [pushScope]
  refine h.update rfl (fun base hl => ?_)
  obtain ⟨h1, h2, h3, h4, h5, h6⟩ := hl
  refine ⟨by simpa [flatLocals] using h1, by simp [h2]; omega, by simp, h4, h5, ?_⟩
  intro t ht'
  simp at ht'
  rcases ht' with rfl | ht'
  · exact ht
  · exact h6 t ht'

theorem endScope_rel (cs : CS) (env : Env) (h : Rel cs.chain env)
    (h2 : ∀ sc erest, env = sc :: erest → 2 ≤ sc.length) :
    Rel (cs.endScope).chain (popScope env) ∧ Silent (cs.endScope) cs := by
  obtain ⟨c, rest, sc, erest, hc, he, _⟩ := h.ne
  subst he
  have hlen := h2 sc erest rfl
  unfold CS.endScope
  rw [hc] at h ⊢
  refine ⟨?_, rfl, rfl, rfl⟩
  match sc, hlen with
  | s :: s2 :: srest, _ =>
    simp only [popScope]
    refine h.update rfl (fun base hl => ?_)
    obtain ⟨h1, h2', h3, h4, h5, h6⟩ := hl
    have hsd : c.scopeDepth - 1 = base + (s2 :: srest).length := by simp [h2']
    have hcount : dropLocalCount c.locals (c.scopeDepth - 1) = (flatLocals (s2 :: srest) base).length := by
      rw [dropLocalCount_key, h1, hsd]
      simp only [flatLocals]
      apply dropK_split
      · intro k hk
        have := flat_depth_le (s2 :: srest) base k (by simpa [flatLocals] using hk)
        simpa using this
      · intro k hk
        simp at hk
        obtain ⟨a, b, _, rfl⟩ := hk
        simp
    refine ⟨?_, by simp [hsd], by simp, h4, ?_, ?_⟩
    · simp only [hcount]
      rw [List.map_take, h1]
      show List.take (flatLocals (s2 :: srest) base).length (flatLocals (s2 :: srest) base ++ _) = _
      simp
    · intro l hl
      exact h5 l (List.mem_of_mem_take hl)
    · intro t ht
      exact h6 t (List.mem_of_mem_drop ht)

theorem Table.get_mem (t : Table) (x : Name) (s : RSym) (h : t.get x = some s) : s ∈ t ∧ s.name = x := by
  induction t with
  | nil => simp [Table.get] at h
  | cons a t ih =>
    simp only [Table.get] at h
    cases hr : Table.get t x with
    | some r =>
      simp [hr] at h; subst h
      have := ih hr
      exact ⟨by simp [this.1], this.2⟩
    | none =>
      simp [hr] at h
      obtain ⟨hn, rfl⟩ := h
      exact ⟨by simp, hn⟩

theorem pushLocal_rel (cs : CS) (d : Nat) (x : Name) (env : Env) (h : Rel cs.chain env) :
    Rel (cs.pushLocal d x).1.chain (declare env d x) ∧ Silent (cs.pushLocal d x).1 cs := by
  obtain ⟨c, rest, sc, erest, hc, he, _⟩ := h.ne
  subst he
  obtain ⟨base0, hl0, _, _⟩ := Rel.head (hc ▸ h)
  unfold CS.pushLocal
  rw [hc] at h
  simp only [hc]
  refine ⟨?_, ?_⟩
  · match sc, hl0.2.2.1 with
    | s :: srest, _ =>
      simp only [declare]
      refine h.update rfl (fun base hl => ?_)
      obtain ⟨h1, h2, h3, h4, h5, h6⟩ := hl
      refine ⟨?_, by simpa using h2, by simp, h4, ?_, h6⟩
      · simp only [List.map_append, h1, flatLocals, List.map_cons, List.reverse_cons, List.map_nil, Local.key]
        simp only [List.append_assoc, List.cons_append, List.nil_append, List.append_cancel_left_eq,
          List.cons.injEq, and_true, Prod.mk.injEq]
        refine ⟨?_, by simp [h2]; omega⟩
        cases hg : Table.get (c.localTables.head?.getD []) x with
        | none => simp
        | some sym => simp [(Table.get_mem _ _ _ hg).2]
      · intro l hl
        simp at hl
        rcases hl with hl | rfl
        · exact h5 l hl
        · left
          cases hg : Table.get (c.localTables.head?.getD []) x with
          | none => simp [symGood, isLocalState]
          | some sym =>
            simp only [Option.getD_some]
            have hm := (Table.get_mem _ _ _ hg).1
            cases hh : c.localTables with
            | nil => simp [hh] at hm
            | cons t ts =>
              simp [hh] at hm
              have := h6 t (by simp [hh])
              simp only [tblLocal, List.all_eq_true] at this
              exact this sym hm
  · refine ⟨?_, ?_, ?_⟩ <;> (split <;> split <;> rfl)

theorem declareLocal_rel (cs : CS) (d : Nat) (x : Name) (env : Env) (h : Rel cs.chain env) :
    Rel (cs.declareLocal d x).1.chain (declare env d x) ∧ Silent (cs.declareLocal d x).1 cs := by
  obtain ⟨h1, h2⟩ := pushLocal_rel cs d x env h
  unfold CS.declareLocal
  simp only
  split
  · obtain ⟨h3, h4⟩ := emit_rel _ .emptyBox _ h1
    exact ⟨h3, h4.trans h2⟩
  · exact ⟨h1, h2⟩

theorem declareParam_rel (cs : CS) (d : Nat) (x : Name) (env : Env) (h : Rel cs.chain env) :
    Rel (cs.declareParam d x).chain (declare env d x) ∧ Silent (cs.declareParam d x) cs := by
  obtain ⟨h1, h2⟩ := pushLocal_rel cs d x env h
  unfold CS.declareParam
  simp only
  split
  · split
    · split
      · obtain ⟨h3, h4⟩ := emit_rel _ (.box _) _ h1
        exact ⟨h3, h4.trans h2⟩
      · exact ⟨h1, (panic_rel _ _).2.trans h2⟩
    · exact ⟨h1, h2⟩
  · exact ⟨h1, h2⟩

theorem params_rel (cs : CS) (ps : List Param) (env : Env) (h : Rel cs.chain env) :
    Rel (cs.params ps).chain (declareParams env ps) ∧ Silent (cs.params ps) cs := by
  induction ps generalizing cs env with
  | nil => exact ⟨h, Silent.refl _⟩
  | cons p ps ih =>
    obtain ⟨h1, h2⟩ := declareParam_rel cs p.d p.name env h
    obtain ⟨h3, h4⟩ := ih _ _ h1
    exact ⟨h3, h4.trans h2⟩

/-- the compiler is at module scope exactly when the Spec is -/
theorem atModule_iff (cs : CS) (env : Env) (h : Rel cs.chain env) : cs.scopeDepth = 1 ↔ atModule env = true := by
  obtain ⟨c, rest, sc, erest, hc, he, hlen⟩ := h.ne
  subst he
  rw [hc] at h
  obtain ⟨base, hl, hb0, hb1⟩ := h.head
  simp only [CS.scopeDepth, hc, List.head?_cons, Option.map_some, Option.getD_some]
  obtain ⟨_, h2, h3, _⟩ := hl
  cases rest with
  | nil =>
    have : erest = [] := by cases erest <;> simp_all
    subst this
    have := hb0 rfl; subst this
    match sc, h3 with
    | [s], _ => simp [atModule, h2]
    | s :: s2 :: r, _ => simp [atModule, h2]
  | cons c2 cs2 =>
    have hb := hb1 (by simp)
    cases erest with
    | nil => simp at hlen
    | cons e2 er =>
      match sc, h3 with
      | s :: r, _ => simp [atModule, h2]; omega

theorem declareVariable_rel (cs : CS) (d : Nat) (x : Name) (env : Env) (h : Rel cs.chain env) :
    Rel (cs.declareVariable d x).1.chain (declareVar env d x) ∧ Silent (cs.declareVariable d x).1 cs := by
  unfold CS.declareVariable declareVar
  by_cases hm : cs.scopeDepth = 1
  · have := (atModule_iff cs env h).1 hm
    simp only [hm, if_true, this]
    split
    · exact ⟨h, rfl, rfl, rfl⟩
    · exact ⟨h, (panic_rel _ _).2⟩
  · have : atModule env = false := by
      cases ha : atModule env with
      | true => exact absurd ((atModule_iff cs env h).2 ha) hm
      | false => rfl
    simp only [hm, if_false, this]
    exact declareLocal_rel cs d x env h

theorem defineVariable_rel (cs : CS) (x : Name) (st : SymState) (env : Env) (h : Rel cs.chain env) :
    Rel (cs.defineVariable x st).chain env ∧ Silent (cs.defineVariable x st) cs := by
  unfold CS.defineVariable
  split
  · split
    · exact emit_rel _ _ _ h
    · exact ⟨h, Silent.refl _⟩
  · split
    · exact emit_rel _ _ _ h
    · exact ⟨h, (panic_rel _ _).2⟩

theorem enterFunction_rel (cs : CS) (kind : FunKind) (name : Name) (tbl : Table) (d0 : Nat) (ps : List Param)
    (env : Env) (h : Rel cs.chain env) (ht : tblLocal tbl = true) :
    Rel (cs.enterFunction kind name tbl d0 ps).chain (enterFun env kind d0 ps) ∧
    Silent (cs.enterFunction kind name tbl d0 ps) cs := by
  obtain ⟨c, rest, sc, erest, hc, he, hlen⟩ := h.ne
  subst he
  obtain ⟨base0, hl0, _, _⟩ := Rel.head (hc ▸ h)
  unfold CS.enterFunction enterFun
  simp only
  -- the child compiler against the new level
  have hchild : Rel ({ cs with chain := ({ name := name, kind := some kind, scopeDepth := cs.scopeDepth, d0 := d0 } : Comp) :: cs.chain }.beginScope tbl).chain
      ([[]] :: sc :: erest) := by
    simp only [CS.beginScope, hc]
    refine ⟨⟨c.scopeDepth, ?_, ?_⟩, rfl, hc ▸ h⟩
    · obtain ⟨_, h2, h3, _⟩ := hl0
      cases sc with
      | nil => exact absurd rfl h3
      | cons _ _ => simp [h2]; omega
    · refine ⟨by simp [flatLocals], by simp [CS.scopeDepth, hc], by simp, rfl, by simp, ?_⟩
      intro t ht'
      simp at ht'
      subst ht'
      exact ht
  have hsil : Silent ({ cs with chain := ({ name := name, kind := some kind, scopeDepth := cs.scopeDepth, d0 := d0 } : Comp) :: cs.chain }.beginScope tbl) cs :=
    ⟨rfl, rfl, rfl⟩
  cases kind with
  | method =>
    obtain ⟨h1, h2⟩ := declareParam_rel _ d0 SELF _ hchild
    obtain ⟨h3, h4⟩ := params_rel _ ps _ h1
    exact ⟨h3, h4.trans (h2.trans hsil)⟩
  | init =>
    obtain ⟨h1, h2⟩ := declareParam_rel _ d0 SELF _ hchild
    obtain ⟨h3, h4⟩ := params_rel _ ps _ h1
    exact ⟨h3, h4.trans (h2.trans hsil)⟩
  | fn =>
    obtain ⟨h1, h2⟩ := declareLocal_rel _ d0 UNINITIALIZED_VAR _ hchild
    obtain ⟨h3, h4⟩ := params_rel _ ps _ h1
    exact ⟨h3, h4.trans (h2.trans hsil)⟩
  | static =>
    obtain ⟨h1, h2⟩ := declareLocal_rel _ d0 UNINITIALIZED_VAR _ hchild
    obtain ⟨h3, h4⟩ := params_rel _ ps _ h1
    exact ⟨h3, h4.trans (h2.trans hsil)⟩

theorem exitFunction_rel (cs : CS) (lvl : List Scope) (env : Env) (h : Rel cs.chain (lvl :: env)) (hne : env ≠ []) :
    Rel (cs.exitFunction).chain env ∧ Silent (cs.exitFunction) cs := by
  obtain ⟨c, rest, sc, erest, hc, he, hlen⟩ := h.ne
  cases he
  have hrest : rest ≠ [] := by
    intro hr; subst hr; cases env <;> simp_all
  have ht : Rel rest env := (hc ▸ h).tail hrest
  unfold CS.exitFunction
  simp only [hc]
  split
  · obtain ⟨h1, h2⟩ := emit_rel { cs with chain := rest, funs := _ } (.funConst c.name) env ht
    exact ⟨h1, h2.trans ⟨rfl, rfl, rfl⟩⟩
  · obtain ⟨h1, h2⟩ := emit_rel { cs with chain := rest, funs := _ } (.closure c.name c.captures) env ht
    exact ⟨h1, h2.trans ⟨rfl, rfl, rfl⟩⟩

/-! ### lookups -/

theorem local_not_module {st : SymState} (h : isLocalState st = true) : isModuleState st = false := by
  cases st <;> simp_all [isLocalState, isModuleState]

theorem mtOk_get (mt : Table) (hmt : mtOk mt = true) (x : Name) (s : RSym) (h : mt.get x = some s) :
    isModuleState s.state = true ∧ (s.state = .moduleInit ∨ s.state = .globalInit) := by
  have hm := (Table.get_mem mt x s h).1
  simp only [mtOk, List.all_eq_true, decide_eq_true_eq] at hmt
  rcases hmt s hm with h1 | h1 <;> simp [h1, isModuleState]

/-- `resolve_local` of one level against the scopes of that level -/
theorem resolveLocal_lex (mt : Table) (hmt : mtOk mt = true) (x : Name) (hx : x ≠ UNINITIALIZED_VAR)
    (c : Comp) (sc : List Scope) (base : Nat) (hl : LevelRel c sc base) :
    match c.resolveLocal mt x with
    | some (s, sym, d) =>
      (symGood sym = true ∧ lookupScopes x sc = some d ∧ (c.locals[s]?).map (·.decl) = some d) ∨
      (isModuleState sym.state = true ∧ c.isScript = true ∧ lookupScopes x sc = none ∧ mt.get x = some sym ∧ d = sym.decl)
    | none => lookupScopes x sc = none ∧ (c.isScript = true → mt.get x = none) := by
  obtain ⟨h1, _, _, _, h5, _⟩ := hl
  have hk := rli_key c.locals x
  rw [h1, rliK_flat] at hk
  unfold Comp.resolveLocal
  cases hr : resolveLocalIn c.locals x with
  | some r =>
    obtain ⟨i, l⟩ := r
    simp only
    obtain ⟨hg, hn⟩ := rli_get _ _ _ _ hr
    left
    refine ⟨?_, by simpa [hr] using hk.symm, by simp [hg]⟩
    have hm : l ∈ c.locals := List.mem_of_getElem? hg
    rcases h5 l hm with h | h
    · exact h
    · exact absurd (hn ▸ h) hx
  | none =>
    simp only [hr, Option.map_none] at hk
    simp only
    by_cases hs : c.isScript = true
    · rw [if_pos hs]
      cases hg : Table.get mt x with
      | some s =>
        simp only
        right
        exact ⟨(mtOk_get mt hmt x s hg).1, hs, hk.symm, by simp, by simp⟩
      | none => exact ⟨hk.symm, fun _ => rfl⟩
    · rw [if_neg hs]
      exact ⟨hk.symm, fun h => absurd h hs⟩

theorem LevelRel.addCapture {c : Comp} {sc : List Scope} {base : Nat} (hl : LevelRel c sc base) (ci : CapIdx) :
    LevelRel (c.addCapture ci).1 sc base := by
  obtain ⟨h1, h2, h3, h4, h5, h6⟩ := hl
  unfold Comp.addCapture
  split
  · exact ⟨h1, h2, h3, h4, h5, h6⟩
  · split
    · exact ⟨h1, h2, h3, h4, h5, h6⟩
    · exact ⟨h1, h2, h3, by simp [h4], h5, h6⟩

theorem addCapture_isScript (c : Comp) (ci : CapIdx) : (c.addCapture ci).1.isScript = c.isScript :=
  (addCapture_prefix c ci).choose_spec.2.2

/-- `resolve_capture` against the levels above the innermost one -/
theorem resolveCapture_lex (mt : Table) (hmt : mtOk mt = true) (x : Name) (hx : x ≠ UNINITIALIZED_VAR)
    (chain : List Comp) :
    ∀ (env : Env), Rel chain env →
    match resolveCapture mt chain x with
    | some (chain', idx, sym, d, ovf) =>
      Rel chain' env ∧
      (if isModuleState sym.state = true then lookupScopes x (env.drop 1).flatten = none ∧ (mt.get x).isSome
       else lookupScopes x (env.drop 1).flatten = some d ∧ sym.state ≠ .moduleInit ∧ sym.state ≠ .globalInit ∧ sym.state ≠ .alreadyInit ∧
            (ovf = false → capDecl chain' idx = some d))
    | none => True := by
  fun_induction resolveCapture mt chain x with
  | case1 f parent rest x s sym d hs hm =>
    intro env h
    match env, h with
    | sc :: s2 :: erest, h =>
      simp only [hm, if_true]
      refine ⟨h, ?_⟩
      obtain ⟨base, hl, hb0, _⟩ := Rel.head h.2.2
      have := resolveLocal_lex mt hmt x hx parent s2 base hl
      rw [hs] at this
      rcases this with ⟨h1, _, _⟩ | ⟨_, h2, h3, h4, _⟩
      · simp [local_not_module (symGood_local h1)] at hm
      · -- the script: nothing above it
        have hrest : rest = [] := by
          cases rest with
          | nil => rfl
          | cons c3 r3 => cases erest with
            | nil => simp [Rel] at h
            | cons s3 e3 => have := h.2.2.2.1; simp_all
        subst hrest
        have : erest = [] := by cases erest <;> simp_all [Rel]
        subst this
        simp [h3, lookupScopes_append, h4]
  | case2 f parent rest x s sym d hs hm r =>
    intro env h
    match env, h with
    | sc :: s2 :: erest, h =>
      simp only [hm]
      obtain ⟨base, hl, _, _⟩ := Rel.head h.2.2
      have := resolveLocal_lex mt hmt x hx parent s2 base hl
      rw [hs] at this
      rcases this with ⟨h1, h2, h3⟩ | ⟨h1, _⟩
      · refine ⟨?_, ?_⟩
        · exact h.update (addCapture_isScript f _) (fun b hl => hl.addCapture _)
        · simp only [Bool.false_eq_true, if_false]
          refine ⟨by simp [lookupScopes_append, h2], ?_, ?_, ?_, ?_⟩
          · intro hh; have := symGood_local h1; simp [hh, isLocalState] at this
          · intro hh; have := symGood_local h1; simp [hh, isLocalState] at this
          · intro hh; have := symGood_local h1; simp [hh, isLocalState] at this
          · intro hov
            obtain ⟨fb, hfl, _, _⟩ := Rel.head h
            have hg := addCapture_get f (.loc s) hfl.2.2.2.1 hov
            simp only [capDecl, r, hg]
            exact h3
      · simp [h1] at hm
  | case3 f parent rest x hn chain2 j sym d ovf hr hm ih =>
    intro env h
    match env, h with
    | sc :: s2 :: erest, h =>
      have ih' := ih hx (s2 :: erest) h.2.2
      rw [hr] at ih'
      simp only [hm, if_true] at ih' ⊢
      obtain ⟨base, hl, _, _⟩ := Rel.head h.2.2
      have hp := resolveLocal_lex mt hmt x hx parent s2 base hl
      rw [hn] at hp
      obtain ⟨⟨c2, r2, sc2, er2, hc2, he2, _⟩, _⟩ := (⟨ih'.1.ne, trivial⟩ : _ ∧ True)
      cases he2
      refine ⟨?_, ?_⟩
      · rw [hc2]; rw [hc2] at ih'
        exact ⟨h.1, h.2.1, ih'.1⟩
      · simp only [List.drop_succ_cons, List.drop_zero, List.flatten_cons] at ih' ⊢
        simp [lookupScopes_append, hp.1, ih'.2.1, ih'.2.2]
  | case4 f parent rest x hn chain2 j sym d ovf hr hm r ih =>
    intro env h
    match env, h with
    | sc :: s2 :: erest, h =>
      have ih' := ih hx (s2 :: erest) h.2.2
      rw [hr] at ih'
      simp only [hm, Bool.false_eq_true, if_false] at ih' ⊢
      obtain ⟨base, hl, _, _⟩ := Rel.head h.2.2
      have hp := resolveLocal_lex mt hmt x hx parent s2 base hl
      rw [hn] at hp
      obtain ⟨c2, r2, sc2, er2, hc2, he2, _⟩ := ih'.1.ne
      cases he2
      obtain ⟨fb, hfl, _, _⟩ := Rel.head h
      refine ⟨?_, ?_⟩
      · rw [hc2]; rw [hc2] at ih'
        exact ⟨⟨h.1.choose, h.1.choose_spec.1, h.1.choose_spec.2.addCapture _⟩, (addCapture_isScript f _).trans h.2.1, ih'.1⟩
      · simp only [List.drop_succ_cons, List.drop_zero, List.flatten_cons] at ih' ⊢
        refine ⟨by simp [lookupScopes_append, hp.1, ih'.2.1], ih'.2.2.1, ih'.2.2.2.1, ih'.2.2.2.2.1, ?_⟩
        intro hov
        simp only [Bool.or_eq_false_iff] at hov
        have hg := addCapture_get f (.enc j) hfl.2.2.2.1 hov.2
        rw [hc2]
        simp only [capDecl, r, hg]
        rw [← hc2]
        exact ih'.2.2.2.2.2 hov.1
  | case5 f parent rest x hn hr => intro env h; trivial
  | case6 chain x hne => intro env h; trivial

theorem Rel.script_last {c : Comp} {rest : List Comp} {sc : List Scope} {erest : Env}
    (h : Rel (c :: rest) (sc :: erest)) (hs : c.isScript = true) : rest = [] ∧ erest = [] := by
  cases rest with
  | nil => cases erest with
    | nil => exact ⟨rfl, rfl⟩
    | cons _ _ => simp [Rel] at h
  | cons c2 cs => cases erest with
    | nil => simp [Rel] at h
    | cons s2 e2 => have := h.2.1; simp_all

theorem lookup_head_some (mod : Name → Option DeclRef) (sc : List Scope) (erest : Env) (x : Name) (d : Nat)
    (h : lookupScopes x sc = some d) : Spec.lookup mod (sc :: erest) x = some (.decl d) := by
  simp [Spec.lookup, lookupScopes_append, h]

theorem lookup_head_none (mod : Name → Option DeclRef) (sc : List Scope) (erest : Env) (x : Name)
    (h : lookupScopes x sc = none) :
    Spec.lookup mod (sc :: erest) x = match lookupScopes x erest.flatten with
      | some d => some (.decl d) | none => mod x := by
  unfold Spec.lookup
  rw [List.flatten_cons, lookupScopes_append, h]
  rfl

/-- what the kind of path says about the symbol behind it -/
def PathSym : Option Path → Option (RSym × Nat) → Prop
  | some (.local _), t => ∃ sy d, t = some (sy, d) ∧ sy.state = .localInit ∧ sy.hits = []
  | some (.box _), t => ∃ sy d, t = some (sy, d) ∧ sy.state = .localCaptured
  | some (.capture _), t => ∃ sy d, t = some (sy, d) ∧ sy.state = .localCaptured
  | _, _ => True

/-- first `match` of `variable_get`: a path to a local of this function, or to a module symbol seen
from the script -/
theorem localPath_spec (cs : CS) (x : Name) (slot : Nat) (sym : RSym) (d : Nat) (target : Option DeclRef)
    (hloc : isLocalState sym.state = true → ((cs.chain.head?.bind (·.locals[slot]?)).map (fun l => DeclRef.decl l.decl)) = target)
    (hmod : isModuleState sym.state = true → tableLookup cs.modTable x = target)
    (hal : sym.state ≠ .alreadyInit) (hgood : sym.state = .localInit → sym.hits = []) :
    (cs.localPath x slot sym d).1.chain = cs.chain ∧ Silent (cs.localPath x slot sym d).1 cs ∧
    (∀ p, (cs.localPath x slot sym d).2.1 = some p → (cs.localPath x slot sym d).1.pathDecl x p = target) ∧
    PathSym (cs.localPath x slot sym d).2.1 (cs.localPath x slot sym d).2.2.1 := by
  unfold CS.localPath
  cases hst : sym.state with
  | uninit => exact ⟨rfl, (panic_rel _ _).2, by intro p hp; simp at hp, trivial⟩
  | localInit =>
    refine ⟨rfl, Silent.refl _, ?_, ⟨sym, d, rfl, hst, hgood hst⟩⟩
    intro p hp
    simp only [Option.some.injEq] at hp
    subst hp
    exact hloc (by simp [hst, isLocalState])
  | localCaptured =>
    refine ⟨rfl, Silent.refl _, ?_, ⟨sym, d, rfl, hst⟩⟩
    intro p hp
    simp only [Option.some.injEq] at hp
    subst hp
    exact hloc (by simp [hst, isLocalState])
  | alreadyInit => exact absurd hst hal
  | moduleInit =>
    simp only
    cases hmo : cs.modOffset x with
    | none => exact ⟨rfl, (panic_rel _ _).2, by intro p hp; simp at hp, trivial⟩
    | some k =>
      refine ⟨rfl, Silent.refl _, ?_, trivial⟩
      intro p hp
      simp only [Option.some.injEq] at hp
      subst hp
      simp only [CS.pathDecl, hmo, if_true]
      exact hmod (by simp [hst, isModuleState])
  | globalInit =>
    simp only
    cases hmo : cs.modOffset x with
    | none => exact ⟨rfl, (panic_rel _ _).2, by intro p hp; simp at hp, trivial⟩
    | some k =>
      refine ⟨rfl, Silent.refl _, ?_, trivial⟩
      intro p hp
      simp only [Option.some.injEq] at hp
      subst hp
      simp only [CS.pathDecl, hmo, if_true]
      exact hmod (by simp [hst, isModuleState])

/-- second `match` of `variable_get`: a capture, or a module symbol seen from inside a function -/
theorem capturePath_spec (cs : CS) (x : Name) (idx : Nat) (sym : RSym) (d : Nat) (ovf : Bool) (target : Option DeclRef)
    (hcap : sym.state = .localCaptured → ovf = false → (capDecl cs.chain idx).map DeclRef.decl = target)
    (hmod : isModuleState sym.state = true → tableLookup cs.modTable x = target)
    (hal : sym.state ≠ .alreadyInit) :
    (cs.capturePath x idx sym d ovf).1.chain = cs.chain ∧ Silent (cs.capturePath x idx sym d ovf).1 cs ∧
    (∀ p, (cs.capturePath x idx sym d ovf).2.1 = some p → (cs.capturePath x idx sym d ovf).2.2.2 = false →
      (cs.capturePath x idx sym d ovf).1.pathDecl x p = target) ∧
    PathSym (cs.capturePath x idx sym d ovf).2.1 (cs.capturePath x idx sym d ovf).2.2.1 := by
  unfold CS.capturePath
  cases hst : sym.state with
  | uninit => exact ⟨rfl, (panic_rel _ _).2, by intro p hp; simp at hp, trivial⟩
  | localInit => exact ⟨rfl, (panic_rel _ _).2, by intro p hp; simp at hp, trivial⟩
  | localCaptured =>
    refine ⟨rfl, Silent.refl _, ?_, ⟨sym, d, rfl, hst⟩⟩
    intro p hp hov
    simp only [Option.some.injEq] at hp
    subst hp
    exact hcap hst hov
  | alreadyInit => exact absurd hst hal
  | moduleInit =>
    simp only
    cases hmo : cs.modOffset x with
    | none => exact ⟨rfl, (panic_rel _ _).2, by intro p hp; simp at hp, trivial⟩
    | some k =>
      refine ⟨rfl, Silent.refl _, ?_, trivial⟩
      intro p hp _
      simp only [Option.some.injEq] at hp
      subst hp
      simp only [CS.pathDecl, hmo, if_true]
      exact hmod (by simp [hst, isModuleState])
  | globalInit =>
    simp only
    cases hmo : cs.modOffset x with
    | none => exact ⟨rfl, (panic_rel _ _).2, by intro p hp; simp at hp, trivial⟩
    | some k =>
      refine ⟨rfl, Silent.refl _, ?_, trivial⟩
      intro p hp _
      simp only [Option.some.injEq] at hp
      subst hp
      simp only [CS.pathDecl, hmo, if_true]
      exact hmod (by simp [hst, isModuleState])

/-- `variable_get`/`variable_set`: the access path, when one is emitted, designates `Spec.lookup` -/
theorem variablePath_lex (mt : Table) (hmt : mtOk mt = true) (x : Name) (hx : x ≠ UNINITIALIZED_VAR)
    (cs : CS) (env : Env) (h : Rel cs.chain env) (hm : cs.modTable = mt) :
    Rel (cs.variablePath x).1.chain env ∧ Silent (cs.variablePath x).1 cs ∧
    (∀ p, (cs.variablePath x).2.1 = some p → (cs.variablePath x).2.2.2 = false →
      (cs.variablePath x).1.pathDecl x p = Spec.lookup (tableLookup mt) env x) ∧
    PathSym (cs.variablePath x).2.1 (cs.variablePath x).2.2.1 := by
  obtain ⟨c, rest, sc, erest, hc, he, _⟩ := h.ne
  subst he
  rw [hc] at h
  obtain ⟨base, hl, _, _⟩ := h.head
  have hrl := resolveLocal_lex mt hmt x hx c sc base hl
  unfold CS.variablePath
  simp only [hc, hm]
  cases hr : c.resolveLocal mt x with
  | some r =>
    obtain ⟨slot, sym, d⟩ := r
    rw [hr] at hrl
    simp only
    have key := localPath_spec cs x slot sym d (Spec.lookup (tableLookup mt) (sc :: erest) x) ?_ ?_ ?_ ?_
    · exact ⟨key.1 ▸ hc ▸ h, key.2.1, fun p hp _ => key.2.2.1 p hp, key.2.2.2⟩
    · intro hls
      rcases hrl with ⟨h1, h2, h3⟩ | ⟨h1, _⟩
      · rw [lookup_head_some _ _ _ _ _ h2]
        simp only [hc, List.head?_cons, Option.bind_some]
        cases hg : c.locals[slot]? with
        | none => simp [hg] at h3
        | some l => simp [hg] at h3; simp [h3]
      · simp [local_not_module hls] at h1
    · intro hms
      rcases hrl with ⟨h1, _⟩ | ⟨h1, h2, h3, h4, h5⟩
      · simp [local_not_module (symGood_local h1)] at hms
      · obtain ⟨rfl, rfl⟩ := h.script_last h2
        rw [lookup_head_none _ _ _ _ h3, hm]; simp [lookupScopes]
    · rcases hrl with ⟨h1, _⟩ | ⟨h1, h2, h3, h4, h5⟩
      · intro hh; have := symGood_local h1; simp [hh, isLocalState] at this
      · intro hh
        have := (mtOk_get mt hmt x sym h4).2
        simp [hh] at this
    · rcases hrl with ⟨h1, _⟩ | ⟨h1, h2, h3, h4, h5⟩
      · exact symGood_hits h1
      · intro hh
        have := (mtOk_get mt hmt x sym h4).2
        simp [hh] at this
  | none =>
    rw [hr] at hrl
    simp only
    have hrc := resolveCapture_lex mt hmt x hx (c :: rest) (sc :: erest) h
    cases hcap : resolveCapture mt (c :: rest) x with
    | none => exact ⟨hc ▸ h, (panic_rel _ _).2, by intro p hp; simp at hp, trivial⟩
    | some r =>
      obtain ⟨chain', idx, sym, d, ovf⟩ := r
      rw [hcap] at hrc
      simp only at hrc ⊢
      obtain ⟨hrel, hrest⟩ := hrc
      have hsp := lookup_head_none (tableLookup mt) sc erest x hrl.1
      simp only [List.drop_succ_cons, List.drop_zero] at hrest
      -- the compiler after the resolution (with or without the overflow error)
      have hcs2 : ∀ cs2 : CS, cs2.chain = chain' → Silent cs2 cs →
          Rel (cs2.capturePath x idx sym d ovf).1.chain (sc :: erest) ∧ Silent (cs2.capturePath x idx sym d ovf).1 cs ∧
          (∀ p, (cs2.capturePath x idx sym d ovf).2.1 = some p → (cs2.capturePath x idx sym d ovf).2.2.2 = false →
            (cs2.capturePath x idx sym d ovf).1.pathDecl x p = Spec.lookup (tableLookup mt) (sc :: erest) x) ∧
          PathSym (cs2.capturePath x idx sym d ovf).2.1 (cs2.capturePath x idx sym d ovf).2.2.1 := by
        intro cs2 hch2 hsil2
        have key := capturePath_spec cs2 x idx sym d ovf (Spec.lookup (tableLookup mt) (sc :: erest) x) ?_ ?_ ?_
        · exact ⟨key.1 ▸ hch2 ▸ hrel, key.2.1.trans hsil2, key.2.2.1, key.2.2.2⟩
        · intro hst hov
          have hnm : isModuleState sym.state = false := by simp [hst, isModuleState]
          simp only [hnm, Bool.false_eq_true, if_false] at hrest
          rw [hsp, hrest.1, hch2, hrest.2.2.2.2 hov]; rfl
        · intro hms
          simp only [hms, if_true] at hrest
          rw [hsp, hrest.1, hsil2.1, hm]
        · intro hh
          by_cases hms : isModuleState sym.state = true
          · simp [hh, isModuleState] at hms
          · simp only [hms, if_false] at hrest
            exact hrest.2.2.2.1 hh
      cases ovf with
      | true => simp only [if_true]; exact hcs2 _ rfl ⟨hm.symm, rfl, rfl⟩
      | false => simp only [Bool.false_eq_true, if_false]; exact hcs2 _ rfl ⟨hm.symm, rfl, rfl⟩

/-! ### the traversal -/

/-- pointwise relation between two lists of the same length -/
def All2 {α β : Type} (R : α → β → Prop) : List α → List β → Prop
  | [], [] => True
  | a :: as, b :: bs => R a b ∧ All2 R as bs
  | _, _ => False

theorem All2.append {α β : Type} {R : α → β → Prop} {l1 l2 : List α} {s1 s2 : List β}
    (h1 : All2 R l1 s1) (h2 : All2 R l2 s2) : All2 R (l1 ++ l2) (s1 ++ s2) := by
  induction l1 generalizing s1 with
  | nil => cases s1 with
    | nil => simpa using h2
    | cons _ _ => simp [All2] at h1
  | cons a l1 ih => cases s1 with
    | nil => simp [All2] at h1
    | cons b s1 => exact ⟨h1.1, ih h1.2⟩

/-- a compiled occurrence against the Spec's: same occurrence, and the emitted path (if one was
emitted, and the 255-capture bound did not fire) designates what the Spec says the name denotes -/
def OccOk (oc : OccRec) (so : Occ) : Prop :=
  oc.o = so.o ∧ (∀ p, oc.path = some p → oc.ovf = false → oc.target = so.target) ∧
  (∀ s, oc.path = some (.local s) → ∃ sy, oc.sym = some sy ∧ sy.state = .localInit ∧ sy.hits = []) ∧
  (∀ s, oc.path = some (.box s) → ∃ sy, oc.sym = some sy ∧ sy.state = .localCaptured) ∧
  (∀ i, oc.path = some (.capture i) → ∃ sy, oc.sym = some sy ∧ sy.state = .localCaptured)

/-- hypotheses on the tree: attached tables hold local symbols only (what the resolver attaches), and
no identifier is spelled like the hidden slot-0 variable (the lexer cannot produce it) -/
def treeOk : Tm → Bool
  | .nil | .lit _ | .str _ | .nilE | .letN _ _ => true
  | .seq a b => treeOk a && treeOk b
  | .var _ x => x != UNINITIALIZED_VAR
  | .assign _ x e => x != UNINITIALIZED_VAR && treeOk e
  | .op _ a => treeOk a
  | .lam tbl _ _ body => tblLocal tbl && treeOk body
  | .letS _ _ e => treeOk e
  | .fnS _ _ tbl _ _ body => tblLocal tbl && treeOk body
  | .ifS c tT t tE e => treeOk c && tblLocal tT && treeOk t && tblLocal tE && treeOk e
  | .whileS c tbl b => treeOk c && tblLocal tbl && treeOk b
  | .forS tF _ _ _ iter tB b => tblLocal tF && treeOk iter && tblLocal tB && treeOk b
  | .tryS tB b tC _ _ _ cn tCB c => tblLocal tB && treeOk b && tblLocal tC && cn != UNINITIALIZED_VAR && tblLocal tCB && treeOk c
  | .classS _ c _ sup _ tbl _ ms => sup != UNINITIALIZED_VAR && c != UNINITIALIZED_VAR && tblLocal tbl && treeOk ms
  | .method _ _ tbl _ _ body => tblLocal tbl && treeOk body

def Step (mt : Table) (cs cs' : CS) (env' : Env) (sp : List Occ) : Prop :=
  Rel cs'.chain env' ∧ cs'.modTable = mt ∧ ∃ new, cs'.occs = cs.occs ++ new ∧ All2 OccOk new sp

theorem Step.refl {mt : Table} {cs : CS} {env : Env} (h : Rel cs.chain env) (hm : cs.modTable = mt) :
    Step mt cs cs env [] := ⟨h, hm, [], by simp, trivial⟩

theorem Step.trans {mt : Table} {cs cs1 cs2 : CS} {env1 env2 : Env} {l1 l2 : List Occ}
    (h1 : Step mt cs cs1 env1 l1) (h2 : Step mt cs1 cs2 env2 l2) : Step mt cs cs2 env2 (l1 ++ l2) := by
  obtain ⟨_, _, n1, ho1, ha1⟩ := h1
  obtain ⟨r2, m2, n2, ho2, ha2⟩ := h2
  exact ⟨r2, m2, n1 ++ n2, by rw [ho2, ho1, List.append_assoc], ha1.append ha2⟩

/-- a silent operation after a step -/
theorem Step.then {mt : Table} {cs cs1 cs' : CS} {env1 env' : Env} {l1 : List Occ}
    (h1 : Step mt cs cs1 env1 l1) (hr : Rel cs'.chain env') (hs : Silent cs' cs1) : Step mt cs cs' env' l1 := by
  obtain ⟨_, m1, n1, ho1, ha1⟩ := h1
  exact ⟨hr, hs.1.trans m1, n1, hs.2.1.trans ho1, ha1⟩

def Shape (env' env : Env) : Prop := env'.tail = env.tail ∧ env'.head?.map List.length = env.head?.map List.length

theorem Shape.refl (env : Env) : Shape env env := ⟨rfl, rfl⟩
theorem Shape.trans {a b c : Env} (h1 : Shape a b) (h2 : Shape b c) : Shape a c :=
  ⟨h1.1.trans h2.1, h1.2.trans h2.2⟩

theorem shape_declare (env : Env) (d : Nat) (x : Name) : Shape (declare env d x) env := by
  unfold declare
  split <;> simp [Shape]

theorem shape_declareVar (env : Env) (d : Nat) (x : Name) : Shape (declareVar env d x) env := by
  unfold declareVar
  split
  · exact Shape.refl _
  · exact shape_declare _ _ _

theorem shape_pop_push {e2 env : Env} (h : Shape e2 (pushScope env)) (hne : env ≠ []) : Shape (popScope e2) env := by
  cases env with
  | nil => exact absurd rfl hne
  | cons l ls =>
    simp only [pushScope, Shape, List.tail_cons, List.head?_cons, Option.map_some, List.length_cons] at h
    cases e2 with
    | nil => simp at h
    | cons l2 ls2 =>
      simp only [List.tail_cons, List.head?_cons, Option.map_some, Option.some.injEq] at h
      obtain ⟨rfl, hl⟩ := h
      cases l2 with
      | nil => simp at hl
      | cons s ss => simp at hl; simp [popScope, Shape, hl]

theorem shape_head_len {e2 env : Env} (h : Shape e2 (pushScope env)) (hr : ∃ c, Rel c env) :
    ∀ sc erest, e2 = sc :: erest → 2 ≤ sc.length := by
  obtain ⟨c, hr⟩ := hr
  obtain ⟨c0, rest, sc0, erest0, hc, he, _⟩ := hr.ne
  subst he hc
  obtain ⟨base, hl, _, _⟩ := hr.head
  have hne := hl.2.2.1
  intro sc erest he2
  subst he2
  simp only [pushScope, Shape, List.tail_cons, List.head?_cons, Option.map_some, List.length_cons, Option.some.injEq] at h
  cases sc0 with
  | nil => exact absurd rfl hne
  | cons _ _ => simp at h; omega

theorem declareParams_tail (env : Env) (ps : List Param) (hne : env ≠ []) :
    (declareParams env ps).tail = env.tail ∧ declareParams env ps ≠ [] := by
  induction ps generalizing env with
  | nil => exact ⟨rfl, hne⟩
  | cons p ps ih =>
    have hs := shape_declare env p.d p.name
    have hne' : declare env p.d p.name ≠ [] := by
      unfold declare; split <;> simp_all
    obtain ⟨h1, h2⟩ := ih _ hne'
    exact ⟨h1.trans hs.1, h2⟩

theorem enterFun_tail (env : Env) (kind : FunKind) (d0 : Nat) (ps : List Param) :
    (enterFun env kind d0 ps).tail = env ∧ enterFun env kind d0 ps ≠ [] := by
  unfold enterFun
  have h := declareParams_tail (declare ([[]] :: env) d0 (slot0Name kind)) ps (by simp [declare])
  exact ⟨by rw [h.1]; simp [declare], h.2⟩

/-- `variable_get` as a step -/
theorem variableGet_step (mt : Table) (hmt : mtOk mt = true) (o : Nat) (x : Name) (hx : x ≠ UNINITIALIZED_VAR)
    (cs : CS) (env : Env) (h : Rel cs.chain env) (hm : cs.modTable = mt) :
    Step mt cs (cs.variableGet o x) env [⟨o, Spec.lookup (tableLookup mt) env x⟩] := by
  obtain ⟨h1, h2, h3⟩ := variablePath_lex mt hmt x hx cs env h hm
  unfold CS.variableGet
  generalize cs.variablePath x = r at *
  obtain ⟨cs1, p, t, ovf⟩ := r
  simp only at h1 h2 h3 ⊢
  have hrec : Step mt cs (cs1.recordOcc o x false p t ovf) env [⟨o, Spec.lookup (tableLookup mt) env x⟩] := by
    refine ⟨h1, h2.1.trans hm,
      [{ o := o, x := x, write := false, path := p, target := p.bind (cs1.pathDecl x), sym := t.map (·.1), ovf := ovf,
         funLevel := cs1.chain.length }], by simp [CS.recordOcc, h2.2.1], ⟨rfl, ?_, ?_, ?_, ?_⟩, trivial⟩
    · intro q hq hov
      simp only at hq hov
      subst hq
      simpa using h3.1 q rfl hov
    · intro s hq
      simp only at hq
      subst hq
      obtain ⟨sy, d, rfl, h6, h7⟩ := h3.2
      exact ⟨sy, rfl, h6, h7⟩
    · intro s hq
      simp only at hq
      subst hq
      obtain ⟨sy, d, rfl, h6⟩ := h3.2
      exact ⟨sy, rfl, h6⟩
    · intro s hq
      simp only at hq
      subst hq
      obtain ⟨sy, d, rfl, h6⟩ := h3.2
      exact ⟨sy, rfl, h6⟩
  cases p with
  | none => exact hrec
  | some q =>
    obtain ⟨h4, h5⟩ := emit_rel (cs1.recordOcc o x false (some q) t ovf) (.get q) env hrec.1
    exact hrec.then h4 h5

theorem variableSet_step (mt : Table) (hmt : mtOk mt = true) (o : Nat) (x : Name) (hx : x ≠ UNINITIALIZED_VAR)
    (cs : CS) (env : Env) (h : Rel cs.chain env) (hm : cs.modTable = mt) :
    Step mt cs (cs.variableSet o x) env [⟨o, Spec.lookup (tableLookup mt) env x⟩] := by
  obtain ⟨h1, h2, h3⟩ := variablePath_lex mt hmt x hx cs env h hm
  unfold CS.variableSet
  generalize cs.variablePath x = r at *
  obtain ⟨cs1, p, t, ovf⟩ := r
  simp only at h1 h2 h3 ⊢
  have hrec : Step mt cs (cs1.recordOcc o x true p t ovf) env [⟨o, Spec.lookup (tableLookup mt) env x⟩] := by
    refine ⟨h1, h2.1.trans hm,
      [{ o := o, x := x, write := true, path := p, target := p.bind (cs1.pathDecl x), sym := t.map (·.1), ovf := ovf,
         funLevel := cs1.chain.length }], by simp [CS.recordOcc, h2.2.1], ⟨rfl, ?_, ?_, ?_, ?_⟩, trivial⟩
    · intro q hq hov
      simp only at hq hov
      subst hq
      simpa using h3.1 q rfl hov
    · intro s hq
      simp only at hq
      subst hq
      obtain ⟨sy, d, rfl, h6, h7⟩ := h3.2
      exact ⟨sy, rfl, h6, h7⟩
    · intro s hq
      simp only at hq
      subst hq
      obtain ⟨sy, d, rfl, h6⟩ := h3.2
      exact ⟨sy, rfl, h6⟩
    · intro s hq
      simp only at hq
      subst hq
      obtain ⟨sy, d, rfl, h6⟩ := h3.2
      exact ⟨sy, rfl, h6⟩
  cases p with
  | none => exact hrec
  | some q =>
    obtain ⟨h4, h5⟩ := emit_rel (cs1.recordOcc o x true (some q) t ovf) (.set q) env hrec.1
    exact hrec.then h4 h5

/-! unfolding equations (by `rfl`; the equation compiler's own lemmas are too slow to generate) -/
section eqns
variable (mod : Name → Option DeclRef) (cs : CS) (env : Env)

theorem comp_seq (a b : Tm) : comp (.seq a b) cs = comp b (comp a cs) := rfl
theorem comp_var (o : Nat) (x : Name) : comp (.var o x) cs = cs.variableGet o x := rfl
theorem comp_assign (o : Nat) (x : Name) (e : Tm) : comp (.assign o x e) cs = (comp e cs).variableSet o x := rfl
theorem comp_op (k : OpKind) (a : Tm) : comp (.op k a) cs = comp a cs := rfl
theorem comp_lam (tbl : Table) (d0 : Nat) (ps : List Param) (body : Tm) :
    comp (.lam tbl d0 ps body) cs = (comp body (cs.enterFunction .fn "lambda" tbl d0 ps)).exitFunction := rfl
theorem comp_let (d : Nat) (x : Name) (e : Tm) :
    comp (.letS d x e) cs = (comp e (cs.declareVariable d x).1).defineVariable x (cs.declareVariable d x).2 := rfl
theorem comp_nilE : comp .nilE cs = cs.emit .nil := rfl
theorem comp_letN (d : Nat) (x : Name) :
    comp (.letN d x) cs = ((cs.declareVariable d x).1.emit .nil).defineVariable x (cs.declareVariable d x).2 := rfl
theorem comp_fn (d : Nat) (f : Name) (tbl : Table) (d0 : Nat) (ps : List Param) (body : Tm) :
    comp (.fnS d f tbl d0 ps body) cs =
      ((comp body ((cs.declareVariable d f).1.enterFunction .fn f tbl d0 ps)).exitFunction).defineVariable f (cs.declareVariable d f).2 := rfl
theorem comp_if (c : Tm) (tT : Table) (t : Tm) (tE : Table) (e : Tm) :
    comp (.ifS c tT t tE e) cs =
      (comp e ((comp t ((comp c cs).beginScope tT)).endScope.beginScope tE)).endScope := rfl
theorem comp_while (c : Tm) (tbl : Table) (b : Tm) :
    comp (.whileS c tbl b) cs = (comp b ((comp c cs).beginScope tbl)).endScope := rfl
theorem comp_method (k : FunKind) (m : Name) (tbl : Table) (d0 : Nat) (ps : List Param) (body : Tm) :
    comp (.method k m tbl d0 ps body) cs = (comp body (cs.enterFunction k m tbl d0 ps)).exitFunction := rfl

theorem occs_seq (a b : Tm) :
    occs mod (.seq a b) env = ((occs mod b (occs mod a env).1).1, (occs mod a env).2 ++ (occs mod b (occs mod a env).1).2) := rfl
theorem occs_var (o : Nat) (x : Name) : occs mod (.var o x) env = (env, [⟨o, Spec.lookup mod env x⟩]) := rfl
theorem occs_assign (o : Nat) (x : Name) (e : Tm) :
    occs mod (.assign o x e) env = ((occs mod e env).1, (occs mod e env).2 ++ [⟨o, Spec.lookup mod (occs mod e env).1 x⟩]) := rfl
theorem occs_op (k : OpKind) (a : Tm) : occs mod (.op k a) env = occs mod a env := rfl
theorem occs_lam (tbl : Table) (d0 : Nat) (ps : List Param) (body : Tm) :
    occs mod (.lam tbl d0 ps body) env = (env, (occs mod body (enterFun env .fn d0 ps)).2) := rfl
theorem occs_let (d : Nat) (x : Name) (e : Tm) : occs mod (.letS d x e) env = occs mod e (declareVar env d x) := rfl
theorem occs_nilE : occs mod .nilE env = (env, []) := rfl
theorem occs_letN (d : Nat) (x : Name) : occs mod (.letN d x) env = (declareVar env d x, []) := rfl
theorem occs_fn (d : Nat) (f : Name) (tbl : Table) (d0 : Nat) (ps : List Param) (body : Tm) :
    occs mod (.fnS d f tbl d0 ps body) env =
      (declareVar env d f, (occs mod body (enterFun (declareVar env d f) .fn d0 ps)).2) := rfl
theorem occs_if (c : Tm) (tT : Table) (t : Tm) (tE : Table) (e : Tm) :
    occs mod (.ifS c tT t tE e) env =
      (popScope (occs mod e (pushScope (popScope (occs mod t (pushScope (occs mod c env).1)).1))).1,
       (occs mod c env).2 ++ (occs mod t (pushScope (occs mod c env).1)).2 ++
         (occs mod e (pushScope (popScope (occs mod t (pushScope (occs mod c env).1)).1))).2) := rfl
theorem occs_while (c : Tm) (tbl : Table) (b : Tm) :
    occs mod (.whileS c tbl b) env =
      (popScope (occs mod b (pushScope (occs mod c env).1)).1, (occs mod c env).2 ++ (occs mod b (pushScope (occs mod c env).1)).2) := rfl
theorem occs_method (k : FunKind) (m : Name) (tbl : Table) (d0 : Nat) (ps : List Param) (body : Tm) :
    occs mod (.method k m tbl d0 ps body) env = (env, (occs mod body (enterFun env k d0 ps)).2) := rfl
theorem comp_for (tF : Table) (dI d : Nat) (x : Name) (iter : Tm) (tB : Table) (b : Tm) :
    comp (.forS tF dI d x iter tB b) cs =
      ((comp b (((comp iter (cs.beginScope tF)).forPrologue dI d x).beginScope tB)).endScope).endScope := rfl
theorem comp_try (tB : Table) (b : Tm) (tC : Table) (d : Nat) (x : Name) (o : Nat) (cn : Name) (tCB : Table) (c : Tm) :
    comp (.tryS tB b tC d x o cn tCB c) cs =
      ((comp c ((((comp b (cs.beginScope tB)).endScope.beginScope tC).catchPrologue o cn d x).beginScope tCB)).endScope).endScope := rfl
theorem comp_class (d : Nat) (c : Name) (oSup : Nat) (sup : Name) (oName : Nat) (tbl : Table) (dSuper : Nat) (ms : Tm) :
    comp (.classS d c oSup sup oName tbl dSuper ms) cs = (comp ms (cs.classPrologue d c oSup sup oName tbl dSuper)).endScope := rfl

theorem occs_for (tF : Table) (dI d : Nat) (x : Name) (iter : Tm) (tB : Table) (b : Tm) :
    occs mod (.forS tF dI d x iter tB b) env =
      (popScope (popScope (occs mod b (pushScope (declare (declare (occs mod iter (pushScope env)).1 dI ITER_VAR) d x))).1),
       (occs mod iter (pushScope env)).2 ++ (occs mod b (pushScope (declare (declare (occs mod iter (pushScope env)).1 dI ITER_VAR) d x))).2) := rfl
theorem occs_try (tB : Table) (b : Tm) (tC : Table) (d : Nat) (x : Name) (o : Nat) (cn : Name) (tCB : Table) (c : Tm) :
    occs mod (.tryS tB b tC d x o cn tCB c) env =
      (popScope (popScope (occs mod c (pushScope (declare (pushScope (popScope (occs mod b (pushScope env)).1)) d x))).1),
       (occs mod b (pushScope env)).2 ++ [⟨o, Spec.lookup mod (pushScope (popScope (occs mod b (pushScope env)).1)) cn⟩] ++
         (occs mod c (pushScope (declare (pushScope (popScope (occs mod b (pushScope env)).1)) d x))).2) := rfl
theorem occs_class (d : Nat) (c : Name) (oSup : Nat) (sup : Name) (oName : Nat) (tbl : Table) (dSuper : Nat) (ms : Tm) :
    occs mod (.classS d c oSup sup oName tbl dSuper ms) env =
      (popScope (occs mod ms (declare (pushScope (declareVar env d c)) dSuper SUPER)).1,
       [⟨oSup, Spec.lookup mod (declare (pushScope (declareVar env d c)) dSuper SUPER) sup⟩,
        ⟨oName, Spec.lookup mod (declare (pushScope (declareVar env d c)) dSuper SUPER) c⟩] ++
         (occs mod ms (declare (pushScope (declareVar env d c)) dSuper SUPER)).2) := rfl
end eqns

theorem treeOk_name {x : Name} (h : (x != UNINITIALIZED_VAR) = true) : x ≠ UNINITIALIZED_VAR := by
  simpa using h

/-- the induction hypothesis for a sub-tree -/
def LexIH (mt : Table) (t : Tm) : Prop :=
  ∀ (cs : CS) (env : Env), treeOk t = true → Rel cs.chain env → cs.modTable = mt →
    Step mt cs (comp t cs) (occs (tableLookup mt) t env).1 (occs (tableLookup mt) t env).2 ∧
    Shape (occs (tableLookup mt) t env).1 env

theorem Step.rel_ne {mt : Table} {cs cs1 : CS} {env1 : Env} {l : List Occ} (h : Step mt cs cs1 env1 l) : env1 ≠ [] := by
  obtain ⟨_, _, sc, er, _, he, _⟩ := h.1.ne
  simp [he]

/-- a block in a scope of its own (`scope(table, |self| self.block(..))`) -/
theorem scope_step {mt : Table} {b : Tm} (ih : LexIH mt b) (hb : treeOk b = true) (tbl : Table) (ht : tblLocal tbl = true)
    {cs cs1 : CS} {env1 : Env} {l1 : List Occ} (h1 : Step mt cs cs1 env1 l1) :
    Step mt cs ((comp b (cs1.beginScope tbl)).endScope) (popScope (occs (tableLookup mt) b (pushScope env1)).1)
      (l1 ++ (occs (tableLookup mt) b (pushScope env1)).2) ∧
    Shape (popScope (occs (tableLookup mt) b (pushScope env1)).1) env1 := by
  obtain ⟨hr, hs⟩ := beginScope_rel cs1 tbl env1 h1.1 ht
  obtain ⟨s2, sh2⟩ := ih (cs1.beginScope tbl) (pushScope env1) hb hr (hs.1.trans h1.2.1)
  have hlen := shape_head_len sh2 ⟨_, h1.1⟩
  obtain ⟨hr3, hs3⟩ := endScope_rel _ _ s2.1 hlen
  have hstep : Step mt cs (comp b (cs1.beginScope tbl)) _ (l1 ++ _) :=
    (h1.then hr hs).trans s2
  exact ⟨hstep.then hr3 hs3, shape_pop_push sh2 h1.rel_ne⟩

/-- a function body compiled by a child compiler (`function`) -/
theorem function_step {mt : Table} {body : Tm} (ih : LexIH mt body) (hb : treeOk body = true) (tbl : Table)
    (ht : tblLocal tbl = true) (kind : FunKind) (name : Name) (d0 : Nat) (ps : List Param)
    {cs cs1 : CS} {env1 : Env} {l1 : List Occ} (h1 : Step mt cs cs1 env1 l1) :
    Step mt cs ((comp body (cs1.enterFunction kind name tbl d0 ps)).exitFunction) env1
      (l1 ++ (occs (tableLookup mt) body (enterFun env1 kind d0 ps)).2) := by
  obtain ⟨hr, hs⟩ := enterFunction_rel cs1 kind name tbl d0 ps env1 h1.1 ht
  obtain ⟨s2, sh2⟩ := ih _ _ hb hr (hs.1.trans h1.2.1)
  obtain ⟨htl, hne⟩ := enterFun_tail env1 kind d0 ps
  have hstep : Step mt cs (comp body (cs1.enterFunction kind name tbl d0 ps)) _ (l1 ++ _) := (h1.then hr hs).trans s2
  -- the environment after the body is the function's level on top of the old environment
  have htail : (occs (tableLookup mt) body (enterFun env1 kind d0 ps)).1.tail = env1 := sh2.1.trans htl
  obtain ⟨_, _, lvl, er, _, he, _⟩ := s2.1.ne
  rw [he] at htail
  simp only [List.tail_cons] at htail
  subst htail
  obtain ⟨hr3, hs3⟩ := exitFunction_rel _ lvl er (he ▸ s2.1) h1.rel_ne
  exact hstep.then hr3 hs3

def Deep (env : Env) : Prop := ∀ sc er, env = sc :: er → 2 ≤ sc.length

theorem declareVar_deep (env : Env) (d : Nat) (x : Name) (h : Deep env) : declareVar env d x = declare env d x := by
  unfold declareVar
  have : atModule env = false := by
    unfold atModule
    split
    · next s => have := h [s] [] rfl; simp at this
    · rfl
  simp [this]

theorem deep_of_shape {e2 env : Env} (h : Shape e2 env) (hd : Deep env) (hne : env ≠ []) : Deep e2 := by
  intro sc er he
  subst he
  cases env with
  | nil => exact absurd rfl hne
  | cons l ls =>
    have := hd l ls rfl
    simp [Shape] at h
    omega

theorem deep_push (env : Env) (hr : ∃ c, Rel c env) : Deep (pushScope env) :=
  shape_head_len (Shape.refl _) hr

theorem push_ne (env : Env) (h : env ≠ []) : pushScope env ≠ [] := by
  cases env with
  | nil => exact absurd rfl h
  | cons _ _ => simp [pushScope]

theorem shape_ne {e2 env : Env} (h : Shape e2 env) (hne : env ≠ []) : e2 ≠ [] := by
  cases env with
  | nil => exact absurd rfl hne
  | cons l ls => cases e2 with
    | nil => simp [Shape] at h
    | cons _ _ => simp

/-- `for_` between iterable and body -/
theorem forPrologue_rel (cs : CS) (dI d : Nat) (x : Name) (env : Env) (h : Rel cs.chain env) (hd : Deep env) :
    Rel (cs.forPrologue dI d x).chain (declare (declare env dI ITER_VAR) d x) ∧ Silent (cs.forPrologue dI d x) cs := by
  obtain ⟨h1, s1⟩ := declareVariable_rel cs dI ITER_VAR env h
  rw [declareVar_deep _ _ _ hd] at h1
  obtain ⟨h2, s2⟩ := defineVariable_rel (cs.declareVariable dI ITER_VAR).1 ITER_VAR .localInit _ h1
  obtain ⟨h3, s3⟩ := declareVariable_rel _ d x _ h2
  have hd2 : Deep (declare env dI ITER_VAR) := by
    obtain ⟨_, _, sc, er, _, he, _⟩ := h.ne
    exact deep_of_shape (shape_declare _ _ _) hd (by simp [he])
  rw [declareVar_deep _ _ _ hd2] at h3
  obtain ⟨h3n, s3n⟩ := emit_rel _ .nil _ h3
  obtain ⟨h4, s4⟩ := defineVariable_rel _ x (((cs.declareVariable dI ITER_VAR).1.defineVariable ITER_VAR .localInit).declareVariable d x).2 _ h3n
  have s14 := s4.trans (s3n.trans (s3.trans (s2.trans s1)))
  unfold CS.forPrologue
  simp only
  split
  · split
    · obtain ⟨h5, s5⟩ := emit_rel _ _ _ h4
      obtain ⟨h6, s6⟩ := emit_rel _ _ _ h5
      obtain ⟨h7, s7⟩ := emit_rel _ _ _ h6
      exact ⟨h7, s7.trans (s6.trans (s5.trans s14))⟩
    · exact ⟨h4, (panic_rel _ _).2.trans s14⟩
  · exact ⟨h4, s14⟩

/-- `catch` before its block -/
theorem catchPrologue_step (mt : Table) (hmt : mtOk mt = true) (o : Nat) (cn : Name) (hcn : cn ≠ UNINITIALIZED_VAR)
    (d : Nat) (x : Name) (cs : CS) (env : Env) (h : Rel cs.chain env) (hm : cs.modTable = mt) (hd : Deep env) :
    Step mt cs (cs.catchPrologue o cn d x) (declare env d x) [⟨o, Spec.lookup (tableLookup mt) env cn⟩] := by
  have s1 := variableGet_step mt hmt o cn hcn cs env h hm
  obtain ⟨h2, s2⟩ := declareVariable_rel (cs.variableGet o cn) d x env s1.1
  rw [declareVar_deep _ _ _ hd] at h2
  obtain ⟨h3, s3⟩ := defineVariable_rel _ x ((cs.variableGet o cn).declareVariable d x).2 _ h2
  exact (s1.then h2 s2).then h3 s3

/-- `class` before its methods -/
theorem classPrologue_step (mt : Table) (hmt : mtOk mt = true) (d : Nat) (c : Name) (hc : c ≠ UNINITIALIZED_VAR)
    (oSup : Nat) (sup : Name) (hsup : sup ≠ UNINITIALIZED_VAR) (oName : Nat) (tbl : Table) (ht : tblLocal tbl = true)
    (dSuper : Nat) (cs : CS) (env : Env) (h : Rel cs.chain env) (hm : cs.modTable = mt) :
    Step mt cs (cs.classPrologue d c oSup sup oName tbl dSuper) (declare (pushScope (declareVar env d c)) dSuper SUPER)
      [⟨oSup, Spec.lookup (tableLookup mt) (declare (pushScope (declareVar env d c)) dSuper SUPER) sup⟩,
       ⟨oName, Spec.lookup (tableLookup mt) (declare (pushScope (declareVar env d c)) dSuper SUPER) c⟩] := by
  obtain ⟨h1, s1⟩ := declareVariable_rel cs d c env h
  obtain ⟨h2, s2⟩ := defineVariable_rel _ c (cs.declareVariable d c).2 _ h1
  obtain ⟨h3, s3⟩ := beginScope_rel _ tbl _ h2 ht
  obtain ⟨h4, s4⟩ := declareVariable_rel _ dSuper SUPER _ h3
  rw [declareVar_deep _ _ _ (deep_push _ ⟨_, h2⟩)] at h4
  have s14 := s4.trans (s3.trans (s2.trans s1))
  have st0 : Step mt cs ((((cs.declareVariable d c).1.defineVariable c (cs.declareVariable d c).2).beginScope tbl).declareVariable dSuper SUPER).1 _ [] :=
    (Step.refl h hm).then h4 s14
  have st1 := variableGet_step mt hmt oSup sup hsup _ _ st0.1 st0.2.1
  obtain ⟨h5, s5⟩ := defineVariable_rel _ SUPER ((((cs.declareVariable d c).1.defineVariable c (cs.declareVariable d c).2).beginScope tbl).declareVariable dSuper SUPER).2 _ st1.1
  have st2 := (st0.trans st1).then h5 s5
  have st3 := variableGet_step mt hmt oName c hc _ _ st2.1 st2.2.1
  exact st2.trans st3

/-- **The compiler's resolution is lexical.**  Running the compiler over any tree from a state that
is in relation with a Spec environment yields, occurrence by occurrence, access paths that designate
what `Spec.lookup` says, and ends in a related state. -/
theorem comp_lex (mt : Table) (hmt : mtOk mt = true) (t : Tm) :
    ∀ (cs : CS) (env : Env), treeOk t = true → Rel cs.chain env → cs.modTable = mt →
      Step mt cs (comp t cs) (occs (tableLookup mt) t env).1 (occs (tableLookup mt) t env).2 ∧
      Shape (occs (tableLookup mt) t env).1 env := by
  induction t with
  | nil => intro cs env _ h hm; exact ⟨Step.refl h hm, Shape.refl _⟩
  | lit n => intro cs env _ h hm; exact ⟨Step.refl h hm, Shape.refl _⟩
  | str s => intro cs env _ h hm; exact ⟨Step.refl h hm, Shape.refl _⟩
  | nilE =>
    intro cs env _ h hm
    rw [comp_nilE, occs_nilE]
    obtain ⟨hr, hs⟩ := emit_rel cs .nil env h
    exact ⟨(Step.refl h hm).then hr hs, Shape.refl _⟩
  | letN d x =>
    intro cs env _ h hm
    rw [comp_letN, occs_letN]
    obtain ⟨hr, hs⟩ := declareVariable_rel cs d x env h
    obtain ⟨hr2, hs2⟩ := emit_rel (cs.declareVariable d x).1 .nil _ hr
    obtain ⟨hr3, hs3⟩ := defineVariable_rel ((cs.declareVariable d x).1.emit .nil) x (cs.declareVariable d x).2 _ hr2
    exact ⟨(((Step.refl h hm).then hr hs).then hr2 hs2).then hr3 hs3, shape_declareVar env d x⟩
  | seq a b iha ihb =>
    intro cs env hok h hm
    simp only [treeOk, Bool.and_eq_true] at hok
    obtain ⟨s1, sh1⟩ := iha cs env hok.1 h hm
    obtain ⟨s2, sh2⟩ := ihb (comp a cs) _ hok.2 s1.1 s1.2.1
    rw [comp_seq, occs_seq]
    exact ⟨s1.trans s2, sh2.trans sh1⟩
  | var o x =>
    intro cs env hok h hm
    simp only [treeOk] at hok
    rw [comp_var, occs_var]
    exact ⟨variableGet_step mt hmt o x (treeOk_name hok) cs env h hm, Shape.refl _⟩
  | assign o x e ih =>
    intro cs env hok h hm
    simp only [treeOk, Bool.and_eq_true] at hok
    obtain ⟨s1, sh1⟩ := ih cs env hok.2 h hm
    rw [comp_assign, occs_assign]
    exact ⟨s1.trans (variableSet_step mt hmt o x (treeOk_name hok.1) _ _ s1.1 s1.2.1), sh1⟩
  | op k args ih =>
    intro cs env hok h hm
    simp only [treeOk] at hok
    rw [comp_op, occs_op]
    exact ih cs env hok h hm
  | lam tbl d0 ps body ih =>
    intro cs env hok h hm
    simp only [treeOk, Bool.and_eq_true] at hok
    rw [comp_lam, occs_lam]
    have := function_step ih hok.2 tbl hok.1 .fn "lambda" d0 ps (Step.refl h hm)
    exact ⟨by simpa using this, Shape.refl _⟩
  | method kind m tbl d0 ps body ih =>
    intro cs env hok h hm
    simp only [treeOk, Bool.and_eq_true] at hok
    rw [comp_method, occs_method]
    have := function_step ih hok.2 tbl hok.1 kind m d0 ps (Step.refl h hm)
    exact ⟨by simpa using this, Shape.refl _⟩
  | letS d x e ih =>
    intro cs env hok h hm
    simp only [treeOk] at hok
    rw [comp_let, occs_let]
    obtain ⟨hr, hs⟩ := declareVariable_rel cs d x env h
    obtain ⟨s2, sh2⟩ := ih _ _ hok hr (hs.1.trans hm)
    obtain ⟨hr3, hs3⟩ := defineVariable_rel (comp e (cs.declareVariable d x).1) x (cs.declareVariable d x).2 _ s2.1
    have hstep := ((Step.refl h hm).then hr hs).trans s2
    exact ⟨by simpa using hstep.then hr3 hs3, sh2.trans (shape_declareVar env d x)⟩
  | fnS d f tbl d0 ps body ih =>
    intro cs env hok h hm
    simp only [treeOk, Bool.and_eq_true] at hok
    rw [comp_fn, occs_fn]
    obtain ⟨hr, hs⟩ := declareVariable_rel cs d f env h
    have s1 := (Step.refl h hm).then hr hs
    have s2 := function_step ih hok.2 tbl hok.1 .fn f d0 ps s1
    obtain ⟨hr3, hs3⟩ := defineVariable_rel _ f (cs.declareVariable d f).2 _ s2.1
    exact ⟨by simpa using s2.then hr3 hs3, shape_declareVar env d f⟩
  | ifS c tT t tE e ihc iht ihe =>
    intro cs env hok h hm
    simp only [treeOk, Bool.and_eq_true] at hok
    obtain ⟨⟨⟨⟨hc, htT⟩, ht⟩, htE⟩, he⟩ := hok
    rw [comp_if, occs_if]
    obtain ⟨s1, sh1⟩ := ihc cs env hc h hm
    obtain ⟨s2, sh2⟩ := scope_step iht ht tT htT s1
    obtain ⟨s3, sh3⟩ := scope_step ihe he tE htE s2
    exact ⟨s3, sh3.trans (sh2.trans sh1)⟩
  | whileS c tbl b ihc ihb =>
    intro cs env hok h hm
    simp only [treeOk, Bool.and_eq_true] at hok
    obtain ⟨⟨hc, htb⟩, hb⟩ := hok
    rw [comp_while, occs_while]
    obtain ⟨s1, sh1⟩ := ihc cs env hc h hm
    obtain ⟨s2, sh2⟩ := scope_step ihb hb tbl htb s1
    exact ⟨s2, sh2.trans sh1⟩
  | forS tF dI d x iter tB b ihi ihb =>
    intro cs env hok h hm
    simp only [treeOk, Bool.and_eq_true] at hok
    obtain ⟨⟨⟨htF, hi⟩, htB⟩, hb⟩ := hok
    rw [comp_for, occs_for]
    obtain ⟨hr0, hs0⟩ := beginScope_rel cs tF env h htF
    obtain ⟨s1, sh1⟩ := ihi _ _ hi hr0 (hs0.1.trans hm)
    have hne : env ≠ [] := (Step.refl h hm).rel_ne
    have hd1 : Deep (occs (tableLookup mt) iter (pushScope env)).1 :=
      deep_of_shape sh1 (deep_push _ ⟨_, h⟩) (push_ne _ hne)
    obtain ⟨hr2, hs2⟩ := forPrologue_rel _ dI d x _ s1.1 hd1
    have st2 : Step mt cs ((comp iter (cs.beginScope tF)).forPrologue dI d x) _ _ :=
      (((Step.refl h hm).then hr0 hs0).trans s1).then hr2 hs2
    obtain ⟨s3, sh3⟩ := scope_step ihb hb tB htB st2
    -- leaving the loop's own scope
    have shA : Shape (declare (declare (occs (tableLookup mt) iter (pushScope env)).1 dI ITER_VAR) d x) (pushScope env) :=
      (shape_declare _ _ _).trans ((shape_declare _ _ _).trans sh1)
    have shB := sh3.trans shA
    obtain ⟨hr4, hs4⟩ := endScope_rel _ _ s3.1 (shape_head_len shB ⟨_, h⟩)
    exact ⟨by simpa using s3.then hr4 hs4, shape_pop_push shB hne⟩
  | tryS tB b tC d x o cn tCB c ihb ihc =>
    intro cs env hok h hm
    simp only [treeOk, Bool.and_eq_true] at hok
    obtain ⟨⟨⟨⟨⟨htB, hb⟩, htC⟩, hcn⟩, htCB⟩, hc⟩ := hok
    rw [comp_try, occs_try]
    have hne : env ≠ [] := (Step.refl h hm).rel_ne
    obtain ⟨s1, sh1⟩ := scope_step ihb hb tB htB (Step.refl h hm)
    obtain ⟨hr2, hs2⟩ := beginScope_rel _ tC _ s1.1 htC
    have hd2 : Deep (pushScope (popScope (occs (tableLookup mt) b (pushScope env)).1)) := deep_push _ ⟨_, s1.1⟩
    have st3 := catchPrologue_step mt hmt o cn (treeOk_name hcn) d x _ _ hr2 (hs2.1.trans s1.2.1) hd2
    have st4 : Step mt cs _ _ _ := (s1.then hr2 hs2).trans st3
    obtain ⟨s5, sh5⟩ := scope_step ihc hc tCB htCB st4
    have shA : Shape (declare (pushScope (popScope (occs (tableLookup mt) b (pushScope env)).1)) d x)
        (pushScope (popScope (occs (tableLookup mt) b (pushScope env)).1)) := shape_declare _ _ _
    have shB := sh5.trans shA
    obtain ⟨hr6, hs6⟩ := endScope_rel _ _ s5.1 (shape_head_len shB ⟨_, s1.1⟩)
    have hne1 : popScope (occs (tableLookup mt) b (pushScope env)).1 ≠ [] := shape_ne sh1 hne
    exact ⟨by simpa using s5.then hr6 hs6, (shape_pop_push shB hne1).trans sh1⟩
  | classS d c oSup sup oName tbl dSuper ms ih =>
    intro cs env hok h hm
    simp only [treeOk, Bool.and_eq_true] at hok
    obtain ⟨⟨⟨hsup, hc⟩, htbl⟩, hms⟩ := hok
    rw [comp_class, occs_class]
    have hne : env ≠ [] := (Step.refl h hm).rel_ne
    have st1 := classPrologue_step mt hmt d c (treeOk_name hc) oSup sup (treeOk_name hsup) oName tbl htbl dSuper cs env h hm
    obtain ⟨s2, sh2⟩ := ih _ _ hms st1.1 st1.2.1
    obtain ⟨hr0, _⟩ := declareVariable_rel cs d c env h
    have shA : Shape (declare (pushScope (declareVar env d c)) dSuper SUPER) (pushScope (declareVar env d c)) := shape_declare _ _ _
    have shB := sh2.trans shA
    obtain ⟨hr3, hs3⟩ := endScope_rel _ _ s2.1 (shape_head_len shB ⟨_, hr0⟩)
    have hne1 : declareVar env d c ≠ [] := shape_ne (shape_declareVar env d c) hne
    exact ⟨(st1.trans s2).then hr3 hs3, (shape_pop_push shB hne1).trans (shape_declareVar env d c)⟩

end LaytheVerif.Scope
