import LaytheVerif.Model.Contract
/-!
# The resolver ⇒ compiler contract (`Model/Contract.lean`): events, then the AST under the sharp envelope `sep`

Structure of the proof of `resolve_then_compile_events` (sections 1–5, as in `Lemmas/ResolveCompile.lean`; the id of a
declaration now travels with the event, so the `nextId` bookkeeping is gone):
1. `Le` / `stepR_le` / `foldl_le`: the resolver's counters, captured set and module names only grow, so a clean final
   state means every prefix was clean and the final oracles (`mods`, `cap`) cover every intermediate state.
2. `wf` / `sortedF`: on an error-free run the frame stack is well bracketed (ghost flag `isFun`), hence depth-sorted.
3. `findIn_erase`, `resolveLocalF_*`, `resolveCapture_loc`, `useC_module`, `useC_of_findR`: the compiler's per-function
   lookups + `enclosing` chain agree with the resolver's flat scan + depth comparison.
4. `Inv` / `step_sim` / `foldl_sim`: the compiler state is the erasure of the resolver state, step by step.
5. `resolve_then_compile_events`, `compile_eraseDefs`.

Structure of the proof of `resolve_then_compile_ast_sep` (sections 6–10): the compiler, run over the RESOLVER's
traversal order, ends in literally the same state as over its own order (`compile_orders_agree`), for every oracle.
6. `run`, `Ext`: the compiler events of any item list leave the frame stack as they found it, except that the head
   frame gains the top-level declarations (`Items.cevs_ext`); an expression (`exprLike`) declares nothing.
7. `Sim a`: two compiler states whose frames agree after deleting every local NAMED `a`.  All lookups of names `≠ a`
   agree on such states, so every event other than `use a` preserves `Sim a` (`stepC_sim`, `run_sim`).
8. `swap`: a `declare a i` commutes with a segment that restores the frames (`Ext _ []`) and never performs `use a`.
9. `Item.run_revs` / `Items.run_revs` (mutual structural induction): congruence everywhere; `catch` is one `swap` over
   `[use cls]`, `for` is two `swap`s (`x`, then `$iter`) over the iterable.
10. the theorem, the three defect witnesses (outside the envelope) and a non-vacuity example (inside), by `decide`.
-/
namespace LaytheVerif.Contract

/-- the compiler's view of a resolver table -/
def Frame.erase (f : Frame) : CFrame := ⟨f.funDepth, f.syms.map fun s => (s.name, s.id)⟩

/-! ### 1. Monotonicity of the resolver run -/

/-- `r'` is reachable-later than `r`: the counters and the two ghost sets only grow -/
structure Le (r r' : RState) : Prop where
  errors : r.errors ≤ r'.errors
  unhoisted : r.unhoisted ≤ r'.unhoisted
  captured : ∀ i, i ∈ r.captured → i ∈ r'.captured
  mods : ∀ n, n ∈ r.modSyms.map (·.1) → n ∈ r'.modSyms.map (·.1)

theorem Le.refl (r : RState) : Le r r := ⟨Nat.le_refl _, Nat.le_refl _, fun _ h => h, fun _ h => h⟩

theorem Le.trans {a b c : RState} (h1 : Le a b) (h2 : Le b c) : Le a c :=
  ⟨Nat.le_trans h1.errors h2.errors, Nat.le_trans h1.unhoisted h2.unhoisted,
   fun i h => h2.captured i (h1.captured i h), fun n h => h2.mods n (h1.mods n h)⟩

/-- `define` at module level rewrites states only, not names -/
theorem map_fst_define (n : Name) (l : List (Name × SymState)) :
    (l.map (fun m => if m.1 = n then (m.1, SymState.init) else m)).map (·.1) = l.map (·.1) := by
  induction l with
  | nil => rfl
  | cons a l ih =>
    simp only [List.map_cons, ih]
    split <;> rfl

/-- every resolver step only grows errors / unhoisted / captured / module names -/
theorem stepR_le (g : Name → Bool) (r : RState) (e : Ev) : Le r (stepR g r e) := by
  cases e <;> simp only [stepR] <;> (repeat' split) <;>
    first
    | exact Le.refl _
    | exact ⟨by simp, by simp, by simp +contextual,
        by (try simp only [map_fst_define]); simp +contextual⟩

theorem foldl_le (g : Name → Bool) (es : List Ev) : ∀ r, Le r (es.foldl (stepR g) r) := by
  induction es with
  | nil => intro r; exact Le.refl r
  | cons e es ih => intro r; exact Le.trans (stepR_le g r e) (ih _)


/-! ### 2. Well-bracketedness of the resolver's frame stack -/

/-- the frame stack is what a well-bracketed event prefix produces at function depth `d` -/
def wf : Nat → List Frame → Prop
  | d, [] => d = 0
  | d, f :: fs => f.funDepth = d ∧ (f.isFun = true → 0 < d ∧ wf (d - 1) fs) ∧ (f.isFun = false → wf d fs)

/-- every frame is at depth `≤ d`, and depths do not increase towards the outside -/
def sortedF : Nat → List Frame → Prop
  | _, [] => True
  | d, f :: fs => f.funDepth ≤ d ∧ sortedF f.funDepth fs

theorem sortedF_mono : ∀ (fs : List Frame) (d d' : Nat), sortedF d fs → d ≤ d' → sortedF d' fs
  | [], _, _, _, _ => trivial
  | _ :: _, _, _, h, hle => ⟨Nat.le_trans h.1 hle, h.2⟩

theorem wf_sortedF : ∀ (fs : List Frame) (d : Nat), wf d fs → sortedF d fs
  | [], _, _ => trivial
  | f :: fs, d, h => by
    obtain ⟨hd, ht, hf⟩ := h
    refine ⟨Nat.le_of_eq hd, ?_⟩
    rw [hd]
    cases hb : f.isFun with
    | true => exact sortedF_mono fs (d - 1) d (wf_sortedF fs (d - 1) (ht hb).2) (Nat.sub_le _ _)
    | false => exact wf_sortedF fs d (hf hb)

/-! ### 3. Lookup agreement -/

/-- `define` in a local table is invisible to the compiler's erasure -/
theorem map_setState (n : Name) (st : SymState) (l : List Sym) :
    (setState n st l).map (fun s => (s.name, s.id)) = l.map (fun s => (s.name, s.id)) := by
  induction l with
  | nil => rfl
  | cons a l ih =>
    simp only [setState]
    split <;> simp only [List.map_cons, ih]

theorem find_map_aux (l : List Sym) (n : Name) :
    ((l.map fun s => (s.name, s.id)).find? (fun p => p.1 = n)).map (·.2)
      = (l.find? (fun s => s.name = n)).map (·.id) := by
  induction l with
  | nil => rfl
  | cons a l ih =>
    simp only [List.map_cons, List.find?_cons]
    by_cases h : a.name = n
    · simp only [h, decide_true, Option.map_some]
    · simp only [h, decide_false]
      exact ih

/-- (L0) one table: the compiler's `findIn` is the resolver's `SymbolTable::get` -/
theorem findIn_erase (f : Frame) (n : Name) : findIn f.erase.locals n = (f.find n).map (·.id) := by
  unfold findIn Frame.find Frame.erase
  simp only
  rw [← List.map_reverse]
  exact find_map_aux _ _

/-- (L1) a name the flat scan misses is in nobody's locals -/
theorem resolveLocalF_none_of_findR (n : Name) : ∀ (fs : List Frame), findR fs n = none →
    ∀ d', resolveLocalF (fs.map Frame.erase) d' n = none
  | [], _, _ => rfl
  | f :: fs, h, d' => by
    simp only [findR] at h
    cases hf : f.find n with
    | some s => simp [hf] at h
    | none =>
      simp only [hf] at h
      have ih := resolveLocalF_none_of_findR n fs h d'
      simp only [List.map_cons, resolveLocalF, findIn_erase, hf, Option.map_none, ih]
      split <;> rfl

/-- frames that are all shallower than `d'` contribute nothing to the compiler at depth `d'` -/
theorem resolveLocalF_none_of_lt (n : Name) : ∀ (fs : List Frame) (d0 d' : Nat), sortedF d0 fs → d0 < d' →
    resolveLocalF (fs.map Frame.erase) d' n = none
  | [], _, _, _, _ => rfl
  | f :: fs, d0, d', h, hlt => by
    have hne : ¬ f.erase.funDepth = d' := by
      show ¬ f.funDepth = d'
      have := h.1; omega
    have ih := resolveLocalF_none_of_lt n fs f.funDepth d' h.2 (Nat.lt_of_le_of_lt h.1 hlt)
    simp only [List.map_cons, resolveLocalF, hne, if_false, ih]

/-- (L2) where the flat scan finds `n`, the compiler at that depth finds the same id, and no deeper compiler has it -/
theorem resolveLocalF_of_findR (n : Name) (f : Frame) (s : Sym) : ∀ (fs : List Frame) (d : Nat),
    findR fs n = some (f, s) → sortedF d fs →
    resolveLocalF (fs.map Frame.erase) f.funDepth n = some s.id ∧
    (∀ d', f.funDepth < d' → resolveLocalF (fs.map Frame.erase) d' n = none) ∧ f.funDepth ≤ d
  | [], _, h, _ => by simp [findR] at h
  | g :: gs, d, h, hs => by
    simp only [findR] at h
    cases hf : g.find n with
    | some s' =>
      simp only [hf, Option.some.injEq, Prod.mk.injEq] at h
      obtain ⟨rfl, rfl⟩ := h
      refine ⟨?_, ?_, hs.1⟩
      · have : g.erase.funDepth = g.funDepth := rfl
        simp only [List.map_cons, resolveLocalF, this, if_true, findIn_erase, hf, Option.map_some]
      · intro d' hlt
        have hne : ¬ g.erase.funDepth = d' := by
          show ¬ g.funDepth = d'
          omega
        simp only [List.map_cons, resolveLocalF, hne, if_false]
        exact resolveLocalF_none_of_lt n gs g.funDepth d' hs.2 hlt
    | none =>
      simp only [hf] at h
      obtain ⟨h1, h2, h3⟩ := resolveLocalF_of_findR n f s gs g.funDepth h hs.2
      refine ⟨?_, ?_, Nat.le_trans h3 hs.1⟩
      · simp only [List.map_cons, resolveLocalF, findIn_erase, hf, Option.map_none, h1]
        split <;> rfl
      · intro d' hlt
        simp only [List.map_cons, resolveLocalF, findIn_erase, hf, Option.map_none, h2 d' hlt]
        split <;> rfl

/-- (L3) a local of an enclosing function is reached by the `enclosing` chain -/
theorem resolveCapture_loc (cf : List CFrame) (mods : List Name) (n : Name) (d0 : Nat) (i : Id)
    (h0 : resolveLocalF cf d0 n = some i) (hn : ∀ d', d0 < d' → resolveLocalF cf d' n = none) :
    ∀ d, d0 < d → resolveCapture cf mods d n = some (.loc i)
  | 0, h => by omega
  | d + 1, h => by
    by_cases hd : d = d0
    · subst hd
      simp only [resolveCapture, resolveLocal, h0]
    · have hlt : d0 < d := by omega
      have hz : ¬ d = 0 := by omega
      simp only [resolveCapture, resolveLocal, hn d hlt, hz, false_and, if_false]
      exact resolveCapture_loc cf mods n d0 i h0 hn d hlt

/-- (L4) a name nobody has as a local, but which is in the module table, is found as a module variable -/
theorem useC_module (cf : List CFrame) (mods : List Name) (cap : Id → Bool) (n : Name)
    (hn : ∀ d', resolveLocalF cf d' n = none) (hm : mods.contains n = true) :
    ∀ d, useC cf mods cap d n = true := by
  have h0 : resolveLocal cf mods 0 n = some .module := by
    simp only [resolveLocal, hn 0, hm, and_self, if_true]
  have hc : ∀ d, resolveCapture cf mods (d + 1) n = some .module := by
    intro d
    induction d with
    | zero => simp only [resolveCapture, h0]
    | succ d ih =>
      have : resolveLocal cf mods (d + 1) n = none := by
        simp [resolveLocal, hn (d + 1)]
      rw [resolveCapture, this]
      exact ih
  intro d
  cases d with
  | zero => simp only [useC, h0]
  | succ d =>
    have : resolveLocal cf mods (d + 1) n = none := by
      simp [resolveLocal, hn (d + 1)]
    simp only [useC, this, hc d]


/-- the compiler's `variable_get` succeeds wherever the resolver's flat scan finds an initialised local, provided the
symbol is marked captured whenever it belongs to an enclosing function -/
theorem useC_of_findR (mods : List Name) (cap : Id → Bool) (n : Name) (f : Frame) (s : Sym) (fs : List Frame) (d : Nat)
    (hfr : findR fs n = some (f, s)) (hs : sortedF d fs) (hc : f.funDepth < d → cap s.id = true) :
    useC (fs.map Frame.erase) mods cap d n = true := by
  obtain ⟨h1, h2, h3⟩ := resolveLocalF_of_findR n f s fs d hfr hs
  by_cases hlt : f.funDepth < d
  · have hz : ¬ d = 0 := by omega
    have hl : resolveLocal (fs.map Frame.erase) mods d n = none := by
      simp only [resolveLocal, h2 d hlt, hz, false_and, if_false]
    have hcp := resolveCapture_loc (fs.map Frame.erase) mods n f.funDepth s.id h1 h2 d hlt
    simp only [useC, hl, hcp, hc hlt]
  · have he : f.funDepth = d := by omega
    rw [he] at h1
    simp only [useC, resolveLocal, h1]

theorem mem_names_of_any (n : Name) (l : List (Name × SymState)) (h : l.any (fun m => m.1 = n) = true) :
    n ∈ l.map (·.1) := by
  simp at h ⊢
  exact h

/-! ### 4. Simulation -/

/-- the compiler state is the erasure of the resolver state, and the resolver's stack is well bracketed -/
structure Inv (r : RState) (c : CState) : Prop where
  frames : c.frames = r.frames.map Frame.erase
  funDepth : c.funDepth = r.funDepth
  wf : wf r.funDepth r.frames

/-- one step of the simulation: a resolver step that raises neither counter is matched by a panic-free compiler
step, given that the compiler's oracles (`mods`, `cap`) cover the resolver's module table / captured set after the step -/
theorem step_sim (g : Name → Bool) (mods : List Name) (cap : Id → Bool) (r : RState) (c : CState) (e : Ev)
    (hinv : Inv r c) (hok : c.ok = true)
    (herr : (stepR g r e).errors = r.errors) (hun : (stepR g r e).unhoisted = r.unhoisted)
    (hmods : ∀ n, n ∈ (stepR g r e).modSyms.map (·.1) → mods.contains n = true)
    (hcap : ∀ i, i ∈ (stepR g r e).captured → cap i = true) :
    Inv (stepR g r e) (stepC mods cap c e) ∧ (stepC mods cap c e).ok = true := by
  obtain ⟨hf, hd, hw⟩ := hinv
  obtain ⟨rf, rm, rd0, re, ru, rc⟩ := r
  obtain ⟨cfs, rd, cok⟩ := c
  simp only at hf hd hw hok
  subst hf hd hok
  generalize hr1 : stepR g _ e = r1 at *
  cases e with
  | hoist n =>
    simp only [stepR] at hr1
    split at hr1 <;> subst hr1
    · simp at herr
    · exact ⟨⟨rfl, rfl, hw⟩, rfl⟩
  | beginScope =>
    simp only [stepR] at hr1
    subst hr1
    exact ⟨⟨rfl, rfl, rfl, fun h => by simp at h, fun _ => hw⟩, rfl⟩
  | endScope =>
    cases rf with
    | nil => simp only [stepR] at hr1; subst hr1; simp at herr
    | cons f fs =>
      simp only [stepR] at hr1
      split at hr1 <;> subst hr1
      · simp at herr
      · rename_i hb
        exact ⟨⟨rfl, rfl, hw.2.2 (by simpa using hb)⟩, rfl⟩
  | beginFun =>
    simp only [stepR] at hr1
    subst hr1
    exact ⟨⟨rfl, rfl, rfl, fun _ => ⟨Nat.succ_pos _, hw⟩, fun h => by simp at h⟩, rfl⟩
  | endFun =>
    cases rf with
    | nil => simp only [stepR] at hr1; subst hr1; simp at herr
    | cons f fs =>
      simp only [stepR] at hr1
      split at hr1 <;> subst hr1
      · simp at herr
      · rename_i hb
        simp only [Bool.or_eq_true, decide_eq_true_eq, Bool.not_eq_true', not_or, Bool.not_eq_false] at hb
        have hz : ¬ rd = 0 := hb.1
        simp only [stepC, List.map_cons, hz, if_false]
        exact ⟨⟨rfl, rfl, (hw.2.1 hb.2).2⟩, by trivial⟩
  | declare n i =>
    cases rf with
    | nil =>
      simp only [stepR] at hr1
      split at hr1 <;> subst hr1
      · rename_i ha
        have hm := hmods n (mem_names_of_any n rm ha)
        simp only [stepC, List.map_nil, hm, if_true]
        exact ⟨⟨rfl, rfl, hw⟩, by trivial⟩
      · simp at hun
    | cons f fs =>
      simp only [stepR] at hr1
      split at hr1 <;> subst hr1
      · simp at herr
      · refine ⟨⟨?_, rfl, hw⟩, rfl⟩
        simp [stepC, Frame.erase]
  | define n =>
    cases rf with
    | nil =>
      simp only [stepR] at hr1
      split at hr1 <;> subst hr1
      · exact ⟨⟨rfl, rfl, hw⟩, rfl⟩
      · simp at herr
    | cons f fs =>
      simp only [stepR] at hr1
      split at hr1 <;> subst hr1
      · refine ⟨⟨?_, rfl, hw⟩, rfl⟩
        simp [stepC, Frame.erase, map_setState]
      · simp at herr
  | use n =>
    have hsorted := wf_sortedF rf rd hw
    cases hfr : findR rf n with
    | none =>
      have hnone := resolveLocalF_none_of_findR n rf hfr
      simp only [stepR, hfr] at hr1
      have key : ∀ (hm : mods.contains n = true) (rm' : List (Name × SymState)),
          Inv ⟨rf, rm', rd, re, ru, rc⟩ (stepC mods cap ⟨rf.map Frame.erase, rd, true⟩ (.use n)) ∧
          (stepC mods cap ⟨rf.map Frame.erase, rd, true⟩ (.use n)).ok = true := by
        intro hm rm'
        simp only [stepC, useC_module _ mods cap n hnone hm rd, if_true]
        exact ⟨⟨rfl, rfl, hw⟩, by trivial⟩
      split at hr1
      · rename_i ha
        subst hr1
        exact key (hmods n (mem_names_of_any n rm ha)) _
      · split at hr1 <;> subst hr1
        · exact key (hmods n (by simp)) _
        · simp at herr
    | some p =>
      obtain ⟨f, s⟩ := p
      simp only [stepR, hfr] at hr1
      cases hst : s.state with
      | uninit => simp only [hst] at hr1; subst hr1; simp at herr
      | init =>
        simp only [hst] at hr1
        have key : ∀ (hc : f.funDepth < rd → cap s.id = true) (rc' : List Id),
            Inv ⟨rf, rm, rd, re, ru, rc'⟩ (stepC mods cap ⟨rf.map Frame.erase, rd, true⟩ (.use n)) ∧
            (stepC mods cap ⟨rf.map Frame.erase, rd, true⟩ (.use n)).ok = true := by
          intro hc rc'
          simp only [stepC, useC_of_findR mods cap n f s rf rd hfr hsorted hc, if_true]
          exact ⟨⟨rfl, rfl, hw⟩, by trivial⟩
        split at hr1 <;> subst hr1
        · exact key (fun _ => hcap s.id (by simp)) _
        · rename_i hlt
          exact key (fun h => absurd h hlt) _

/-- the simulation over a whole run -/
theorem foldl_sim (g : Name → Bool) (mods : List Name) (cap : Id → Bool) : ∀ (es : List Ev) (r : RState) (c : CState),
    Inv r c → c.ok = true →
    (es.foldl (stepR g) r).errors = r.errors → (es.foldl (stepR g) r).unhoisted = r.unhoisted →
    (∀ n, n ∈ (es.foldl (stepR g) r).modSyms.map (·.1) → mods.contains n = true) →
    (∀ i, i ∈ (es.foldl (stepR g) r).captured → cap i = true) →
    (es.foldl (stepC mods cap) c).ok = true
  | [], _, _, _, hok, _, _, _, _ => hok
  | e :: es, r, c, hinv, hok, herr, hun, hmods, hcap => by
    simp only [List.foldl_cons] at herr hun hmods hcap ⊢
    have l1 := stepR_le g r e
    have l2 := foldl_le g es (stepR g r e)
    have e1 : (stepR g r e).errors = r.errors := by
      have := l1.errors; have := l2.errors; omega
    have u1 : (stepR g r e).unhoisted = r.unhoisted := by
      have := l1.unhoisted; have := l2.unhoisted; omega
    obtain ⟨hinv', hok'⟩ := step_sim g mods cap r c e hinv hok e1 u1
      (fun n h => hmods n (l2.mods n h)) (fun i h => hcap i (l2.captured i h))
    exact foldl_sim g mods cap es _ _ hinv' hok' (by omega) (by omega) hmods hcap

/-! ### 5. The contract -/

/-- **Event-level contract.**  For every sequence of scoping events: if the resolver run reports no error (and the
ghost counter of un-hoisted module declarations is 0) then the compiler run over the *same* events, reading the final
module table and the final captured-ness, reaches none of its `panic!`/`expect` lookup sites. -/
theorem resolve_then_compile_events (isGlobal : Name → Bool) (es : List Ev)
    (herr : (resolve isGlobal es).errors = 0) (hh : (resolve isGlobal es).unhoisted = 0) :
    (compileAfter isGlobal es es).ok = true := by
  unfold compileAfter compile
  unfold resolve at herr hh ⊢
  refine foldl_sim isGlobal _ _ es {} {} ⟨rfl, rfl, rfl⟩ rfl herr hh ?_ ?_
  · intro n h
    simpa using h
  · intro i h
    simpa using h

/-- `define` and `hoist` are no-ops of the compiler step, from any state -/
theorem stepC_eraseDefs (mods : List Name) (cap : Id → Bool) : ∀ (es : List Ev) (c : CState),
    (eraseDefs es).foldl (stepC mods cap) c = es.foldl (stepC mods cap) c
  | [], _ => rfl
  | e :: es, c => by
    have ih := stepC_eraseDefs mods cap es
    unfold eraseDefs at ih ⊢
    cases e <;> simp only [List.filter_cons, List.foldl_cons, stepC, ih, if_true, if_false, Bool.false_eq_true]

/-- the compiler's lookups ignore `define` and `hoist` events -/
theorem compile_eraseDefs (mods : List Name) (cap : Id → Bool) (es : List Ev) :
    (compile mods cap (eraseDefs es)).ok = (compile mods cap es).ok := by
  unfold compile
  rw [stepC_eraseDefs]


/-! ### 6. Frame discipline of the compiler's traversal -/

section Run
variable (mods : List Name) (cap : Id → Bool)

/-- the compiler run from an arbitrary state -/
def run (c : CState) (es : List Ev) : CState := es.foldl (stepC mods cap) c

theorem run_nil (c : CState) : run mods cap c [] = c := rfl
theorem run_cons (c : CState) (e : Ev) (es : List Ev) :
    run mods cap c (e :: es) = run mods cap (stepC mods cap c e) es := rfl
theorem run_append (c : CState) (es es' : List Ev) :
    run mods cap c (es ++ es') = run mods cap (run mods cap c es) es' := List.foldl_append
theorem stepC_define (c : CState) (n : Name) : stepC mods cap c (.define n) = c := rfl
theorem stepC_hoist (c : CState) (n : Name) : stepC mods cap c (.hoist n) = c := rfl

/-- parameters: the resolver declares+defines each, the compiler only declares -/
theorem run_params (ps : List (Name × Id)) : ∀ c : CState,
    run mods cap c (ps.flatMap fun p => [.declare p.1 p.2, .define p.1]) =
    run mods cap c (ps.map fun p => .declare p.1 p.2) := by
  induction ps with
  | nil => intro c; rfl
  | cons p ps ih =>
    intro c
    simp only [List.flatMap_cons, List.map_cons, List.cons_append, List.nil_append, run_cons, stepC_define, ih]

/-- the hoisting pre-pass is invisible to the compiler -/
theorem run_hoistOf : ∀ (b : Items) (c : CState), run mods cap c (hoistOf b) = c
  | .nil, _ => rfl
  | .cons (.use _) r, c => by simp only [hoistOf, run_hoistOf r]
  | .cons (.letD _ _ _) r, c => by simp only [hoistOf, run_cons, stepC_hoist, run_hoistOf r]
  | .cons (.funD _ _ _ _) r, c => by simp only [hoistOf, run_cons, stepC_hoist, run_hoistOf r]
  | .cons (.lam _ _) r, c => by simp only [hoistOf, run_hoistOf r]
  | .cons (.block _) r, c => by simp only [hoistOf, run_hoistOf r]
  | .cons (.forD _ _ _ _) r, c => by simp only [hoistOf, run_hoistOf r]
  | .cons (.catchD _ _ _ _) r, c => by simp only [hoistOf, run_hoistOf r]

/-- append locals to the innermost frame (nothing happens at module level) -/
def extendHead : List CFrame → List (Name × Id) → List CFrame
  | [], _ => []
  | f :: fs, ext => { f with locals := f.locals ++ ext } :: fs

theorem extendHead_nil : ∀ fs : List CFrame, extendHead fs [] = fs
  | [] => rfl
  | f :: fs => by simp [extendHead]

theorem extendHead_append : ∀ (fs : List CFrame) (a b : List (Name × Id)),
    extendHead (extendHead fs a) b = extendHead fs (a ++ b)
  | [], _, _ => rfl
  | f :: fs, a, b => by simp [extendHead]

/-- the segment `es`, run from ANY state, restores the frame stack and the function depth, except that the innermost
frame gains the locals `ext` (the `ok` flag plays no role in the evolution of the frames) -/
def Ext (es : List Ev) (ext : List (Name × Id)) : Prop :=
  ∀ c : CState, (run mods cap c es).frames = extendHead c.frames ext ∧ (run mods cap c es).funDepth = c.funDepth

theorem Ext.nil : Ext mods cap [] [] := fun _ => ⟨(extendHead_nil _).symm, rfl⟩

theorem Ext.append {es1 es2 : List Ev} {e1 e2 : List (Name × Id)} (h1 : Ext mods cap es1 e1) (h2 : Ext mods cap es2 e2) :
    Ext mods cap (es1 ++ es2) (e1 ++ e2) := by
  intro c
  rw [run_append]
  obtain ⟨a1, a2⟩ := h1 c
  obtain ⟨b1, b2⟩ := h2 (run mods cap c es1)
  exact ⟨by rw [b1, a1, extendHead_append], by rw [b2, a2]⟩

theorem Ext.use (n : Name) : Ext mods cap [.use n] [] := by
  intro c
  simp only [run_cons, run_nil, stepC]
  split <;> exact ⟨(extendHead_nil _).symm, rfl⟩

theorem Ext.define (n : Name) : Ext mods cap [.define n] [] := fun _ => ⟨(extendHead_nil _).symm, rfl⟩

theorem Ext.declare (n : Name) (i : Id) : Ext mods cap [.declare n i] [(n, i)] := by
  intro c
  obtain ⟨fs, d, ok⟩ := c
  cases fs with
  | nil =>
    simp only [run_cons, run_nil, stepC]
    split <;> exact ⟨rfl, rfl⟩
  | cons f fs => exact ⟨rfl, rfl⟩

theorem Ext.params (ps : List (Name × Id)) : Ext mods cap (ps.map fun p => .declare p.1 p.2) ps := by
  induction ps with
  | nil => exact Ext.nil mods cap
  | cons p ps ih => exact (Ext.declare mods cap p.1 p.2).append mods cap ih

/-- `begin_scope … end_scope` -/
theorem Ext.scope {es : List Ev} {e : List (Name × Id)} (h : Ext mods cap es e) :
    Ext mods cap ([.beginScope] ++ es ++ [.endScope]) [] := by
  intro c
  simp only [run_append, run_cons, run_nil, List.cons_append, List.nil_append]
  obtain ⟨a1, a2⟩ := h (stepC mods cap c .beginScope)
  generalize run mods cap (stepC mods cap c .beginScope) es = c2 at a1 a2 ⊢
  obtain ⟨fs2, d2, ok2⟩ := c2
  simp only [stepC, extendHead] at a1 a2
  subst a1 a2
  exact ⟨(extendHead_nil _).symm, rfl⟩

/-- `Compiler::child; begin_scope … end_compiler` -/
theorem Ext.fn {es : List Ev} {e : List (Name × Id)} (h : Ext mods cap es e) :
    Ext mods cap ([.beginFun] ++ es ++ [.endFun]) [] := by
  intro c
  simp only [run_append, run_cons, run_nil, List.cons_append, List.nil_append]
  obtain ⟨a1, a2⟩ := h (stepC mods cap c .beginFun)
  generalize run mods cap (stepC mods cap c .beginFun) es = c2 at a1 a2 ⊢
  obtain ⟨fs2, d2, ok2⟩ := c2
  simp only [stepC, extendHead] at a1 a2
  subst a1 a2
  simp only [stepC, Nat.add_one_ne_zero, if_false, Nat.add_sub_cancel]
  exact ⟨(extendHead_nil _).symm, trivial⟩

mutual
  /-- what an item declares in the scope it is compiled in -/
  def Item.topDecl : Item → List (Name × Id)
    | .letD n i init => [(n, i)] ++ Items.topDecls init
    | .funD n i _ _ => [(n, i)]
    | .use _ => []
    | .lam _ _ => []
    | .block _ => []
    | .forD _ _ _ _ => []
    | .catchD _ _ _ _ => []
  def Items.topDecls : Items → List (Name × Id)
    | .nil => []
    | .cons i r => Item.topDecl i ++ Items.topDecls r
end

/-- an expression declares nothing in its own scope -/
theorem Items.topDecls_of_exprLike : ∀ b : Items, b.exprLike = true → b.topDecls = []
  | .nil, _ => rfl
  | .cons (.use _) r, h => by
    simp only [Items.exprLike] at h
    simp only [Items.topDecls, Item.topDecl, Items.topDecls_of_exprLike r h, List.append_nil]
  | .cons (.lam _ _) r, h => by
    simp only [Items.exprLike] at h
    simp only [Items.topDecls, Item.topDecl, Items.topDecls_of_exprLike r h, List.append_nil]
  | .cons (.letD _ _ _) _, h => by simp [Items.exprLike] at h
  | .cons (.funD _ _ _ _) _, h => by simp [Items.exprLike] at h
  | .cons (.block _) _, h => by simp [Items.exprLike] at h
  | .cons (.forD _ _ _ _) _, h => by simp [Items.exprLike] at h
  | .cons (.catchD _ _ _ _) _, h => by simp [Items.exprLike] at h

mutual
  /-- the compiler's traversal of ANY item restores the frame stack, adding only the item's own top-level
  declarations to the innermost frame -/
  theorem Item.cevs_ext : ∀ it : Item, Ext mods cap it.cevs it.topDecl
    | .use n => Ext.use mods cap n
    | .letD n i init => by
      have ih := Items.cevs_ext init
      have := ((Ext.declare mods cap n i).append mods cap ih).append mods cap (Ext.define mods cap n)
      simpa [Item.cevs, Item.topDecl] using this
    | .funD n i ps b => by
      have ih := Items.cevs_ext b
      have := ((Ext.declare mods cap n i).append mods cap
        (Ext.fn mods cap (((Ext.declare mods cap nUninit 0).append mods cap (Ext.params mods cap ps)).append mods cap ih))).append
        mods cap (Ext.define mods cap n)
      simpa [Item.cevs, Item.topDecl] using this
    | .lam ps b => by
      have ih := Items.cevs_ext b
      have := Ext.fn mods cap (((Ext.declare mods cap nUninit 0).append mods cap (Ext.params mods cap ps)).append mods cap ih)
      simpa [Item.cevs, Item.topDecl] using this
    | .block b => by
      have ih := Items.cevs_ext b
      have := Ext.scope mods cap ih
      simpa [Item.cevs, Item.topDecl] using this
    | .forD x i it b => by
      have ih1 := Items.cevs_ext it
      have ih2 := Items.cevs_ext b
      have := Ext.scope mods cap (((((ih1.append mods cap (Ext.declare mods cap nIter 0)).append mods cap
        (Ext.define mods cap nIter)).append mods cap (Ext.declare mods cap x i)).append mods cap
        (Ext.define mods cap x)).append mods cap (Ext.scope mods cap ih2))
      simpa [Item.cevs, Item.topDecl] using this
    | .catchD n i cls b => by
      have ih := Items.cevs_ext b
      have := Ext.scope mods cap ((((Ext.use mods cap cls).append mods cap (Ext.declare mods cap n i)).append mods cap
        (Ext.define mods cap n)).append mods cap (Ext.scope mods cap ih))
      simpa [Item.cevs, Item.topDecl] using this
  theorem Items.cevs_ext : ∀ b : Items, Ext mods cap b.cevs b.topDecls
    | .nil => Ext.nil mods cap
    | .cons i r => by
      have := (Item.cevs_ext i).append mods cap (Items.cevs_ext r)
      simpa [Items.cevs, Items.topDecls] using this
end

/-! ### 7. States that differ only in locals named `a` -/

/-- same function, same locals once those NAMED `a` are deleted -/
def FrameSim (a : Name) (f f' : CFrame) : Prop :=
  f.funDepth = f'.funDepth ∧ f.locals.filter (fun l => l.1 != a) = f'.locals.filter (fun l => l.1 != a)

def FramesSim (a : Name) : List CFrame → List CFrame → Prop
  | [], [] => True
  | f :: fs, f' :: fs' => FrameSim a f f' ∧ FramesSim a fs fs'
  | [], _ :: _ => False
  | _ :: _, [] => False

structure Sim (a : Name) (c c' : CState) : Prop where
  frames : FramesSim a c.frames c'.frames
  funDepth : c.funDepth = c'.funDepth
  ok : c.ok = c'.ok

theorem FramesSim.refl (a : Name) : ∀ fs : List CFrame, FramesSim a fs fs
  | [] => trivial
  | _ :: fs => ⟨⟨rfl, rfl⟩, FramesSim.refl a fs⟩

theorem find?_filter_ne (a m : Name) (h : m ≠ a) : ∀ l : List (Name × Id),
    (l.filter (fun l => l.1 != a)).find? (fun l => l.1 = m) = l.find? (fun l => l.1 = m) := by
  intro l
  induction l with
  | nil => rfl
  | cons x l ih =>
    by_cases hx : x.1 = a
    · have hm : ¬ a = m := fun e => h e.symm
      simp [hx, hm, ih]
    · simp only [List.filter_cons, bne_iff_ne, ne_eq, hx, not_false_eq_true, if_true, List.find?_cons, ih]

/-- locals named `a` are invisible to the lookup of any other name -/
theorem findIn_filter (a m : Name) (h : m ≠ a) (l : List (Name × Id)) :
    findIn (l.filter (fun l => l.1 != a)) m = findIn l m := by
  unfold findIn
  rw [← List.filter_reverse, find?_filter_ne a m h]

theorem findIn_sim (a m : Name) (h : m ≠ a) {l l' : List (Name × Id)}
    (hl : l.filter (fun l => l.1 != a) = l'.filter (fun l => l.1 != a)) : findIn l m = findIn l' m := by
  rw [← findIn_filter a m h l, hl, findIn_filter a m h]

theorem resolveLocalF_sim (a m : Name) (h : m ≠ a) : ∀ (fs fs' : List CFrame), FramesSim a fs fs' →
    ∀ d, resolveLocalF fs d m = resolveLocalF fs' d m
  | [], [], _, _ => rfl
  | f :: fs, f' :: fs', ⟨⟨hd, hl⟩, hr⟩, d => by
    simp only [resolveLocalF, hd, findIn_sim a m h hl, resolveLocalF_sim a m h fs fs' hr d]
  | [], _ :: _, hs, _ => hs.elim
  | _ :: _, [], hs, _ => hs.elim

theorem resolveLocal_sim (a m : Name) (h : m ≠ a) {fs fs' : List CFrame} (hs : FramesSim a fs fs') (d : Nat) :
    resolveLocal fs mods d m = resolveLocal fs' mods d m := by
  simp only [resolveLocal, resolveLocalF_sim a m h fs fs' hs d]

theorem resolveCapture_sim (a m : Name) (h : m ≠ a) {fs fs' : List CFrame} (hs : FramesSim a fs fs') :
    ∀ d, resolveCapture fs mods d m = resolveCapture fs' mods d m
  | 0 => rfl
  | d + 1 => by
    simp only [resolveCapture, resolveLocal_sim mods a m h hs d, resolveCapture_sim a m h hs d]

theorem useC_sim (a m : Name) (h : m ≠ a) {fs fs' : List CFrame} (hs : FramesSim a fs fs') (d : Nat) :
    useC fs mods cap d m = useC fs' mods cap d m := by
  simp only [useC, resolveLocal_sim mods a m h hs d, resolveCapture_sim mods a m h hs d]

/-- every event except a read of `a` itself preserves `Sim a` -/
theorem stepC_sim (a : Name) (c c' : CState) (e : Ev) (he : e ≠ .use a) (h : Sim a c c') :
    Sim a (stepC mods cap c e) (stepC mods cap c' e) := by
  obtain ⟨fs, d, ok⟩ := c
  obtain ⟨fs', d', ok'⟩ := c'
  obtain ⟨hf, hd, hok⟩ := h
  simp only at hf hd hok
  subst hd hok
  cases e with
  | hoist n => exact ⟨hf, rfl, rfl⟩
  | define n => exact ⟨hf, rfl, rfl⟩
  | beginScope => exact ⟨⟨⟨rfl, rfl⟩, hf⟩, rfl, rfl⟩
  | beginFun => exact ⟨⟨⟨rfl, rfl⟩, hf⟩, rfl, rfl⟩
  | endScope =>
    match fs, fs', hf with
    | [], [], _ => exact ⟨trivial, rfl, rfl⟩
    | _ :: _, _ :: _, hf => exact ⟨hf.2, rfl, rfl⟩
  | endFun =>
    match fs, fs', hf with
    | [], [], _ => exact ⟨trivial, rfl, rfl⟩
    | f :: fs, f' :: fs', hf =>
      simp only [stepC]
      split
      · exact ⟨hf, rfl, rfl⟩
      · exact ⟨hf.2, rfl, rfl⟩
  | declare n i =>
    match fs, fs', hf with
    | [], [], _ =>
      simp only [stepC]
      split <;> exact ⟨trivial, rfl, rfl⟩
    | f :: fs, f' :: fs', hf =>
      refine ⟨⟨⟨hf.1.1, ?_⟩, hf.2⟩, rfl, rfl⟩
      simp only [List.filter_append, hf.1.2]
  | use n =>
    have hn : n ≠ a := fun e => he (by rw [e])
    simp only [stepC, useC_sim mods cap a n hn hf d]
    split
    · exact ⟨hf, rfl, rfl⟩
    · exact ⟨hf, rfl, rfl⟩

theorem run_sim (a : Name) : ∀ (es : List Ev), (∀ e ∈ es, e ≠ .use a) → ∀ c c' : CState, Sim a c c' →
    Sim a (run mods cap c es) (run mods cap c' es)
  | [], _, _, _, h => h
  | e :: es, hu, c, c', h =>
    run_sim a es (fun e' he' => hu e' (List.mem_cons_of_mem _ he')) _ _
      (stepC_sim mods cap a c c' e (hu e (List.mem_cons_self ..)) h)

/-! ### 8. Commuting a declaration with a segment that does not read it -/

/-- **the swap.**  In a local scope, `declare a i` commutes with any segment that restores the frames and never reads
`a`: the final states are EQUAL (frames, depth and panic flag). -/
theorem swap (a : Name) (i : Id) (J : List Ev) (hJ : Ext mods cap J []) (hu : ∀ e ∈ J, e ≠ .use a)
    (c : CState) (hne : c.frames ≠ []) :
    run mods cap (stepC mods cap c (.declare a i)) J = stepC mods cap (run mods cap c J) (.declare a i) := by
  obtain ⟨fs, d, ok⟩ := c
  cases fs with
  | nil => exact absurd rfl hne
  | cons f fs =>
    have hsim : Sim a (stepC mods cap ⟨f :: fs, d, ok⟩ (.declare a i)) ⟨f :: fs, d, ok⟩ := by
      refine ⟨⟨⟨rfl, ?_⟩, FramesSim.refl a fs⟩, rfl, rfl⟩
      simp [List.filter_append]
    have h3 := run_sim mods cap a J hu _ _ hsim
    obtain ⟨a1, a2⟩ := hJ (stepC mods cap ⟨f :: fs, d, ok⟩ (.declare a i))
    obtain ⟨b1, b2⟩ := hJ ⟨f :: fs, d, ok⟩
    rw [extendHead_nil] at a1 b1
    have hok := h3.ok
    generalize run mods cap (stepC mods cap ⟨f :: fs, d, ok⟩ (.declare a i)) J = c3 at a1 a2 hok ⊢
    generalize run mods cap ⟨f :: fs, d, ok⟩ J = c2 at b1 b2 hok ⊢
    obtain ⟨fs3, d3, ok3⟩ := c3
    obtain ⟨fs2, d2, ok2⟩ := c2
    simp only [stepC] at a1 a2 b1 b2 hok
    subst a1 a2 b1 b2 hok
    rfl

theorem frames_ne_nil_beginScope (c : CState) : (stepC mods cap c .beginScope).frames ≠ [] := by
  simp [stepC]

theorem frames_ne_nil_declare (c : CState) (n : Name) (i : Id) (h : c.frames ≠ []) :
    (stepC mods cap c (.declare n i)).frames ≠ [] := by
  obtain ⟨fs, d, ok⟩ := c
  cases fs with
  | nil => exact absurd rfl h
  | cons f fs => simp [stepC]

end Run

/-! ### 9. The two traversal orders are equivalent for the compiler, inside the envelope -/

mutual
  /-- a name that is not read inside is not read by any compiler event -/
  theorem Item.not_use_of_mentions (a : Name) : ∀ it : Item, it.mentions a = false → ∀ e ∈ it.cevs, e ≠ .use a
    | .use n, h, e, he, heq => by
      subst heq
      simp [Item.cevs, Item.mentions] at h he
      exact h he.symm
    | .letD n i init, h, e, he, heq => by
      subst heq
      simp only [Item.mentions] at h
      have ih := Items.not_use_of_mentions a init h
      simp [Item.cevs] at he
      exact ih _ he rfl
    | .funD n i ps b, h, e, he, heq => by
      subst heq
      simp only [Item.mentions] at h
      have ih := Items.not_use_of_mentions a b h
      simp [Item.cevs] at he
      exact ih _ he rfl
    | .lam ps b, h, e, he, heq => by
      subst heq
      simp only [Item.mentions] at h
      have ih := Items.not_use_of_mentions a b h
      simp [Item.cevs] at he
      exact ih _ he rfl
    | .block b, h, e, he, heq => by
      subst heq
      simp only [Item.mentions] at h
      have ih := Items.not_use_of_mentions a b h
      simp [Item.cevs] at he
      exact ih _ he rfl
    | .forD x i it b, h, e, he, heq => by
      subst heq
      simp only [Item.mentions, Bool.or_eq_false_iff] at h
      have ih1 := Items.not_use_of_mentions a it h.1
      have ih2 := Items.not_use_of_mentions a b h.2
      simp [Item.cevs] at he
      rcases he with he | he
      · exact ih1 _ he rfl
      · exact ih2 _ he rfl
    | .catchD n i cls b, h, e, he, heq => by
      subst heq
      simp only [Item.mentions, Bool.or_eq_false_iff, beq_eq_false_iff_ne, ne_eq] at h
      have ih := Items.not_use_of_mentions a b h.2
      simp [Item.cevs] at he
      rcases he with he | he
      · exact h.1 he.symm
      · exact ih _ he rfl
  theorem Items.not_use_of_mentions (a : Name) : ∀ b : Items, b.mentions a = false → ∀ e ∈ b.cevs, e ≠ .use a
    | .nil, _, e, he, _ => by simp [Items.cevs] at he
    | .cons it r, h, e, he, heq => by
      simp only [Items.mentions, Bool.or_eq_false_iff] at h
      simp only [Items.cevs, List.mem_append] at he
      rcases he with he | he
      · exact Item.not_use_of_mentions a it h.1 e he heq
      · exact Items.not_use_of_mentions a r h.2 e he heq
end

mutual
  /-- inside the envelope, the compiler run over the resolver's order of an item ends in the same state as over its
  own order, from every state and for every oracle -/
  theorem Item.run_revs (mods : List Name) (cap : Id → Bool) : ∀ it : Item, it.sep = true →
      ∀ c : CState, run mods cap c it.revs = run mods cap c it.cevs
    | .use n, _, c => rfl
    | .letD n i init, h, c => by
      simp only [Item.sep] at h
      have ih := Items.run_revs mods cap init h
      simp only [Item.revs, Item.cevs, run_append, run_cons, run_nil, List.cons_append, List.nil_append, ih]
    | .funD n i ps b, h, c => by
      simp only [Item.sep] at h
      have ih := Items.run_revs mods cap b h
      simp only [Item.revs, Item.cevs, run_append, run_cons, run_nil, List.cons_append, List.nil_append, stepC_define,
        run_params, ih]
    | .lam ps b, h, c => by
      simp only [Item.sep] at h
      have ih := Items.run_revs mods cap b h
      simp only [Item.revs, Item.cevs, run_append, run_cons, run_nil, List.cons_append, List.nil_append, stepC_define,
        run_params, ih]
    | .block b, h, c => by
      simp only [Item.sep] at h
      have ih := Items.run_revs mods cap b h
      simp only [Item.revs, Item.cevs, run_append, run_cons, run_nil, List.cons_append, List.nil_append, ih]
    | .forD x i it b, h, c => by
      simp only [Item.sep, Bool.and_eq_true, Bool.not_eq_true'] at h
      obtain ⟨⟨⟨⟨he, hm1⟩, hm2⟩, hs1⟩, hs2⟩ := h
      have ih1 := Items.run_revs mods cap it hs1
      have ih2 := Items.run_revs mods cap b hs2
      have hext : Ext mods cap it.cevs [] := by
        have := Items.cevs_ext mods cap it
        rwa [Items.topDecls_of_exprLike it he] at this
      have sw1 := swap mods cap x i it.cevs hext (Items.not_use_of_mentions x it hm1)
      have sw2 := swap mods cap nIter 0 it.cevs hext (Items.not_use_of_mentions nIter it hm2)
      simp only [Item.revs, Item.cevs, run_append, run_cons, run_nil, List.cons_append, List.nil_append, stepC_define,
        ih1, ih2]
      rw [sw1 _ (frames_ne_nil_declare mods cap _ _ _ (frames_ne_nil_beginScope mods cap c)),
        sw2 _ (frames_ne_nil_beginScope mods cap c)]
    | .catchD n i cls b, h, c => by
      simp only [Item.sep, Bool.and_eq_true, bne_iff_ne, ne_eq] at h
      obtain ⟨hne, hs⟩ := h
      have ih := Items.run_revs mods cap b hs
      have hu : ∀ e ∈ [Ev.use cls], e ≠ .use n := by
        intro e he heq
        simp only [List.mem_singleton] at he
        rw [he] at heq
        exact hne (Ev.use.inj heq)
      have sw := swap mods cap n i [.use cls] (Ext.use mods cap cls) hu _ (frames_ne_nil_beginScope mods cap c)
      simp only [run_cons, run_nil] at sw
      simp only [Item.revs, Item.cevs, run_append, run_cons, run_nil, List.cons_append, List.nil_append, stepC_define,
        ih, sw]
  theorem Items.run_revs (mods : List Name) (cap : Id → Bool) : ∀ b : Items, b.sep = true →
      ∀ c : CState, run mods cap c b.revs = run mods cap c b.cevs
    | .nil, _, _ => rfl
    | .cons it r, h, c => by
      simp only [Items.sep, Bool.and_eq_true] at h
      simp only [Items.revs, Items.cevs, run_append, Item.run_revs mods cap it h.1, Items.run_revs mods cap r h.2]
end

/-- **The traversal orders agree.**  For a program inside the envelope the compiler ends in literally the same state
(frames, depth, panic flag) whether it is fed the resolver's event sequence or its own — for every module table and
every captured-ness oracle. -/
theorem compile_orders_agree (mods : List Name) (cap : Id → Bool) (prog : Items) (hsep : sep prog = true) :
    compile mods cap (resolverEvents prog) = compile mods cap (compilerEvents prog) := by
  show run mods cap {} (hoistOf prog ++ Items.revs prog) = run mods cap {} (Items.cevs prog)
  rw [run_append, run_hoistOf, Items.run_revs mods cap prog hsep]

/-! ### 10. The AST-level contract -/

/-- **AST-level contract, sharp envelope.**  If no `for` iterable reads its own loop variable (nor `$iter`) and no
`catch` class is its own catch variable (`sep`, decidable), then a clean resolver run over the resolver's traversal
implies a panic-free compiler run over the COMPILER's traversal (iterable before the loop variable, class before the
catch variable). -/
theorem resolve_then_compile_ast_sep (isGlobal : Name → Bool) (prog : Items) (hsep : sep prog = true)
    (herr : (resolve isGlobal (resolverEvents prog)).errors = 0)
    (hh : (resolve isGlobal (resolverEvents prog)).unhoisted = 0) :
    (compileAfter isGlobal (resolverEvents prog) (compilerEvents prog)).ok = true := by
  have h := resolve_then_compile_events isGlobal (resolverEvents prog) herr hh
  unfold compileAfter at h ⊢
  simp only at h ⊢
  rw [← compile_orders_agree _ _ prog hsep]
  exact h

/-! ### Witnesses: outside the envelope the contract fails (defects of the real traversal orders) -/

/-- `for x in x {}` at module level, `x` otherwise unknown … resolver: `x` is the (defined) loop variable; compiler:
compiles the iterable before declaring `x` and panics ("Symbol … not found"). -/
theorem witness_for_self :
    let prog := Items.ofList [.forD 10 1 (Items.ofList [.use 10]) .nil]
    let g : Name → Bool := fun _ => false
    (resolve g (resolverEvents prog)).errors = 0 ∧ (resolve g (resolverEvents prog)).unhoisted = 0 ∧
    (compileAfter g (resolverEvents prog) (compilerEvents prog)).ok = false ∧ sep prog = false := by decide

/-- `catch e: e {}`: the resolver declares `e` first, the compiler looks the class up first. -/
theorem witness_catch_self :
    let prog := Items.ofList [.catchD 10 1 10 .nil]
    let g : Name → Bool := fun _ => false
    (resolve g (resolverEvents prog)).errors = 0 ∧ (resolve g (resolverEvents prog)).unhoisted = 0 ∧
    (compileAfter g (resolverEvents prog) (compilerEvents prog)).ok = false ∧ sep prog = false := by decide

/-- the loop variable shadows a local of the ENCLOSING function: the resolver resolves the iterable's `x` to the loop
variable (no capture), the compiler finds the outer local through `resolve_capture` in state `LocalInitialized` and
panics ("Unexpected symbol … with state"). -/
theorem witness_for_shadow :
    let prog := Items.ofList [.funD 20 1 [] (Items.ofList [.letD 10 2 .nil,
      .funD 21 3 [] (Items.ofList [.forD 10 4 (Items.ofList [.use 10]) .nil])])]
    let g : Name → Bool := fun _ => false
    (resolve g (resolverEvents prog)).errors = 0 ∧ (resolve g (resolverEvents prog)).unhoisted = 0 ∧
    (compileAfter g (resolverEvents prog) (compilerEvents prog)).ok = false ∧ sep prog = false := by decide

/-- non-vacuity: a closure capturing an outer local, a `for` over a variable and over a lambda that captures, a nested
`for` inside that lambda, and a `catch` whose class is a global — inside the envelope, resolver clean, compiler ok. -/
theorem example_inside_envelope :
    let prog := Items.ofList [.funD 20 1 [(12, 2)] (Items.ofList [
      .letD 10 3 .nil,
      .letD 13 4 (Items.ofList [.lam [(15, 5)] (Items.ofList [.use 10, .use 15])]),
      .forD 11 6 (Items.ofList [.use 10, .lam [] (Items.ofList [.use 12, .forD 11 7 (Items.ofList [.use 13]) .nil])])
        (Items.ofList [.use 11, .use 10]),
      .block (Items.ofList [.catchD 14 8 50 (Items.ofList [.use 14, .use 50])])])]
    let g : Name → Bool := fun n => n == 50
    sep prog = true ∧
    (resolve g (resolverEvents prog)).errors = 0 ∧ (resolve g (resolverEvents prog)).unhoisted = 0 ∧
    (resolve g (resolverEvents prog)).captured ≠ [] ∧
    (compileAfter g (resolverEvents prog) (compilerEvents prog)).ok = true := by decide

end LaytheVerif.Contract
