/-
Helper lemmas for C14: bit-level facts about `BitVec 64` masks (extensionality + case split on the
bits) and closed facts about the generated constants (`decide`).  Core Lean only.
-/
import LaytheVerif.Model.NanBoxModel
namespace LaytheVerif.NanBox.Bits
open LaytheVerif.Gen.NanBox LaytheVerif.NanBox

/-! ### generic mask algebra -/

theorem or_and_self (p t : BitVec 64) : (p ||| t) &&& t = t := by
  ext i hi; simp only [BitVec.getElem_and, BitVec.getElem_or]; cases p[i] <;> cases t[i] <;> rfl

theorem or_and_not_of_disjoint (p t : BitVec 64) (h : p &&& t = 0#64) : (p ||| t) &&& ~~~t = p := by
  ext i hi
  have hb : (p &&& t)[i] = (0#64)[i] := by rw [h]
  simp only [BitVec.getElem_and, BitVec.getElem_zero] at hb
  simp only [BitVec.getElem_and, BitVec.getElem_or, BitVec.getElem_not]
  revert hb; cases p[i] <;> cases t[i] <;> simp

theorem and_not_and_self (v t : BitVec 64) : (v &&& ~~~t) &&& t = 0#64 := by
  ext i hi
  simp only [BitVec.getElem_and, BitVec.getElem_not, BitVec.getElem_zero]
  cases v[i] <;> cases t[i] <;> rfl

theorem and_not_or_of_sup (v t : BitVec 64) (h : v &&& t = t) : (v &&& ~~~t) ||| t = v := by
  ext i hi
  have hb : (v &&& t)[i] = t[i] := by rw [h]
  simp only [BitVec.getElem_and] at hb
  simp only [BitVec.getElem_and, BitVec.getElem_or, BitVec.getElem_not]
  revert hb; cases v[i] <;> cases t[i] <;> simp

/-- if `q ⊆ t` as masks, a word containing `t` contains `q` -/
theorem and_sub (v t q : BitVec 64) (hq : q &&& t = q) (h : v &&& t = t) : v &&& q = q := by
  ext i hi
  have hb : (v &&& t)[i] = t[i] := by rw [h]
  have hc : (q &&& t)[i] = q[i] := by rw [hq]
  simp only [BitVec.getElem_and] at hb hc ⊢
  revert hb hc; cases v[i] <;> cases t[i] <;> cases q[i] <;> simp

theorem and_or_masks (v a b : BitVec 64) (ha : v &&& a = a) (hb : v &&& b = b) :
    v &&& (a ||| b) = a ||| b := by
  ext i hi
  have h1 : (v &&& a)[i] = a[i] := by rw [ha]
  have h2 : (v &&& b)[i] = b[i] := by rw [hb]
  simp only [BitVec.getElem_and, BitVec.getElem_or] at h1 h2 ⊢
  revert h1 h2; cases v[i] <;> cases a[i] <;> cases b[i] <;> simp

theorem and_le_self (v t : BitVec 64) : v &&& t ≤ v := by
  rw [BitVec.le_def, BitVec.toNat_and]; exact Nat.and_le_left

/-! ### closed facts about the generated constants -/

theorem tag_obj_def : TAG_OBJ = BIT_SIGN ||| QNAN := by decide
theorem qnan_sub_tag_obj : QNAN &&& TAG_OBJ = QNAN := by decide
theorem sign_le_tag_obj : BIT_SIGN ≤ TAG_OBJ := by decide
theorem bs_low : ∀ j : Fin 64, j.val ≠ 63 → j.val ≠ 62 → BIT_SIGN[j.val] = false := by decide
theorem bs63 : BIT_SIGN[63] = true := by decide
theorem bs62 : BIT_SIGN[62] = true := by decide
theorem bs_toNat : BIT_SIGN.toNat = 13835058055282163712 := by decide

/-- `self.0 >= BIT_SIGN` says exactly that both bits of `BIT_SIGN` are set — true because the
generated `BIT_SIGN` is a prefix mask (the two top bits). -/
theorem ge_sign (v : BitVec 64) (h : BIT_SIGN ≤ v) : v &&& BIT_SIGN = BIT_SIGN := by
  rw [BitVec.le_def, bs_toNat] at h
  have hlt := v.isLt
  have h63 : v[63] = true := by
    rw [BitVec.getElem_eq_testBit_toNat, Nat.testBit_eq_decide_div_mod_eq]
    simp only [decide_eq_true_eq]; omega
  have h62 : v[62] = true := by
    rw [BitVec.getElem_eq_testBit_toNat, Nat.testBit_eq_decide_div_mod_eq]
    simp only [decide_eq_true_eq]; omega
  ext i hi
  simp only [BitVec.getElem_and]
  by_cases e1 : i = 63
  · subst e1; simp [h63, bs63]
  · by_cases e2 : i = 62
    · subst e2; simp [h62, bs62]
    · have := bs_low ⟨i, hi⟩ e1 e2
      simp at this; simp [this]

/-! ### the type tests as propositions -/

theorem is_num_iff (v : BitVec 64) : is_num v = true ↔ v &&& QNAN ≠ QNAN := by
  simp [is_num]
theorem is_num_false_iff (v : BitVec 64) : is_num v = false ↔ v &&& QNAN = QNAN := by
  simp [is_num]
theorem is_obj_iff (v : BitVec 64) : is_obj v = true ↔ v &&& TAG_OBJ = TAG_OBJ := by
  simp [is_obj]

theorem obj_not_num (v : BitVec 64) (h : is_obj v = true) : is_num v = false := by
  rw [is_num_false_iff]; rw [is_obj_iff] at h
  exact and_sub v TAG_OBJ QNAN qnan_sub_tag_obj h

theorem obj_ge_sign (v : BitVec 64) (h : is_obj v = true) : BIT_SIGN ≤ v := by
  rw [is_obj_iff] at h
  have h1 : TAG_OBJ ≤ v := by
    have := and_le_self v TAG_OBJ
    rwa [h] at this
  exact BitVec.le_trans sign_le_tag_obj h1

theorem obj_of_not_num_ge (v : BitVec 64) (h1 : is_num v = false) (h2 : BIT_SIGN ≤ v) : is_obj v = true := by
  rw [is_obj_iff, tag_obj_def]
  rw [is_num_false_iff] at h1
  exact and_or_masks v BIT_SIGN QNAN (ge_sign v h2) h1

/-- `kind` answers `Obj` exactly on the patterns `is_obj` accepts — for all 2^64 patterns. -/
theorem kind_obj_iff (v : BitVec 64) : kind v = some Kind.Obj ↔ is_obj v = true := by
  constructor
  · intro h
    unfold kind at h
    split at h
    · simp at h
    · rename_i hn
      split at h
      · rename_i hs
        exact obj_of_not_num_ge v (by simpa using hn) hs
      · repeat' split at h
        all_goals simp at h
  · intro h
    unfold kind
    rw [obj_not_num v h]
    simp [obj_ge_sign v h]

theorem kind_num_iff (v : BitVec 64) : kind v = some Kind.Number ↔ is_num v = true := by
  unfold kind
  constructor
  · intro h
    repeat' split at h
    all_goals simp_all
  · intro h; simp [h]

/-! ### objects -/

theorem from_obj_is_obj (p : BitVec 64) : is_obj (from_obj p) = true := by
  rw [is_obj_iff]; exact or_and_self p TAG_OBJ

theorem to_obj_from_obj (p : BitVec 64) (h : ptrOk p = true) : to_obj (from_obj p) = p := by
  have h' : p &&& TAG_OBJ = 0#64 := by simpa [ptrOk] using h
  exact or_and_not_of_disjoint p TAG_OBJ h'

theorem from_obj_to_obj (v : BitVec 64) (h : is_obj v = true) : from_obj (to_obj v) = v := by
  rw [is_obj_iff] at h
  exact and_not_or_of_sup v TAG_OBJ h

theorem to_obj_ptrOk (v : BitVec 64) : ptrOk (to_obj v) = true := by
  simp only [ptrOk, to_obj, beq_iff_eq]; exact and_not_and_self v TAG_OBJ

/-! ### the four singleton tags (closed) -/

theorem tags_kind : kind VALUE_NIL = some Kind.Nil ∧ kind VALUE_TRUE = some Kind.Bool ∧
    kind VALUE_FALSE = some Kind.Bool ∧ kind VALUE_UNDEFINED = some Kind.Undefined := by decide

theorem tags_not_num : is_num VALUE_NIL = false ∧ is_num VALUE_TRUE = false ∧
    is_num VALUE_FALSE = false ∧ is_num VALUE_UNDEFINED = false := by decide

theorem tags_not_obj : is_obj VALUE_NIL = false ∧ is_obj VALUE_TRUE = false ∧
    is_obj VALUE_FALSE = false ∧ is_obj VALUE_UNDEFINED = false := by decide

theorem tags_distinct : VALUE_NIL ≠ VALUE_TRUE ∧ VALUE_NIL ≠ VALUE_FALSE ∧ VALUE_NIL ≠ VALUE_UNDEFINED ∧
    VALUE_TRUE ≠ VALUE_FALSE ∧ VALUE_TRUE ≠ VALUE_UNDEFINED ∧ VALUE_FALSE ≠ VALUE_UNDEFINED := by decide

/-! ### IEEE predicates -/

theorem abs_low : ∀ j : Fin 64, j.val ≠ 63 → ABS_MASK[j.val] = true := by decide

/-- the two zeros are the only patterns `isZero` accepts -/
theorem isZero_cases (x : BitVec 64) (h : isZero x = true) : x = 0#64 ∨ x = 0x8000000000000000#64 := by
  have h' : x &&& ABS_MASK = 0#64 := by simpa [isZero] using h
  have hl : ∀ i (hi : i < 64), i ≠ 63 → x[i] = false := by
    intro i hi ne
    have hb : (x &&& ABS_MASK)[i] = (0#64)[i] := by rw [h']
    have := abs_low ⟨i, hi⟩ ne
    simp only [BitVec.getElem_and, BitVec.getElem_zero] at hb this
    rw [this] at hb; simpa using hb
  have z63 : ∀ j : Fin 64, (0x8000000000000000#64)[j.val] = decide (j.val = 63) := by decide
  cases hb : x[63]
  · left; ext i hi
    by_cases e : i = 63
    · subst e; simp [hb]
    · simp [hl i hi e]
  · right; ext i hi
    have := z63 ⟨i, hi⟩
    simp only at this
    rw [this]
    by_cases e : i = 63
    · subst e; simp [hb]
    · simp [hl i hi e, e]

theorem f64ToU64_zero (x : BitVec 64) (h : isZero x = true) : f64ToU64 x = 0 := by
  rcases isZero_cases x h with rfl | rfl <;> decide

end LaytheVerif.NanBox.Bits
