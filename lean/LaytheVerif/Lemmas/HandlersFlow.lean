/-
Generic lemma behind C04_handler_balance (and C06's handler clause): an annotation that passes the
executable local-consistency check is an invariant of every path of the flow graph.
(Promoted from notes/proto/Cert.lean.)
-/
import LaytheVerif.Model.Handlers

namespace LaytheVerif.Handlers
namespace Flow
variable {α : Type} [DecidableEq α]

theorem checkCert_parts (F : Flow α) (A : List (Option α)) (h : F.checkCert A = true) :
    A.length = F.size ∧ A[0]? = some (some F.entry) ∧
    ∀ pc a, A[pc]? = some (some a) →
      ∃ l, F.succ pc a = some l ∧ ∀ t ∈ l, A[t.1]? = some (some t.2) := by
  unfold checkCert at h
  simp only [Bool.and_eq_true, beq_iff_eq, List.all_eq_true, List.mem_range] at h
  obtain ⟨⟨h1, h2⟩, h3⟩ := h
  refine ⟨h1, h2, ?_⟩
  intro pc a hA
  have hlt : pc < F.size := by
    have : pc < A.length := by
      rcases Nat.lt_or_ge pc A.length with h | h
      · exact h
      · rw [List.getElem?_eq_none h] at hA; cases hA
    omega
  have := h3 pc hlt
  rw [hA] at this
  simp only at this
  split at this
  · cases this
  · rename_i l hl
    refine ⟨l, hl, ?_⟩
    intro t ht
    have := List.all_eq_true.mp this t ht
    simpa using this

/-- **A locally consistent annotation is an invariant of all paths.** -/
theorem checkCert_sound (F : Flow α) (A : List (Option α)) (h : F.checkCert A = true) :
    ∀ s, F.Reach s → A[s.1]? = some (some s.2) := by
  obtain ⟨_, h0, hstep⟩ := checkCert_parts F A h
  intro s hr
  induction hr with
  | entry => exact h0
  | step _ hs ih =>
    cases hs with
    | mk hsucc hmem =>
      obtain ⟨l, hl, hall⟩ := hstep _ _ ih
      rw [hsucc] at hl
      cases hl
      exact hall _ hmem

/-- hence every reachable state satisfies the machine's contract -/
theorem checkCert_safe (F : Flow α) (A : List (Option α)) (h : F.checkCert A = true) :
    ∀ s, F.Reach s → F.Safe s := by
  intro s hr
  have hA := checkCert_sound F A h s hr
  obtain ⟨hlen, _, hstep⟩ := checkCert_parts F A h
  obtain ⟨l, hl, _⟩ := hstep _ _ hA
  refine ⟨?_, by simp [hl]⟩
  have : s.1 < A.length := by
    rcases Nat.lt_or_ge s.1 A.length with h | h
    · exact h
    · rw [List.getElem?_eq_none h] at hA; cases hA
  omega

end Flow
end LaytheVerif.Handlers
