/- The free semantics satisfies the local laws (so `C12_preserves` applies to it). -/
import LaytheVerif.Model.PeepFree
namespace LaytheVerif.PeepFree
open LaytheVerif.Gen LaytheVerif.Peephole

theorem runLine_drops (k : Nat) (s : FS) :
    runLine step (List.replicate k ((Sym.Drop, 0) : IL)) s = .next (FS.popN k s).2 := by
  induction k generalizing s with
  | zero => simp [runLine, FS.popN]
  | succ k ih => simp [List.replicate_succ, runLine, step, ih, FS.popN]

@[simp] theorem pop_push (s : FS) (t : Term) : (s.push t).pop = (t, s) := rfl

@[simp] theorem get_push (s : FS) (k v : Nat) (t : Term) : (s.push t).get k v = s.get k v := rfl

theorem setGet (k v : Nat) (s : FS) :
    ((s.set k v).pop.2).push (((s.set k v).pop.2).get k v) = s.set k v := by
  cases hs : s.stack <;> simp [FS.set, FS.pop, FS.push, FS.get, hs]

theorem loads_eq_dups (i : Sym) (k v : Nat) (hi : ∀ s, step i s = .next (s.push (s.get k v)))
    (m : Nat) (s : FS) (r : List Term) (h : s.stack = s.get k v :: r) :
    runLine step (List.replicate m ((i, 0) : IL)) s = runLine step (List.replicate m ((Sym.Dup, 0) : IL)) s := by
  induction m generalizing s r with
  | zero => rfl
  | succ m ih =>
    simp only [List.replicate_succ, runLine, hi]
    have hd : step Sym.Dup s = .next (s.push (s.get k v)) := by
      simp [step, FS.pop, FS.push, h]
    rw [hd]
    exact ih (s.push (s.get k v)) (s.get k v :: r) (by rw [get_push]; simp [FS.push, h])

theorem laws : Laws step where
  dropN n s := by rw [runLine_drops]; rfl
  setGetLocal v s := by simp only [runLine, step]; rw [setGet]
  setGetBox v s := by simp only [runLine, step]; rw [setGet]
  setGetCapture v s := by simp only [runLine, step]; rw [setGet]
  setGetModSym v s := by simp only [runLine, step]; rw [setGet]
  getDup i hi m s := by
    cases i <;> simp [isLoad] at hi
    all_goals
      simp only [runLine, step]
      refine loads_eq_dups _ _ _ (fun s => rfl) m _ s.stack ?_
      rw [get_push]; rfl
  invoke0 n s := by simp [runLine, step, FS.popN]
  superInvoke0 n s := by simp [runLine, step, FS.popN]
  argDelim s := rfl
  jump l s s' := by simp [step]
  loop l s s' := by simp [step]
  ret s s' := by simp [step]
  raise s s' := by simp [step]

end LaytheVerif.PeepFree
