/-
`Inv` (the structural invariant between instructions) is preserved by every instruction of the
scheduler model.  Used by `Props/C08.lean`.
-/
import LaytheVerif.Lemmas.SchedInv

namespace LaytheVerif.Sched
open LaytheVerif.ChanQueue

/-- The invariant between instructions: `Good`, and while the VM runs the current fiber is `Running`
(so, with `Good.others`, exactly one fiber is). -/
def Inv (vm : VM) : Prop := Good vm ∧ (vm.outcome = .running → vm.me.state = .running)

theorem next_running (vm : VM) (f : VM → VM) (h : vm.outcome = .running) : vm.next f = f vm := by
  simp [VM.next, h]

theorem next_stopped (vm : VM) (f : VM → VM) (h : vm.outcome ≠ .running) : vm.next f = vm := by
  unfold VM.next; split
  · contradiction
  · rfl

/-- a parked VM (nobody `Running`) followed by the `ContextSwitch` arm -/
theorem parked_next {vm : VM} (g : Good vm) (hn : vm.me.state ≠ .running) : Inv (vm.next contextSwitch) := by
  by_cases h : vm.outcome = .running
  · rw [next_running _ _ h]; exact good_contextSwitch g hn
  · rw [next_stopped _ _ h]; exact ⟨g, fun h' => absurd h' h⟩

theorem wake_me_state (vm : VM) (r : Option Nat) : (wake vm r).me.state = .running ↔ vm.me.state = .running := by
  unfold VM.me; rw [(wake_frame vm r).1]; exact wake_running vm r vm.cur

/-- wake somebody, then park with `block` -/
theorem wake_block_inv {vm : VM} (g : Good vm) (hs : vm.me.state = .running) (r : Option Nat)
    (hr : ∀ w, r = some w → w < vm.fibers.length) :
    Inv ((wake vm r).next fun vm => (block vm).next contextSwitch) := by
  have gw := good_wake g r hr
  have hw := (wake_me_state vm r).2 hs
  by_cases h : (wake vm r).outcome = .running
  · rw [next_running _ _ h]
    have hb := good_block gw hw
    exact parked_next hb.1 hb.2.1
  · rw [next_stopped _ _ h]; exact ⟨gw, fun _ => hw⟩

/-- wake somebody, then park with `sleep` -/
theorem wake_sleep_inv {vm : VM} (g : Good vm) (hs : vm.me.state = .running) (r : Option Nat)
    (hr : ∀ w, r = some w → w < vm.fibers.length) :
    Inv ((wake vm r).next fun vm => (sleep vm).next contextSwitch) := by
  have gw := good_wake g r hr
  have hw := (wake_me_state vm r).2 hs
  by_cases h : (wake vm r).outcome = .running
  · rw [next_running _ _ h]
    have hb := good_sleep gw hw
    exact parked_next hb.1 hb.2.1
  · rw [next_stopped _ _ h]; exact ⟨gw, fun _ => hw⟩

theorem advance_me_state (vm : VM) : (advance vm).me.state = vm.me.state := by
  unfold VM.me; rw [(advance_frame vm).1, advance_state]

theorem addUsed_me_state (vm : VM) (c : Nat) : (addUsed vm c).me.state = vm.me.state := by
  unfold VM.me; rw [(addUsed_frame vm c).1, addUsed_state]

/-- a modification of the current fiber that keeps `state`, `runnable`, `parent` -/
theorem setCur_same {vm : VM} (g : Good vm) (hs : vm.me.state = .running) (f : Fiber)
    (h1 : f.state = vm.me.state) (h2 : f.runnable = vm.me.runnable) (h3 : f.parent = vm.me.parent) :
    Good (vm.setFiber vm.cur f) ∧ (vm.setFiber vm.cur f).me.state = .running := by
  refine ⟨g.setFiber_same _ _ h1 h2 h3, ?_⟩
  show ((vm.setFiber vm.cur f).fiber vm.cur).state = .running
  rw [fiber_setFiber]; simp [g.cur, h1, hs]

theorem Good.stop {vm : VM} (g : Good vm) (o : Outcome) : Good (vm.stop o) :=
  ⟨g.flags, g.parents, g.runq, g.waiters, g.cur, g.others⟩

theorem stop_inv {vm : VM} (g : Good vm) (o : Outcome) (ho : o ≠ .running) : Inv (vm.stop o) :=
  ⟨g.stop o, fun h => absurd h ho⟩

theorem good_setQ {vm : VM} (g : Good vm) (c : Nat) (q : Q) (hq : WaitersP (· < vm.fibers.length) q) :
    Good (vm.setQ c q) ∧ (vm.setQ c q).me = vm.me ∧ (vm.setQ c q).fibers = vm.fibers ∧ (vm.setQ c q).cur = vm.cur :=
  ⟨g.setChan c _ hq, rfl, rfl, rfl⟩

theorem good_accept {vm : VM} (g : Good vm) (hs : vm.me.state = .running) (c v : Nat) (q : Q) (ack : Option Nat)
    (hq : WaitersP (· < vm.fibers.length) q) :
    Good (accept vm c v q ack) ∧ (accept vm c v q ack).me.state = .running ∧
    (accept vm c v q ack).fibers.length = vm.fibers.length := by
  unfold accept
  have g1 := g.setChan c { vm.chan c with q := q, accepted := (vm.chan c).accepted ++ [v],
                                          owners := (vm.chan c).owners ++ [vm.cur] } hq
  have g2 := setCur_same g1 hs { vm.me with acc := vm.me.acc ++ [(c, v)], ack := ack } rfl rfl rfl
  exact ⟨g2.1, g2.2, by simp⟩

theorem good_deliver {vm : VM} (g : Good vm) (hs : vm.me.state = .running) (c : Nat) (q : Q) (r : Option Nat)
    (hq : WaitersP (· < vm.fibers.length) q) :
    Good (deliver vm c q r) ∧ (deliver vm c q r).me.state = .running := by
  unfold deliver
  cases r with
  | none =>
    have g1 := (good_setQ g c q hq).1
    have g2 := setCur_same g1 hs { vm.me with rcv := vm.me.rcv ++ [(c, none)] } rfl rfl rfl
    exact ⟨g2.1.emit _, g2.2⟩
  | some x =>
    have g1 := g.setChan c { vm.chan c with q := q, delivered := (vm.chan c).delivered ++ [x],
                                            owners := (vm.chan c).owners.tail } hq
    have g2 := setCur_same g1 hs { vm.me with rcv := vm.me.rcv ++ [(c, some x)] } rfl rfl rfl
    exact ⟨g2.1.emit _, g2.2⟩

theorem sendOn_inv {vm : VM} (g : Good vm) (hs : vm.me.state = .running) (c v : Nat) : Inv (sendOn vm c v) := by
  have hq := send_P (· < vm.fibers.length) vm.flags (vm.chan c).q vm.cur v (g.waiters _) g.cur
  unfold sendOn
  simp only [chanSend]
  split
  · rename_i q heq
    rw [heq] at hq
    have ga := good_accept g hs c v q none hq.1
    exact ⟨good_advance ga.1, fun _ => by rw [advance_me_state]; exact ga.2.1⟩
  · rename_i q w heq
    rw [heq] at hq
    have ga := good_accept g hs c v q (some c) hq.1
    refine wake_block_inv (good_advance ga.1) (by rw [advance_me_state]; exact ga.2.1) w (fun w' hw' => ?_)
    subst hw'
    rw [(advance_frame _).2.2.2.2.1, ga.2.2]
    exact hq.2 w' (Or.inl rfl)
  · rename_i q w heq
    rw [heq] at hq
    have g1 := good_setQ g c q hq.1
    refine wake_sleep_inv (g1.1.log (.retry vm.cur)) hs w (fun w' hw' => ?_)
    subst hw'
    exact hq.2 w' (Or.inr rfl)
  · exact stop_inv g _ (by simp)
  · exact stop_inv g _ (by simp)

theorem execSend_inv {vm : VM} (g : Good vm) (hs : vm.me.state = .running) (p v : Nat) :
    Inv (execSend vm p v) :=
  sendOn_inv (good_addUsed g _) (by rw [addUsed_me_state]; exact hs) _ _

theorem recvOn_inv {vm : VM} (g : Good vm) (hs : vm.me.state = .running) (c : Nat) : Inv (recvOn vm c) := by
  have hq := recv_P (· < vm.fibers.length) vm.flags (vm.chan c).q vm.cur (g.waiters _) g.cur
  unfold recvOn
  simp only [chanRecv]
  split
  · rename_i q x heq
    rw [heq] at hq
    have gd := good_deliver g hs c q (some x) hq.1
    exact ⟨good_advance gd.1, fun _ => by rw [advance_me_state]; exact gd.2⟩
  · rename_i q heq
    rw [heq] at hq
    have gd := good_deliver g hs c q none hq.1
    exact ⟨good_advance gd.1, fun _ => by rw [advance_me_state]; exact gd.2⟩
  · rename_i q w heq
    rw [heq] at hq
    have g1 := good_setQ g c q hq.1
    refine wake_block_inv (g1.1.log (.retry vm.cur)) hs w (fun w' hw' => ?_)
    subst hw'
    exact hq.2 w' (Or.inl rfl)
  · rename_i q w heq
    rw [heq] at hq
    have g1 := good_setQ g c q hq.1
    refine wake_sleep_inv (g1.1.log (.retry vm.cur)) hs w (fun w' hw' => ?_)
    subst hw'
    exact hq.2 w' (Or.inr rfl)
  · exact stop_inv g _ (by simp)

theorem execRecv_inv {vm : VM} (g : Good vm) (hs : vm.me.state = .running) (p : Nat) :
    Inv (execRecv vm p) :=
  recvOn_inv (good_addUsed g _) (by rw [addUsed_me_state]; exact hs) _

theorem execClose_inv {vm : VM} (g : Good vm) (hs : vm.me.state = .running) (p : Nat) :
    Inv (execClose vm p) := by
  have hq := close_P (· < vm.fibers.length) (vm.chan (vm.arg p)).q (g.waiters _)
  unfold execClose
  split
  · rename_i q heq
    rw [heq] at hq
    exact ⟨good_advance (good_setQ g _ q hq).1, fun _ => by rw [advance_me_state]; exact hs⟩
  · exact stop_inv g _ (by simp)

theorem fiber_append (vm : VM) (nf : Fiber) (rq : List Nat) (j : Nat) :
    ({ vm with fibers := vm.fibers ++ [nf], runq := rq } : VM).fiber j =
      if j = vm.fibers.length then nf else vm.fiber j := by
  unfold VM.fiber
  simp only [List.getElem?_append]
  by_cases h1 : j < vm.fibers.length
  · have : j ≠ vm.fibers.length := by omega
    simp [h1, this]
  · by_cases h2 : j = vm.fibers.length
    · simp [h2]
    · have : vm.fibers.length ≤ j := by omega
      have h3 : j - vm.fibers.length ≠ 0 := by omega
      simp [h1, h2, List.getElem?_eq_none this]
      cases h : j - vm.fibers.length with
      | zero => exact absurd h h3
      | succ k => simp

/-- `op_launch`: the new fiber is `Pending`, runnable, a child of the launcher, last in `fibers` and
last in the run queue -/
theorem good_launch {vm : VM} (g : Good vm) (nf : Fiber) (hst : nf.state = .pending) (hr : nf.runnable = true)
    (hp : nf.parent = some vm.cur) :
    Good { vm with fibers := vm.fibers ++ [nf], runq := vm.runq ++ [vm.fibers.length] } where
  flags j := by
    rw [fiber_append]; split
    · simp [hst, hr]
    · exact g.flags j
  parents j p := by
    rw [fiber_append]
    simp only [List.length_append, List.length_singleton]
    split
    · intro h; rw [hp] at h; cases h; exact Nat.lt_succ_of_lt g.cur
    · intro h; exact Nat.lt_succ_of_lt (g.parents j p h)
  runq w hw := by
    simp only [List.mem_append, List.mem_singleton, List.length_append, List.length_singleton] at hw ⊢
    rcases hw with hw | rfl
    · exact Nat.lt_succ_of_lt (g.runq w hw)
    · exact Nat.lt_succ_self _
  waiters c w hw := by
    simp only [List.length_append, List.length_singleton]
    exact Nat.lt_succ_of_lt (g.waiters c w hw)
  cur := by
    simp only [List.length_append, List.length_singleton]
    exact Nat.lt_succ_of_lt g.cur
  others j hj := by
    rw [fiber_append]; split
    · simp [hst]
    · exact g.others j hj

theorem execLaunch_inv {vm : VM} (g : Good vm) (hs : vm.me.state = .running) (t : Nat) (args : List Nat) :
    Inv (execLaunch vm t args) := by
  unfold execLaunch
  refine ⟨good_advance (good_launch g _ rfl rfl rfl), fun _ => ?_⟩
  rw [advance_me_state]
  show (VM.fiber _ vm.cur).state = .running
  rw [fiber_append]
  have := g.cur
  have hne : vm.cur ≠ vm.fibers.length := by omega
  simp [hne]; exact hs

theorem execReturn_inv {vm : VM} (g : Good vm) (hs : vm.me.state = .running) : Inv (execReturn vm) := by
  unfold execReturn
  split
  · exact stop_inv g _ (by simp)
  · have hc := good_complete g hs
    split
    · rename_i w hw
      have gq := good_queueBlocked hc.1 w (hc.2.2.2.1 w hw)
      refine parked_next gq ?_
      unfold VM.me
      rw [(queueBlocked_frame _ w).1]
      intro h
      exact hc.2.1 ((queueBlocked_running _ w _).1 h)
    · exact parked_next hc.1 hc.2.1

theorem exec_inv {vm : VM} (h : Inv vm) (hr : vm.outcome = .running) : Inv (exec vm) := by
  obtain ⟨g, hs⟩ := h
  have hs := hs hr
  unfold exec
  split
  · exact execReturn_inv g hs
  · exact ⟨good_advance (g.emit _), fun _ => by rw [advance_me_state]; exact hs⟩
  · exact execLaunch_inv g hs _ _
  · exact execClose_inv g hs _
  · exact execSend_inv g hs _ _
  · exact execRecv_inv g hs _

theorem step_inv {vm : VM} (h : Inv vm) : Inv (step vm) := by
  unfold step
  by_cases hr : vm.outcome = .running
  · rw [next_running _ _ hr]; exact exec_inv h hr
  · rw [next_stopped _ _ hr]; exact h

theorem init_inv (net : Net) : Inv (init net) := by
  refine ⟨⟨?_, ?_, ?_, ?_, ?_, ?_⟩, ?_⟩
  · intro i
    cases i with
    | zero => simp [init, VM.fiber]
    | succ k => simp [init, VM.fiber, Fiber.nil]
  · intro i p
    cases i with
    | zero => simp [init, VM.fiber]
    | succ k => simp [init, VM.fiber, Fiber.nil]
  · simp [init]
  · intro c w hw
    simp only [init, VM.chan, List.getElem?_map] at hw
    cases hc : net.caps[c]? with
    | none => simp [hc, Chan.nil, Q.mkSync] at hw
    | some cap => cases cap <;> simp [hc, mkChan, Q.mkSync, Q.mkBuffered] at hw
  · simp [init]
  · intro i hi
    cases i with
    | zero => simp [init] at hi
    | succ k => simp [init, VM.fiber, Fiber.nil]
  · intro _; simp [init, VM.me, VM.fiber]

theorem run_inv (n : Nat) {vm : VM} (h : Inv vm) : Inv (run n vm) := by
  induction n generalizing vm with
  | zero => exact h
  | succ n ih => exact ih (step_inv h)

end LaytheVerif.Sched
