/-
Helper lemmas for C18 about the encoded line table (`Lines.encodeLines`, `Lines.startOf`,
`Lines.getLine`), slot ownership by index, and the exit-status cast.
-/
import LaytheVerif.Model.Lines
import LaytheVerif.Model.Peephole
namespace LaytheVerif.LinesTable
open LaytheVerif.Gen LaytheVerif.Lines LaytheVerif.Peephole

/-- generated tables: every encoder helper pushes as many line entries as code bytes, namely `len()` -/
theorem enc_table (s : Sym) : s.enc.1.lineEntries = s.len ∧ s.enc.1.bytes = s.len := by
  cases s <;> exact ⟨rfl, rfl⟩

theorem emitLines_eq (s : Sym) (l : Nat) : emitLines s l = List.replicate s.len l := by
  simp [emitLines, (enc_table s).1]

theorem encodeLines_length (code : List Sym) (lines : List Nat) :
    (encodeLines code lines).length = encodeLen code lines := by
  fun_induction encodeLines code lines with
  | case1 i is l ls ih =>
    simp [encodeLen, emitLines, ih, (enc_table i).1, (enc_table i).2]
  | case2 c l h =>
    cases c <;> cases l <;> simp_all [encodeLen]
    exact absurd rfl (h _ _ _ _ rfl rfl rfl)

theorem encodeLen_eq_sum (code : List Sym) (lines : List Nat) (h : code.length = lines.length) :
    encodeLen code lines = (code.map Sym.len).sum := by
  induction code generalizing lines with
  | nil => cases lines <;> simp_all [encodeLen]
  | cons i is ih =>
    cases lines with
    | nil => simp at h
    | cons l ls =>
      simp only [List.length_cons, Nat.add_right_cancel_iff] at h
      simp [encodeLen, ih ls h, (enc_table i).2]

theorem startOf_zero (code : List Sym) : startOf code 0 = 0 := by simp [startOf]

theorem startOf_succ (i : Sym) (is : List Sym) (k : Nat) :
    startOf (i :: is) (k + 1) = i.len + startOf is k := by simp [startOf]

/-- Entry `off` of the encoded line table is the line of the instruction whose bytes contain `off`. -/
theorem encodeLines_getElem? (code : List Sym) (lines : List Nat) (h : code.length = lines.length)
    (k : Nat) (hk : k < code.length) (off : Nat)
    (h1 : startOf code k ≤ off) (h2 : off < startOf code k + (code[k]).len) :
    (encodeLines code lines)[off]? = lines[k]? := by
  induction code generalizing lines k off with
  | nil => simp at hk
  | cons i is ih =>
    cases lines with
    | nil => simp at h
    | cons l ls =>
      simp only [List.length_cons, Nat.add_right_cancel_iff] at h
      cases k with
      | zero =>
        simp only [startOf_zero, List.getElem_cons_zero, Nat.zero_add] at h1 h2
        simp [encodeLines, emitLines_eq, List.getElem?_append_left, h2]
      | succ k =>
        simp only [startOf_succ, List.getElem_cons_succ] at h1 h2
        have hk' : k < is.length := by simpa using hk
        have := ih ls h k hk' (off - i.len) (by omega) (by omega)
        simp only [encodeLines, emitLines_eq, List.getElem?_cons_succ]
        rw [List.getElem?_append_right (by simp; omega)]
        simpa using this

theorem startOf_step (code : List Sym) (k : Nat) (hk : k < code.length) :
    startOf code (k + 1) = startOf code k + (code[k]).len := by
  induction code generalizing k with
  | nil => simp at hk
  | cons i is ih =>
    cases k with
    | zero => simp [startOf]
    | succ k =>
      have := ih k (by simpa using hk)
      simp only [startOf_succ, List.getElem_cons_succ, this]
      omega

/-- In a `slotsOwned` stream a cache slot carries the line of the (owner) instruction before it. -/
theorem slotsOwned_getElem (p : List IL) (hs : slotsOwned p = true) (k : Nat) (hk : k + 1 < p.length)
    (hslot : isSlot (p[k + 1]).1 = true) :
    isOwner (p[k]).1 = true ∧ (p[k]).2 = (p[k + 1]).2 := by
  induction p generalizing k with
  | nil => simp at hk
  | cons a r ih =>
    cases r with
    | nil => simp at hk
    | cons b r' =>
      simp only [slotsOwned, Bool.and_eq_true, Bool.or_eq_true, Bool.not_eq_true', beq_iff_eq] at hs
      cases k with
      | zero =>
        simp only [Nat.zero_add, List.getElem_cons_succ, List.getElem_cons_zero] at hslot ⊢
        rcases hs.1 with h | h
        · rw [h] at hslot; cases hslot
        · exact h
      | succ k =>
        have := ih hs.2 k (by simpa using hk) (by simpa using hslot)
        simpa using this

theorem castUnsigned_id (n : Int) (h0 : 0 ≤ n) (h1 : n ≤ 65535) : (castUnsigned exitCastBits n : Int) = n := by
  have : (2 ^ exitCastBits - 1 : Nat) = 65535 := by decide
  unfold castUnsigned
  rw [this, if_neg (by omega), if_neg (by omega)]
  omega

theorem runStatus_exit_fst (m : Nat) : (runStatus (.Exit m)).map Prod.fst = some (m : Int) := by
  cases m <;> simp [runStatus]

end LaytheVerif.LinesTable
