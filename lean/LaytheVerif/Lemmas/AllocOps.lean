/- The mutator's operations preserve "reachable ⊆ owned". -/
import LaytheVerif.Lemmas.AllocInv
namespace LaytheVerif.Alloc

/-- allocation without the trigger test -/
def A.allocNoGc (a : A) (o : Obj) : A :=
  { a with objs := a.objs ++ [o], bytes := a.bytes + o.size,
           nursery := if o.plain then a.nursery else a.nursery ++ [a.objs.length],
           plain := if o.plain then a.plain ++ [a.objs.length] else a.plain }

theorem alloc_eq (a : A) (o : Obj) (R : List Nat) (hit : Bool) :
    (a.alloc o R hit).1 =
      (let a1 := a.allocNoGc o
       let a2 := if hit then a1.collectWith R [a.objs.length] none else a1
       if a2.bytes > a2.nextGc then a2.collectWith R [a.objs.length] none else a2) ∧
    (a.alloc o R hit).2 = a.objs.length := by
  constructor <;> rfl

theorem allocNoGc_edges_old (a : A) (o : Obj) (x : Nat) (hx : x < a.objs.length) :
    (a.allocNoGc o).edges x = a.edges x := by
  simp [A.edges, A.allocNoGc, List.getElem?_append_left hx]

theorem allocNoGc_edges_new (a : A) (o : Obj) : (a.allocNoGc o).edges a.objs.length = o.edges := by
  simp [A.edges, A.allocNoGc]

theorem mem_owned_allocNoGc (a : A) (o : Obj) (x : Nat) :
    x ∈ (a.allocNoGc o).owned ↔ x ∈ a.owned ∨ x = a.objs.length := by
  simp only [A.owned, A.allocNoGc, List.mem_append]
  cases o.plain
  · simp only [Bool.false_eq_true, ↓reduceIte, List.mem_append, List.mem_singleton]
    constructor
    · rintro (((h | h) | h) | h) <;> simp [h]
    · rintro (((h | h) | h) | h) <;> simp [h]
  · simp only [↓reduceIte, List.mem_append, List.mem_singleton]
    constructor
    · rintro ((h | h) | (h | h)) <;> simp [h]
    · rintro (((h | h) | h) | h) <;> simp [h]

/-- A fresh object is unreachable until something references it, and what was reachable stays so. -/
theorem allocNoGc_reach (a : A) (o : Obj) (R : List Nat) (hi : Inv a R) (x : Nat)
    (hx : Reach (a.allocNoGc o) (R ++ (a.allocNoGc o).temp) x) : Reach a (R ++ a.temp) x := by
  obtain ⟨h1, h2⟩ := hi
  have ht : (a.allocNoGc o).temp = a.temp := rfl
  rw [ht] at hx
  induction hx with
  | root hr => exact Reach.root hr
  | @step z y _ hy ih =>
    have hz : z < a.objs.length := h2 z (h1 z ih)
    rw [allocNoGc_edges_old a o z hz] at hy
    exact Reach.step ih hy

theorem allocNoGc_inv (a : A) (o : Obj) (R : List Nat) (hi : Inv a R) : Inv (a.allocNoGc o) R := by
  constructor
  · intro x hx
    have := allocNoGc_reach a o R hi x hx
    exact (mem_owned_allocNoGc a o x).mpr (Or.inl (hi.1 x this))
  · intro x hx
    rcases (mem_owned_allocNoGc a o x).mp hx with h | h
    · have := hi.2 x h; simp [A.allocNoGc]; omega
    · simp [A.allocNoGc, h]

/-- **alloc_inv.** Allocation, with whatever collections the schedule and the byte threshold trigger,
keeps everything reachable owned. -/
theorem alloc_inv (a : A) (o : Obj) (R : List Nat) (hit : Bool) (hi : Inv a R) :
    Inv (a.alloc o R hit).1 R := by
  rw [(alloc_eq a o R hit).1]
  have h1 := allocNoGc_inv a o R hi
  simp only
  split
  · split
    · exact collectWith_inv _ R _ none (collectWith_inv _ R _ none h1)
    · exact collectWith_inv _ R _ none h1
  · split
    · exact collectWith_inv _ R _ none h1
    · exact h1

/-- The object just allocated survives the collections its own allocation triggers. -/
theorem alloc_new_owned (a : A) (o : Obj) (R : List Nat) (hit : Bool) :
    a.objs.length ∈ (a.alloc o R hit).1.owned := by
  have keep : ∀ (b : A), a.objs.length ∈ b.owned → a.objs.length ∈ (b.collectWith R [a.objs.length] none).owned := by
    intro b hb
    let b' : A := { b with temp := b.temp ++ [a.objs.length] }
    have hr : Reach b' (R ++ b'.temp) a.objs.length := Reach.root (by simp [b'])
    exact (collect_preserves_reachable b' R none _ hr hb).1
  rw [(alloc_eq a o R hit).1]
  have h0 : a.objs.length ∈ (a.allocNoGc o).owned := (mem_owned_allocNoGc a o _).mpr (Or.inr rfl)
  simp only
  split
  · split
    · exact keep _ (keep _ h0)
    · exact keep _ h0
  · split
    · exact keep _ h0
    · exact h0

/-! ### mutation and root changes -/

theorem setEdges_edges (a : A) (x : Nat) (es : List Nat) (z : Nat) :
    (a.setEdges x es).edges z = if z = x ∧ x < a.objs.length then es else a.edges z := by
  unfold A.setEdges A.edges
  simp only [List.getElem?_modify]
  by_cases hz : z = x
  · subst hz
    by_cases hl : z < a.objs.length
    · simp [hl, List.getElem?_eq_getElem hl]
    · simp [hl, List.getElem?_eq_none (Nat.le_of_not_lt hl)]
  · have : ¬ (x = z) := fun e => hz e.symm
    simp [hz, this]

/-- Storing references to reachable objects into a reachable object. -/
theorem setEdges_inv (a : A) (R : List Nat) (x : Nat) (es : List Nat) (hi : Inv a R)
    (hes : ∀ e ∈ es, Reach a (R ++ a.temp) e) : Inv (a.setEdges x es) R := by
  constructor
  · intro y hy
    have ht : (a.setEdges x es).temp = a.temp := rfl
    rw [ht] at hy
    have : Reach a (R ++ a.temp) y := by
      induction hy with
      | root hr => exact Reach.root hr
      | @step z y _ hz ih =>
        rw [setEdges_edges] at hz
        split at hz
        · exact hes _ hz
        · exact Reach.step ih hz
    exact hi.1 y this
  · intro y hy
    have : y ∈ a.owned := hy
    simpa [A.setEdges] using hi.2 y this

/-- Changing the context's roots to objects that were reachable. -/
theorem setRoots_inv (a : A) (R R' : List Nat) (hi : Inv a R) (h : ∀ r ∈ R', Reach a (R ++ a.temp) r) :
    Inv a R' := by
  refine ⟨fun x hx => hi.1 x ?_, hi.2⟩
  refine reach_of_reachable_roots (R := R ++ a.temp) (R' := R' ++ a.temp) ?_ hx
  intro r hr
  rcases List.mem_append.mp hr with h1 | h1
  · exact h r h1
  · exact Reach.root (by simp [h1])

/-- `push_root` of a reachable object / `pop_roots`. -/
theorem setTemp_inv (a : A) (R : List Nat) (t : List Nat) (hi : Inv a R)
    (h : ∀ r ∈ t, Reach a (R ++ a.temp) r) : Inv { a with temp := t } R := by
  constructor
  · intro x hx
    have : Reach a (R ++ a.temp) x := by
      have hx2 : Reach a (R ++ t) x :=
        reach_of_edges_eq (a := a) (b := { a with temp := t }) (fun _ => rfl) hx
      refine reach_of_reachable_roots (R := R ++ a.temp) (R' := R ++ t) ?_ hx2
      intro r hr
      rcases List.mem_append.mp hr with h1 | h1
      · exact Reach.root (by simp [h1])
      · exact h r h1
    exact hi.1 x this
  · exact hi.2

end LaytheVerif.Alloc
