/-
The store-level reading of a class declaration: the instruction sequence `Compiler::class` emits
(`Class`, `Inherit`, `Method init`, `Field*`, `Method*`, `StaticMethod*`) executed by the VM ops of
Model/Classes.lean §3 produces, at the new class' address, exactly the pure `buildCls` the property
theorems talk about (plus its metaclass link), and leaves the superclass untouched.
This connects the part of the model the `classes` stream drives (store ops) to the part the theorems
are stated on.
-/
import LaytheVerif.Lemmas.ClassBuild
namespace LaytheVerif.Classes

/-- run the emitted body of one class declaration on the store -/
def Store.declareClass (s : Store) (name : String) (sup : Nat) (b : ClassBody) : Option (Store × Nat) :=
  let c := (s.opClass name).2
  match (s.opClass name).1.opInherit c sup with
  | none => none
  | some s1 =>
    match (match b.init with | some i => s1.opMethod c "init" i | none => some s1) with
    | none => none
    | some s2 =>
      match (compileInitFields b.initFields).foldlM (fun s f => s.opField c f) s2 with
      | none => none
      | some s3 =>
        match b.methods.foldlM (fun s p => s.opMethod c p.1 p.2) s3 with
        | none => none
        | some s4 =>
          match b.statics.foldlM (fun s p => s.opStaticMethod c p.1 p.2) s4 with
          | none => none
          | some s5 => some (s5, c)

namespace Store

theorem get?_set_eq (s : Store) (i : Nat) (c : Cls) (h : i < s.classes.length) : (s.set i c).get? i = some c := by
  simp [Store.set, Store.get?, h]

theorem get?_set_ne (s : Store) (i j : Nat) (c : Cls) (h : j ≠ i) : (s.set i c).get? j = s.get? j := by
  simp [Store.set, Store.get?, List.getElem?_set_ne (Ne.symm h)]

theorem get?_lt (s : Store) (i : Nat) (c : Cls) (h : s.get? i = some c) : i < s.classes.length := by
  unfold Store.get? at h
  exact (List.getElem?_eq_some_iff.mp h).1

theorem set_length (s : Store) (i : Nat) (c : Cls) : (s.set i c).classes.length = s.classes.length := by
  simp [Store.set]

theorem opField_spec (s s' : Store) (c : Nat) (f : String) (cc : Cls) (hc : s.get? c = some cc)
    (h : s.opField c f = some s') :
    s'.get? c = some (cc.addField f) ∧ (∀ j, j ≠ c → s'.get? j = s.get? j) ∧ s'.classes.length = s.classes.length := by
  simp only [opField, hc] at h
  cases h
  exact ⟨get?_set_eq _ _ _ (get?_lt s c cc hc), fun j hj => get?_set_ne _ _ _ _ hj, set_length _ _ _⟩

theorem opMethod_spec (s s' : Store) (c : Nat) (n : String) (m : Nat) (cc : Cls) (hc : s.get? c = some cc)
    (h : s.opMethod c n m = some s') :
    s'.get? c = some (cc.addMethod n m) ∧ (∀ j, j ≠ c → s'.get? j = s.get? j) ∧ s'.classes.length = s.classes.length := by
  simp only [opMethod, hc] at h
  cases h
  exact ⟨get?_set_eq _ _ _ (get?_lt s c cc hc), fun j hj => get?_set_ne _ _ _ _ hj, set_length _ _ _⟩

theorem foldlM_opField_spec (fs : List String) (s s' : Store) (c : Nat) (cc : Cls) (hc : s.get? c = some cc)
    (h : fs.foldlM (fun s f => s.opField c f) s = some s') :
    s'.get? c = some (fs.foldl Cls.addField cc) ∧ (∀ j, j ≠ c → s'.get? j = s.get? j) := by
  induction fs generalizing s cc with
  | nil => simp at h; subst h; exact ⟨hc, fun _ _ => rfl⟩
  | cons f fs ih =>
    simp only [List.foldlM_cons] at h
    cases h1 : s.opField c f with
    | none => simp [h1] at h
    | some s1 =>
      simp only [h1, Option.bind_eq_bind, Option.bind_some] at h
      obtain ⟨a, b, _⟩ := opField_spec s s1 c f cc hc h1
      obtain ⟨a2, b2⟩ := ih s1 (cc.addField f) a h
      exact ⟨a2, fun j hj => by rw [b2 j hj, b j hj]⟩

theorem foldlM_opMethod_spec (ms : List (String × Nat)) (s s' : Store) (c : Nat) (cc : Cls) (hc : s.get? c = some cc)
    (h : ms.foldlM (fun s p => s.opMethod c p.1 p.2) s = some s') :
    s'.get? c = some (ms.foldl (fun c p => c.addMethod p.1 p.2) cc) ∧ (∀ j, j ≠ c → s'.get? j = s.get? j) := by
  induction ms generalizing s cc with
  | nil => simp at h; subst h; exact ⟨hc, fun _ _ => rfl⟩
  | cons p ms ih =>
    simp only [List.foldlM_cons] at h
    cases h1 : s.opMethod c p.1 p.2 with
    | none => simp [h1] at h
    | some s1 =>
      simp only [h1, Option.bind_eq_bind, Option.bind_some] at h
      obtain ⟨a, b, _⟩ := opMethod_spec s s1 c p.1 p.2 cc hc h1
      obtain ⟨a2, b2⟩ := ih s1 (cc.addMethod p.1 p.2) a h
      exact ⟨a2, fun j hj => by rw [b2 j hj, b j hj]⟩

/-- `StaticMethod*` only touches the metaclass -/
theorem foldlM_opStatic_spec (ss : List (String × Nat)) (s s' : Store) (c mc : Nat) (cc : Cls)
    (hc : s.get? c = some cc) (hmeta : cc.metaClass = some mc) (hne : mc ≠ c)
    (h : ss.foldlM (fun s p => s.opStaticMethod c p.1 p.2) s = some s') :
    s'.get? c = some cc ∧ (∀ j, j ≠ mc → s'.get? j = s.get? j) := by
  induction ss generalizing s with
  | nil => simp at h; subst h; exact ⟨hc, fun _ _ => rfl⟩
  | cons p ss ih =>
    simp only [List.foldlM_cons] at h
    cases h1 : s.opStaticMethod c p.1 p.2 with
    | none => simp [h1] at h
    | some s1 =>
      simp only [h1, Option.bind_eq_bind, Option.bind_some] at h
      have h1' := h1
      simp only [opStaticMethod, hc, hmeta] at h1'
      cases hm : s.get? mc with
      | none => simp [opMethod, hm] at h1'
      | some mcc =>
        obtain ⟨_, b, _⟩ := opMethod_spec s s1 mc p.1 p.2 mcc hm h1'
        have hc1 : s1.get? c = some cc := by rw [b c (Ne.symm hne)]; exact hc
        obtain ⟨a2, b2⟩ := ih s1 hc1 h
        exact ⟨a2, fun j hj => by rw [b2 j hj, b j hj]⟩

end Store

/-- `op_inherit` of a just-created class (address = old length) from an existing class -/
theorem opInherit_fresh (s s1 : Store) (name : String) (sup : Nat) (supc : Cls) (hsup : s.get? sup = some supc)
    (h1 : Store.opInherit { classes := s.classes ++ [Cls.bare name] } s.classes.length sup = some s1) :
    s1.get? s.classes.length =
      some { (Cls.bare name).inheritFrom sup supc with metaClass := some (s.classes.length + 1) } ∧
    s1.get? sup = some supc := by
  have hsuplt := Store.get?_lt s sup supc hsup
  have hget_c : Store.get? { classes := s.classes ++ [Cls.bare name] } s.classes.length = some (Cls.bare name) := by
    simp [Store.get?]
  have hget_sup : Store.get? { classes := s.classes ++ [Cls.bare name] } sup = some supc := by
    simp only [Store.get?] at hsup ⊢
    rw [List.getElem?_append_left hsuplt]; exact hsup
  have hne : sup ≠ s.classes.length := Nat.ne_of_lt hsuplt
  simp only [Store.opInherit, Store.inherit, hget_c, hget_sup] at h1
  generalize hmid : Store.set { classes := s.classes ++ [Cls.bare name] } s.classes.length
    ((Cls.bare name).inheritFrom sup supc) = mid at h1
  have hmid_c : mid.get? s.classes.length = some ((Cls.bare name).inheritFrom sup supc) := by
    rw [← hmid]; exact Store.get?_set_eq _ _ _ (by simp)
  have hmid_sup : mid.get? sup = some supc := by
    rw [← hmid, Store.get?_set_ne _ _ _ _ hne]; exact hget_sup
  have hmid_len : mid.classes.length = s.classes.length + 1 := by
    rw [← hmid]; simp [Store.set]
  generalize hcc : (Cls.bare name).inheritFrom sup supc = cc at *
  have hsc : cc.superClass = some sup := by rw [← hcc]; rfl
  have hmc : cc.metaClass = none := by rw [← hcc]; rfl
  unfold Store.metaFromSuper at h1
  rw [hmid_c] at h1
  simp only at h1
  rw [hsc] at h1
  simp only at h1
  rw [hmid_sup] at h1
  simp only at h1
  repeat' split at h1
  all_goals (first | (cases h1; done) | skip)
  all_goals
    rw [hmc] at *
  all_goals (first | (cases h1; done) | skip)
  all_goals
    simp only [Option.some.injEq] at h1
    subst h1
    refine ⟨?_, ?_⟩
    · rw [Store.get?_set_eq _ _ _ (by simp [Store.alloc, hmid_len]; omega)]
      simp [Store.alloc, hmid_len, hsc]
    · rw [Store.get?_set_ne _ _ _ _ hne]
      simp only [Store.get?, Store.alloc]
      rw [List.getElem?_append_left (by rw [hmid_len]; omega)]
      exact hmid_sup

theorem addField_with_meta (c : Cls) (m : Option Nat) (f : String) :
    Cls.addField { c with metaClass := m } f = { c.addField f with metaClass := m } := by
  unfold Cls.addField
  simp only
  split <;> rfl

theorem foldl_addField_with_meta (fs : List String) (c : Cls) (m : Option Nat) :
    fs.foldl Cls.addField { c with metaClass := m } = { fs.foldl Cls.addField c with metaClass := m } := by
  induction fs generalizing c with
  | nil => rfl
  | cons f fs ih => simp only [List.foldl]; rw [addField_with_meta, ih]

theorem foldl_addMethod_with_meta (ms : List (String × Nat)) (c : Cls) (m : Option Nat) :
    ms.foldl (fun c p => c.addMethod p.1 p.2) { c with metaClass := m } =
      { ms.foldl (fun c p => c.addMethod p.1 p.2) c with metaClass := m } := by
  induction ms generalizing c with
  | nil => rfl
  | cons p ms ih =>
    simp only [List.foldl]
    have : Cls.addMethod { c with metaClass := m } p.1 p.2 = { c.addMethod p.1 p.2 with metaClass := m } := rfl
    rw [this, ih]

/-- **declareClass_eq_buildCls.**  If the emitted body of `class name : sup { … }` runs to completion
on a store in which `sup` is a (well-formed) class, the new class object is `buildCls name sup supc b`
with a fresh metaclass attached, and the superclass object is unchanged (inheritance copies, it does
not link). -/
theorem declareClass_eq_buildCls (s s' : Store) (name : String) (sup c : Nat) (supc : Cls) (b : ClassBody)
    (hsup : s.get? sup = some supc) (h : s.declareClass name sup b = some (s', c)) :
    c = s.classes.length ∧
    s'.get? c = some { buildCls name sup supc b with metaClass := some (c + 1) } ∧
    s'.get? sup = some supc := by
  unfold Store.declareClass at h
  have hsuplt := Store.get?_lt s sup supc hsup
  -- Class
  have hc0 : (s.opClass name).2 = s.classes.length := rfl
  have hs0 : (s.opClass name).1 = { classes := s.classes ++ [Cls.bare name] } := rfl
  rw [hc0, hs0] at h
  -- Inherit
  cases h1 : Store.opInherit { classes := s.classes ++ [Cls.bare name] } s.classes.length sup with
  | none => simp [h1] at h
  | some s1 =>
    simp only [h1] at h
    have hne : sup ≠ s.classes.length := Nat.ne_of_lt hsuplt
    have hs1 := opInherit_fresh s s1 name sup supc hsup h1
    obtain ⟨hs1c, hs1sup⟩ := hs1
    -- Method init
    generalize hc1 : ({ (Cls.bare name).inheritFrom sup supc with metaClass := some (s.classes.length + 1) } : Cls) = c1 at hs1c
    cases h2 : (match b.init with | some i => s1.opMethod s.classes.length "init" i | none => some s1) with
    | none => simp [h2] at h
    | some s2 =>
      simp only [h2] at h
      have hs2 : s2.get? s.classes.length = some (match b.init with | some i => c1.addMethod "init" i | none => c1) ∧
                 s2.get? sup = some supc := by
        cases hb : b.init with
        | none => simp only [hb] at h2; cases h2; exact ⟨hs1c, hs1sup⟩
        | some i =>
          simp only [hb] at h2
          obtain ⟨a, bb, _⟩ := Store.opMethod_spec s1 s2 _ "init" i c1 hs1c h2
          exact ⟨a, by rw [bb sup hne]; exact hs1sup⟩
      obtain ⟨hs2c, hs2sup⟩ := hs2
      -- Field*
      cases h3 : (compileInitFields b.initFields).foldlM (fun st f => st.opField s.classes.length f) s2 with
      | none => simp [h3] at h
      | some s3 =>
        simp only [h3] at h
        obtain ⟨hs3c, hs3o⟩ := Store.foldlM_opField_spec _ s2 s3 _ _ hs2c h3
        -- Method*
        cases h4 : b.methods.foldlM (fun st p => st.opMethod s.classes.length p.1 p.2) s3 with
        | none => simp [h4] at h
        | some s4 =>
          simp only [h4] at h
          obtain ⟨hs4c, hs4o⟩ := Store.foldlM_opMethod_spec _ s3 s4 _ _ hs3c h4
          -- StaticMethod*
          cases h5 : b.statics.foldlM (fun st p => st.opStaticMethod s.classes.length p.1 p.2) s4 with
          | none => simp [h5] at h
          | some s5 =>
            simp only [h5, Option.some.injEq, Prod.mk.injEq] at h
            obtain ⟨rfl, rfl⟩ := h
            -- the class as it stands before the statics
            have hfinal : (b.methods.foldl (fun c p => c.addMethod p.1 p.2)
                ((compileInitFields b.initFields).foldl Cls.addField
                  (match b.init with | some i => c1.addMethod "init" i | none => c1))) =
                { buildCls name sup supc b with metaClass := some (s.classes.length + 1) } := by
              subst hc1
              unfold buildCls
              cases b.init with
              | none => simp only; rw [foldl_addField_with_meta, foldl_addMethod_with_meta]
              | some i =>
                simp only
                have : Cls.addMethod { (Cls.bare name).inheritFrom sup supc with metaClass := some (s.classes.length + 1) } "init" i =
                    { ((Cls.bare name).inheritFrom sup supc).addMethod "init" i with metaClass := some (s.classes.length + 1) } := rfl
                rw [this, foldl_addField_with_meta, foldl_addMethod_with_meta]
            rw [hfinal] at hs4c
            have hmeta : ({ buildCls name sup supc b with metaClass := some (s.classes.length + 1) } : Cls).metaClass =
                some (s.classes.length + 1) := rfl
            obtain ⟨hs5c, hs5o⟩ := Store.foldlM_opStatic_spec _ s4 s5 _ (s.classes.length + 1) _ hs4c hmeta (by omega) h5
            refine ⟨rfl, hs5c, ?_⟩
            rw [hs5o sup (by omega), hs4o sup hne, hs3o sup hne]
            exact hs2sup

/-! ### the frame of a declaration: every class that existed before is left as it was

(what lets one `super` site be reasoned about across several evaluations of the class declaration it sits
in — `C03.C03_super_site_any_parents` — : a later declaration does not touch an earlier class) -/

/-- `op_inherit` of a just-created class writes at the new address and above only -/
theorem opInherit_fresh_frame (s s1 : Store) (name : String) (sup : Nat) (supc : Cls) (hsup : s.get? sup = some supc)
    (h1 : Store.opInherit { classes := s.classes ++ [Cls.bare name] } s.classes.length sup = some s1)
    (j : Nat) (hj : j < s.classes.length) : s1.get? j = s.get? j := by
  have hsuplt := Store.get?_lt s sup supc hsup
  have hget_c : Store.get? { classes := s.classes ++ [Cls.bare name] } s.classes.length = some (Cls.bare name) := by
    simp [Store.get?]
  have hget_sup : Store.get? { classes := s.classes ++ [Cls.bare name] } sup = some supc := by
    simp only [Store.get?] at hsup ⊢
    rw [List.getElem?_append_left hsuplt]; exact hsup
  have hget_j : Store.get? { classes := s.classes ++ [Cls.bare name] } j = s.get? j := by
    simp only [Store.get?]
    rw [List.getElem?_append_left hj]
  have hne : sup ≠ s.classes.length := Nat.ne_of_lt hsuplt
  have hnej : j ≠ s.classes.length := Nat.ne_of_lt hj
  simp only [Store.opInherit, Store.inherit, hget_c, hget_sup] at h1
  generalize hmid : Store.set { classes := s.classes ++ [Cls.bare name] } s.classes.length
    ((Cls.bare name).inheritFrom sup supc) = mid at h1
  have hmid_c : mid.get? s.classes.length = some ((Cls.bare name).inheritFrom sup supc) := by
    rw [← hmid]; exact Store.get?_set_eq _ _ _ (by simp)
  have hmid_sup : mid.get? sup = some supc := by
    rw [← hmid, Store.get?_set_ne _ _ _ _ hne]; exact hget_sup
  have hmid_j : mid.get? j = s.get? j := by
    rw [← hmid, Store.get?_set_ne _ _ _ _ hnej]; exact hget_j
  have hmid_len : mid.classes.length = s.classes.length + 1 := by
    rw [← hmid]; simp [Store.set]
  generalize hcc : (Cls.bare name).inheritFrom sup supc = cc at *
  have hsc : cc.superClass = some sup := by rw [← hcc]; rfl
  have hmc : cc.metaClass = none := by rw [← hcc]; rfl
  unfold Store.metaFromSuper at h1
  rw [hmid_c] at h1
  simp only at h1
  rw [hsc] at h1
  simp only at h1
  rw [hmid_sup] at h1
  simp only at h1
  repeat' split at h1
  all_goals (first | (cases h1; done) | skip)
  all_goals
    rw [hmc] at *
  all_goals (first | (cases h1; done) | skip)
  all_goals
    simp only [Option.some.injEq] at h1
    subst h1
    rw [Store.get?_set_ne _ _ _ _ hnej]
    simp only [Store.get?, Store.alloc]
    rw [List.getElem?_append_left (by rw [hmid_len]; omega)]
    exact hmid_j

/-- **declareClass_frame.**  Running the emitted body of a class declaration leaves every class object
that existed before exactly as it was (fields, methods, initialiser, links): the VM writes to the new
class and its new metaclass only. -/
theorem declareClass_frame (s s' : Store) (name : String) (sup c : Nat) (supc : Cls) (b : ClassBody)
    (hsup : s.get? sup = some supc) (h : s.declareClass name sup b = some (s', c))
    (j : Nat) (hj : j < s.classes.length) : s'.get? j = s.get? j := by
  unfold Store.declareClass at h
  have hc0 : (s.opClass name).2 = s.classes.length := rfl
  have hs0 : (s.opClass name).1 = { classes := s.classes ++ [Cls.bare name] } := rfl
  rw [hc0, hs0] at h
  have hnej : j ≠ s.classes.length := Nat.ne_of_lt hj
  cases h1 : Store.opInherit { classes := s.classes ++ [Cls.bare name] } s.classes.length sup with
  | none => simp [h1] at h
  | some s1 =>
    simp only [h1] at h
    obtain ⟨hs1c, _⟩ := opInherit_fresh s s1 name sup supc hsup h1
    have hs1j := opInherit_fresh_frame s s1 name sup supc hsup h1 j hj
    generalize hc1 : ({ (Cls.bare name).inheritFrom sup supc with metaClass := some (s.classes.length + 1) } : Cls) = c1 at hs1c
    cases h2 : (match b.init with | some i => s1.opMethod s.classes.length "init" i | none => some s1) with
    | none => simp [h2] at h
    | some s2 =>
      simp only [h2] at h
      have hs2 : s2.get? s.classes.length = some (match b.init with | some i => c1.addMethod "init" i | none => c1) ∧
                 s2.get? j = s.get? j := by
        cases hb : b.init with
        | none => simp only [hb] at h2; cases h2; exact ⟨hs1c, hs1j⟩
        | some i =>
          simp only [hb] at h2
          obtain ⟨a, bb, _⟩ := Store.opMethod_spec s1 s2 _ "init" i c1 hs1c h2
          exact ⟨a, by rw [bb j hnej]; exact hs1j⟩
      obtain ⟨hs2c, hs2j⟩ := hs2
      cases h3 : (compileInitFields b.initFields).foldlM (fun st f => st.opField s.classes.length f) s2 with
      | none => simp [h3] at h
      | some s3 =>
        simp only [h3] at h
        obtain ⟨hs3c, hs3o⟩ := Store.foldlM_opField_spec _ s2 s3 _ _ hs2c h3
        cases h4 : b.methods.foldlM (fun st p => st.opMethod s.classes.length p.1 p.2) s3 with
        | none => simp [h4] at h
        | some s4 =>
          simp only [h4] at h
          obtain ⟨hs4c, hs4o⟩ := Store.foldlM_opMethod_spec _ s3 s4 _ _ hs3c h4
          cases h5 : b.statics.foldlM (fun st p => st.opStaticMethod s.classes.length p.1 p.2) s4 with
          | none => simp [h5] at h
          | some s5 =>
            simp only [h5, Option.some.injEq, Prod.mk.injEq] at h
            obtain ⟨rfl, rfl⟩ := h
            -- the metaclass link survives `Field*` and `Method*`
            have hmeta : ∀ (ms : List (String × Nat)) (fs : List String) (x : Cls),
                (ms.foldl (fun c p => c.addMethod p.1 p.2) (fs.foldl Cls.addField x)).metaClass = x.metaClass := by
              intro ms fs x
              have e1 : ∀ (ms : List (String × Nat)) (y : Cls), (ms.foldl (fun c p => c.addMethod p.1 p.2) y).metaClass = y.metaClass := by
                intro ms
                induction ms with
                | nil => intro y; rfl
                | cons p ms ih => intro y; simp only [List.foldl_cons]; rw [ih]; rfl
              have e2 : ∀ (fs : List String) (y : Cls), (fs.foldl Cls.addField y).metaClass = y.metaClass := by
                intro fs
                induction fs with
                | nil => intro y; rfl
                | cons f fs ih =>
                  intro y; simp only [List.foldl_cons]; rw [ih]
                  unfold Cls.addField; split <;> rfl
              rw [e1, e2]
            have hm : (b.methods.foldl (fun c p => c.addMethod p.1 p.2)
                ((compileInitFields b.initFields).foldl Cls.addField
                  (match b.init with | some i => c1.addMethod "init" i | none => c1))).metaClass = some (s.classes.length + 1) := by
              rw [hmeta]
              subst hc1
              cases b.init <;> rfl
            obtain ⟨_, hs5o⟩ := Store.foldlM_opStatic_spec _ s4 s5 _ (s.classes.length + 1) _ hs4c hm (by omega) h5
            rw [hs5o j (by omega), hs4o j hnej, hs3o j hnej]
            exact hs2j

end LaytheVerif.Classes
