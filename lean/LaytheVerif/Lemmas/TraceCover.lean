/-
C05 — every `impl Trace` of the runtime marks every field that can reach a managed object.

The allocator model (`Model/Alloc.lean`) takes an object's out-edges as given and proves that marking
is reachability over them; the implementation gets the out-edges from ~70 hand-written `impl Trace`
blocks.  `tools/translate_trace.py` regenerates `Gen/TraceTable.lean` from all of them on every run:
per block the struct's fields with their types (classified `plain` — cannot reach a managed object —
by a whitelist of types) and, per statement of `fn trace`, the field it mentions and the *form* of the
statement.  A field counts as marked only by a total form: a call on the field (`call`), a loop over
all its elements (`each`, `each-kv`) or `if let Some` on an optional field (`some`); a conditional,
partial or otherwise unrecognised statement is reported as `other:<text>` and does not count.

`TraceCover.all_rows_covered` (by kernel evaluation over the whole regenerated table): every
non-plain field of every block is marked by a total form, except the fields listed in `exceptions`,
each pinned to the exact statement text it has now and with the reason it is safe; blocks for types
that are not braced structs of their file (enums, generic containers, tuple structs) are pinned
entirely (`infra`).  Removing a `trace()` call, making it conditional, skipping part of a collection,
or adding a field that can hold a managed value without marking it makes this theorem false.
The reasons in `exceptions` are reviewed by hand, not proved (trusted base of C05).
-/
import LaytheVerif.Gen.TraceTable
namespace LaytheVerif.TraceCover
open LaytheVerif.Gen

def totalForms : List String := ["call", "each", "each-kv", "some"]

/-- forms of the statements of `fn trace` that mention field `f`, joined by " | " -/
def formsOf (marks : List (String × String)) (f : String) : String :=
  " | ".intercalate ((marks.filter (fun m => m.1 == f)).map (·.2))

def fieldMarked (marks : List (String × String)) (f : String) : Bool :=
  marks.any (fun m => m.1 == f && totalForms.contains m.2)

/-- (struct, field, exact forms now, why it is safe) -/
def exceptions : List (String × String × String × String) := [
  ("Module", "symbols_by_name", "other:self.symbols_by_name.keys().for_each(|key| key.trace())",
    "keys marked, values are slot numbers"),
  ("Class", "init", "",
    "copy of the `init` entry of `methods`, which is marked"),
  ("Class", "fields", "each-k",
    "keys marked, values are slot numbers"),
  ("ChannelWaiter", "waiter", "other:if let Some(waiter) = self.waiter.as_ref() { waiter.as_trace().trace() }",
    "the boxed fiber is marked through `as_trace()`"),
  ("Ref", "ptr", "",
    "infrastructure: `Ref::trace` marks the allocation and recurses into its data"),
  ("ObjRef", "ptr", "",
    "infrastructure: `ObjRef::trace` marks the object and recurses into its data"),
  ("InlineCache", "property", "other:self.property.iter().flatten().for_each(|cache| { cache.class.trace(); })",
    "every filled slot's class is marked (D16 repair)"),
  ("InlineCache", "invoke", "other:self.invoke.iter().flatten().for_each(|cache| { cache.class.trace(); cache.method.trace(); })",
    "every filled slot's class and method are marked (D16 repair)"),
  ("ClassAttributes", "name", "",
    "compile-time only (rooting during compilation is outside the allocator model; not shown safe here)"),
  ("VmFiles", "name_map", "",
    "keys are the names of the files in `files`, which are marked"),
  ("BuiltInPrimitives", "object", "",
    "a class of the global module: a module symbol of the std package, marked through `Vm::packages`"),
  ("BuiltInPrimitives", "channel", "",
    "a class of the global module: a module symbol of the std package, marked through `Vm::packages`"),
  ("BuiltInPrimitives", "fun", "",
    "a class of the global module: a module symbol of the std package, marked through `Vm::packages`"),
  ("BuiltInPrimitives", "tuple", "",
    "a class of the global module: a module symbol of the std package, marked through `Vm::packages`"),
  ("BuiltInErrors", "error", "",
    "a class of the global module: a module symbol of the std package, marked through `Vm::packages`"),
  ("BuiltInErrors", "runtime", "",
    "a class of the global module: a module symbol of the std package, marked through `Vm::packages`"),
  ("BuiltInErrors", "type_", "",
    "a class of the global module: a module symbol of the std package, marked through `Vm::packages`"),
  ("BuiltInErrors", "value", "",
    "a class of the global module: a module symbol of the std package, marked through `Vm::packages`"),
  ("BuiltInErrors", "deadlock", "",
    "a class of the global module: a module symbol of the std package, marked through `Vm::packages`"),
  ("BuiltInErrors", "property", "",
    "a class of the global module: a module symbol of the std package, marked through `Vm::packages`"),
  ("BuiltInErrors", "import", "",
    "a class of the global module: a module symbol of the std package, marked through `Vm::packages`"),
  ("BuiltInErrors", "export", "",
    "a class of the global module: a module symbol of the std package, marked through `Vm::packages`"),
  ("Assert", "error", "",
    "a class of the global module: a module symbol of the std package, marked through `Vm::packages`"),
  ("ListStr", "error", "",
    "a class of the global module: a module symbol of the std package, marked through `Vm::packages`"),
  ("ListIterator", "current", "",
    "the enclosing `Enumerator` marks its own copy of the current value"),
  ("MapStr", "error", "",
    "a class of the global module: a module symbol of the std package, marked through `Vm::packages`"),
  ("MapIterator", "iter", "",
    "raw table iterator into the marked map (its invalidation is known finding DC16.7)"),
  ("MapIterator", "current", "",
    "the enclosing `Enumerator` marks its own copy of the current value"),
  ("SplitIterator", "iter", "",
    "borrows the characters of the marked string"),
  ("TupleStr", "error", "",
    "a class of the global module: a module symbol of the std package, marked through `Vm::packages`"),
  ("TupleIterator", "current", "",
    "the enclosing `Enumerator` marks its own copy of the current value")
]

/-- blocks for types that are not braced structs of their file: (type, statements of `fn trace`) -/
def infra : List (String × List (String × String)) := [
  ("Captures", [("0", "call")]),
  ("u8", []),
  ("u16", []),
  ("usize", []),
  ("Value", [("?", "other:if let Value::Obj(obj) = self { obj.trace(); }")]),
  ("Value", [("is_obj", "other:if self.is_obj() { self.to_obj().trace(); }")]),
  ("UniqueVector", [("0", "some")]),
  ("List", [("0", "call")]),
  ("LyStr", [("mark", "other:self.mark()")]),
  ("Map", [("iter", "other:self.iter().for_each(|(key, value)| { key.trace(); value.trace(); })")]),
  ("Tuple", [("0", "call")]),
  ("Instance", [("0", "call")])
]

def rowCovered (r : TraceTable.Row) : Bool :=
  match r.fields with
  | none => infra.contains (r.name, r.marks)
  | some fs => fs.all fun x =>
      x.2.2 || fieldMarked r.marks x.1 || exceptions.any (fun e => e.1 == r.name && e.2.1 == x.1 && e.2.2.1 == formsOf r.marks x.1)

/-- **all_rows_covered.** -/
theorem all_rows_covered : TraceTable.rows.all rowCovered = true := by decide +kernel

/-- the table is not empty and contains the objects the allocator model speaks about -/
theorem table_nonempty : 60 ≤ TraceTable.rows.length ∧
    (["Closure", "Class", "Fiber", "ChannelQueue", "Enumerator", "ChainIterator"].all
      (fun n => TraceTable.rows.any (fun r => r.name == n))) = true := by decide +kernel

/-- non-vacuity of the judgement: a block that forgets a managed field, or marks it only partially, is rejected -/
def partialChain : TraceTable.Row where
  file := "x.rs"
  name := "ChainIterator"
  fields := some [("current", "Value", false), ("iters", "Vec<Enumerator>", false), ("iter_index", "usize", true)]
  marks := [("current", "call"), ("iters", "other:self.iters.iter().skip(self.iter_index).for_each(|iter| { iter.trace(); })")]

def totalChain : TraceTable.Row := { partialChain with marks := [("current", "call"), ("iters", "each")] }

def forgetfulChain : TraceTable.Row := { partialChain with marks := [("iters", "each")] }

example : rowCovered partialChain = false ∧ rowCovered forgetfulChain = false ∧ rowCovered totalChain = true := by decide +kernel

end LaytheVerif.TraceCover
