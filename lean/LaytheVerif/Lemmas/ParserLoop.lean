import LaytheVerif.Model.FrontEnd
/-!
# Progress of the parser's declaration loop (`Model/FrontEnd.lean`, Part 1)
-/
namespace LaytheVerif.FrontEnd
open LaytheVerif.Gen (TokenKind)

/-- `advance()` never increases what is left to consume … -/
theorem advance_mu_le (p : PState) : p.advance.1.mu ≤ p.mu := by
  rcases p with ⟨pv, c, rest⟩
  cases rest with
  | nil => simp [PState.advance, PState.mu]
  | cons t r => simp [PState.advance, PState.mu]; split <;> split <;> omega

/-- … and strictly decreases it unless the parser already sits on `Eof`. -/
theorem advance_mu_lt (p : PState) (h : p.cur ≠ .Eof) : p.advance.1.mu < p.mu := by
  rcases p with ⟨pv, c, rest⟩
  simp only at h
  cases rest with
  | nil => simp [PState.advance, PState.mu, h]
  | cons t r => simp [PState.advance, PState.mu, h]; split <;> omega

theorem advanceN_mu_le (n : Nat) (p : PState) : (advanceN n p).1.mu ≤ p.mu := by
  induction n generalizing p with
  | zero => simp [advanceN]
  | succ n ih =>
    have hle := advance_mu_le p
    unfold advanceN
    split
    · rename_i p' heq
      rw [heq] at hle
      exact Nat.le_trans (ih p') hle
    · rename_i p' heq
      rw [heq] at hle
      exact hle

/-- the body of a declaration consumes at least one token, whatever its grammar does afterwards -/
theorem declBody_mu_lt (o : Oracle) (p : PState) (h : p.cur ≠ .Eof) : (declBody o p).1.mu < p.mu := by
  have hlt := advance_mu_lt p h
  unfold declBody
  split
  · rename_i p1 heq
    rw [heq] at hlt
    exact hlt
  · rename_i p1 heq
    rw [heq] at hlt
    have hN := advanceN_mu_le (o.extra p1) p1
    split
    · rename_i p2 heq2
      rw [heq2] at hN
      exact Nat.lt_of_le_of_lt hN hlt
    · rename_i p2 heq2
      rw [heq2] at hN
      exact Nat.lt_of_le_of_lt hN hlt

/-- measure of `synchronize`'s loop -/
def PState.nu (p : PState) : Nat :=
  3 * p.rest.length + (if p.cur ≠ .Eof then 2 else if p.prev = .Semicolon then 1 else 0)

theorem ite_le_two (P Q : Prop) [Decidable P] [Decidable Q] :
    (if P then 2 else if Q then 1 else 0) ≤ 2 := by
  by_cases hP : P <;> by_cases hQ : Q <;> simp [hP, hQ]

/-- one continuing iteration of `synchronize` strictly decreases `nu` -/
theorem advance_nu_lt (p : PState) (hc : (p.cur != .Eof || p.prev == .Semicolon) = true) :
    p.advance.1.nu < p.nu := by
  rcases p with ⟨pv, c, rest⟩
  simp only [Bool.or_eq_true, bne_iff_ne, beq_iff_eq, ne_eq] at hc
  cases rest with
  | cons t r =>
    simp only [PState.advance, PState.nu, List.headD_cons, List.tail_cons, List.length_cons]
    refine Nat.lt_of_le_of_lt (Nat.add_le_add_left (ite_le_two _ _) _) ?_
    omega
  | nil =>
    simp only [PState.advance, PState.nu, List.headD_nil, List.tail_nil, List.length_nil]
    by_cases hce : c = .Eof
    · subst hce
      have hpv : pv = .Semicolon := by
        rcases hc with hc | hc
        · exact absurd rfl hc
        · exact hc
      subst hpv
      simp
    · by_cases h2 : c = .Semicolon <;> simp [hce, h2]

/-- `synchronize` terminates (the fuel suffices) and never un-consumes -/
theorem syncLoop_total (f : Nat) (p : PState) (h : p.nu < f) :
    ∃ r, syncLoop f p = some r ∧ r.1.mu ≤ p.mu := by
  induction f generalizing p with
  | zero => omega
  | succ f ih =>
    unfold syncLoop
    split
    · rename_i hc
      split
      · exact ⟨_, rfl, Nat.le_refl _⟩
      · have hle := advance_mu_le p
        have hnu := advance_nu_lt p hc
        split
        · rename_i p' heq
          rw [heq] at hle hnu
          simp only at hle hnu
          obtain ⟨r, hr, hmu⟩ := ih p' (by omega)
          exact ⟨r, hr, Nat.le_trans hmu hle⟩
        · rename_i p' heq
          rw [heq] at hle
          exact ⟨_, rfl, hle⟩
    · exact ⟨_, rfl, Nat.le_refl _⟩

theorem nu_lt_fuel (p : PState) : p.nu < 3 * p.rest.length + 3 := by
  unfold PState.nu
  split
  · omega
  · split <;> omega

/-- **each iteration of the declaration loop, error recovery included, consumes at least one token** -/
theorem decl_progress (o : Oracle) (p : PState) (h : p.cur ≠ .Eof) :
    ∃ r, decl o p = some r ∧ r.1.mu < p.mu := by
  have hlt := declBody_mu_lt o p h
  unfold decl
  split
  · rename_i p' heq
    rw [heq] at hlt
    exact ⟨_, rfl, hlt⟩
  · rename_i p' heq
    rw [heq] at hlt
    obtain ⟨r, hr, hmu⟩ := syncLoop_total _ p' (nu_lt_fuel p')
    exact ⟨r, hr, Nat.lt_of_le_of_lt hmu hlt⟩

theorem parseLoop_total (f : Nat) (o : Oracle) (p : PState) (h : p.mu < f) :
    ∃ r, parseLoop f o p = some r := by
  induction f generalizing p with
  | zero => omega
  | succ f ih =>
    unfold parseLoop
    split
    · exact ⟨_, rfl⟩
    · rename_i hne
      obtain ⟨⟨p', b⟩, hr, hmu⟩ := decl_progress o p hne
      rw [hr]
      cases b with
      | false => exact ⟨_, rfl⟩
      | true => exact ih p' (by simp only at hmu; omega)

/-- parsing terminates on every token stream, for every grammar oracle -/
theorem parse_total (o : Oracle) (toks : List TokenKind) : ∃ r, parse o toks = some r := by
  unfold parse
  split
  · exact ⟨_, rfl⟩
  · rename_i p heq
    exact parseLoop_total _ o p (Nat.lt_succ_self _)

end LaytheVerif.FrontEnd
