/-
The scheduler's structural invariant `Good` and its preservation by every building block of an
instruction (`Model/Sched.lean`).  Used by `Props/C08.lean`.
-/
import LaytheVerif.Lemmas.Sched

namespace LaytheVerif.Sched
open LaytheVerif.ChanQueue

/-- What holds in every reachable state, also in the middle of an instruction. -/
structure Good (vm : VM) : Prop where
  /-- a waiter's `runnable` flag is off iff its fiber is `Complete` -/
  flags : ∀ i, (vm.fiber i).runnable = false ↔ (vm.fiber i).state = .complete
  /-- parents, the run queue and all waiter lists only mention fibers that were launched -/
  parents : ∀ i p, (vm.fiber i).parent = some p → p < vm.fibers.length
  runq : ∀ w, w ∈ vm.runq → w < vm.fibers.length
  waiters : ∀ c, WaitersP (· < vm.fibers.length) (vm.chan c).q
  cur : vm.cur < vm.fibers.length
  /-- no fiber other than the current one is `Running` -/
  others : ∀ i, i ≠ vm.cur → (vm.fiber i).state ≠ .running

theorem fiber_nil_of_le (vm : VM) (i : Nat) (h : vm.fibers.length ≤ i) : vm.fiber i = Fiber.nil := by
  simp [VM.fiber, List.getElem?_eq_none h]

/-- replacing a fiber by one that respects the per-fiber clauses keeps `Good` -/
theorem Good.setFiber {vm : VM} (g : Good vm) (i : Nat) (f : Fiber)
    (hf : f.runnable = false ↔ f.state = .complete)
    (hp : ∀ p, f.parent = some p → p < vm.fibers.length)
    (hr : i ≠ vm.cur → f.state ≠ .running) : Good (vm.setFiber i f) where
  flags j := by
    rw [fiber_setFiber]; split
    · exact hf
    · exact g.flags j
  parents j p := by
    rw [fiber_setFiber, setFiber_len]; split
    · exact hp p
    · exact g.parents j p
  runq w hw := by simpa using g.runq w hw
  waiters c := by simpa using g.waiters c
  cur := by simpa using g.cur
  others j hj := by
    rw [fiber_setFiber]; split
    · rename_i h; exact hr (by rw [h.1]; exact hj)
    · exact g.others j hj

/-- a change that keeps `state`, `runnable` and `parent` keeps `Good` -/
theorem Good.setFiber_same {vm : VM} (g : Good vm) (i : Nat) (f : Fiber)
    (hs : f.state = (vm.fiber i).state) (hr : f.runnable = (vm.fiber i).runnable)
    (hp : f.parent = (vm.fiber i).parent) : Good (vm.setFiber i f) :=
  g.setFiber i f (by rw [hs, hr]; exact g.flags i) (fun p h => g.parents i p (by rw [← hp]; exact h))
    (fun h => by rw [hs]; exact g.others i h)

/-- a change to the current fiber that keeps its parent -/
theorem Good.setCur {vm : VM} (g : Good vm) (f : Fiber)
    (hf : f.runnable = false ↔ f.state = .complete) (hp : f.parent = vm.me.parent) :
    Good (vm.setFiber vm.cur f) :=
  g.setFiber vm.cur f hf (fun p h => g.parents vm.cur p (by rw [hp] at h; exact h)) (fun h => absurd rfl h)

theorem Good.setChan {vm : VM} (g : Good vm) (c : Nat) (ch : Chan)
    (hw : WaitersP (· < vm.fibers.length) ch.q) : Good (vm.setChan c ch) where
  flags := g.flags
  parents := g.parents
  runq := g.runq
  waiters d := by
    rw [chan_setChan]; split
    · exact hw
    · exact g.waiters d
  cur := g.cur
  others := g.others

theorem Good.log {vm : VM} (g : Good vm) (t : Tr) : Good (vm.log t) :=
  ⟨g.flags, g.parents, g.runq, g.waiters, g.cur, g.others⟩
theorem Good.emit {vm : VM} (g : Good vm) (e : Event) : Good (vm.emit e) :=
  ⟨g.flags, g.parents, g.runq, g.waiters, g.cur, g.others⟩
theorem Good.fail {vm : VM} (g : Good vm) (a : Assert) : Good (vm.fail a) :=
  ⟨g.flags, g.parents, g.runq, g.waiters, g.cur, g.others⟩

/-! ### get_runnable -/

theorem getRunnable_frame (vm : VM) (cs : List Nat) :
    (getRunnable vm cs).1.fibers = vm.fibers ∧ (getRunnable vm cs).1.cur = vm.cur ∧
    (getRunnable vm cs).1.runq = vm.runq ∧ (getRunnable vm cs).1.outcome = vm.outcome ∧
    (getRunnable vm cs).1.out = vm.out ∧ (getRunnable vm cs).1.bodies = vm.bodies := by
  induction cs generalizing vm with
  | nil => simp [getRunnable]
  | cons c cs ih =>
    unfold getRunnable
    split
    · simp
    · have := ih (vm.setChan c { vm.chan c with q := ((vm.chan c).q.runnableWaiter vm.flags).1 })
      simpa using this

theorem getRunnable_fiber (vm : VM) (cs : List Nat) (i : Nat) : (getRunnable vm cs).1.fiber i = vm.fiber i := by
  simp [VM.fiber, (getRunnable_frame vm cs).1]

theorem getRunnable_me (vm : VM) (cs : List Nat) : (getRunnable vm cs).1.me = vm.me := by
  simp [VM.me, getRunnable_fiber, (getRunnable_frame vm cs).2.1]

theorem good_getRunnable {vm : VM} (g : Good vm) (cs : List Nat) :
    Good (getRunnable vm cs).1 ∧ ∀ w, (getRunnable vm cs).2 = some w → w < vm.fibers.length := by
  induction cs generalizing vm with
  | nil => exact ⟨g, fun w h => by simp [getRunnable] at h⟩
  | cons c cs ih =>
    have hq := runnableWaiter_P (· < vm.fibers.length) vm.flags (vm.chan c).q (g.waiters c)
    have g1 : Good (vm.setChan c { vm.chan c with q := ((vm.chan c).q.runnableWaiter vm.flags).1 }) :=
      g.setChan c _ hq.1
    unfold getRunnable
    split
    · rename_i w hw
      exact ⟨g1, fun w' hw' => by cases hw'; exact hq.2 w hw⟩
    · have := ih g1
      simpa using this

/-! ### queue_blocked_fiber, wake -/

theorem queueBlocked_frame (vm : VM) (w : Nat) :
    (queueBlocked vm w).cur = vm.cur ∧ (queueBlocked vm w).chans = vm.chans ∧
    (queueBlocked vm w).fibers.length = vm.fibers.length ∧ (queueBlocked vm w).out = vm.out ∧
    (queueBlocked vm w).bodies = vm.bodies := by
  unfold queueBlocked; split <;> simp

theorem queueBlocked_outcome (vm : VM) (w : Nat) :
    (queueBlocked vm w).outcome = vm.outcome ∨ (queueBlocked vm w).outcome = .panic .unblock := by
  unfold queueBlocked; split <;> simp

/-- `queue_blocked_fiber` only ever turns `Blocked` into `Pending` -/
theorem queueBlocked_state (vm : VM) (w i : Nat) :
    ((queueBlocked vm w).fiber i).state = (vm.fiber i).state ∨
    ((vm.fiber i).state = .blocked ∧ ((queueBlocked vm w).fiber i).state = .pending) := by
  unfold queueBlocked; split
  · rename_i h
    by_cases hi : w = i ∧ w < vm.fibers.length
    · right
      obtain ⟨rfl, hlt⟩ := hi
      refine ⟨h, ?_⟩
      show ((vm.setFiber w _).fiber w).state = _
      rw [fiber_setFiber]; simp [hlt]
    · left
      show ((vm.setFiber w _).fiber i).state = _
      rw [fiber_setFiber]; simp [hi]
  · left; rfl
  · left; rfl

theorem queueBlocked_running (vm : VM) (w i : Nat) :
    ((queueBlocked vm w).fiber i).state = .running ↔ (vm.fiber i).state = .running := by
  rcases queueBlocked_state vm w i with h | ⟨h1, h2⟩
  · rw [h]
  · rw [h1, h2]; simp

theorem good_queueBlocked {vm : VM} (g : Good vm) (w : Nat) (hw : w < vm.fibers.length) :
    Good (queueBlocked vm w) := by
  unfold queueBlocked; split
  · rename_i h
    have g1 : Good (vm.setFiber w { vm.fiber w with state := .pending }) :=
      g.setFiber w _ (by
        have := g.flags w
        simp only [h] at this
        cases hr : (vm.fiber w).runnable <;> simp_all) (g.parents w) (by simp)
    exact ⟨g1.flags, g1.parents, fun x hx => by
      simp only [List.mem_append, List.mem_singleton] at hx
      rcases hx with hx | rfl
      · exact g1.runq x hx
      · simpa using hw, g1.waiters, g1.cur, g1.others⟩
  · exact ⟨g.flags, g.parents, fun x hx => by
      simp only [List.mem_append, List.mem_singleton] at hx
      rcases hx with hx | rfl
      · exact g.runq x hx
      · exact hw, g.waiters, g.cur, g.others⟩
  · exact g.fail _

theorem wake_frame (vm : VM) (r : Option Nat) :
    (wake vm r).cur = vm.cur ∧ (wake vm r).fibers.length = vm.fibers.length ∧ (wake vm r).out = vm.out ∧
    (wake vm r).bodies = vm.bodies := by
  unfold wake; split
  · rename_i w
    have := queueBlocked_frame (vm.log (.wakeDirect w)) w
    simp_all
  · split
    · rename_i w hw
      have := queueBlocked_frame ((getRunnable vm vm.me.channels).1.log (.wakeScan w)) w
      have := getRunnable_frame vm vm.me.channels
      simp_all
    · have := getRunnable_frame vm vm.me.channels
      simp_all

theorem wake_outcome (vm : VM) (r : Option Nat) :
    (wake vm r).outcome = vm.outcome ∨ (wake vm r).outcome = .panic .unblock := by
  unfold wake; split
  · rename_i w
    simpa using queueBlocked_outcome (vm.log (.wakeDirect w)) w
  · split
    · rename_i w hw
      have := queueBlocked_outcome ((getRunnable vm vm.me.channels).1.log (.wakeScan w)) w
      simpa [(getRunnable_frame vm vm.me.channels).2.2.2.1] using this
    · left; exact (getRunnable_frame vm vm.me.channels).2.2.2.1

theorem wake_running (vm : VM) (r : Option Nat) (i : Nat) :
    ((wake vm r).fiber i).state = .running ↔ (vm.fiber i).state = .running := by
  unfold wake; split
  · rw [queueBlocked_running]; simp
  · split
    · rw [queueBlocked_running]; simp [getRunnable_fiber]
    · simp [getRunnable_fiber]

theorem good_wake {vm : VM} (g : Good vm) (r : Option Nat) (hr : ∀ w, r = some w → w < vm.fibers.length) :
    Good (wake vm r) := by
  unfold wake; split
  · exact good_queueBlocked (g.log _) _ (by simpa using hr _ rfl)
  · have h := good_getRunnable g vm.me.channels
    split
    · rename_i w hw
      exact good_queueBlocked (h.1.log _) w (by simpa [(getRunnable_frame vm vm.me.channels).1] using h.2 w hw)
    · exact h.1

/-! ### sleep, block, add_used_channel, advance -/

theorem good_addUsed {vm : VM} (g : Good vm) (c : Nat) : Good (addUsed vm c) := by
  unfold addUsed; split
  · exact g
  · exact g.setFiber_same _ _ rfl rfl rfl

theorem addUsed_frame (vm : VM) (c : Nat) :
    (addUsed vm c).cur = vm.cur ∧ (addUsed vm c).chans = vm.chans ∧ (addUsed vm c).runq = vm.runq ∧
    (addUsed vm c).outcome = vm.outcome ∧ (addUsed vm c).fibers.length = vm.fibers.length ∧
    (addUsed vm c).out = vm.out ∧ (addUsed vm c).bodies = vm.bodies := by
  unfold addUsed; split <;> simp

theorem addUsed_state (vm : VM) (c i : Nat) : ((addUsed vm c).fiber i).state = (vm.fiber i).state := by
  unfold addUsed; split
  · rfl
  · rw [fiber_setFiber]; split
    · rename_i h; simp [VM.me, h.1]
    · rfl

theorem good_advance {vm : VM} (g : Good vm) : Good (advance vm) := by
  unfold advance; split
  · exact g
  · exact g.setFiber_same _ _ rfl rfl rfl

theorem advance_frame (vm : VM) :
    (advance vm).cur = vm.cur ∧ (advance vm).chans = vm.chans ∧ (advance vm).runq = vm.runq ∧
    (advance vm).outcome = vm.outcome ∧ (advance vm).fibers.length = vm.fibers.length ∧
    (advance vm).out = vm.out ∧ (advance vm).bodies = vm.bodies := by
  unfold advance; split <;> simp

theorem advance_state (vm : VM) (i : Nat) : ((advance vm).fiber i).state = (vm.fiber i).state := by
  unfold advance; split
  · rfl
  · rw [fiber_setFiber]; split
    · rename_i h; simp [VM.me, h.1]
    · rfl

/-- parking: from "current fiber Running" to "nobody Running" -/
theorem good_sleep {vm : VM} (g : Good vm) (hr : vm.me.state = .running) :
    Good (sleep vm) ∧ (sleep vm).me.state ≠ .running ∧ (sleep vm).outcome = vm.outcome := by
  unfold sleep; simp only [hr]
  refine ⟨(g.setCur _ (by simp) (by rfl)).log _, ?_, rfl⟩
  show ((vm.setFiber vm.cur _).fiber vm.cur).state ≠ .running
  rw [fiber_setFiber]; simp [g.cur]

theorem good_block {vm : VM} (g : Good vm) (hr : vm.me.state = .running) :
    Good (block vm) ∧ (block vm).me.state ≠ .running ∧ (block vm).outcome = vm.outcome := by
  unfold block; simp only [hr]
  refine ⟨(g.setCur _ ?_ (by rfl)).log _, ?_, rfl⟩
  · have := g.flags vm.cur
    simp only [VM.me] at hr ⊢
    rw [hr] at this
    cases h : (vm.fiber vm.cur).runnable <;> simp_all
  · show ((vm.setFiber vm.cur _).fiber vm.cur).state ≠ .running
    rw [fiber_setFiber]; simp [g.cur]

/-! ### context switch -/

theorem good_contextSwitch {vm : VM} (g : Good vm) (hn : vm.me.state ≠ .running) :
    Good (contextSwitch vm) ∧ ((contextSwitch vm).outcome = .running → (contextSwitch vm).me.state = .running) := by
  unfold contextSwitch; split
  · exact ⟨⟨g.flags, g.parents, g.runq, g.waiters, g.cur, g.others⟩, by simp⟩
  · rename_i f rest hq
    have hf : f < vm.fibers.length := g.runq f (by simp [hq])
    split
    · rename_i hs
      refine ⟨⟨?_, ?_, ?_, ?_, ?_, ?_⟩, ?_⟩
      · intro j
        show ((vm.setFiber f _).fiber j).runnable = false ↔ ((vm.setFiber f _).fiber j).state = .complete
        rw [fiber_setFiber]; split
        · have := g.flags f
          rw [hs] at this
          cases h : (vm.fiber f).runnable <;> simp_all
        · exact g.flags j
      · intro j p
        show ((vm.setFiber f _).fiber j).parent = some p → p < (vm.setFiber f _).fibers.length
        rw [fiber_setFiber, setFiber_len]; split
        · exact g.parents f p
        · exact g.parents j p
      · intro w hw
        show w < (vm.setFiber f _).fibers.length
        rw [setFiber_len]; exact g.runq w (by simp [hq, hw])
      · intro c w hw
        show w < (vm.setFiber f _).fibers.length
        rw [setFiber_len]; exact g.waiters c w hw
      · show f < (vm.setFiber f _).fibers.length
        rw [setFiber_len]; exact hf
      · intro j hj
        show ((vm.setFiber f _).fiber j).state ≠ .running
        rw [fiber_setFiber]; split
        · rename_i h; exact absurd h.1.symm hj
        · by_cases hc : j = vm.cur
          · rw [hc]; exact hn
          · exact g.others j hc
      · intro _
        show ((vm.setFiber f _).fiber f).state = .running
        rw [fiber_setFiber]; simp [hf]
    · exact ⟨⟨g.flags, g.parents, fun w hw => g.runq w (by simp [hq, hw]), g.waiters, g.cur, g.others⟩, by simp⟩

theorem contextSwitch_outcome (vm : VM) :
    ((contextSwitch vm).outcome = .deadlock ∧ vm.runq = [] ∧ (contextSwitch vm).runq = []) ∨
    (contextSwitch vm).outcome = vm.outcome ∨ (contextSwitch vm).outcome = .panic .activate := by
  unfold contextSwitch; split
  · left; simp_all
  · split
    · right; left; rfl
    · right; right; rfl

/-! ### complete -/

theorem good_markComplete {vm : VM} (g : Good vm) :
    Good (markComplete vm) ∧ (markComplete vm).me.state = .complete := by
  unfold markComplete
  refine ⟨(g.setCur _ (by simp) (by rfl)).log _, ?_⟩
  show ((vm.setFiber vm.cur _).fiber vm.cur).state = .complete
  rw [fiber_setFiber]; simp [g.cur]

theorem markComplete_frame (vm : VM) :
    (markComplete vm).cur = vm.cur ∧ (markComplete vm).chans = vm.chans ∧ (markComplete vm).runq = vm.runq ∧
    (markComplete vm).outcome = vm.outcome ∧ (markComplete vm).fibers.length = vm.fibers.length ∧
    (markComplete vm).out = vm.out ∧ (markComplete vm).bodies = vm.bodies := by
  simp [markComplete]

theorem pickWaiter_frame (vm : VM) (par : Option Nat) (cs : List Nat) :
    (pickWaiter vm par cs).1.fibers = vm.fibers ∧ (pickWaiter vm par cs).1.cur = vm.cur ∧
    (pickWaiter vm par cs).1.runq = vm.runq ∧ (pickWaiter vm par cs).1.outcome = vm.outcome ∧
    (pickWaiter vm par cs).1.out = vm.out ∧ (pickWaiter vm par cs).1.bodies = vm.bodies := by
  unfold pickWaiter; split
  · split
    · simp
    · exact getRunnable_frame vm cs
  · exact getRunnable_frame vm cs

theorem pickWaiter_fiber (vm : VM) (par : Option Nat) (cs : List Nat) (i : Nat) :
    (pickWaiter vm par cs).1.fiber i = vm.fiber i := by
  simp [VM.fiber, (pickWaiter_frame vm par cs).1]

theorem good_pickWaiter {vm : VM} (g : Good vm) (par : Option Nat) (cs : List Nat)
    (hp : ∀ p, par = some p → p < vm.fibers.length) :
    Good (pickWaiter vm par cs).1 ∧ ∀ w, (pickWaiter vm par cs).2 = some w → w < vm.fibers.length := by
  unfold pickWaiter; split
  · split
    · exact ⟨g.log _, fun w hw => by cases hw; exact hp _ rfl⟩
    · exact good_getRunnable g cs
  · exact good_getRunnable g cs

theorem clearChannels_frame (vm : VM) :
    (clearChannels vm).cur = vm.cur ∧ (clearChannels vm).chans = vm.chans ∧ (clearChannels vm).runq = vm.runq ∧
    (clearChannels vm).outcome = vm.outcome ∧ (clearChannels vm).fibers.length = vm.fibers.length ∧
    (clearChannels vm).out = vm.out ∧ (clearChannels vm).bodies = vm.bodies := by
  simp [clearChannels]

theorem clearChannels_state (vm : VM) (i : Nat) : ((clearChannels vm).fiber i).state = (vm.fiber i).state := by
  unfold clearChannels
  rw [fiber_setFiber]; split
  · rename_i h; simp [VM.me, h.1]
  · rfl

theorem clearChannels_me_state (vm : VM) : (clearChannels vm).me.state = vm.me.state := by
  unfold VM.me; rw [(clearChannels_frame vm).1, clearChannels_state]

theorem pickWaiter_me (vm : VM) (par : Option Nat) (cs : List Nat) : (pickWaiter vm par cs).1.me = vm.me := by
  unfold VM.me; rw [(pickWaiter_frame vm par cs).2.1, pickWaiter_fiber]

theorem good_complete {vm : VM} (g : Good vm) (hr : vm.me.state = .running) :
    Good (complete vm).1 ∧ (complete vm).1.me.state ≠ .running ∧ (complete vm).1.outcome = vm.outcome ∧
    (∀ w, (complete vm).2 = some w → w < (complete vm).1.fibers.length) ∧
    (complete vm).1.cur = vm.cur := by
  unfold complete; simp only [hr]
  have g1 := good_markComplete g
  have f1 := markComplete_frame vm
  have g2 := good_pickWaiter g1.1 vm.me.parent vm.me.channels
    (fun p hp => by rw [f1.2.2.2.2.1]; exact g.parents vm.cur p hp)
  have f2 := pickWaiter_frame (markComplete vm) vm.me.parent vm.me.channels
  have f3 := clearChannels_frame (pickWaiter (markComplete vm) vm.me.parent vm.me.channels).1
  refine ⟨?_, ?_, ?_, ?_, ?_⟩
  · exact g2.1.setFiber_same _ _ rfl rfl rfl
  · rw [clearChannels_me_state, pickWaiter_me, g1.2]; simp
  · rw [f3.2.2.2.1, f2.2.2.2.1, f1.2.2.2.1]
  · intro w hw
    rw [f3.2.2.2.2.1, f2.1]
    exact g2.2 w hw
  · rw [f3.1, f2.2.1, f1.1]

theorem complete_frame (vm : VM) :
    (complete vm).1.out = vm.out ∧ (complete vm).1.bodies = vm.bodies ∧ (complete vm).1.runq = vm.runq := by
  unfold complete; split
  · have f1 := markComplete_frame vm
    have f2 := pickWaiter_frame (markComplete vm) vm.me.parent vm.me.channels
    have f3 := clearChannels_frame (pickWaiter (markComplete vm) vm.me.parent vm.me.channels).1
    simp_all
  · simp

theorem complete_outcome (vm : VM) :
    (complete vm).1.outcome = vm.outcome ∨ (complete vm).1.outcome = .panic .complete := by
  unfold complete; split
  · left
    rw [(clearChannels_frame _).2.2.2.1, (pickWaiter_frame _ _ _).2.2.2.1, (markComplete_frame vm).2.2.2.1]
  · right; rfl

end LaytheVerif.Sched
