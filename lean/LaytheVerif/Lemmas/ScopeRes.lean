/-
Lemmas/ScopeRes.lean — what the resolver leaves in the tables it attaches to the tree: local states
only, and a symbol that is still `LocalInitialized` was never resolved to from a deeper function.
-/
import LaytheVerif.Lemmas.ScopeLex
namespace LaytheVerif.Scope

/-- no identifier of the program is spelled like the hidden slot-0 variable -/
def namesOk : Tm → Bool
  | .nil | .lit _ | .str _ | .nilE | .letN _ _ => true
  | .seq a b => namesOk a && namesOk b
  | .var _ x => x != UNINITIALIZED_VAR
  | .assign _ x e => x != UNINITIALIZED_VAR && namesOk e
  | .op _ a => namesOk a
  | .lam _ _ _ body => namesOk body
  | .letS _ _ e => namesOk e
  | .fnS _ _ _ _ _ body => namesOk body
  | .ifS c _ t _ e => namesOk c && namesOk t && namesOk e
  | .whileS c _ b => namesOk c && namesOk b
  | .forS _ _ _ _ iter _ b => namesOk iter && namesOk b
  | .tryS _ b _ _ _ _ cn _ c => namesOk b && cn != UNINITIALIZED_VAR && namesOk c
  | .classS _ c _ sup _ _ _ ms => sup != UNINITIALIZED_VAR && c != UNINITIALIZED_VAR && namesOk ms
  | .method _ _ _ _ _ body => namesOk body

/-- a symbol of a non-module table while the resolver runs (and no error has been reported) -/
def symOk (s : RSym) : Prop := isLocalState s.state = true ∧ (s.hits ≠ [] → s.state = .localCaptured)

theorem symOk_good {s : RSym} (h : symOk s) : symGood s = true := by
  obtain ⟨h1, h2⟩ := h
  simp only [symGood, Bool.and_eq_true, h1, true_and, Bool.or_eq_true, bne_iff_ne, ne_eq, List.isEmpty_iff]
  by_cases hh : s.hits = []
  · exact Or.inr hh
  · left; rw [h2 hh]; simp

def RInv (rs : RS) : Prop := ∀ t ∈ rs.tables, t.scopeDepth > 0 ∧ ∀ s ∈ t.syms, symOk s

/-- the invariant holds as long as no error has been reported -/
def ROk (rs : RS) : Prop := rs.errors = [] → RInv rs

/-- errors are only ever added -/
def Mono (rs' rs : RS) : Prop := rs'.errors = [] → rs.errors = []

theorem Mono.refl (rs : RS) : Mono rs rs := id
theorem Mono.trans {a b c : RS} (h1 : Mono a b) (h2 : Mono b c) : Mono a c := fun h => h2 (h1 h)

theorem beginScope_ok (rs : RS) (h : ROk rs) :
    ROk rs.beginScope ∧ Mono rs.beginScope rs ∧ rs.beginScope.tables.length = rs.tables.length + 1 := by
  refine ⟨?_, id, by simp [RS.beginScope]⟩
  intro he t ht
  simp only [RS.beginScope, List.mem_cons] at ht
  rcases ht with rfl | ht
  · exact ⟨by simp, by simp⟩
  · exact h he t ht

theorem endScope_ok (rs : RS) (h : ROk rs) (hne : rs.tables ≠ []) :
    ROk rs.endScope.2 ∧ Mono rs.endScope.2 rs ∧ rs.endScope.2.tables.length + 1 = rs.tables.length ∧
    (rs.errors = [] → tblLocal rs.endScope.1 = true) := by
  unfold RS.endScope
  cases htb : rs.tables with
  | nil => exact absurd htb hne
  | cons t rest =>
    refine ⟨?_, id, by simp, ?_⟩
    · intro he t' ht'
      exact h he t' (by simp [htb, ht'])
    · intro he
      simp only [tblLocal, List.all_eq_true]
      intro s hs
      exact symOk_good ((h he t (by simp [htb])).2 s hs)

theorem addSymbol_ok (rs : RS) (d : Nat) (x : Name) (h : ROk rs) :
    ROk (rs.addSymbol d x) ∧ Mono (rs.addSymbol d x) rs ∧ (rs.addSymbol d x).tables.length = rs.tables.length := by
  unfold RS.addSymbol
  cases htb : rs.tables with
  | nil =>
    simp only
    split
    · exact ⟨fun he => by simp at he, fun he => by simp at he, htb ▸ rfl⟩
    · refine ⟨fun he t ht => ?_, id, by simp [htb]⟩
      simp [htb] at ht
  | cons t rest =>
    simp only
    split
    · exact ⟨fun he => by simp at he, fun he => by simp at he, by simp [htb]⟩
    · refine ⟨fun he t' ht' => ?_, id, by simp⟩
      have hi := h he
      simp only [List.mem_cons] at ht'
      rcases ht' with rfl | ht'
      · refine ⟨(hi t (by simp [htb])).1, ?_⟩
        intro s hs
        simp only [List.mem_append, List.mem_singleton] at hs
        rcases hs with hs | rfl
        · exact (hi t (by simp [htb])).2 s hs
        · exact ⟨rfl, by simp⟩
      · exact hi t' (by simp [htb, ht'])

theorem declare_ok (rs : RS) (d : Nat) (x : Name) (h : ROk rs) :
    ROk (rs.declare d x) ∧ Mono (rs.declare d x) rs ∧ (rs.declare d x).tables.length = rs.tables.length := by
  unfold RS.declare
  split
  · exact ⟨h, id, rfl⟩
  · exact addSymbol_ok rs d x h

/-- the symbol `modifyLast` changes is the one `get` returns -/
theorem modifyLast_mem (t : Table) (x : Name) (f : RSym → RSym) :
    ∀ s' ∈ t.modifyLast x f, s' ∈ t ∨ ∃ s, t.get x = some s ∧ s ∈ t ∧ s' = f s := by
  induction t with
  | nil => simp [Table.modifyLast]
  | cons a t ih =>
    intro s' hs'
    simp only [Table.modifyLast, Table.get] at hs' ⊢
    cases hg : Table.get t x with
    | some r =>
      simp only [hg] at hs' ⊢
      simp only [List.mem_cons] at hs'
      rcases hs' with rfl | hs'
      · left; simp
      · rcases ih s' hs' with h1 | ⟨s, h1, h2, h3⟩
        · left; simp [h1]
        · right; rw [hg] at h1; cases h1; exact ⟨r, rfl, by simp [h2], h3⟩
    | none =>
      simp only [hg] at hs' ⊢
      by_cases hn : a.name = x
      · simp only [hn, if_true, List.mem_cons] at hs' ⊢
        rcases hs' with rfl | hs'
        · right; exact ⟨a, rfl, by simp, rfl⟩
        · left; simp [hs']
      · simp only [hn, if_false] at hs' ⊢
        left; exact hs'

theorem define_ok (rs : RS) (x : Name) (h : ROk rs) :
    ROk (rs.define x) ∧ Mono (rs.define x) rs ∧ (rs.define x).tables.length = rs.tables.length := by
  unfold RS.define
  cases htb : rs.tables with
  | nil => exact ⟨fun he t ht => by simp at ht, id, rfl⟩
  | cons t rest =>
    refine ⟨fun he t' ht' => ?_, id, by simp⟩
    have hi := h he
    simp only [List.mem_cons] at ht'
    rcases ht' with rfl | ht'
    · refine ⟨(hi t (by simp [htb])).1, ?_⟩
      intro s' hs'
      rcases modifyLast_mem _ _ _ s' hs' with h1 | ⟨s, _, h2, rfl⟩
      · exact (hi t (by simp [htb])).2 s' h1
      · have hs := (hi t (by simp [htb])).2 s h2
        unfold RSym.initialize
        split
        · next hu =>
          refine ⟨rfl, ?_⟩
          intro hh
          have := hs.2 hh
          simp [hu] at this
        · exact hs
    · exact hi t' (by simp [htb, ht'])

theorem declareDefine_ok (rs : RS) (d : Nat) (x : Name) (h : ROk rs) :
    ROk (rs.declareDefine d x) ∧ Mono (rs.declareDefine d x) rs ∧ (rs.declareDefine d x).tables.length = rs.tables.length := by
  obtain ⟨h1, m1, l1⟩ := declare_ok rs d x h
  obtain ⟨h2, m2, l2⟩ := define_ok _ x h1
  exact ⟨h2, m2.trans m1, l2.trans l1⟩

theorem params_ok (rs : RS) (ps : List Param) (h : ROk rs) :
    ROk (rs.params ps) ∧ Mono (rs.params ps) rs ∧ (rs.params ps).tables.length = rs.tables.length := by
  induction ps generalizing rs with
  | nil => exact ⟨h, id, rfl⟩
  | cons p ps ih =>
    obtain ⟨h1, m1, l1⟩ := declareDefine_ok rs p.d p.name h
    obtain ⟨h2, m2, l2⟩ := ih _ h1
    exact ⟨h2, m2.trans m1, l2.trans l1⟩

theorem resolveIn_len (curFun o : Nat) (x : Name) (tables : List RTable) :
    ∀ tables' err ev, resolveIn curFun o x tables = some (tables', err, ev) → tables'.length = tables.length := by
  induction tables with
  | nil => intro _ _ _ hr; simp [resolveIn] at hr
  | cons t rest ih =>
    intro tables' err ev hr
    simp only [resolveIn] at hr
    cases hg : t.syms.get x with
    | none =>
      simp only [hg] at hr
      cases hrr : resolveIn curFun o x rest with
      | none => simp [hrr] at hr
      | some r =>
        obtain ⟨r1, e1, ev1⟩ := r
        simp only [hrr, Option.some.injEq, Prod.mk.injEq] at hr
        obtain ⟨rfl, rfl, rfl⟩ := hr
        simp [ih r1 e1 ev1 hrr]
    | some sym =>
      simp only [hg] at hr
      cases hst : sym.state <;> simp only [hst] at hr <;> (try split at hr) <;>
        (simp only [Option.some.injEq, Prod.mk.injEq] at hr; obtain ⟨rfl, -, -⟩ := hr; simp)

/-- the table loop of `resolve_variable` -/
theorem resolveIn_ok (curFun o : Nat) (x : Name) (tables : List RTable)
    (h : ∀ t ∈ tables, t.scopeDepth > 0 ∧ ∀ s ∈ t.syms, symOk s) :
    ∀ tables' err ev, resolveIn curFun o x tables = some (tables', err, ev) →
      tables'.length = tables.length ∧ (err = false → ∀ t ∈ tables', t.scopeDepth > 0 ∧ ∀ s ∈ t.syms, symOk s) := by
  induction tables with
  | nil => intro _ _ _ hr; simp [resolveIn] at hr
  | cons t rest ih =>
    intro tables' err ev hr
    simp only [resolveIn] at hr
    have ht := h t (by simp)
    cases hg : t.syms.get x with
    | none =>
      simp only [hg] at hr
      cases hrr : resolveIn curFun o x rest with
      | none => simp [hrr] at hr
      | some r =>
        obtain ⟨r1, e1, ev1⟩ := r
        simp only [hrr, Option.some.injEq, Prod.mk.injEq] at hr
        obtain ⟨rfl, rfl, rfl⟩ := hr
        obtain ⟨hl, hi⟩ := ih (fun t' ht' => h t' (by simp [ht'])) r1 e1 ev1 hrr
        refine ⟨by simp [hl], fun he t' ht' => ?_⟩
        simp only [List.mem_cons] at ht'
        rcases ht' with rfl | ht'
        · exact ht
        · exact hi he t' ht'
    | some sym =>
      simp only [hg] at hr
      have hsym := (Table.get_mem _ _ _ hg).1
      have hso := ht.2 sym hsym
      -- a symbol of `t` after `modifyLast x f`, when `f sym` is fine
      have hmod : ∀ f : RSym → RSym, symOk (f sym) →
          ∀ s ∈ t.syms.modifyLast x f, symOk s := by
        intro f hf s hs
        rcases modifyLast_mem _ _ _ s hs with h1 | ⟨s0, h1, _, rfl⟩
        · exact ht.2 s h1
        · rw [hg] at h1; cases h1; exact hf
      cases hst : sym.state with
      | uninit =>
        simp only [hst, Option.some.injEq, Prod.mk.injEq] at hr
        obtain ⟨rfl, rfl, rfl⟩ := hr
        refine ⟨by simp, fun he => ?_⟩
        simp [ht.1] at he
      | localInit =>
        simp only [hst] at hr
        split at hr
        · simp only [Option.some.injEq, Prod.mk.injEq] at hr
          obtain ⟨rfl, rfl, rfl⟩ := hr
          refine ⟨by simp, fun _ t' ht' => ?_⟩
          simp only [List.mem_cons] at ht'
          rcases ht' with rfl | ht'
          · refine ⟨ht.1, hmod _ ?_⟩
            simp only [RSym.capture]
            split <;> simp_all [symOk, isLocalState]
          · exact h t' (by simp [ht'])
        · simp only [Option.some.injEq, Prod.mk.injEq] at hr
          obtain ⟨rfl, rfl, rfl⟩ := hr
          exact ⟨rfl, fun _ => h⟩
      | localCaptured =>
        simp only [hst, Option.some.injEq, Prod.mk.injEq] at hr
        obtain ⟨rfl, rfl, rfl⟩ := hr
        refine ⟨by simp, fun _ t' ht' => ?_⟩
        simp only [List.mem_cons] at ht'
        rcases ht' with rfl | ht'
        · refine ⟨ht.1, hmod _ ?_⟩
          split <;> simp_all [symOk, isLocalState]
        · exact h t' (by simp [ht'])
      | moduleInit => have := hso.1; simp [hst, isLocalState] at this
      | alreadyInit => have := hso.1; simp [hst, isLocalState] at this
      | globalInit => have := hso.1; simp [hst, isLocalState] at this

theorem resolveVar_ok (rs : RS) (o : Nat) (x : Name) (h : ROk rs) :
    ROk (rs.resolveVar o x) ∧ Mono (rs.resolveVar o x) rs ∧ (rs.resolveVar o x).tables.length = rs.tables.length := by
  unfold RS.resolveVar
  cases hr : resolveIn rs.funDepth o x rs.tables with
  | some r =>
    obtain ⟨tables', err, ev⟩ := r
    simp only
    cases err with
    | true => exact ⟨fun he => by simp at he, fun he => by simp at he, resolveIn_len _ _ _ _ _ _ _ hr⟩
    | false =>
      refine ⟨fun he => ?_, fun he => by simpa using he, resolveIn_len _ _ _ _ _ _ _ hr⟩
      simp only [Bool.false_eq_true, if_false] at he
      exact (resolveIn_ok _ _ _ _ (h he) _ _ _ hr).2 rfl
  | none =>
    simp only
    split
    · exact ⟨fun he t ht => h he t ht, id, rfl⟩
    · split
      · exact ⟨fun he t ht => h he t ht, id, rfl⟩
      · exact ⟨fun he => by simp at he, fun he => by simp at he, rfl⟩

/-! ### the traversal -/

/-- entry of `function`: one function deeper, a new scope, slot 0, the parameters -/
def RS.enterFn (rs : RS) (kind : FunKind) (d0 : Nat) (ps : List Param) : RS :=
  (({ rs with funDepth := rs.funDepth + 1 }.beginScope).declareDefine d0 (slot0Name kind)).params ps

/-- exit of `function` -/
def RS.exitFn (rs : RS) : RS := { rs.endScope.2 with funDepth := rs.endScope.2.funDepth - 1 }

section eqns
variable (rs : RS)
theorem res_seq (a b : Tm) : res (.seq a b) rs = (.seq (res a rs).1 (res b (res a rs).2).1, (res b (res a rs).2).2) := rfl
theorem res_var (o : Nat) (x : Name) : res (.var o x) rs = (.var o x, rs.resolveVar o x) := rfl
theorem res_assign (o : Nat) (x : Name) (e : Tm) :
    res (.assign o x e) rs = (.assign o x (res e (rs.resolveVar o x)).1, (res e (rs.resolveVar o x)).2) := rfl
theorem res_op (k : OpKind) (a : Tm) : res (.op k a) rs = (.op k (res a rs).1, (res a rs).2) := rfl
theorem res_lam (t0 : Table) (d0 : Nat) (ps : List Param) (body : Tm) :
    res (.lam t0 d0 ps body) rs =
      (.lam (res body (rs.enterFn .fn d0 ps)).2.endScope.1 d0 ps (res body (rs.enterFn .fn d0 ps)).1,
       (res body (rs.enterFn .fn d0 ps)).2.exitFn) := rfl
theorem res_method (k : FunKind) (m : Name) (t0 : Table) (d0 : Nat) (ps : List Param) (body : Tm) :
    res (.method k m t0 d0 ps body) rs =
      (.method k m (res body (rs.enterFn k d0 ps)).2.endScope.1 d0 ps (res body (rs.enterFn k d0 ps)).1,
       (res body (rs.enterFn k d0 ps)).2.exitFn) := rfl
theorem res_let (d : Nat) (x : Name) (e : Tm) :
    res (.letS d x e) rs = (.letS d x (res e (rs.declare d x)).1, (res e (rs.declare d x)).2.define x) := rfl
theorem res_nilE : res .nilE rs = (.nilE, rs) := rfl
theorem res_letN (d : Nat) (x : Name) : res (.letN d x) rs = (.letN d x, (rs.declare d x).define x) := rfl
theorem res_fn (d : Nat) (f : Name) (t0 : Table) (d0 : Nat) (ps : List Param) (body : Tm) :
    res (.fnS d f t0 d0 ps body) rs =
      (.fnS d f (res body ((rs.declareDefine d f).enterFn .fn d0 ps)).2.endScope.1 d0 ps (res body ((rs.declareDefine d f).enterFn .fn d0 ps)).1,
       (res body ((rs.declareDefine d f).enterFn .fn d0 ps)).2.exitFn) := rfl
theorem res_if (c : Tm) (t1 : Table) (t : Tm) (t2 : Table) (e : Tm) :
    res (.ifS c t1 t t2 e) rs =
      (.ifS (res c rs).1 (res t (res c rs).2.beginScope).2.endScope.1 (res t (res c rs).2.beginScope).1
         (res e (res t (res c rs).2.beginScope).2.endScope.2.beginScope).2.endScope.1
         (res e (res t (res c rs).2.beginScope).2.endScope.2.beginScope).1,
       (res e (res t (res c rs).2.beginScope).2.endScope.2.beginScope).2.endScope.2) := rfl
theorem res_while (c : Tm) (t1 : Table) (b : Tm) :
    res (.whileS c t1 b) rs =
      (.whileS (res c rs).1 (res b (res c rs).2.beginScope).2.endScope.1 (res b (res c rs).2.beginScope).1,
       (res b (res c rs).2.beginScope).2.endScope.2) := rfl
theorem res_for (tF : Table) (dI d : Nat) (x : Name) (iter : Tm) (tB : Table) (b : Tm) :
    res (.forS tF dI d x iter tB b) rs =
      (.forS (res b (((res iter rs.beginScope).2.declareDefine dI ITER_VAR).declareDefine d x).beginScope).2.endScope.2.endScope.1 dI d x
         (res iter rs.beginScope).1
         (res b (((res iter rs.beginScope).2.declareDefine dI ITER_VAR).declareDefine d x).beginScope).2.endScope.1
         (res b (((res iter rs.beginScope).2.declareDefine dI ITER_VAR).declareDefine d x).beginScope).1,
       (res b (((res iter rs.beginScope).2.declareDefine dI ITER_VAR).declareDefine d x).beginScope).2.endScope.2.endScope.2) := rfl
theorem res_try (tB : Table) (b : Tm) (tC : Table) (d : Nat) (x : Name) (o : Nat) (cn : Name) (tCB : Table) (c : Tm) :
    res (.tryS tB b tC d x o cn tCB c) rs =
      (.tryS (res b rs.beginScope).2.endScope.1 (res b rs.beginScope).1
         (res c (((res b rs.beginScope).2.endScope.2.beginScope.resolveVar o cn).declareDefine d x).beginScope).2.endScope.2.endScope.1
         d x o cn
         (res c (((res b rs.beginScope).2.endScope.2.beginScope.resolveVar o cn).declareDefine d x).beginScope).2.endScope.1
         (res c (((res b rs.beginScope).2.endScope.2.beginScope.resolveVar o cn).declareDefine d x).beginScope).1,
       (res c (((res b rs.beginScope).2.endScope.2.beginScope.resolveVar o cn).declareDefine d x).beginScope).2.endScope.2.endScope.2) := rfl
theorem res_class (d : Nat) (c : Name) (oSup : Nat) (sup : Name) (oName : Nat) (t0 : Table) (dSuper : Nat) (ms : Tm) :
    res (.classS d c oSup sup oName t0 dSuper ms) rs =
      (.classS d c oSup sup oName
         (res ms ((((rs.declareDefine d c).resolveVar oSup sup).beginScope.declareDefine dSuper SUPER).resolveVar oName c)).2.endScope.1
         dSuper
         (res ms ((((rs.declareDefine d c).resolveVar oSup sup).beginScope.declareDefine dSuper SUPER).resolveVar oName c)).1,
       (res ms ((((rs.declareDefine d c).resolveVar oSup sup).beginScope.declareDefine dSuper SUPER).resolveVar oName c)).2.endScope.2) := rfl
end eqns

/-- a balanced piece of the traversal: invariant kept, errors only added, same number of open tables -/
def RStep (rs' rs : RS) : Prop := ROk rs' ∧ Mono rs' rs ∧ rs'.tables.length = rs.tables.length

theorem RStep.refl {rs : RS} (h : ROk rs) : RStep rs rs := ⟨h, id, rfl⟩
theorem RStep.trans {a b c : RS} (h1 : RStep a b) (h2 : RStep b c) : RStep a c :=
  ⟨h1.1, h1.2.1.trans h2.2.1, h1.2.2.trans h2.2.2⟩

def ResIH (t : Tm) : Prop :=
  ∀ rs, namesOk t = true → ROk rs → RStep (res t rs).2 rs ∧ ((res t rs).2.errors = [] → treeOk (res t rs).1 = true)

theorem endScope_errors (rs : RS) : rs.endScope.2.errors = rs.errors := by
  unfold RS.endScope; split <;> rfl

/-- a block in a scope of its own -/
theorem res_scope {b : Tm} (ih : ResIH b) (hb : namesOk b = true) {rs1 : RS} (h1 : ROk rs1) :
    RStep (res b rs1.beginScope).2.endScope.2 rs1 ∧
    ((res b rs1.beginScope).2.endScope.2.errors = [] →
      tblLocal (res b rs1.beginScope).2.endScope.1 = true ∧ treeOk (res b rs1.beginScope).1 = true) := by
  obtain ⟨b1, m1, l1⟩ := beginScope_ok rs1 h1
  obtain ⟨⟨b2, m2, l2⟩, t2⟩ := ih _ hb b1
  have hne : (res b rs1.beginScope).2.tables ≠ [] := by
    intro hh; rw [hh] at l2; simp at l2; omega
  obtain ⟨b3, m3, l3, t3⟩ := endScope_ok _ b2 hne
  refine ⟨⟨b3, m3.trans (m2.trans m1), by omega⟩, fun he => ?_⟩
  rw [endScope_errors] at he
  exact ⟨t3 he, t2 he⟩

/-- a function body -/
theorem res_function {body : Tm} (ih : ResIH body) (hb : namesOk body = true) (kind : FunKind) (d0 : Nat) (ps : List Param)
    {rs1 : RS} (h1 : ROk rs1) :
    RStep (res body (rs1.enterFn kind d0 ps)).2.exitFn rs1 ∧
    ((res body (rs1.enterFn kind d0 ps)).2.exitFn.errors = [] →
      tblLocal (res body (rs1.enterFn kind d0 ps)).2.endScope.1 = true ∧ treeOk (res body (rs1.enterFn kind d0 ps)).1 = true) := by
  have h0 : ROk { rs1 with funDepth := rs1.funDepth + 1 } := fun he => h1 he
  obtain ⟨b1, m1, l1⟩ := beginScope_ok _ h0
  obtain ⟨b1', m1', l1'⟩ := declareDefine_ok _ d0 (slot0Name kind) b1
  obtain ⟨b1'', m1'', l1''⟩ := params_ok _ ps b1'
  obtain ⟨⟨b2, m2, l2⟩, t2⟩ := ih (rs1.enterFn kind d0 ps) hb b1''
  have hlen : (res body (rs1.enterFn kind d0 ps)).2.tables.length = rs1.tables.length + 1 := by
    rw [l2]; unfold RS.enterFn; rw [l1'', l1', l1]
  have hne : (res body (rs1.enterFn kind d0 ps)).2.tables ≠ [] := by
    intro hh; rw [hh] at hlen; simp at hlen
  obtain ⟨b3, m3, l3, t3⟩ := endScope_ok _ b2 hne
  have mall : Mono (res body (rs1.enterFn kind d0 ps)).2 rs1 := fun he => m1 (m1' (m1'' (m2 he)))
  refine ⟨⟨fun he => b3 he, fun he => mall (m3 he), ?_⟩, fun he => ?_⟩
  · show (res body (rs1.enterFn kind d0 ps)).2.endScope.2.tables.length = rs1.tables.length
    omega
  · have he' : (res body (rs1.enterFn kind d0 ps)).2.errors = [] := by
      have : (res body (rs1.enterFn kind d0 ps)).2.exitFn.errors = (res body (rs1.enterFn kind d0 ps)).2.endScope.2.errors := rfl
      rw [this, endScope_errors] at he; exact he
    exact ⟨t3 he', t2 he'⟩

theorem res_inv (t : Tm) : ResIH t := by
  induction t with
  | nil => intro rs _ h; exact ⟨RStep.refl h, fun _ => rfl⟩
  | lit n => intro rs _ h; exact ⟨RStep.refl h, fun _ => rfl⟩
  | str s => intro rs _ h; exact ⟨RStep.refl h, fun _ => rfl⟩
  | nilE => intro rs _ h; exact ⟨RStep.refl h, fun _ => rfl⟩
  | letN d x =>
    intro rs _ h
    rw [res_letN]
    have s1 : RStep (rs.declare d x) rs := declare_ok rs d x h
    have s2 : RStep ((rs.declare d x).define x) (rs.declare d x) := define_ok _ x s1.1
    exact ⟨s2.trans s1, fun _ => rfl⟩
  | seq a b iha ihb =>
    intro rs hn h
    simp only [namesOk, Bool.and_eq_true] at hn
    rw [res_seq]
    obtain ⟨s1, t1⟩ := iha rs hn.1 h
    obtain ⟨s2, t2⟩ := ihb _ hn.2 s1.1
    refine ⟨s2.trans s1, fun he => ?_⟩
    simp only [treeOk, Bool.and_eq_true]
    exact ⟨t1 (s2.2.1 he), t2 he⟩
  | var o x =>
    intro rs hn h
    simp only [namesOk] at hn
    rw [res_var]
    exact ⟨resolveVar_ok rs o x h, fun _ => by simpa [treeOk] using hn⟩
  | assign o x e ih =>
    intro rs hn h
    simp only [namesOk, Bool.and_eq_true] at hn
    rw [res_assign]
    have s1 : RStep (rs.resolveVar o x) rs := resolveVar_ok rs o x h
    obtain ⟨s2, t2⟩ := ih _ hn.2 s1.1
    refine ⟨s2.trans s1, fun he => ?_⟩
    simp only [treeOk, Bool.and_eq_true]
    exact ⟨hn.1, t2 he⟩
  | op k a ih =>
    intro rs hn h
    simp only [namesOk] at hn
    rw [res_op]
    obtain ⟨s1, t1⟩ := ih rs hn h
    exact ⟨s1, fun he => by simpa [treeOk] using t1 he⟩
  | lam t0 d0 ps body ih =>
    intro rs hn h
    simp only [namesOk] at hn
    rw [res_lam]
    obtain ⟨s1, t1⟩ := res_function ih hn .fn d0 ps h
    refine ⟨s1, fun he => ?_⟩
    simp only [treeOk, Bool.and_eq_true]
    exact t1 he
  | method k m t0 d0 ps body ih =>
    intro rs hn h
    simp only [namesOk] at hn
    rw [res_method]
    obtain ⟨s1, t1⟩ := res_function ih hn k d0 ps h
    refine ⟨s1, fun he => ?_⟩
    simp only [treeOk, Bool.and_eq_true]
    exact t1 he
  | letS d x e ih =>
    intro rs hn h
    simp only [namesOk] at hn
    rw [res_let]
    have s1 : RStep (rs.declare d x) rs := declare_ok rs d x h
    obtain ⟨s2, t2⟩ := ih _ hn s1.1
    have s3 : RStep ((res e (rs.declare d x)).2.define x) (res e (rs.declare d x)).2 := define_ok _ x s2.1
    refine ⟨s3.trans (s2.trans s1), fun he => ?_⟩
    simp only [treeOk]
    exact t2 (s3.2.1 he)
  | fnS d f t0 d0 ps body ih =>
    intro rs hn h
    simp only [namesOk] at hn
    rw [res_fn]
    have s1 : RStep (rs.declareDefine d f) rs := declareDefine_ok rs d f h
    obtain ⟨s2, t2⟩ := res_function ih hn .fn d0 ps s1.1
    refine ⟨s2.trans s1, fun he => ?_⟩
    simp only [treeOk, Bool.and_eq_true]
    exact t2 he
  | ifS c t1 t t2 e ihc iht ihe =>
    intro rs hn h
    simp only [namesOk, Bool.and_eq_true] at hn
    obtain ⟨⟨hc, ht⟩, he'⟩ := hn
    rw [res_if]
    obtain ⟨s1, r1⟩ := ihc rs hc h
    obtain ⟨s2, r2⟩ := res_scope iht ht s1.1
    obtain ⟨s3, r3⟩ := res_scope ihe he' s2.1
    refine ⟨s3.trans (s2.trans s1), fun he => ?_⟩
    simp only [treeOk, Bool.and_eq_true]
    have e2 := s3.2.1 he
    have e1 := s2.2.1 e2
    exact ⟨⟨⟨⟨r1 e1, (r2 e2).1⟩, (r2 e2).2⟩, (r3 he).1⟩, (r3 he).2⟩
  | whileS c t1 b ihc ihb =>
    intro rs hn h
    simp only [namesOk, Bool.and_eq_true] at hn
    rw [res_while]
    obtain ⟨s1, r1⟩ := ihc rs hn.1 h
    obtain ⟨s2, r2⟩ := res_scope ihb hn.2 s1.1
    refine ⟨s2.trans s1, fun he => ?_⟩
    simp only [treeOk, Bool.and_eq_true]
    exact ⟨⟨r1 (s2.2.1 he), (r2 he).1⟩, (r2 he).2⟩
  | forS tF dI d x iter tB b ihi ihb =>
    intro rs hn h
    simp only [namesOk, Bool.and_eq_true] at hn
    rw [res_for]
    obtain ⟨b0, m0, l0⟩ := beginScope_ok rs h
    obtain ⟨s1, r1⟩ := ihi _ hn.1 b0
    obtain ⟨b2, m2, l2⟩ := declareDefine_ok _ dI ITER_VAR s1.1
    obtain ⟨b3, m3, l3⟩ := declareDefine_ok _ d x b2
    obtain ⟨s4, r4⟩ := res_scope ihb hn.2 b3
    have hlen : (res b (((res iter rs.beginScope).2.declareDefine dI ITER_VAR).declareDefine d x).beginScope).2.endScope.2.tables.length = rs.tables.length + 1 := by
      rw [s4.2.2, l3, l2, s1.2.2, l0]
    have hne : (res b (((res iter rs.beginScope).2.declareDefine dI ITER_VAR).declareDefine d x).beginScope).2.endScope.2.tables ≠ [] := by
      intro hh; rw [hh] at hlen; simp at hlen
    obtain ⟨b5, m5, l5, t5⟩ := endScope_ok _ s4.1 hne
    refine ⟨⟨b5, fun he => m0 (s1.2.1 (m2 (m3 (s4.2.1 (m5 he))))), by dsimp only; omega⟩, fun he => ?_⟩
    rw [endScope_errors] at he
    simp only [treeOk, Bool.and_eq_true]
    exact ⟨⟨⟨t5 he, r1 (m2 (m3 (s4.2.1 he)))⟩, (r4 he).1⟩, (r4 he).2⟩
  | tryS tB b tC d x o cn tCB c ihb ihc =>
    intro rs hn h
    simp only [namesOk, Bool.and_eq_true] at hn
    obtain ⟨⟨hb, hcn⟩, hc⟩ := hn
    rw [res_try]
    obtain ⟨s1, r1⟩ := res_scope ihb hb h
    obtain ⟨b2, m2, l2⟩ := beginScope_ok _ s1.1
    obtain ⟨b3, m3, l3⟩ := resolveVar_ok _ o cn b2
    obtain ⟨b4, m4, l4⟩ := declareDefine_ok _ d x b3
    obtain ⟨s5, r5⟩ := res_scope ihc hc b4
    have hlen : (res c (((res b rs.beginScope).2.endScope.2.beginScope.resolveVar o cn).declareDefine d x).beginScope).2.endScope.2.tables.length = rs.tables.length + 1 := by
      rw [s5.2.2, l4, l3, l2, s1.2.2]
    have hne : (res c (((res b rs.beginScope).2.endScope.2.beginScope.resolveVar o cn).declareDefine d x).beginScope).2.endScope.2.tables ≠ [] := by
      intro hh; rw [hh] at hlen; simp at hlen
    obtain ⟨b6, m6, l6, t6⟩ := endScope_ok _ s5.1 hne
    refine ⟨⟨b6, fun he => s1.2.1 (m2 (m3 (m4 (s5.2.1 (m6 he))))), by dsimp only; omega⟩, fun he => ?_⟩
    rw [endScope_errors] at he
    simp only [treeOk, Bool.and_eq_true]
    have e1 := m2 (m3 (m4 (s5.2.1 he)))
    exact ⟨⟨⟨⟨⟨(r1 e1).1, (r1 e1).2⟩, t6 he⟩, hcn⟩, (r5 he).1⟩, (r5 he).2⟩
  | classS d c oSup sup oName t0 dSuper ms ih =>
    intro rs hn h
    simp only [namesOk, Bool.and_eq_true] at hn
    obtain ⟨⟨hsup, hc⟩, hms⟩ := hn
    rw [res_class]
    obtain ⟨b1, m1, l1⟩ := declareDefine_ok rs d c h
    obtain ⟨b2, m2, l2⟩ := resolveVar_ok _ oSup sup b1
    obtain ⟨b3, m3, l3⟩ := beginScope_ok _ b2
    obtain ⟨b4, m4, l4⟩ := declareDefine_ok _ dSuper SUPER b3
    obtain ⟨b5, m5, l5⟩ := resolveVar_ok _ oName c b4
    obtain ⟨s6, r6⟩ := ih _ hms b5
    have hlen : (res ms ((((rs.declareDefine d c).resolveVar oSup sup).beginScope.declareDefine dSuper SUPER).resolveVar oName c)).2.tables.length = rs.tables.length + 1 := by
      rw [s6.2.2, l5, l4, l3, l2, l1]
    have hne : (res ms ((((rs.declareDefine d c).resolveVar oSup sup).beginScope.declareDefine dSuper SUPER).resolveVar oName c)).2.tables ≠ [] := by
      intro hh; rw [hh] at hlen; simp at hlen
    obtain ⟨b7, m7, l7, t7⟩ := endScope_ok _ s6.1 hne
    refine ⟨⟨b7, fun he => m1 (m2 (m3 (m4 (m5 (s6.2.1 (m7 he)))))), by dsimp only; omega⟩, fun he => ?_⟩
    rw [endScope_errors] at he
    simp only [treeOk, Bool.and_eq_true]
    exact ⟨⟨⟨hsup, hc⟩, t7 he⟩, r6 he⟩

theorem start_ok (p : Tm) : ROk (RS.start p) := by
  have h : ∀ (l : List (Nat × Name)) (rs : RS), rs.tables = [] → (rs.declareModule l).tables = [] := by
    intro l
    induction l with
    | nil => intro rs h; exact h
    | cons a l ih =>
      intro rs h
      obtain ⟨d, x⟩ := a
      simp only [RS.declareModule]
      apply ih
      unfold RS.addSymbol
      simp only [h]
      split <;> rfl
  have h0 : (RS.start p).tables = [] := by
    unfold RS.start
    apply h
    simp [RS.addSymbol, RS.define, Table.getAny]
  intro _ t ht
  simp [h0] at ht

theorem resolve_treeOk (p : Tm) (hn : namesOk p = true) (he : (resolve p).errors = []) :
    treeOk (resolve p).tree = true := by
  obtain ⟨s1, t1⟩ := res_inv p (RS.start p) hn (start_ok p)
  apply t1
  have : (resolve p).errors = (res p (RS.start p)).2.endScope.2.errors := rfl
  rw [this, endScope_errors] at he
  exact he

end LaytheVerif.Scope
