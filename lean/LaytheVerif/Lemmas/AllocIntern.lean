/- The intern table: keys are contents of owned string objects, no two entries share a key, and
every reachable string is in the table — an invariant of every history. -/
import LaytheVerif.Lemmas.AllocOps
namespace LaytheVerif.Alloc

def strOf (a : A) (x : Nat) : Option String := (a.objs[x]?).bind (·.str)

structure SInv (a : A) (R : List Nat) : Prop where
  tableOwned : ∀ p ∈ a.intern, p.2 ∈ a.owned
  tableStr : ∀ p ∈ a.intern, strOf a p.2 = some p.1
  strLeaf : ∀ x s, strOf a x = some s → a.edges x = []
  keysNodup : (a.intern.map (·.1)).Nodup
  liveInTable : ∀ x s, Reach a (R ++ a.temp) x → strOf a x = some s → (s, x) ∈ a.intern

theorem nodup_keys_unique {l : List (String × Nat)} (h : (l.map (·.1)).Nodup) {s : String} {x y : Nat}
    (hx : (s, x) ∈ l) (hy : (s, y) ∈ l) : x = y := by
  induction l with
  | nil => simp at hx
  | cons p l ih =>
    simp only [List.map_cons, List.nodup_cons] at h
    simp only [List.mem_cons] at hx hy
    rcases hx with hx | hx <;> rcases hy with hy | hy
    · rw [← hx] at hy; exact (Prod.mk.inj hy).2.symm
    · exfalso; apply h.1; rw [← hx]; exact List.mem_map.mpr ⟨(s, y), hy, rfl⟩
    · exfalso; apply h.1; rw [← hy]; exact List.mem_map.mpr ⟨(s, x), hx, rfl⟩
    · exact ih h.2 hx hy

/-- **canonical**: two reachable strings with the same content are the same object. -/
theorem sinv_canonical {a : A} {R : List Nat} (h : SInv a R) {x y : Nat} {s : String}
    (hx : Reach a (R ++ a.temp) x) (hy : Reach a (R ++ a.temp) y)
    (sx : strOf a x = some s) (sy : strOf a y = some s) : x = y :=
  nodup_keys_unique h.keysNodup (h.liveInTable x s hx sx) (h.liveInTable y s hy sy)

theorem collect_intern (a : A) (R : List Nat) (f : Option Bool) :
    (a.collect R f).intern = a.intern.filter fun p => (a.marked R).contains p.2 := rfl

theorem collectWith_sinv (a : A) (R extra : List Nat) (f : Option Bool) (hs : SInv a R) :
    SInv (a.collectWith R extra f) R := by
  let a' : A := { a with temp := a.temp ++ extra }
  have hint : (a.collectWith R extra f).intern = a.intern.filter fun p => (a'.marked R).contains p.2 := rfl
  have hobjs : (a.collectWith R extra f).objs = a.objs := rfl
  have hstr : ∀ x, strOf (a.collectWith R extra f) x = strOf a x := fun _ => rfl
  have hedges : ∀ x, (a.collectWith R extra f).edges x = a.edges x := fun _ => rfl
  have hreach : ∀ x, Reach (a.collectWith R extra f) (R ++ (a.collectWith R extra f).temp) x → Reach a (R ++ a.temp) x :=
    fun x hx => reach_of_edges_eq (a := a) (b := a.collectWith R extra f) (fun _ => rfl) hx
  have hup : ∀ x, Reach a (R ++ a.temp) x → Reach a' (R ++ a'.temp) x := fun x hx =>
    reach_of_edges_eq (a := a') (b := a) (fun _ => rfl)
      (reach_mono (fun r hr => by simp only [List.mem_append] at hr ⊢; rcases hr with h | h <;> simp [h, a']) hx)
  constructor
  · intro p hp
    rw [hint, List.mem_filter, List.contains_iff_mem] at hp
    have hm : Reach a' (R ++ a'.temp) p.2 := (marked_iff_reach a' R p.2).mp hp.2
    have ho : p.2 ∈ a'.owned := hs.tableOwned p hp.1
    exact (collect_preserves_reachable a' R f p.2 hm ho).1
  · intro p hp
    rw [hint, List.mem_filter] at hp
    rw [hstr]; exact hs.tableStr p hp.1
  · intro x s hx; rw [hstr] at hx; rw [hedges]; exact hs.strLeaf x s hx
  · rw [hint]
    exact hs.keysNodup.sublist ((List.filter_sublist (l := a.intern)).map _)
  · intro x s hx sx
    rw [hstr] at sx
    have hr := hreach x hx
    rw [hint, List.mem_filter, List.contains_iff_mem]
    exact ⟨hs.liveInTable x s hr sx, (marked_iff_reach a' R x).mpr (hup x hr)⟩

theorem strOf_allocNoGc_old (a : A) (o : Obj) (x : Nat) (hx : x < a.objs.length) :
    strOf (a.allocNoGc o) x = strOf a x := by
  simp [strOf, A.allocNoGc, List.getElem?_append_left hx]

theorem strOf_allocNoGc_new (a : A) (o : Obj) : strOf (a.allocNoGc o) a.objs.length = o.str := by
  simp [strOf, A.allocNoGc]

theorem strOf_lt {a : A} {x : Nat} {s : String} (h : strOf a x = some s) : x < a.objs.length := by
  unfold strOf at h
  cases hx : a.objs[x]? with
  | none => simp [hx] at h
  | some o => exact (List.getElem?_eq_some_iff.mp hx).1

/-- Allocating an object (a non-string, or a string whose content is not yet a key and which is
about to be entered) keeps the string invariant. -/
theorem allocNoGc_sinv (a : A) (o : Obj) (R : List Nat) (hi : Inv a R) (hs : SInv a R)
    (ho : o.str = none ∨ o.edges = []) : SInv (a.allocNoGc o) R := by
  have hint : (a.allocNoGc o).intern = a.intern := rfl
  constructor
  · intro p hp
    exact (mem_owned_allocNoGc a o p.2).mpr (Or.inl (hs.tableOwned p hp))
  · intro p hp
    have := hs.tableStr p hp
    rw [strOf_allocNoGc_old a o p.2 (strOf_lt this)]; exact this
  · intro x s hx
    by_cases hlt : x < a.objs.length
    · rw [strOf_allocNoGc_old a o x hlt] at hx
      rw [allocNoGc_edges_old a o x hlt]; exact hs.strLeaf x s hx
    · have hx2 := strOf_lt hx
      have : x = a.objs.length := by simp [A.allocNoGc] at hx2; omega
      subst this
      rw [strOf_allocNoGc_new] at hx
      rw [allocNoGc_edges_new]
      rcases ho with h | h
      · rw [h] at hx; cases hx
      · exact h
  · exact hs.keysNodup
  · intro x s hx sx
    have hr := allocNoGc_reach a o R hi x hx
    have hlt : x < a.objs.length := hi.2 x (hi.1 x hr)
    rw [strOf_allocNoGc_old a o x hlt] at sx
    exact hs.liveInTable x s hr sx

theorem alloc_sinv (a : A) (o : Obj) (R : List Nat) (hit : Bool) (hi : Inv a R) (hs : SInv a R)
    (ho : o.str = none ∨ o.edges = []) : SInv (a.alloc o R hit).1 R := by
  rw [(alloc_eq a o R hit).1]
  have h1 := allocNoGc_sinv a o R hi hs ho
  simp only
  split
  · split
    · exact collectWith_sinv _ R _ none (collectWith_sinv _ R _ none h1)
    · exact collectWith_sinv _ R _ none h1
  · split
    · exact collectWith_sinv _ R _ none h1
    · exact h1

theorem alloc_intern_sub (a : A) (o : Obj) (R : List Nat) (hit : Bool) :
    ∀ p ∈ (a.alloc o R hit).1.intern, p ∈ a.intern := by
  have key : ∀ (b : A) (e : List Nat), ∀ p ∈ (b.collectWith R e none).intern, p ∈ b.intern := by
    intro b e p hp
    have : (b.collectWith R e none).intern = b.intern.filter _ := rfl
    rw [this] at hp
    exact (List.mem_filter.mp hp).1
  rw [(alloc_eq a o R hit).1]
  simp only
  split
  · split
    · intro p hp
      have h1 := key ((a.allocNoGc o).collectWith R [a.objs.length] none) _ p hp
      exact key (a.allocNoGc o) _ p h1
    · intro p hp; exact key (a.allocNoGc o) _ p hp
  · split
    · intro p hp; exact key (a.allocNoGc o) _ p hp
    · intro p hp; exact hp

theorem alloc_strOf_new (a : A) (o : Obj) (R : List Nat) (hit : Bool) :
    strOf (a.alloc o R hit).1 a.objs.length = o.str := by
  have key : ∀ (b : A) (e : List Nat) x, strOf (b.collectWith R e none) x = strOf b x := fun _ _ _ => rfl
  rw [(alloc_eq a o R hit).1]
  simp only
  split <;> split <;> simp [key, strOf_allocNoGc_new]

end LaytheVerif.Alloc
