/-
Lemmas/ScopeChain.lean — the capture chain built by `resolve_capture` is sound, at any nesting depth.
Generic in what the slots hold (`α`): box references at run time, binder ids at compile time.
-/
import LaytheVerif.Model.Scope
namespace LaytheVerif.Scope

/-- What `op_closure` puts into the capture array of the innermost function of `chain`, when
`slots[k]` describes the frame of `chain[k]` at the moment the closure of `chain[k-1]` is created:
`Local s` reads slot `s` of the parent's frame, `Enclosing j` reads capture `j` of the parent's own
capture array (built the same way one level further out). -/
def capsOf {α : Type} [Inhabited α] : List Comp → List (Nat → α) → List α
  | f :: parent :: rest, _ :: ps :: srest =>
    f.captures.map (fun ci => match ci with
      | .loc s => ps s
      | .enc j => (capsOf (parent :: rest) (ps :: srest)).getD j default)
  | _, _ => []

/-- What the name denotes: the content of the slot of the nearest enclosing function level that
declares it (nothing when that is a module symbol: those are not captured). -/
def declSlot {α : Type} (mt : Table) : List Comp → List (Nat → α) → Name → Option α
  | _ :: parent :: rest, _ :: ps :: srest, x =>
    match parent.resolveLocal mt x with
    | some (s, sym, _) => if isModuleState sym.state then none else some (ps s)
    | none => declSlot mt (parent :: rest) (ps :: srest) x
  | _, _, _ => none

theorem findLoc_spec (cs : List CapIdx) (s i : Nat) (h : findLoc cs s = some i) : cs[i]? = some (.loc s) := by
  induction cs generalizing i with
  | nil => simp [findLoc] at h
  | cons c cs ih =>
    simp only [findLoc] at h
    split at h
    · next hc => cases h; simp [hc]
    · cases hf : findLoc cs s with
      | none => simp [hf] at h
      | some j => simp [hf] at h; subst h; simpa using ih j hf

theorem dedup_spec (cs : List CapIdx) (ci : CapIdx) (i : Nat) (h : dedup cs ci = some i) : cs[i]? = some ci := by
  cases ci with
  | loc s => exact findLoc_spec cs s i h
  | enc j => simp [dedup] at h

/-- `add_capture` only ever appends, and never touches the locals. -/
theorem addCapture_prefix (f : Comp) (ci : CapIdx) :
    ∃ ext, (f.addCapture ci).1.captures = f.captures ++ ext ∧ (f.addCapture ci).1.locals = f.locals ∧
      (f.addCapture ci).1.isScript = f.isScript := by
  unfold Comp.addCapture
  split
  · exact ⟨[], by simp⟩
  · split
    · exact ⟨[], by simp⟩
    · exact ⟨[ci], by simp⟩

/-- The index `add_capture` returns holds the requested capture (unless the 255 bound fired). -/
theorem addCapture_get (f : Comp) (ci : CapIdx) (hc : f.captureCount = f.captures.length)
    (hov : (f.addCapture ci).2.2 = false) :
    (f.addCapture ci).1.captures[(f.addCapture ci).2.1]? = some ci := by
  unfold Comp.addCapture at *
  split
  · next i hi => exact dedup_spec _ _ _ hi
  · split
    · next h1 h2 => simp [h1, h2] at hov
    · simp [hc]

theorem addCapture_count (f : Comp) (ci : CapIdx) (hc : f.captureCount = f.captures.length) :
    (f.addCapture ci).1.captureCount = (f.addCapture ci).1.captures.length := by
  unfold Comp.addCapture
  split
  · exact hc
  · split
    · exact hc
    · simp [hc]

theorem resolveLocal_addCapture (f : Comp) (ci : CapIdx) (mt : Table) (x : Name) :
    (f.addCapture ci).1.resolveLocal mt x = f.resolveLocal mt x := by
  obtain ⟨_, _, h2, h3⟩ := addCapture_prefix f ci
  simp [Comp.resolveLocal, h2, h3]

def CountOk (chain : List Comp) : Prop := ∀ c ∈ chain, c.captureCount = c.captures.length

/-- resolution keeps the length of the chain, appends captures level by level and never touches locals -/
theorem resolveCapture_shape (mt : Table) (chain : List Comp) (x : Name) :
    ∀ chain' idx sym d ovf, resolveCapture mt chain x = some (chain', idx, sym, d, ovf) →
    chain'.length = chain.length ∧
    (CountOk chain → CountOk chain') ∧
    ∀ k, ∃ ext, (chain'.getD k {}).captures = (chain.getD k {}).captures ++ ext ∧
               (chain'.getD k {}).locals = (chain.getD k {}).locals ∧
               (chain'.getD k {}).isScript = (chain.getD k {}).isScript := by
  fun_induction resolveCapture mt chain x with
  | case1 f parent rest x s sym d hs hm =>
    intro chain' idx sym' d' ovf h
    simp at h; obtain ⟨rfl, -, -, -, -⟩ := h
    exact ⟨rfl, id, fun k => ⟨[], by simp⟩⟩
  | case2 f parent rest x s sym d hs hm r =>
    intro chain' idx sym' d' ovf h
    simp at h; obtain ⟨rfl, -, -, -, -⟩ := h
    refine ⟨by simp, ?_, fun k => ?_⟩
    · intro hc c hcm
      simp at hcm
      rcases hcm with rfl | rfl | hcm
      · exact addCapture_count f _ (hc f (by simp))
      · exact hc _ (by simp)
      · exact hc c (by simp [hcm])
    · cases k with
      | zero => simpa using addCapture_prefix f (.loc s)
      | succ k => exact ⟨[], by simp⟩
  | case3 f parent rest x hn chain2 j sym d ovf hr hm ih =>
    intro chain' idx sym' d' ovf' h
    simp at h; obtain ⟨rfl, -, -, -, -⟩ := h
    obtain ⟨hl, hcnt, hk⟩ := ih chain2 j sym d ovf hr
    refine ⟨by simp [hl], ?_, fun k => ?_⟩
    · intro hc c hcm
      simp at hcm
      rcases hcm with rfl | hcm
      · exact hc c (by simp)
      · exact hcnt (fun c hc' => hc c (by simp [hc'])) c hcm
    · cases k with
      | zero => exact ⟨[], by simp⟩
      | succ k => simpa using hk k
  | case4 f parent rest x hn chain2 j sym d ovf hr hm r ih =>
    intro chain' idx sym' d' ovf' h
    simp at h; obtain ⟨rfl, -, -, -, -⟩ := h
    obtain ⟨hl, hcnt, hk⟩ := ih chain2 j sym d ovf hr
    refine ⟨by simp [hl], ?_, fun k => ?_⟩
    · intro hc c hcm
      simp at hcm
      rcases hcm with rfl | hcm
      · exact addCapture_count f _ (hc f (by simp))
      · exact hcnt (fun c hc' => hc c (by simp [hc'])) c hcm
    · cases k with
      | zero => simpa using addCapture_prefix f (.enc j)
      | succ k => simpa using hk k
  | case5 f parent rest x hn hr => intro chain' idx sym d ovf h; simp at h
  | case6 chain x hne => intro chain' idx sym d ovf h; simp at h

theorem capsOf_get {α : Type} [Inhabited α] (f parent : Comp) (rest : List Comp) (s0 ps : Nat → α)
    (srest : List (Nat → α)) (i : Nat) (ci : CapIdx) (h : f.captures[i]? = some ci) :
    (capsOf (f :: parent :: rest) (s0 :: ps :: srest))[i]? = some (match ci with
      | .loc s => ps s
      | .enc j => (capsOf (parent :: rest) (ps :: srest)).getD j default) := by
  simp only [capsOf, List.getElem?_map, h, Option.map_some]
  cases ci <;> rfl

/-- The symbol `resolve_capture` reports is the one `resolve_local` finds at the nearest enclosing
level that knows the name. -/
theorem chain_sound {α : Type} [Inhabited α] (mt : Table) (chain : List Comp) (x : Name) :
    ∀ chain' idx sym d ovf (slots : List (Nat → α)),
      resolveCapture mt chain x = some (chain', idx, sym, d, ovf) → ovf = false →
      isModuleState sym.state = false → CountOk chain → slots.length = chain.length →
      (capsOf chain' slots)[idx]? = declSlot mt chain slots x ∧ (declSlot mt chain slots x).isSome := by
  fun_induction resolveCapture mt chain x with
  | case1 f parent rest x s sym d hs hm =>
    intro chain' idx sym' d' ovf slots h _ hms
    simp at h; obtain ⟨-, -, rfl, -, -⟩ := h
    simp [hm] at hms
  | case2 f parent rest x s sym d hs hm r =>
    intro chain' idx sym' d' ovf slots h hov hms hc hl
    simp at h; obtain ⟨rfl, rfl, rfl, rfl, rfl⟩ := h
    match slots, hl with
    | s0 :: ps :: srest, _ =>
      have hg := addCapture_get f (.loc s) (hc f (by simp)) hov
      rw [capsOf_get _ _ _ _ _ _ _ _ hg]
      simp [declSlot, hs, hms]
  | case3 f parent rest x hn chain2 j sym d ovf hr hm ih =>
    intro chain' idx sym' d' ovf' slots h _ hms
    simp at h; obtain ⟨-, -, rfl, -, -⟩ := h
    simp [hm] at hms
  | case4 f parent rest x hn chain2 j sym d ovf hr hm r ih =>
    intro chain' idx sym' d' ovf' slots h hov hms hc hl
    simp at h; obtain ⟨rfl, rfl, rfl, rfl, rfl⟩ := h
    simp at hov
    match slots, hl with
    | s0 :: ps :: srest, hl =>
      obtain ⟨ih1, ih2⟩ := ih chain2 j sym d ovf (ps :: srest) hr hov.1 hms
        (fun c hc' => hc c (by simp [hc'])) (by simpa using hl)
      have hshape := (resolveCapture_shape mt (parent :: rest) x chain2 j sym d ovf hr).1
      match chain2, hshape with
      | p2 :: r2, _ =>
        have hg := addCapture_get f (.enc j) (hc f (by simp)) hov.2
        rw [capsOf_get _ _ _ _ _ _ _ _ hg]
        simp only [declSlot, hn]
        cases hd : declSlot mt (parent :: rest) (ps :: srest) x with
        | none => simp [hd] at ih2
        | some b =>
          rw [hd] at ih1
          simp [List.getD, ih1]
  | case5 f parent rest x hn hr => intro chain' idx sym d ovf slots h; simp at h
  | case6 chain x hne => intro chain' idx sym d ovf slots h; simp at h

end LaytheVerif.Scope
