/-
Helper lemmas for C17: the package tree as a finite map, effect of each kind of statement on the
control skeleton (frames, module positions/files/done flags, cache, trace), and the characterisation
of `importModule` (for import paths of any length).
-/
import LaytheVerif.Model.Imports
namespace LaytheVerif.Imports

/-! ### the tree as a finite map -/

/-- skeleton of the module at tree position `p`: (file it was loaded from, body completed) -/
def info (mods : List ModSt) (p : Path) : Option (Path × Bool) :=
  (getMod mods p).map fun m => (m.file, m.done)

theorem getMod_pos {mods : List ModSt} {p : Path} {m : ModSt} (h : getMod mods p = some m) : m.pos = p := by
  unfold getMod at h
  have := List.find?_some h
  simpa using this

theorem hasMod_info (mods : List ModSt) (p : Path) : hasMod mods p = (info mods p).isSome := by
  simp [hasMod, info]

theorem getMod_updMod (mods : List ModSt) (p q : Path) (f : ModSt → ModSt) (hf : ∀ m, (f m).pos = m.pos) :
    getMod (updMod mods q f) p = (getMod mods p).map (fun m => if m.pos = q then f m else m) := by
  have hF : ((fun m : ModSt => m.pos == p) ∘ fun m => if m.pos = q then f m else m) = fun m => m.pos == p := by
    funext m; simp only [Function.comp]; split <;> simp [hf]
  simp [getMod, updMod, List.find?_map, hF]

theorem info_updMod (mods : List ModSt) (q : Path) (f : ModSt → ModSt)
    (hf : ∀ m, (f m).pos = m.pos ∧ (f m).file = m.file ∧ (f m).done = m.done) :
    info (updMod mods q f) = info mods := by
  funext p
  simp only [info, getMod_updMod mods p q f (fun m => (hf m).1), Option.map_map]
  cases getMod mods p with
  | none => rfl
  | some m =>
    simp only [Option.map_some, Function.comp]
    split <;> simp [hf]

theorem setSym_skel (m : ModSt) (n : String) (b : Binding) :
    (m.setSym n b).pos = m.pos ∧ (m.setSym n b).file = m.file ∧ (m.setSym n b).done = m.done := by
  simp [ModSt.setSym]

theorem getMod_append (mods : List ModSt) (n : ModSt) (p : Path) :
    getMod (mods ++ [n]) p = (getMod mods p).or (if n.pos = p then some n else none) := by
  simp only [getMod, List.find?_append]
  cases List.find? (fun m => m.pos == p) mods <;> simp [List.find?_cons]
  split <;> simp_all

theorem info_append (mods : List ModSt) (n : ModSt) (p : Path) :
    info (mods ++ [n]) p = (info mods p).or (if n.pos = p then some (n.file, n.done) else none) := by
  simp only [info, getMod_append]
  cases getMod mods p <;> simp

/-! ### effect of statements on the skeleton -/

def Stmt.isImport : Stmt → Bool
  | .importWhole _ _ => true
  | .importSym _ _ _ => true
  | _ => false

theorem setBody_frames (s : St) (fr : Frame) (rest : List Frame) (more : List Stmt) (h : s.frames = fr :: rest) :
    (s.setBody more).frames = { fr with body := more } :: rest ∧ (s.setBody more).mods = s.mods ∧
    (s.setBody more).cache = s.cache ∧ (s.setBody more).log = s.log ∧ (s.setBody more).out = s.out ∧
    (s.setBody more).status = s.status := by
  simp [St.setBody, h]

theorem showVal_eff (s : St) (tag : String) (v : Val) :
    (showVal s tag v).frames = s.frames ∧ info (showVal s tag v).mods = info s.mods ∧
    (showVal s tag v).cache = s.cache ∧ (showVal s tag v).log = s.log := by
  cases v with
  | const k n => simp [showVal]
  | acc home target =>
    simp only [showVal]
    repeat' split
    all_goals simp [St.fail]
    all_goals exact info_updMod _ _ _ (fun m => setSym_skel m _ _)

/-- A statement that is not an import leaves tree skeleton, cache and trace alone and either keeps
the frames (error) or advances the running fiber. -/
theorem execStmt_local (g : Graph) (s : St) (me : ModSt) (st : Stmt) (more : List Stmt)
    (hl : st.isImport = false) :
    info (execStmt g s me st more).mods = info s.mods ∧ (execStmt g s me st more).cache = s.cache ∧
    (execStmt g s me st more).log = s.log ∧
    ((execStmt g s me st more).frames = s.frames ∨ (execStmt g s me st more).frames = (s.setBody more).frames) := by
  have hsb : ∀ more, (s.setBody more).mods = s.mods ∧ (s.setBody more).cache = s.cache ∧ (s.setBody more).log = s.log := by
    intro more; unfold St.setBody; split <;> simp
  have hupd : ∀ (q : Path) (n : String) (b : Binding) (ex : ModSt → List String),
      info (updMod s.mods q (fun m => { m.setSym n b with exports := ex m })) = info s.mods :=
    fun q n b ex => info_updMod _ _ _ (fun m => by simp [ModSt.setSym])
  cases st with
  | mark str => simp [execStmt, hsb]
  | decl exported k name n =>
    simp only [execStmt]
    split
    · simp [St.fail]
    · simp [hsb, hupd]
  | declAcc exported name target =>
    simp only [execStmt]
    split
    · simp [St.fail]
    · simp [hsb, hupd]
  | assign name n =>
    simp only [execStmt]
    simp [hsb]
    exact info_updMod _ _ _ (fun m => setSym_skel m _ _)
  | importWhole p r => simp [Stmt.isImport] at hl
  | importSym p sy r => simp [Stmt.isImport] at hl
  | importSyms p syms => simp [execStmt, hsb]
  | importPkg pkg path name =>
    simp only [execStmt]
    split
    · simp [hsb]
      exact info_updMod _ _ _ (fun m => setSym_skel m _ _)
    · split
      · simp [St.fail]
      · simp [hsb]
        exact info_updMod _ _ _ (fun m => setSym_skel m _ _)
    · simp [St.fail]
  | emit tag e =>
    cases e with
    | sym name =>
      simp only [execStmt]
      split
      · obtain ⟨h1, h2, h3, h4⟩ := showVal_eff (s.setBody more) tag ‹Val›
        simp [h1, h2, h3, h4, hsb]
      · simp [hsb]
      · simp [St.fail]
      · simp [St.fail]
    | field o name =>
      simp only [execStmt]
      split
      · split
        · obtain ⟨h1, h2, h3, h4⟩ := showVal_eff (s.setBody more) tag ‹Val›
          simp [h1, h2, h3, h4, hsb]
        · simp [hsb]
      · simp [hsb]
      · simp [St.fail]
      · simp [St.fail]

/-! ### what `import_module` does -/

/-- facts about the package tree that the walks rely on -/
structure TreeOk (mods : List ModSt) : Prop where
  root : hasMod mods [] = true
  prefixClosed : ∀ p x, hasMod mods (p ++ [x]) = true → hasMod mods p = true

/-- The intended behaviour of `import_module`: the module when every prefix is loaded; otherwise the
*first* missing prefix `q` is loaded from the file of the same path into the same tree position, or
the import fails when that file does not exist.  Never a panic. -/
inductive ImportChar (g : Graph) (mods : List ModSt) (path : Path) : ImportRes → Prop
  | loaded : hasMod mods path = true → ImportChar g mods path (.loaded path)
  | compiled (q : Path) (body : List Stmt) : q ∈ prefixes path → hasMod mods q = false →
      g.file? q = some body → (∀ p x, q = p ++ [x] → hasMod mods p = true) →
      ImportChar g mods path (.compiled q q body)
  | notFound (q : Path) : q ∈ prefixes path → hasMod mods q = false → g.file? q = none →
      ImportChar g mods path .notFound

theorem loadMissing_of (g : Graph) (mods : List ModSt) (path parent : Path) (idx : Nat) (name : String) (tl : Path)
    (hfm : findMissing mods (mods.length + path.length + 1) [] path 0 = (parent, idx))
    (hidx : idx ≤ path.length) (hdrop : path.drop idx = name :: tl) :
    loadMissing g mods path =
      match g.file? (path.take idx ++ [name]) with
      | none => .notFound
      | some body => if hasMod mods (parent ++ [name]) then .panic "not yet implemented"
                     else .compiled (parent ++ [name]) (path.take idx ++ [name]) body := by
  simp [loadMissing, hfm, hdrop, Nat.not_lt.mpr hidx]
  cases g.file? (List.take idx path ++ [name]) <;> rfl

/-! ### the tree walk, for paths of any length -/

theorem take_succ_getD (path : Path) (i : Nat) (h : i < path.length) :
    path.take (i + 1) = path.take i ++ [path.getD i ""] := by
  rw [List.take_add_one]
  simp [List.getD, h]

/-- the walk stops at the first prefix that is not loaded -/
theorem fm_stops (mods : List ModSt) (path : Path) :
    ∀ (fuel index : Nat) (cur : Path), cur = path.take index → index ≤ path.length → path.length - index < fuel →
      let r := findMissing mods fuel cur path index
      r.1 = path.take r.2 ∧ index ≤ r.2 ∧ r.2 ≤ path.length ∧
      (∀ j, index ≤ j → j < r.2 → hasMod mods (path.take (j + 1)) = true) ∧
      (r.2 < path.length → hasMod mods (path.take (r.2 + 1)) = false) := by
  intro fuel
  induction fuel with
  | zero => intro index cur _ _ hf; omega
  | succ fuel ih =>
    intro index cur hcur hle hfuel
    simp only [findMissing, if_true]
    by_cases hge : index ≥ path.length
    · have : index = path.length := by omega
      simp only [hge, if_true]
      refine ⟨by rw [hcur, this], by omega, Nat.le_refl _, ?_, ?_⟩
      · intro j h1 h2; omega
      · intro h; omega
    · simp only [hge, if_false]
      have hlt : index < path.length := by omega
      have hnext : cur ++ [path.getD index ""] = path.take (index + 1) := by
        rw [take_succ_getD path index hlt, hcur]
      by_cases hm : hasMod mods (cur ++ [path.getD index ""]) = true
      · simp only [hm, if_true]
        obtain ⟨a1, a2, a3, a4, a5⟩ := ih (index + 1) _ hnext (by omega) (by omega)
        refine ⟨a1, by omega, a3, ?_, a5⟩
        intro j h1 h2
        by_cases hj : j = index
        · rw [hj, ← hnext]; exact hm
        · exact a4 j (by omega) h2
      · have hm' : hasMod mods (cur ++ [path.getD index ""]) = false := by simpa using hm
        simp only [hm', Bool.false_eq_true, if_false]
        refine ⟨hcur, Nat.le_refl _, hle, ?_, ?_⟩
        · intro j h1 h2; omega
        · intro _
          rw [← hnext]
          exact hm'

theorem treeImport_some (mods : List ModSt) :
    ∀ (rest cur x : Path), treeImport mods cur rest = some x → x = cur ++ rest ∧ hasMod mods (cur ++ rest) = true := by
  intro rest
  induction rest with
  | nil => intro cur x h; simp [treeImport] at h
  | cons a tl ih =>
    intro cur x h
    cases tl with
    | nil =>
      simp only [treeImport] at h
      split at h
      · rename_i hm; simp at h; exact ⟨h.symm, hm⟩
      · simp at h
    | cons b tl' =>
      simp only [treeImport] at h
      split at h
      · have := ih (cur ++ [a]) x h
        simpa using this
      · simp at h

theorem treeImport_all (mods : List ModSt) :
    ∀ (rest cur : Path), rest ≠ [] → (∀ j, j < rest.length → hasMod mods (cur ++ rest.take (j + 1)) = true) →
      treeImport mods cur rest = some (cur ++ rest) := by
  intro rest
  induction rest with
  | nil => intro cur h; exact absurd rfl h
  | cons a tl ih =>
    intro cur _ h
    have h0 : hasMod mods (cur ++ [a]) = true := by simpa using h 0 (by simp)
    cases tl with
    | nil => simp [treeImport, h0]
    | cons b tl' =>
      simp only [treeImport, h0, if_true]
      have := ih (cur ++ [a]) (by simp) (by
        intro j hj
        have := h (j + 1) (by simp at hj ⊢; omega)
        simpa using this)
      simpa using this

theorem take_mem_prefixes (path : Path) : ∀ j, j < path.length → path.take (j + 1) ∈ prefixes path := by
  induction path with
  | nil => intro j h; simp at h
  | cons x rest ih =>
    intro j hj
    cases j with
    | zero => simp [prefixes]
    | succ j =>
      simp only [prefixes, List.take_succ_cons, List.mem_cons, List.mem_map]
      exact Or.inr ⟨rest.take (j + 1), ih j (by simp at hj; omega), rfl⟩

theorem importModule_char0 (g : Graph) (mods : List ModSt) (path : Path) (ht : TreeOk mods) :
    ImportChar g mods path (importModule g mods path) := by
  unfold importModule packageImport
  by_cases hnil : path = []
  · simp only [hnil, if_true]
    exact .loaded (hnil ▸ ht.root)
  · simp only [hnil, if_false]
    cases hti : treeImport mods [] path with
    | some x =>
      obtain ⟨hx, hm⟩ := treeImport_some mods path [] x hti
      simp only [List.nil_append] at hx hm
      rw [hx]
      exact .loaded hm
    | none =>
      obtain ⟨a1, _, a3, a4, a5⟩ := fm_stops mods path (mods.length + path.length + 1) 0 [] (by simp) (by omega) (by omega)
      generalize hr : findMissing mods (mods.length + path.length + 1) [] path 0 = r at a1 a3 a4 a5
      obtain ⟨parent, idx⟩ := r
      try simp only at a1 a3 a4 a5
      have hlt : idx < path.length := by
        rcases Nat.lt_or_ge idx path.length with h | h
        · exact h
        · exfalso
          have hall := treeImport_all mods path [] hnil (by
            intro j hj
            simpa using a4 j (by omega) (by omega))
          rw [hti] at hall
          cases hall
      have hdrop : path.drop idx = path[idx] :: path.drop (idx + 1) := List.drop_eq_getElem_cons hlt
      have hl := loadMissing_of g mods path parent idx path[idx] _ hr (by omega) hdrop
      have htake : path.take idx ++ [path[idx]] = path.take (idx + 1) := by
        rw [List.take_add_one]; simp [hlt]
      rw [hl, htake, a1, htake]
      have hmiss := a5 hlt
      cases hf : g.file? (path.take (idx + 1)) with
      | none => exact .notFound _ (take_mem_prefixes path idx hlt) hmiss hf
      | some body =>
        simp only [hmiss, Bool.false_eq_true, if_false]
        refine .compiled _ body (take_mem_prefixes path idx hlt) hmiss hf ?_
        intro p x hpx
        have hp : p = path.take idx := by
          rw [← htake] at hpx
          exact (List.append_inj' hpx rfl).1.symm
        rw [hp]
        cases idx with
        | zero => simpa using ht.root
        | succ k => exact a4 k (by omega) (by omega)

/-! ### effect of an import instruction -/

theorem importTarget_cases (g : Graph) (s : St) (path : Path) :
    (∃ pos, lookupPath path s.cache = some pos ∧ importTarget g s path = (s, some pos)) ∨
    (∃ pos, lookupPath path s.cache = none ∧ importModule g s.mods path = .loaded pos ∧
      importTarget g s path = ({ s with cache := (path, pos) :: s.cache }, some pos)) ∨
    (∃ pos file body, lookupPath path s.cache = none ∧ importModule g s.mods path = .compiled pos file body ∧
      importTarget g s path =
        ({ s with mods := s.mods ++ [ModSt.fresh pos file body],
                  frames := { mod := pos, body := expand body } :: s.frames,
                  log := .start file pos :: s.log }, none)) ∨
    (∃ st, importTarget g s path = ({ s with status := st }, none)) := by
  unfold importTarget
  cases h1 : lookupPath path s.cache with
  | some pos => exact Or.inl ⟨pos, rfl, rfl⟩
  | none =>
    cases hp : lookup "self" s.packages with
    | none => exact Or.inr (Or.inr (Or.inr ⟨_, rfl⟩))
    | some root =>
      cases root with
      | std => exact Or.inr (Or.inr (Or.inr ⟨_, rfl⟩))
      | self =>
        cases h2 : importModule g s.mods path with
        | loaded pos => exact Or.inr (Or.inl ⟨pos, rfl, rfl, rfl⟩)
        | compiled pos file body => exact Or.inr (Or.inr (Or.inl ⟨pos, file, body, rfl, rfl, rfl⟩))
        | notFound => exact Or.inr (Or.inr (Or.inr ⟨_, rfl⟩))
        | panic msg => exact Or.inr (Or.inr (Or.inr ⟨_, rfl⟩))

/-- how the module cache changed while the instruction obtained the module at `pos` -/
def CacheStep (g : Graph) (s : St) (p pos : Path) (cache' : List (Path × Path)) : Prop :=
  (cache' = s.cache ∧ lookupPath p s.cache = some pos) ∨
  (lookupPath p s.cache = none ∧ importModule g s.mods p = .loaded pos ∧ cache' = (p, pos) :: s.cache)

def Event.boundPos? : Event → Option Path
  | .boundObj _ _ pos _ => some pos
  | .boundSym _ _ pos _ _ => some pos
  | _ => none

inductive ImportEff (g : Graph) (s : St) (p : Path) (more : List Stmt) (s' : St) : Prop
  /-- error or panic: nothing moves (the cache may have been filled) -/
  | stuck : info s'.mods = info s.mods → s'.frames = s.frames → s'.log = s.log →
      (s'.cache = s.cache ∨ ∃ pos, CacheStep g s p pos s'.cache) → ImportEff g s p more s'
  /-- the importer got its value and continues -/
  | bound (pos : Path) (ev : Event) : info s'.mods = info s.mods → s'.frames = (s.setBody more).frames →
      s'.log = ev :: s.log → ev.boundPos? = some pos → CacheStep g s p pos s'.cache → ImportEff g s p more s'
  /-- a module body was compiled and started on a child fiber; the importer will retry -/
  | push (q file : Path) (body : List Stmt) : lookupPath p s.cache = none →
      importModule g s.mods p = .compiled q file body →
      s'.mods = s.mods ++ [ModSt.fresh q file body] → s'.frames = { mod := q, body := expand body } :: s.frames →
      s'.log = .start file q :: s.log → s'.cache = s.cache → ImportEff g s p more s'

theorem setBody_eff (s : St) (more : List Stmt) :
    (s.setBody more).mods = s.mods ∧ (s.setBody more).cache = s.cache ∧ (s.setBody more).log = s.log := by
  unfold St.setBody; split <;> simp

theorem setBody_frames_eq (s t : St) (more : List Stmt) (h : t.frames = s.frames) :
    (t.setBody more).frames = (s.setBody more).frames := by
  cases hs : s.frames <;> simp [St.setBody, h, hs]

theorem execStmt_importWhole (g : Graph) (s : St) (me : ModSt) (p : Path) (r : Option String) (more : List Stmt) :
    ImportEff g s p more (execStmt g s me (.importWhole p r) more) := by
  simp only [execStmt]
  rcases importTarget_cases g s p with ⟨pos, h1, h2⟩ | ⟨pos, h1, h2, h3⟩ | ⟨pos, file, body, h1, h2, h3⟩ | ⟨st, h3⟩
  · rw [h2]; simp only
    cases hm : getMod s.mods pos with
    | none => exact .stuck rfl rfl rfl (Or.inl rfl)
    | some m =>
      refine .bound pos _ ?_ ?_ rfl rfl (Or.inl ⟨?_, h1⟩)
      · simp only [(setBody_eff s more).1]
        exact info_updMod _ _ _ (fun m => setSym_skel m _ _)
      · rfl
      · simp [(setBody_eff s more).2.1]
  · rw [h3]; simp only
    cases hm : getMod s.mods pos with
    | none => exact .stuck rfl rfl rfl (Or.inr ⟨pos, Or.inr ⟨h1, h2, rfl⟩⟩)
    | some m =>
      refine .bound pos _ ?_ ?_ rfl rfl (Or.inr ⟨h1, h2, ?_⟩)
      · simp only [(setBody_eff _ more).1]
        exact info_updMod _ _ _ (fun m => setSym_skel m _ _)
      · exact setBody_frames_eq s _ more rfl
      · simp [(setBody_eff _ more).2.1]
  · rw [h3]; exact .push pos file body h1 h2 rfl rfl rfl rfl
  · rw [h3]; exact .stuck rfl rfl rfl (Or.inl rfl)

theorem execStmt_importSym (g : Graph) (s : St) (me : ModSt) (p : Path) (sym : String) (r : Option String) (more : List Stmt) :
    ImportEff g s p more (execStmt g s me (.importSym p sym r) more) := by
  simp only [execStmt]
  rcases importTarget_cases g s p with ⟨pos, h1, h2⟩ | ⟨pos, h1, h2, h3⟩ | ⟨pos, file, body, h1, h2, h3⟩ | ⟨st, h3⟩
  · rw [h2]; simp only
    cases hm : getMod s.mods pos with
    | none => exact .stuck rfl rfl rfl (Or.inl rfl)
    | some m =>
      simp only
      cases hx : m.exported? sym with
      | none => exact .stuck rfl rfl rfl (Or.inl rfl)
      | some v =>
        refine .bound pos _ ?_ ?_ rfl rfl (Or.inl ⟨?_, h1⟩)
        · simp only [(setBody_eff s more).1]
          exact info_updMod _ _ _ (fun m => setSym_skel m _ _)
        · rfl
        · simp [(setBody_eff s more).2.1]
  · rw [h3]; simp only
    cases hm : getMod s.mods pos with
    | none => exact .stuck rfl rfl rfl (Or.inr ⟨pos, Or.inr ⟨h1, h2, rfl⟩⟩)
    | some m =>
      simp only
      cases hx : m.exported? sym with
      | none => exact .stuck rfl rfl rfl (Or.inr ⟨pos, Or.inr ⟨h1, h2, rfl⟩⟩)
      | some v =>
        refine .bound pos _ ?_ ?_ rfl rfl (Or.inr ⟨h1, h2, ?_⟩)
        · simp only [(setBody_eff _ more).1]
          exact info_updMod _ _ _ (fun m => setSym_skel m _ _)
        · exact setBody_frames_eq s _ more rfl
        · simp [(setBody_eff _ more).2.1]
  · rw [h3]; exact .push pos file body h1 h2 rfl rfl rfl rfl
  · rw [h3]; exact .stuck rfl rfl rfl (Or.inl rfl)

/-! ### where a host panic can come from -/

def Status.isPanic : Status → Bool
  | .panic _ => true
  | _ => false

theorem showVal_status (s : St) (tag : String) (v : Val) (h : s.status.isPanic = false) :
    (showVal s tag v).status.isPanic = false := by
  cases v with
  | const k n => simpa [showVal] using h
  | acc home target =>
    simp only [showVal]
    repeat' split
    all_goals first | exact h | simp [St.fail, Status.isPanic]

theorem setBody_status (s : St) (more : List Stmt) : (s.setBody more).status = s.status := by
  unfold St.setBody; split <;> rfl

theorem execStmt_local_status (g : Graph) (s : St) (me : ModSt) (st : Stmt) (more : List Stmt)
    (hl : st.isImport = false) (h : s.status.isPanic = false) :
    (execStmt g s me st more).status.isPanic = false := by
  have hsb : ∀ more, (s.setBody more).status.isPanic = false := fun more => by rw [setBody_status]; exact h
  cases st with
  | mark str => simpa [execStmt] using hsb more
  | decl exported k name n =>
    simp only [execStmt]
    split
    · simp [St.fail, Status.isPanic]
    · exact hsb more
  | declAcc exported name target =>
    simp only [execStmt]
    split
    · simp [St.fail, Status.isPanic]
    · exact hsb more
  | assign name n => exact hsb more
  | importWhole p r => simp [Stmt.isImport] at hl
  | importSym p sy r => simp [Stmt.isImport] at hl
  | importSyms p syms => exact hsb more
  | importPkg pkg path name =>
    simp only [execStmt]
    split
    · exact hsb more
    · split
      · simp [St.fail, Status.isPanic]
      · exact hsb more
    · simp [St.fail, Status.isPanic]
  | emit tag e =>
    cases e with
    | sym name =>
      simp only [execStmt]
      split
      · exact showVal_status _ tag _ (hsb more)
      · exact hsb more
      · simp [St.fail, Status.isPanic]
      · simp [St.fail, Status.isPanic]
    | field o name =>
      simp only [execStmt]
      split
      · split
        · exact showVal_status _ tag _ (hsb more)
        · exact hsb more
      · exact hsb more
      · simp [St.fail, Status.isPanic]
      · simp [St.fail, Status.isPanic]

/-- an import instruction panics only if `import_module` does (`todo!()`, `unwrap`, `split_at`) or
the module it was handed is not in the tree -/
theorem execStmt_import_panic (g : Graph) (s : St) (me : ModSt) (st : Stmt) (more : List Stmt) (p : Path)
    (hst : st.importPath? = some p) (hi : st.isImport = true) (h : s.status.isPanic = false)
    (hp : (execStmt g s me st more).status.isPanic = true) :
    (∃ msg, importModule g s.mods p = .panic msg) ∨
    (∃ pos, (lookupPath p s.cache = some pos ∨ importModule g s.mods p = .loaded pos) ∧ getMod s.mods pos = none) := by
  have key : ∀ (s1 : St), importTarget g s p = (s1, none) → s1.status.isPanic = true →
      ∃ msg, importModule g s.mods p = .panic msg := by
    intro s1 ht hh
    rcases importTarget_cases g s p with ⟨_, _, h2⟩ | ⟨_, _, _, h3⟩ | ⟨_, _, _, _, _, h3⟩ | ⟨st', h3⟩
    · rw [h2] at ht; cases ht
    · rw [h3] at ht; cases ht
    · rw [h3] at ht; cases ht; simp only at hh; rw [h] at hh; cases hh
    · unfold importTarget at h3 ht
      cases h1 : lookupPath p s.cache with
      | some pos => rw [h1] at ht; cases ht
      | none =>
        rw [h1] at ht
        cases hpk : lookup "self" s.packages with
        | none => rw [hpk] at ht; cases ht; simp [St.fail, Status.isPanic] at hh
        | some root =>
          cases root with
          | std => rw [hpk] at ht; cases ht; simp [St.fail, Status.isPanic] at hh
          | self =>
            rw [hpk] at ht
            cases h2 : importModule g s.mods p with
            | loaded pos => rw [h2] at ht; cases ht
            | compiled pos file body => rw [h2] at ht; cases ht; simp only at hh; rw [h] at hh; cases hh
            | notFound => rw [h2] at ht; cases ht; simp [St.fail, Status.isPanic] at hh
            | panic msg => exact ⟨msg, rfl⟩
  have tgt : ∀ (s1 : St) (pos : Path), importTarget g s p = (s1, some pos) →
      (lookupPath p s.cache = some pos ∨ importModule g s.mods p = .loaded pos) ∧ s1.mods = s.mods ∧ s1.status = s.status := by
    intro s1 pos ht
    rcases importTarget_cases g s p with ⟨pos', h1, h2⟩ | ⟨pos', h1, h2, h3⟩ | ⟨_, _, _, _, _, h3⟩ | ⟨_, h3⟩
    · rw [h2] at ht; cases ht; exact ⟨Or.inl h1, rfl, rfl⟩
    · rw [h3] at ht; cases ht; exact ⟨Or.inr h2, rfl, rfl⟩
    · rw [h3] at ht; cases ht
    · rw [h3] at ht; cases ht
  cases st with
  | importWhole p' r =>
    simp only [Stmt.importPath?, Option.some.injEq] at hst
    subst hst
    simp only [execStmt] at hp
    cases ht : importTarget g s p' with
    | mk s1 res =>
      rw [ht] at hp
      cases res with
      | none =>
        exact Or.inl (key s1 ht hp)
      | some pos =>
        obtain ⟨hsrc, hmods, hstat⟩ := tgt s1 pos ht
        simp only at hp
        cases hm : getMod s1.mods pos with
        | none => exact Or.inr ⟨pos, hsrc, hmods ▸ hm⟩
        | some m =>
          rw [hm] at hp
          simp only [setBody_status, hstat, h] at hp
          cases hp
  | importSym p' sy r =>
    simp only [Stmt.importPath?, Option.some.injEq] at hst
    subst hst
    simp only [execStmt] at hp
    cases ht : importTarget g s p' with
    | mk s1 res =>
      rw [ht] at hp
      cases res with
      | none =>
        exact Or.inl (key s1 ht hp)
      | some pos =>
        obtain ⟨hsrc, hmods, hstat⟩ := tgt s1 pos ht
        simp only at hp
        cases hm : getMod s1.mods pos with
        | none => exact Or.inr ⟨pos, hsrc, hmods ▸ hm⟩
        | some m =>
          rw [hm] at hp
          simp only at hp
          cases hx : m.exported? sy with
          | none => rw [hx] at hp; simp [St.fail, Status.isPanic] at hp
          | some v =>
            rw [hx] at hp
            simp only [setBody_status, hstat, h] at hp
            cases hp
  | _ => simp [Stmt.isImport] at hi

/-! ### export tables -/

def Stmt.exportedName? : Stmt → Option String
  | .decl true _ n _ => some n
  | .declAcc true n _ => some n
  | _ => none

/-- the names a body declares with `export`, in order -/
def exportedNames (body : List Stmt) : List String := body.filterMap Stmt.exportedName?

/-- export table and completion flag of the module at tree position `p` -/
def xinfo (mods : List ModSt) (p : Path) : Option (List String × Bool) :=
  (getMod mods p).map fun m => (m.exports, m.done)

theorem xinfo_updMod (mods : List ModSt) (q p : Path) (f : ModSt → ModSt) (hf : ∀ m, (f m).pos = m.pos) :
    xinfo (updMod mods q f) p = (getMod mods p).map (fun m => if m.pos = q then ((f m).exports, (f m).done) else (m.exports, m.done)) := by
  simp only [xinfo, getMod_updMod mods p q f hf, Option.map_map]
  cases getMod mods p with
  | none => rfl
  | some m => simp only [Option.map_some, Function.comp]; split <;> rfl

theorem xinfo_updMod_same (mods : List ModSt) (q : Path) (f : ModSt → ModSt)
    (hf : ∀ m, (f m).pos = m.pos ∧ (f m).exports = m.exports ∧ (f m).done = m.done) :
    xinfo (updMod mods q f) = xinfo mods := by
  funext p
  rw [xinfo_updMod mods q p f (fun m => (hf m).1)]
  unfold xinfo
  cases getMod mods p with
  | none => rfl
  | some m => simp only [Option.map_some]; split <;> simp [hf]

theorem setSym_x (m : ModSt) (n : String) (b : Binding) :
    (m.setSym n b).pos = m.pos ∧ (m.setSym n b).exports = m.exports ∧ (m.setSym n b).done = m.done := by
  simp [ModSt.setSym]

theorem showVal_x (s : St) (tag : String) (v : Val) :
    (showVal s tag v).frames = s.frames ∧ xinfo (showVal s tag v).mods = xinfo s.mods := by
  cases v with
  | const k n => simp [showVal]
  | acc home target =>
    simp only [showVal]
    repeat' split
    all_goals simp [St.fail]
    all_goals exact xinfo_updMod_same _ _ _ (fun m => setSym_x m _ _)

/-- effect of a non-import statement of module `me` on the export tables: nothing moves (error), or
the fiber advances and `me` gains exactly the name the statement exports (if any) -/
theorem execStmt_local_x (g : Graph) (s : St) (me : ModSt) (st : Stmt) (more : List Stmt)
    (hl : st.isImport = false) (hme : getMod s.mods me.pos = some me) :
    ((execStmt g s me st more).frames = s.frames ∧ xinfo (execStmt g s me st more).mods = xinfo s.mods) ∨
    ((execStmt g s me st more).frames = (s.setBody more).frames ∧
      ∀ p, xinfo (execStmt g s me st more).mods p =
        if p = me.pos then some (me.exports ++ st.exportedName?.toList, me.done) else xinfo s.mods p) := by
  have hsb : ∀ more, (s.setBody more).mods = s.mods := fun more => (setBody_eff s more).1
  have hself : xinfo s.mods me.pos = some (me.exports, me.done) := by simp [xinfo, hme]
  have hnoexp : st.exportedName? = none → ∀ (mods' : List ModSt), xinfo mods' = xinfo s.mods →
      ∀ p, xinfo mods' p = if p = me.pos then some (me.exports ++ st.exportedName?.toList, me.done) else xinfo s.mods p := by
    intro hn mods' hx p
    rw [hx, hn]
    split
    · rename_i hp; rw [hp, hself]; simp
    · rfl
  have hdecl : ∀ (name : String) (b : Binding) (exported : Bool), st.exportedName? = (if exported then some name else none) →
      ∀ p, xinfo (updMod s.mods me.pos (fun m =>
        { m.setSym name b with exports := if exported then m.exports ++ [name] else m.exports })) p =
        if p = me.pos then some (me.exports ++ st.exportedName?.toList, me.done) else xinfo s.mods p := by
    intro name b exported hexp p
    rw [xinfo_updMod _ _ _ _ (fun m => by simp [ModSt.setSym])]
    by_cases hp : p = me.pos
    · rw [hp, hme]
      cases exported <;> simp [ModSt.setSym, hexp]
    · simp only [hp, if_false, xinfo]
      cases hm : getMod s.mods p with
      | none => rfl
      | some m =>
        have := getMod_pos hm
        simp only [Option.map_some]
        rw [if_neg (by rw [this]; exact hp)]
  cases st with
  | mark str => exact Or.inr ⟨rfl, hnoexp rfl _ (by simp [execStmt, hsb])⟩
  | decl exported k name n =>
    simp only [execStmt]
    split
    · exact Or.inl ⟨rfl, rfl⟩
    · refine Or.inr ⟨rfl, ?_⟩
      simp only [hsb]
      exact hdecl name _ exported (by cases exported <;> rfl)
  | declAcc exported name target =>
    simp only [execStmt]
    split
    · exact Or.inl ⟨rfl, rfl⟩
    · refine Or.inr ⟨rfl, ?_⟩
      simp only [hsb]
      exact hdecl name _ exported (by cases exported <;> rfl)
  | assign name n =>
    refine Or.inr ⟨rfl, hnoexp rfl _ ?_⟩
    simp only [execStmt, hsb]
    exact xinfo_updMod_same _ _ _ (fun m => setSym_x m _ _)
  | importWhole p r => simp [Stmt.isImport] at hl
  | importSym p sy r => simp [Stmt.isImport] at hl
  | importSyms p syms => exact Or.inr ⟨rfl, hnoexp rfl _ (by simp [execStmt, hsb])⟩
  | importPkg pkg path name =>
    simp only [execStmt]
    split
    · refine Or.inr ⟨rfl, hnoexp rfl _ ?_⟩
      simp only [hsb]
      exact xinfo_updMod_same _ _ _ (fun m => setSym_x m _ _)
    · split
      · exact Or.inl ⟨rfl, rfl⟩
      · refine Or.inr ⟨rfl, hnoexp rfl _ ?_⟩
        simp only [hsb]
        exact xinfo_updMod_same _ _ _ (fun m => setSym_x m _ _)
    · exact Or.inl ⟨rfl, rfl⟩
  | emit tag e =>
    cases e with
    | sym name =>
      simp only [execStmt]
      split
      · obtain ⟨h1, h2⟩ := showVal_x (s.setBody more) tag ‹Val›
        exact Or.inr ⟨h1, hnoexp rfl _ (by rw [h2, hsb])⟩
      · exact Or.inr ⟨rfl, hnoexp rfl _ (by simp [hsb])⟩
      · exact Or.inl ⟨rfl, rfl⟩
      · exact Or.inl ⟨rfl, rfl⟩
    | field o name =>
      simp only [execStmt]
      split
      · split
        · obtain ⟨h1, h2⟩ := showVal_x (s.setBody more) tag ‹Val›
          exact Or.inr ⟨h1, hnoexp rfl _ (by rw [h2, hsb])⟩
        · exact Or.inr ⟨rfl, hnoexp rfl _ (by simp [hsb])⟩
      · exact Or.inr ⟨rfl, hnoexp rfl _ (by simp [hsb])⟩
      · exact Or.inl ⟨rfl, rfl⟩
      · exact Or.inl ⟨rfl, rfl⟩

/-- effect of an import instruction on the export tables: none, except that a freshly loaded
module starts with an empty table -/
theorem execStmt_import_x (g : Graph) (s : St) (me : ModSt) (st : Stmt) (more : List Stmt) (p : Path)
    (hst : st.importPath? = some p) (hi : st.isImport = true) :
    ((execStmt g s me st more).frames = s.frames ∧ xinfo (execStmt g s me st more).mods = xinfo s.mods) ∨
    ((execStmt g s me st more).frames = (s.setBody more).frames ∧ xinfo (execStmt g s me st more).mods = xinfo s.mods) ∨
    (∃ q file body, importModule g s.mods p = .compiled q file body ∧
      (execStmt g s me st more).frames = { mod := q, body := expand body } :: s.frames ∧
      (execStmt g s me st more).mods = s.mods ++ [ModSt.fresh q file body]) := by
  cases st with
  | importWhole p' r =>
    simp only [Stmt.importPath?, Option.some.injEq] at hst
    subst hst
    simp only [execStmt]
    rcases importTarget_cases g s p' with ⟨pos, h1, h2⟩ | ⟨pos, h1, h2, h3⟩ | ⟨pos, file, body, h1, h2, h3⟩ | ⟨st', h3⟩
    · rw [h2]; simp only
      cases hm : getMod s.mods pos with
      | none => exact Or.inl ⟨rfl, rfl⟩
      | some m =>
        refine Or.inr (Or.inl ⟨?_, ?_⟩)
        · first | rfl | exact setBody_frames_eq s _ more rfl
        · simp only [(setBody_eff _ more).1]; exact xinfo_updMod_same _ _ _ (fun m => setSym_x m _ _)
    · rw [h3]; simp only
      cases hm : getMod s.mods pos with
      | none => exact Or.inl ⟨rfl, rfl⟩
      | some m =>
        refine Or.inr (Or.inl ⟨?_, ?_⟩)
        · first | rfl | exact setBody_frames_eq s _ more rfl
        · simp only [(setBody_eff _ more).1]; exact xinfo_updMod_same _ _ _ (fun m => setSym_x m _ _)
    · rw [h3]; exact Or.inr (Or.inr ⟨pos, file, body, h2, rfl, rfl⟩)
    · rw [h3]; exact Or.inl ⟨rfl, rfl⟩
  | importSym p' sy r =>
    simp only [Stmt.importPath?, Option.some.injEq] at hst
    subst hst
    simp only [execStmt]
    rcases importTarget_cases g s p' with ⟨pos, h1, h2⟩ | ⟨pos, h1, h2, h3⟩ | ⟨pos, file, body, h1, h2, h3⟩ | ⟨st', h3⟩
    · rw [h2]; simp only
      cases hm : getMod s.mods pos with
      | none => exact Or.inl ⟨rfl, rfl⟩
      | some m =>
        simp only
        cases hx : m.exported? sy with
        | none => exact Or.inl ⟨rfl, rfl⟩
        | some v =>
          refine Or.inr (Or.inl ⟨?_, ?_⟩)
          · first | rfl | exact setBody_frames_eq s _ more rfl
          · simp only [(setBody_eff _ more).1]; exact xinfo_updMod_same _ _ _ (fun m => setSym_x m _ _)
    · rw [h3]; simp only
      cases hm : getMod s.mods pos with
      | none => exact Or.inl ⟨rfl, rfl⟩
      | some m =>
        simp only
        cases hx : m.exported? sy with
        | none => exact Or.inl ⟨rfl, rfl⟩
        | some v =>
          refine Or.inr (Or.inl ⟨?_, ?_⟩)
          · first | rfl | exact setBody_frames_eq s _ more rfl
          · simp only [(setBody_eff _ more).1]; exact xinfo_updMod_same _ _ _ (fun m => setSym_x m _ _)
    · rw [h3]; exact Or.inr (Or.inr ⟨pos, file, body, h2, rfl, rfl⟩)
    · rw [h3]; exact Or.inl ⟨rfl, rfl⟩
  | _ => simp [Stmt.isImport] at hi

/-! ### the package map -/

theorem showVal_packages (s : St) (tag : String) (v : Val) : (showVal s tag v).packages = s.packages := by
  cases v with
  | const k n => rfl
  | acc home target =>
    simp only [showVal]
    repeat' split
    all_goals rfl

theorem setBody_packages (s : St) (more : List Stmt) : (s.setBody more).packages = s.packages := by
  unfold St.setBody; split <;> rfl

theorem importTarget_packages (g : Graph) (s : St) (path : Path) : (importTarget g s path).1.packages = s.packages := by
  rcases importTarget_cases g s path with ⟨_, _, h⟩ | ⟨_, _, _, h⟩ | ⟨_, _, _, _, _, h⟩ | ⟨_, h⟩ <;> rw [h]

/-- No instruction writes the package map: `Vm::module` (the only thing an import calls to create a
module) does not register a package; compare `Gen.packageWriteSites`. -/
theorem execStmt_packages (g : Graph) (s : St) (me : ModSt) (st : Stmt) (more : List Stmt) :
    (execStmt g s me st more).packages = s.packages := by
  cases st with
  | mark str => simp [execStmt, setBody_packages]
  | decl exported k name n => simp only [execStmt]; split <;> simp [St.fail, setBody_packages]
  | declAcc exported name target => simp only [execStmt]; split <;> simp [St.fail, setBody_packages]
  | assign name n => simp [execStmt, setBody_packages]
  | importWhole p r =>
    simp only [execStmt]
    have := importTarget_packages g s p
    split
    · exact this
    · split
      · exact this
      · simpa [setBody_packages] using this
  | importSym p sy r =>
    simp only [execStmt]
    have := importTarget_packages g s p
    split
    · exact this
    · split
      · exact this
      · split
        · simpa [St.fail] using this
        · simpa [setBody_packages] using this
  | importSyms p syms => simp [execStmt, setBody_packages]
  | importPkg pkg path name =>
    simp only [execStmt]
    split
    · simp [setBody_packages]
    · split
      · rfl
      · simp [setBody_packages]
    · rfl
  | emit tag e =>
    cases e with
    | sym name =>
      simp only [execStmt]
      split
      · rw [showVal_packages, setBody_packages]
      · simp [setBody_packages]
      · rfl
      · rfl
    | field o name =>
      simp only [execStmt]
      split
      · split
        · rw [showVal_packages, setBody_packages]
        · simp [setBody_packages]
      · simp [setBody_packages]
      · rfl
      · rfl

theorem step_packages (g : Graph) (s : St) : (step g s).packages = s.packages := by
  unfold step
  split
  · split
    · rfl
    · split
      · rfl
      · split
        · rfl
        · exact execStmt_packages ..
  · rfl

/-- with the package map of a fresh VM, a package name other than `self` reaches the standard
library (name `std`) or nothing — whatever user modules exist -/
theorem importForeign_init (mods : List ModSt) (pkg : ForeignPkg) (path : Path) :
    importForeign initPackages mods pkg.val path =
      if pkg.val = "std" ∧ stdHas path = true then .std path else .notFound := by
  obtain ⟨name, hne⟩ := pkg
  simp only [importForeign, initPackages, lookup]
  by_cases hstd : "std" = name
  · subst hstd
    by_cases hp : stdHas path = true <;> simp [hp]
  · have hstd' : ¬ name = "std" := fun h => hstd h.symm
    have hself : ¬ "self" = name := fun h => hne h.symm
    simp [hstd, hstd', hself]

end LaytheVerif.Imports
