/-
Lemmas about the release log of a collection (`Model/AllocRelease.lean`).
-/
import LaytheVerif.Model.AllocRelease
import LaytheVerif.Lemmas.AllocOps
namespace LaytheVerif.Alloc

theorem count_filter_split (p : Nat → Bool) (l : List Nat) (x : Nat) :
    (l.filter p).count x + (l.filter fun y => !p y).count x = l.count x := by
  induction l with
  | nil => simp
  | cons y t ih =>
    cases hp : p y <;> simp [hp, List.count_cons] <;> omega

theorem collectLog_a (a : A) (R : List Nat) (f : Option Bool) (rel : Nat → Bool) :
    (a.collectLog R f rel).a = a.collect R f := rfl

theorem collectLog_released (a : A) (R : List Nat) (f : Option Bool) (rel : Nat → Bool) :
    (a.collectLog R f rel).released = (a.collectLog R f rel).dropped.filter rel := rfl

/-- The dropped list does not depend on `rel`. -/
theorem collectLog_dropped_rel (a : A) (R : List Nat) (f : Option Bool) (rel rel' : Nat → Bool) :
    (a.collectLog R f rel).dropped = (a.collectLog R f rel').dropped := rfl

/-- **Nothing disappears.** What the allocator owned before a collection is, as a multiset, what it
owns afterwards together with the handles the sweeps dropped: no handle leaves the owner lists
without being dropped, none is dropped twice, none is both kept and dropped. -/
theorem collectLog_perm (a : A) (R : List Nat) (f : Option Bool) (rel : Nat → Bool) :
    List.Perm a.owned ((a.collect R f).owned ++ (a.collectLog R f rel).dropped) := by
  rw [List.perm_iff_count]
  intro x
  have h1 := count_filter_split (fun y => (a.marked R).contains y) a.nursery x
  have h2 := count_filter_split (fun y => (a.marked R).contains y) a.old x
  have h3 := count_filter_split (fun y => (a.marked R).contains y) a.plain x
  cases hfull : f.getD ((a.gcCount + 1) % FULL_EVERY == 0) <;>
    simp [A.owned, A.collect, A.collectLog, sweepList, hfull, List.count_append] at * <;> omega

theorem filter_all {l : List Nat} {p : Nat → Bool} (h : ∀ x ∈ l, p x = true) : l.filter p = l :=
  List.filter_eq_self.mpr h

theorem dropped_subset_owned (a : A) (R : List Nat) (f : Option Bool) (rel : Nat → Bool) (x : Nat)
    (hx : x ∈ (a.collectLog R f rel).dropped) : x ∈ a.owned := by
  have hp := collectLog_perm a R f rel
  exact hp.symm.subset (by simp [hx])

end LaytheVerif.Alloc

namespace LaytheVerif.Alloc

/-! ### every block is owned at most once, in every reachable state -/

/-- The owner lists hold every block at most once, and only blocks that were allocated. -/
def OwnedOk (a : A) : Prop := a.owned.Nodup ∧ ∀ x ∈ a.owned, x < a.objs.length

theorem ownedOk_init : OwnedOk {} := by simp [OwnedOk, A.owned]

theorem ownedOk_collect (a : A) (R : List Nat) (f : Option Bool) (h : OwnedOk a) : OwnedOk (a.collect R f) := by
  have hp := collectLog_perm a R f (fun _ => true)
  have hn : ((a.collect R f).owned ++ (a.collectLog R f (fun _ => true)).dropped).Nodup := hp.nodup_iff.mp h.1
  exact ⟨(List.nodup_append.mp hn).1, fun x hx => h.2 x (collect_owned_subset a R f x hx)⟩

theorem ownedOk_collectWith (a : A) (R extra : List Nat) (f : Option Bool) (h : OwnedOk a) :
    OwnedOk (a.collectWith R extra f) := by
  have h' : OwnedOk ({ a with temp := a.temp ++ extra } : A) := h
  exact ownedOk_collect _ R f h'

theorem allocNoGc_owned_perm (a : A) (o : Obj) :
    List.Perm (a.allocNoGc o).owned (a.objs.length :: a.owned) := by
  rw [List.perm_iff_count]
  intro x
  cases hp : o.plain <;> simp [A.allocNoGc, A.owned, hp, List.count_append, List.count_cons] <;> omega

theorem ownedOk_allocNoGc (a : A) (o : Obj) (h : OwnedOk a) : OwnedOk (a.allocNoGc o) := by
  have hp := allocNoGc_owned_perm a o
  constructor
  · rw [hp.nodup_iff, List.nodup_cons]
    exact ⟨fun hm => Nat.lt_irrefl _ (h.2 _ hm), h.1⟩
  · intro x hx
    have hx' := hp.subset hx
    have hl : (a.allocNoGc o).objs.length = a.objs.length + 1 := by simp [A.allocNoGc]
    rw [hl]
    rcases List.mem_cons.mp hx' with rfl | hm
    · omega
    · have := h.2 x hm; omega

theorem ownedOk_alloc (a : A) (o : Obj) (R : List Nat) (hit : Bool) (h : OwnedOk a) : OwnedOk (a.alloc o R hit).1 := by
  rw [(alloc_eq a o R hit).1]
  have h1 := ownedOk_allocNoGc a o h
  cases hit
  · simp only [Bool.false_eq_true, if_false]
    split
    · exact ownedOk_collectWith _ _ _ _ h1
    · exact h1
  · simp only [if_true]
    have h2 := ownedOk_collectWith (a.allocNoGc o) R [a.objs.length] none h1
    split
    · exact ownedOk_collectWith _ _ _ _ h2
    · exact h2

theorem ownedOk_manageStr (a : A) (s : String) (size : Nat) (R : List Nat) (hit : Bool) (h : OwnedOk a) :
    OwnedOk (a.manageStr s size R hit).1 := by
  unfold A.manageStr
  split
  · exact h
  · exact ownedOk_alloc a _ R hit h

theorem ownedOk_setEdges (a : A) (x : Nat) (es : List Nat) (h : OwnedOk a) : OwnedOk (a.setEdges x es) := by
  constructor
  · exact h.1
  · intro y hy
    have : (a.setEdges x es).objs.length = a.objs.length := by simp [A.setEdges]
    rw [this]
    exact h.2 y hy

end LaytheVerif.Alloc
