/- Marking = reachability, for every heap, every root set, with the model's own fuel. -/
import LaytheVerif.Model.Alloc
namespace LaytheVerif.Alloc

/-- Reachability in the object graph from a root list. -/
inductive Reach (a : A) (roots : List Nat) : Nat → Prop
  | root {x} : x ∈ roots → Reach a roots x
  | step {x y} : Reach a roots x → y ∈ a.edges x → Reach a roots y

def w (a : A) (x : Nat) : Nat := (a.edges x).length

def sumUnvisited (a : A) : List Nat → List Nat → Nat
  | [], _ => 0
  | x :: l, vis => (if x ∈ vis then 0 else w a x) + sumUnvisited a l vis

theorem sumUnvisited_cons_notMem (a : A) (l vis : List Nat) (x : Nat) (hx : x ∉ l) :
    sumUnvisited a l (x :: vis) = sumUnvisited a l vis := by
  induction l with
  | nil => simp [sumUnvisited]
  | cons y l ih =>
    simp only [List.mem_cons, not_or] at hx
    have hyx : y ≠ x := fun e => hx.1 e.symm
    simp [sumUnvisited, ih hx.2, hyx]

theorem sumUnvisited_cons (a : A) (l vis : List Nat) (x : Nat)
    (hl : l.Nodup) (hx : x ∈ l) (hv : x ∉ vis) :
    sumUnvisited a l (x :: vis) + w a x = sumUnvisited a l vis := by
  induction l with
  | nil => simp at hx
  | cons y l ih =>
    have hnd := List.nodup_cons.mp hl
    by_cases hyx : y = x
    · subst hyx
      simp [sumUnvisited, hv, sumUnvisited_cons_notMem a l vis y hnd.1]
      omega
    · have hxl : x ∈ l := by
        simp only [List.mem_cons] at hx
        cases hx with
        | inl e => exact absurd e.symm hyx
        | inr e => exact e
      have ih' := ih hnd.2 hxl
      simp only [sumUnvisited, List.mem_cons, hyx, false_or]
      omega

/-- the potential: out-degrees of the objects not yet marked -/
def pot (a : A) (vis : List Nat) : Nat := sumUnvisited a (List.range a.objs.length) vis

theorem edges_out_of_range (a : A) (x : Nat) (h : a.objs.length ≤ x) : a.edges x = [] := by
  unfold A.edges
  have : a.objs[x]? = none := List.getElem?_eq_none h
  simp [this]

theorem pot_step (a : A) (vis : List Nat) (x : Nat) (hv : x ∉ vis) :
    pot a (x :: vis) + w a x = pot a vis := by
  by_cases hx : x < a.objs.length
  · exact sumUnvisited_cons a _ vis x List.nodup_range (by simp [hx]) hv
  · have : w a x = 0 := by simp [w, edges_out_of_range a x (by omega)]
    rw [this]
    simp only [pot, Nat.add_zero]
    exact sumUnvisited_cons_notMem a _ vis x (by simp; omega)

/-- The invariant of the marking loop, with a fuel bound instead of a termination hypothesis. -/
theorem mark_spec (a : A) (roots : List Nat) :
    ∀ fuel work vis,
      work.length + pot a vis ≤ fuel →
      (∀ x ∈ work, Reach a roots x) → (∀ x ∈ vis, Reach a roots x) →
      (∀ x ∈ vis, ∀ y ∈ a.edges x, y ∈ vis ∨ y ∈ work) →
      (∀ x ∈ mark a fuel work vis, Reach a roots x) ∧
      (∀ x ∈ mark a fuel work vis, ∀ y ∈ a.edges x, y ∈ mark a fuel work vis) ∧
      (∀ x ∈ vis, x ∈ mark a fuel work vis) ∧ (∀ x ∈ work, x ∈ mark a fuel work vis) := by
  intro fuel
  induction fuel with
  | zero =>
    intro work vis hf hw hv hc
    cases work with
    | nil =>
      simp only [mark]
      exact ⟨hv, fun x hx y hy => by cases hc x hx y hy <;> simp_all, fun x hx => hx, by simp⟩
    | cons x rest => simp at hf
  | succ f ih =>
    intro work vis hf hw hv hc
    cases work with
    | nil =>
      simp only [mark]
      exact ⟨hv, fun x hx y hy => by cases hc x hx y hy <;> simp_all, fun x hx => hx, by simp⟩
    | cons x rest =>
      simp only [mark]
      split
      · next hx =>
        have := ih rest vis (by simp at hf; omega) (fun y hy => hw y (by simp [hy])) hv
          (fun b hb y hy => by
            cases hc b hb y hy with
            | inl h1 => exact Or.inl h1
            | inr h1 =>
              simp only [List.mem_cons] at h1
              cases h1 with
              | inl h2 => subst h2; exact Or.inl hx
              | inr h2 => exact Or.inr h2)
        obtain ⟨r1, r2, r3, r4⟩ := this
        refine ⟨r1, r2, r3, fun y hy => ?_⟩
        simp only [List.mem_cons] at hy
        cases hy with
        | inl h1 => subst h1; exact r3 _ hx
        | inr h1 => exact r4 _ h1
      · next hx =>
        have hxr : Reach a roots x := hw x (by simp)
        have hp := pot_step a vis x hx
        have := ih (a.edges x ++ rest) (x :: vis)
          (by simp only [List.length_append, List.length_cons, w] at hf hp ⊢; omega)
          (fun y hy => by
            simp only [List.mem_append] at hy
            cases hy with
            | inl h1 => exact Reach.step hxr h1
            | inr h1 => exact hw y (by simp [h1]))
          (fun y hy => by
            simp only [List.mem_cons] at hy
            cases hy with
            | inl h1 => subst h1; exact hxr
            | inr h1 => exact hv y h1)
          (fun b hb y hy => by
            simp only [List.mem_cons] at hb
            cases hb with
            | inl h1 => subst h1; exact Or.inr (by simp [hy])
            | inr h1 =>
              cases hc b h1 y hy with
              | inl h2 => exact Or.inl (by simp [h2])
              | inr h2 =>
                simp only [List.mem_cons] at h2
                cases h2 with
                | inl h3 => subst h3; exact Or.inl (by simp)
                | inr h3 => exact Or.inr (by simp [h3]))
        obtain ⟨r1, r2, r3, r4⟩ := this
        refine ⟨r1, r2, fun y hy => r3 y (by simp [hy]), fun y hy => ?_⟩
        simp only [List.mem_cons] at hy
        cases hy with
        | inl h1 => subst h1; exact r3 _ (by simp)
        | inr h1 => exact r4 y (by simp [h1])

theorem sumUnvisited_le (a : A) (l vis : List Nat) : sumUnvisited a l vis ≤ (l.map (w a)).sum := by
  induction l with
  | nil => simp [sumUnvisited]
  | cons x l ih => simp only [sumUnvisited, List.map_cons, List.sum_cons]; split <;> omega

theorem sum_w_range (a : A) : ((List.range a.objs.length).map (w a)).sum = (a.objs.map (·.edges.length)).sum := by
  have : (List.range a.objs.length).map (w a) = a.objs.map (·.edges.length) := by
    apply List.ext_getElem
    · simp
    · intro i h1 h2
      simp only [List.length_map, List.length_range] at h1
      simp [w, A.edges, h1]
  rw [this]

theorem pot_le_fuel (a : A) (work : List Nat) : work.length + pot a [] ≤ a.fuel work := by
  have := sumUnvisited_le a (List.range a.objs.length) []
  rw [sum_w_range] at this
  simp only [pot, A.fuel]
  omega

/-- **C05_mark_is_reachability.** The marking pass of a collection marks exactly the objects
reachable from the context's roots and the temporary roots — for every heap and every root set,
and it always finishes within the model's fuel. -/
theorem marked_iff_reach (a : A) (roots : List Nat) (x : Nat) :
    x ∈ a.marked roots ↔ Reach a (roots ++ a.temp) x := by
  have := mark_spec a (roots ++ a.temp) (a.fuel (roots ++ a.temp)) (roots ++ a.temp) []
    (pot_le_fuel a _) (fun x hx => Reach.root hx) (by simp) (by simp)
  obtain ⟨r1, r2, _, r4⟩ := this
  constructor
  · exact r1 x
  · intro hr
    induction hr with
    | root hx => exact r4 _ hx
    | step _ hy ih => exact r2 _ ih _ hy

end LaytheVerif.Alloc
