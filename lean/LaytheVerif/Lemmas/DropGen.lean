/-
[G] `impl Drop for ObjectHandle` and `ObjectHandle::size` (laythe_core/src/reference/obj_reference.rs),
as regenerated into `Gen/DropArms.lean` by tools/translate_c20.py on every run: for every `ObjectKind`
the arm of `drop` reaches exactly one `dealloc` call that stands directly in the arm (under no `if`,
loop, `match` or closure), there is no way out of the arm or of the statements before the `match`
(`return`, `forget`, ...), the block handed back is the handle's own pointer, and the layout is the very
expression (over the same length/capacity read) whose size `ObjectHandle::size` accounts.
An edit of either function re-opens these lemmas, and with them C20.
-/
import LaytheVerif.Gen.DropArms
import LaytheVerif.Model.AllocRelease
namespace LaytheVerif.DropGen
open LaytheVerif.Gen

/-- Does the arm hand its block back whenever it runs, exactly once? -/
def armReleases (arm : DropArms.Arm) : Bool :=
  arm.deallocs == 1 && arm.guarded == 0 && arm.exits == 0 && arm.ptr == "self.ptr.as_ptr()"

/-- Does the arm release with the layout `size` accounts? -/
def armLayoutAgrees (arm : DropArms.Arm) : Bool :=
  arm.layout == arm.sizeLayout && arm.lenExpr == arm.sizeLenExpr

/-- `rel` for a block of kind `k` (`none`: a `Box<dyn Manage>` of the `heap` list, freed by `Box`'s own drop). -/
def relOfKind (arms : List DropArms.Arm) : Option String → Bool
  | none => true
  | some k => match arms.find? (fun arm => arm.kind == k) with
    | some arm => armReleases arm
    | none => false

set_option maxRecDepth 20000

theorem arms_cover_kinds_gen : DropArms.arms.map (·.kind) = DropArms.kinds := by decide

theorem kinds_gen : DropArms.kinds =
    ["Channel", "Class", "Closure", "Enumerator", "Fun", "Instance", "List", "Map", "Method", "Native", "String", "LyBox", "Tuple"] := by decide

theorem prelude_gen : DropArms.prelude =
    "let kind = self.kind(); #[allow(clippy::cast_ptr_alignment)] ptr::read(self.ptr.as_ptr() as *const ObjHeader);"
    ∧ DropArms.preludeExits = 0 ∧ DropArms.epilogue = "" := ⟨rfl, rfl, rfl⟩

theorem macros_gen :
    DropArms.dropKindMacro = "let offset = get_offset::<ObjHeader, $o>(); ptr::read(self.ptr.as_ptr().add(offset) as *const $o); dealloc(self.ptr.as_ptr(), make_obj_layout::<ObjHeader, $o>());"
    ∧ DropArms.kindSizeMacro = "make_obj_layout::<ObjHeader, $o>().size()" := ⟨rfl, rfl⟩

/-- **every_arm_deallocates_gen.** Every arm of `impl Drop for ObjectHandle` hands its block back
unconditionally and exactly once. -/
theorem every_arm_deallocates_gen : ∀ arm ∈ DropArms.arms, armReleases arm = true := by decide

/-- Every arm releases with the layout whose size `ObjectHandle::size` reports for the same kind. -/
theorem every_arm_layout_agrees_gen : ∀ arm ∈ DropArms.arms, armLayoutAgrees arm = true := by decide

/-- For every kind of block the allocator can own, dropping the handle releases the block. -/
theorem relOfKind_gen : ∀ k ∈ DropArms.kinds, relOfKind DropArms.arms (some k) = true := by decide

theorem relOfKind_all (k : Option String) (hk : ∀ s, k = some s → s ∈ DropArms.kinds) :
    relOfKind DropArms.arms k = true := by
  cases k with
  | none => rfl
  | some s => exact relOfKind_gen s (hk s rfl)

/-- The seeded class of defects, as the table would read it: an arm whose `dealloc` stands under a guard
does not count as releasing. -/
example : armReleases { kind := "List", deallocs := 0, guarded := 1, exits := 0, ptr := "", layout := "", lenExpr := "list_capacity::<ObjHeader>(self)",
                        sizeLayout := "make_vector_layout::<ObjHeader, Value>(cap)", sizeLenExpr := "list_capacity::<ObjHeader>(self)" } = false := by decide

end LaytheVerif.DropGen
