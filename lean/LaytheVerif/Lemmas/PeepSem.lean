/-
Uninterpreted-effect semantics for instruction streams: every instruction is an arbitrary state
transformer `step : Sym → σ → Out σ` (it may fall through, transfer control to a label, stop, or get
stuck).  Lines are carried but ignored.  Used by C12.
-/
import LaytheVerif.Model.Peephole
namespace LaytheVerif.Peephole
open LaytheVerif.Gen

inductive Out (σ : Type) where
  | next (s : σ) | goto (l : Nat) (s : σ) | stop (s : σ) | stuck
  deriving Repr, DecidableEq

inductive Res (σ : Type) where
  | fell (s : σ) | stopped (s : σ) | stuck | outOfFuel
  deriving Repr

/-- Run a straight line of instructions until one does not fall through. -/
def runLine {σ} (step : Sym → σ → Out σ) : List IL → σ → Out σ
  | [], s => .next s
  | i :: r, s => match step i.1 s with
    | .next s' => runLine step r s'
    | o => o

theorem runLine_append {σ} (step : Sym → σ → Out σ) (a b : List IL) (s : σ) :
    runLine step (a ++ b) s = match runLine step a s with
      | .next s' => runLine step b s'
      | o => o := by
  induction a generalizing s with
  | nil => simp [runLine]
  | cons i a ih =>
    simp only [List.cons_append, runLine]
    cases h : step i.1 s <;> simp [ih]

/-- Whole-program execution from a program point: fuel is consumed only by control transfers, and
every transfer goes to a label of the program. -/
def exec {σ} (step : Sym → σ → Out σ) (prog : List IL) : Nat → List IL → σ → Res σ
  | _, [], s => .fell s
  | fuel, i :: r, s =>
    match step i.1 s with
    | .next s' => exec step prog fuel r s'
    | .goto l s' => match fuel with
      | 0 => .outOfFuel
      | f + 1 => exec step prog f (after l prog) s'
    | .stop s' => .stopped s'
    | .stuck => .stuck
termination_by fuel pc => (fuel, pc.length)

/-- What happens after a straight line. -/
def cont {σ} (step : Sym → σ → Out σ) (prog : List IL) (fuel : Nat) (rest : List IL) : Out σ → Res σ
  | .next s' => exec step prog fuel rest s'
  | .goto l s' => match fuel with
    | 0 => .outOfFuel
    | f + 1 => exec step prog f (after l prog) s'
  | .stop s' => .stopped s'
  | .stuck => .stuck

theorem exec_line {σ} (step : Sym → σ → Out σ) (prog : List IL) (fuel : Nat) (xs rest : List IL) (s : σ) :
    exec step prog fuel (xs ++ rest) s = cont step prog fuel rest (runLine step xs s) := by
  induction xs generalizing s with
  | nil => simp [runLine, cont]
  | cons i xs ih =>
    simp only [List.cons_append, runLine]
    rw [exec]
    cases h : step i.1 s <;> simp [cont, ih]

theorem runLine_single {σ} (step : Sym → σ → Out σ) (i : IL) (s : σ) : runLine step [i] s = step i.1 s := by
  simp only [runLine]; cases step i.1 s <;> rfl

theorem exec_cons {σ} (step : Sym → σ → Out σ) (p : List IL) (fuel : Nat) (i : IL) (r : List IL) (s : σ) :
    exec step p fuel (i :: r) s = cont step p fuel r (step i.1 s) := by
  have := exec_line step p fuel [i] r s
  simpa [runLine_single] using this

/-- `runLine` only looks at the instructions, not at the lines. -/
theorem runLine_lines {σ} (step : Sym → σ → Out σ) (a b : List IL) (h : a.map Prod.fst = b.map Prod.fst) (s : σ) :
    runLine step a s = runLine step b s := by
  induction a generalizing b s with
  | nil => cases b <;> simp_all [runLine]
  | cons x a ih =>
    cases b with
    | nil => simp at h
    | cons y b =>
      simp only [List.map_cons, List.cons.injEq] at h
      simp only [runLine, h.1]
      cases step y.1 s <;> simp [ih b h.2]

/-- The local laws a bytecode semantics must satisfy for the rewrites to be sound.  Each is an
equality of state transformers, for all states. -/
structure Laws {σ} (step : Sym → σ → Out σ) : Prop where
  dropN : ∀ n s, step (.DropN (n + 2)) s = runLine step (List.replicate (n + 2) (Sym.Drop, 0)) s
  setGetLocal : ∀ v s, runLine step [(.SetLocal v, 0), (.Drop, 0), (.GetLocal v, 0)] s = step (.SetLocal v) s
  setGetBox : ∀ v s, runLine step [(.SetBox v, 0), (.Drop, 0), (.GetBox v, 0)] s = step (.SetBox v) s
  setGetCapture : ∀ v s, runLine step [(.SetCapture v, 0), (.Drop, 0), (.GetCapture v, 0)] s = step (.SetCapture v) s
  setGetModSym : ∀ v s, runLine step [(.SetModSym v, 0), (.Drop, 0), (.GetModSym v, 0)] s = step (.SetModSym v) s
  getDup : ∀ i, isLoad i = true → ∀ m s, runLine step ((i, 0) :: List.replicate m (i, 0)) s
                     = runLine step ((i, 0) :: List.replicate m (Sym.Dup, 0)) s
  invoke0 : ∀ n s, runLine step [(.GetPropByName n, 0), (.PropertySlot, 0), (.Call 0, 0)] s
                 = runLine step [(.Invoke n 0, 0), (.InvokeSlot, 0)] s
  superInvoke0 : ∀ n s, runLine step [(.GetSuper n, 0), (.Call 0, 0)] s
                 = runLine step [(.SuperInvoke n 0, 0), (.InvokeSlot, 0)] s
  argDelim : ∀ s, step .ArgumentDelimiter s = .next s
  jump : ∀ l s, ∀ s', step (.Jump l) s ≠ .next s'
  loop : ∀ l s, ∀ s', step (.Loop l) s ≠ .next s'
  ret : ∀ s, ∀ s', step .Return s ≠ .next s'
  raise : ∀ s, ∀ s', step .Raise s ≠ .next s'

end LaytheVerif.Peephole
