/-
Which outcomes an instruction of the scheduler model can produce: "Fatal error deadlock." only from
the `ContextSwitch` arm with an empty run queue; of the five `assert!`s only those of
`Fiber::activate` and `Fiber::unblock` can fail.  Used by `Props/C08.lean`.
-/
import LaytheVerif.Lemmas.SchedStep

namespace LaytheVerif.Sched
open LaytheVerif.ChanQueue

/-- a deadlock report comes with an empty run queue; `sleep`/`block`/`complete` never assert; `Exit`
is the main fiber returning from its last frame -/
def OutcomeOK (vm : VM) : Prop :=
  (vm.outcome = .deadlock → vm.runq = []) ∧
  (∀ a, vm.outcome = .panic a → a = .activate ∨ a = .unblock) ∧
  (vm.outcome = .exit → vm.cur = 0 ∧ vm.me.prog = [])

theorem outcomeOK_of_running {vm : VM} (h : vm.outcome = .running) : OutcomeOK vm := by
  refine ⟨?_, ?_, ?_⟩ <;> simp [h]

theorem outcomeOK_of_eq {vm vm' : VM} (h : vm'.outcome = vm.outcome) (hr : vm.outcome = .running) : OutcomeOK vm' :=
  outcomeOK_of_running (h.trans hr)

theorem outcomeOK_of_panic {vm : VM} {a : Assert} (h : vm.outcome = .panic a) (ha : a = .activate ∨ a = .unblock) :
    OutcomeOK vm := by
  refine ⟨?_, ?_, ?_⟩
  · intro hd; rw [h] at hd; cases hd
  · intro b hb; rw [h] at hb; cases hb; exact ha
  · intro he; rw [h] at he; cases he

theorem parked_next_outcome {vm : VM} (h : vm.outcome = .running ∨ vm.outcome = .panic .unblock) :
    OutcomeOK (vm.next contextSwitch) := by
  rcases h with h | h
  · rw [next_running _ _ h]
    rcases contextSwitch_outcome vm with ⟨h1, _, h3⟩ | h1 | h1
    · exact ⟨fun _ => h3, fun a ha => (by rw [h1] at ha; cases ha), fun he => (by rw [h1] at he; cases he)⟩
    · exact outcomeOK_of_eq h1 h
    · exact outcomeOK_of_panic h1 (Or.inl rfl)
  · rw [next_stopped _ _ (by rw [h]; simp)]
    exact outcomeOK_of_panic h (Or.inr rfl)

theorem wake_park_outcome {vm : VM} (hr : vm.outcome = .running) (hs : vm.me.state = .running) (r : Option Nat)
    (park : VM → VM)
    (hpark : ∀ x : VM, x.me.state = .running → (park x).outcome = x.outcome) :
    OutcomeOK ((wake vm r).next fun vm => (park vm).next contextSwitch) := by
  have hw := (wake_me_state vm r).2 hs
  rcases wake_outcome vm r with h | h
  · rw [next_running _ _ (h.trans hr)]
    exact parked_next_outcome (Or.inl ((hpark _ hw).trans (h.trans hr)))
  · rw [next_stopped _ _ (by rw [h]; simp)]
    exact outcomeOK_of_panic h (Or.inr rfl)

theorem block_outcome (x : VM) (h : x.me.state = .running) : (block x).outcome = x.outcome := by
  unfold block; simp [h]

theorem sleep_outcome (x : VM) (h : x.me.state = .running) : (sleep x).outcome = x.outcome := by
  unfold sleep; simp [h]

theorem accept_frame (vm : VM) (c v : Nat) (q : Q) (ack : Option Nat) :
    (accept vm c v q ack).outcome = vm.outcome ∧ (accept vm c v q ack).runq = vm.runq ∧
    (accept vm c v q ack).out = vm.out ∧ (accept vm c v q ack).cur = vm.cur ∧
    (accept vm c v q ack).bodies = vm.bodies := by
  simp [accept]

theorem deliver_frame (vm : VM) (c : Nat) (q : Q) (r : Option Nat) :
    (deliver vm c q r).outcome = vm.outcome ∧ (deliver vm c q r).runq = vm.runq ∧
    (deliver vm c q r).out = vm.out ++ [.got vm.me.tmpl r] ∧ (deliver vm c q r).cur = vm.cur ∧
    (deliver vm c q r).bodies = vm.bodies := by
  unfold deliver; cases r <;> simp [VM.emit, VM.setQ]

theorem stop_outcomeOK (vm : VM) (e : Err) : OutcomeOK (vm.stop (.error e)) := by
  refine ⟨?_, ?_, ?_⟩ <;> simp [VM.stop]

theorem sendOn_outcome {vm : VM} (g : Good vm) (hr : vm.outcome = .running) (hs : vm.me.state = .running)
    (c v : Nat) : OutcomeOK (sendOn vm c v) := by
  have hq := send_P (· < vm.fibers.length) vm.flags (vm.chan c).q vm.cur v (g.waiters _) g.cur
  unfold sendOn
  simp only [chanSend]
  split
  · rename_i q heq
    exact outcomeOK_of_running (by rw [(advance_frame _).2.2.2.1, (accept_frame ..).1]; exact hr)
  · rename_i q w heq
    rw [heq] at hq
    have ga := good_accept g hs c v q (some c) hq.1
    exact wake_park_outcome (by rw [(advance_frame _).2.2.2.1, (accept_frame ..).1]; exact hr)
      (by rw [advance_me_state]; exact ga.2.1) w block block_outcome
  · rename_i q w heq
    exact wake_park_outcome (vm := (vm.setQ c q).log (.retry vm.cur)) hr hs w sleep sleep_outcome
  · exact stop_outcomeOK _ _
  · exact stop_outcomeOK _ _

theorem recvOn_outcome {vm : VM} (hr : vm.outcome = .running) (hs : vm.me.state = .running)
    (c : Nat) : OutcomeOK (recvOn vm c) := by
  unfold recvOn
  simp only [chanRecv]
  split
  · exact outcomeOK_of_running (by rw [(advance_frame _).2.2.2.1, (deliver_frame ..).1]; exact hr)
  · exact outcomeOK_of_running (by rw [(advance_frame _).2.2.2.1, (deliver_frame ..).1]; exact hr)
  · rename_i q w heq
    exact wake_park_outcome (vm := (vm.setQ c q).log (.retry vm.cur)) hr hs w block block_outcome
  · rename_i q w heq
    exact wake_park_outcome (vm := (vm.setQ c q).log (.retry vm.cur)) hr hs w sleep sleep_outcome
  · exact stop_outcomeOK _ _

theorem execReturn_outcome {vm : VM} (g : Good vm) (hr : vm.outcome = .running) (hs : vm.me.state = .running)
    (hp : vm.me.prog = []) : OutcomeOK (execReturn vm) := by
  unfold execReturn
  split
  · rename_i h0
    refine ⟨?_, ?_, ?_⟩
    · simp [VM.stop]
    · simp [VM.stop]
    · intro _; exact ⟨h0, hp⟩
  · have hc := good_complete g hs
    split
    · rename_i w hw
      apply parked_next_outcome
      rcases queueBlocked_outcome (complete vm).1 w with h | h
      · left; rw [h, hc.2.2.1]; exact hr
      · right; exact h
    · exact parked_next_outcome (Or.inl (by rw [hc.2.2.1]; exact hr))

theorem exec_outcome {vm : VM} (h : Inv vm) (hr : vm.outcome = .running) : OutcomeOK (exec vm) := by
  obtain ⟨g, hs⟩ := h
  have hs := hs hr
  unfold exec
  split
  · rename_i hp; exact execReturn_outcome g hr hs hp
  · exact outcomeOK_of_running (by rw [(advance_frame _).2.2.2.1]; exact hr)
  · exact outcomeOK_of_running (by unfold execLaunch; rw [(advance_frame _).2.2.2.1]; exact hr)
  · unfold execClose
    split
    · exact outcomeOK_of_running (by rw [(advance_frame _).2.2.2.1]; exact hr)
    · exact stop_outcomeOK _ _
  · exact sendOn_outcome (good_addUsed g _) (by rw [(addUsed_frame _ _).2.2.2.1]; exact hr)
      (by rw [addUsed_me_state]; exact hs) _ _
  · exact recvOn_outcome (by rw [(addUsed_frame _ _).2.2.2.1]; exact hr)
      (by rw [addUsed_me_state]; exact hs) _

theorem step_outcome {vm : VM} (h : Inv vm) (ho : OutcomeOK vm) : OutcomeOK (step vm) := by
  unfold step
  by_cases hr : vm.outcome = .running
  · rw [next_running _ _ hr]; exact exec_outcome h hr
  · rw [next_stopped _ _ hr]; exact ho

theorem run_outcome (n : Nat) {vm : VM} (h : Inv vm) (ho : OutcomeOK vm) : OutcomeOK (run n vm) := by
  induction n generalizing vm with
  | zero => exact ho
  | succ n ih => exact ih (step_inv h) (step_outcome h ho)

/-! ### the program text never changes -/

theorem next_bodies (vm : VM) (f : VM → VM) (hf : ∀ x : VM, (f x).bodies = x.bodies) :
    (vm.next f).bodies = vm.bodies := by
  unfold VM.next; split
  · exact hf vm
  · rfl

theorem sleep_bodies (x : VM) : (sleep x).bodies = x.bodies := by unfold sleep; split <;> rfl
theorem block_bodies (x : VM) : (block x).bodies = x.bodies := by unfold block; split <;> rfl
theorem contextSwitch_bodies (x : VM) : (contextSwitch x).bodies = x.bodies := by
  unfold contextSwitch; split
  · rfl
  · split <;> rfl

theorem park_bodies (vm : VM) (r : Option Nat) (park : VM → VM) (hp : ∀ x : VM, (park x).bodies = x.bodies) :
    ((wake vm r).next fun vm => (park vm).next contextSwitch).bodies = vm.bodies := by
  rw [next_bodies _ _ (fun x => by rw [next_bodies _ _ contextSwitch_bodies, hp]), (wake_frame vm r).2.2.2]

theorem sendOn_bodies (vm : VM) (c v : Nat) : (sendOn vm c v).bodies = vm.bodies := by
  unfold sendOn; split
  · rw [(advance_frame _).2.2.2.2.2.2, (accept_frame ..).2.2.2.2]
  · rw [park_bodies _ _ _ block_bodies, (advance_frame _).2.2.2.2.2.2, (accept_frame ..).2.2.2.2]
  · rw [park_bodies _ _ _ sleep_bodies]; rfl
  · rfl
  · rfl

theorem recvOn_bodies (vm : VM) (c : Nat) : (recvOn vm c).bodies = vm.bodies := by
  unfold recvOn; split
  · rw [(advance_frame _).2.2.2.2.2.2, (deliver_frame ..).2.2.2.2]
  · rw [(advance_frame _).2.2.2.2.2.2, (deliver_frame ..).2.2.2.2]
  · rw [park_bodies _ _ _ block_bodies]; rfl
  · rw [park_bodies _ _ _ sleep_bodies]; rfl
  · rfl

theorem exec_bodies (vm : VM) : (exec vm).bodies = vm.bodies := by
  unfold exec; split
  · unfold execReturn; split
    · rfl
    · split
      · rw [next_bodies _ _ contextSwitch_bodies, (queueBlocked_frame _ _).2.2.2.2, (complete_frame vm).2.1]
      · rw [next_bodies _ _ contextSwitch_bodies, (complete_frame vm).2.1]
  · rw [(advance_frame _).2.2.2.2.2.2]; rfl
  · unfold execLaunch; rw [(advance_frame _).2.2.2.2.2.2]
  · unfold execClose; split
    · rw [(advance_frame _).2.2.2.2.2.2]; rfl
    · rfl
  · unfold execSend; rw [sendOn_bodies, (addUsed_frame _ _).2.2.2.2.2.2]
  · unfold execRecv; rw [recvOn_bodies, (addUsed_frame _ _).2.2.2.2.2.2]

theorem step_bodies (vm : VM) : (step vm).bodies = vm.bodies := next_bodies _ _ exec_bodies

theorem run_bodies (n : Nat) (vm : VM) : (run n vm).bodies = vm.bodies := by
  induction n generalizing vm with
  | zero => rfl
  | succ n ih => exact (ih (step vm)).trans (step_bodies vm)

end LaytheVerif.Sched
