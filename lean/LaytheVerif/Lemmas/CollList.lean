/-
Helper lemmas for C11: the raw list buffer of `Model/Collections.lean` (slots, length, capacity, `ptr::copy`
shifts, growth) represents a `List α`, and every buffer operation is the corresponding `List` operation.
-/
import LaytheVerif.Model.Collections
namespace LaytheVerif.Coll
variable {α β : Type}

theorem drop_len_cons (B : List β) : ∀ (x : β) (R : List β), ∃ y, List.drop B.length (x :: (B ++ R)) = y :: R := by
  induction B with
  | nil => intro x R; exact ⟨x, rfl⟩
  | cons b B ih => intro x R; simpa using ih b R

/-- the upward shift of `insert`: the block `B` moves one slot up, into the free slot `r` -/
theorem ptrCopy_up (A B R : List β) (r : β) :
    ∃ x, RawVec.ptrCopy (A ++ B ++ r :: R) A.length (A.length + 1) B.length = A ++ x :: (B ++ R) := by
  cases B with
  | nil => exact ⟨r, by simp [RawVec.ptrCopy, List.take_append, List.take_of_length_le]⟩
  | cons b B' =>
    refine ⟨b, ?_⟩
    have h1 : A.length + 1 + (B'.length + 1) - A.length = B'.length + 1 + 1 := by omega
    simp [RawVec.ptrCopy, List.take_append, List.drop_append, List.take_of_length_le, List.drop_of_length_le, h1]
    omega

/-- the downward shift of `remove`: the block `B` moves one slot down over `x`; a stale copy stays behind -/
theorem ptrCopy_down (A B R : List β) (x : β) :
    ∃ y, RawVec.ptrCopy (A ++ x :: B ++ R) (A.length + 1) A.length B.length = A ++ B ++ y :: R := by
  obtain ⟨y, hy⟩ := drop_len_cons B x R
  refine ⟨y, ?_⟩
  simp [RawVec.ptrCopy, List.drop_append, List.drop_of_length_le, hy]

theorem set_append_at (A R : List β) (r v : β) (k : Nat) (hk : A.length = k) :
    (A ++ r :: R).set k v = A ++ v :: R := by
  subst hk; simp [List.set_append]

theorem insertIdx_eq (xs : List β) (v : β) : ∀ idx, idx ≤ xs.length →
    xs.insertIdx idx v = xs.take idx ++ v :: xs.drop idx := by
  induction xs with
  | nil => intro idx h; have : idx = 0 := by simpa using h
           subst this; simp
  | cons x xs ih =>
    intro idx h
    cases idx with
    | zero => simp
    | succ k => simp [List.insertIdx_succ_cons, ih k (by simpa using h)]

/-- the buffer `b` holds exactly the sequence `xs` (followed by free or stale slots) -/
def Repr (b : RawVec α) (xs : List α) : Prop := ∃ rest, b.slots = xs.map some ++ rest ∧ b.len = xs.length

theorem filterMap_id_map_some (xs : List α) : (xs.map some).filterMap id = xs := by
  induction xs with
  | nil => rfl
  | cons x xs ih => simp [ih]

theorem Repr.toList {b : RawVec α} {xs : List α} (h : Repr b xs) : b.toList = xs := by
  obtain ⟨rest, hs, hl⟩ := h
  simp [RawVec.toList, hs, hl, List.take_append, filterMap_id_map_some]

theorem Repr.len {b : RawVec α} {xs : List α} (h : Repr b xs) : b.len = xs.length := by
  obtain ⟨_, _, hl⟩ := h; exact hl

theorem Repr.cap {b : RawVec α} {xs : List α} (h : Repr b xs) : xs.length ≤ b.cap := by
  obtain ⟨rest, hs, hl⟩ := h
  simp [RawVec.cap, hs]

theorem all_some_eq (l : List (Option α)) (h : l.all Option.isSome = true) : l = (l.filterMap id).map some := by
  induction l with
  | nil => rfl
  | cons x l ih =>
    cases x with
    | none => simp at h
    | some v => simp at h; simp; exact ih (by simpa using h)

theorem Repr.ofWF {b : RawVec α} (h : b.WF = true) : Repr b b.toList := by
  simp only [RawVec.WF, Bool.and_eq_true, decide_eq_true_eq] at h
  refine ⟨b.slots.drop b.len, ?_, ?_⟩
  · have := all_some_eq _ h.2
    simp only [RawVec.toList]
    rw [← this, List.take_append_drop]
  · have := congrArg List.length (all_some_eq _ h.2)
    simp only [RawVec.toList]
    simp at this
    omega

theorem Repr.wf {b : RawVec α} {xs : List α} (h : Repr b xs) : b.WF = true := by
  obtain ⟨rest, hs, hl⟩ := h
  simp [RawVec.WF, hs, hl, List.take_append]

theorem Repr.ofList (xs : List α) : Repr (RawVec.ofList xs) xs := ⟨_, rfl, rfl⟩

/-- `VecBuilder::cap_only(n)` — `n = 0` included — is an empty list -/
theorem Repr.capOnly (n : Nat) : Repr (RawVec.capOnly n : RawVec α) [] := ⟨_, rfl, rfl⟩

theorem ofList_cap (xs : List α) : 1 ≤ (RawVec.ofList xs).cap := by
  simp [RawVec.ofList, RawVec.cap]; omega

theorem Repr.grow {b : RawVec α} {xs : List α} (h : Repr b xs) (n : Nat) : Repr (b.grow n) xs := by
  obtain ⟨rest, hs, hl⟩ := h
  refine ⟨List.replicate (n - b.len) none, ?_, hl⟩
  simp [RawVec.grow, hs, hl, List.take_append]

theorem grow_cap {b : RawVec α} {xs : List α} (h : Repr b xs) (n : Nat) (hn : b.len ≤ n) : (b.grow n).cap = n := by
  obtain ⟨rest, hs, hl⟩ := h
  simp [RawVec.grow, RawVec.cap, hs, hl, List.take_append]
  omega

theorem Repr.ensure {b : RawVec α} {xs : List α} (h : Repr b xs) (n : Nat) : Repr (b.ensureCapacity n) xs := by
  unfold RawVec.ensureCapacity; split
  · exact h.grow _
  · exact h

/-- `ensure_capacity(len + 1)` really makes room — for every capacity, 0 included (`max (cap * 2) needed`) -/
theorem ensure_cap {b : RawVec α} {xs : List α} (h : Repr b xs) :
    b.len + 1 ≤ (b.ensureCapacity (b.len + 1)).cap := by
  have hle := h.cap
  have hl := h.len
  unfold RawVec.ensureCapacity; split
  · next hgt =>
    rw [grow_cap h _ (by omega)]
    omega
  · omega

/-- **push**: never writes outside the allocation -/
theorem push_repr {b : RawVec α} {xs : List α} (h : Repr b xs) (v : α) :
    ∃ b', b.push v = .done b' ∧ Repr b' (xs ++ [v]) := by
  have he := h.ensure (b.len + 1)
  have hcap := ensure_cap h
  obtain ⟨rest, hs, hl⟩ := he
  have hl0 := h.len
  simp only [RawVec.push]
  have hlt : b.len < (b.ensureCapacity (b.len + 1)).cap := by omega
  simp only [hlt, if_true]
  refine ⟨_, rfl, ?_⟩
  cases rest with
  | nil => simp [RawVec.cap, hs] at hlt; omega
  | cons r rest' =>
    refine ⟨rest', ?_, by simp [hl0]⟩
    show (b.ensureCapacity (b.len + 1)).slots.set b.len (some v) = _
    rw [hs, set_append_at _ _ _ _ _ (by simp [hl0])]
    simp

/-- **pop** -/
theorem pop_repr {b : RawVec α} {xs : List α} (h : Repr b xs) :
    b.pop.1 = xs.getLast? ∧ Repr b.pop.2 xs.dropLast ∧ b.pop.2.cap = b.cap := by
  obtain ⟨rest, hs, hl⟩ := h
  unfold RawVec.pop
  rcases List.eq_nil_or_concat xs with rfl | ⟨ys, y, rfl⟩
  · simp at hl; simp [hl]; exact ⟨rest, by simpa using hs, hl⟩
  · have hne : b.len ≠ 0 := by simp at hl; omega
    simp only [hne, if_false]
    refine ⟨?_, ⟨some y :: rest, ?_, ?_⟩, rfl⟩
    · simp at hl; simp [hs, hl, List.getD_eq_getElem?_getD, List.getElem?_append]
    · simpa using hs
    · simp at hl; simp [hl]

/-- **insert** inside the bounds: never writes outside the allocation -/
theorem insert_repr {b : RawVec α} {xs : List α} (h : Repr b xs) (idx : Nat) (v : α)
    (hi : idx ≤ xs.length) :
    ∃ b', b.insert idx v = some (.done b') ∧ Repr b' (xs.insertIdx idx v) := by
  have he := h.ensure (b.len + 1)
  have hcap := ensure_cap h
  obtain ⟨rest, hs, hl⟩ := he
  have hl0 := h.len
  have hlt : b.len < (b.ensureCapacity (b.len + 1)).cap := by omega
  have hgt : ¬ idx > b.len := by omega
  simp only [RawVec.insert, hgt, hlt, if_true, if_false]
  refine ⟨_, rfl, ?_⟩
  cases rest with
  | nil => simp [RawVec.cap, hs] at hlt; omega
  | cons r rest' =>
    have hsplit : xs.map some = (xs.take idx).map some ++ (xs.drop idx).map some := by
      rw [← List.map_append, List.take_append_drop]
    have hA : ((xs.take idx).map some).length = idx := by simp; omega
    have hB : ((xs.drop idx).map some).length = b.len - idx := by simp; omega
    obtain ⟨x, hx⟩ := ptrCopy_up ((xs.take idx).map some) ((xs.drop idx).map some) rest' r
    rw [hA, hB] at hx
    refine ⟨rest', ?_, by simp [List.length_insertIdx, hl0]; omega⟩
    show ((RawVec.ptrCopy (b.ensureCapacity (b.len + 1)).slots idx (idx + 1) (b.len - idx)).set idx (some v)) = _
    rw [hs, hsplit, hx]
    rw [set_append_at _ _ _ _ _ hA, insertIdx_eq xs v idx hi]
    simp

theorem insert_oob {b : RawVec α} {xs : List α} (h : Repr b xs) (idx : Nat) (v : α) (hi : xs.length < idx) :
    b.insert idx v = none := by
  have hl0 := h.len
  simp [RawVec.insert]; omega

/-- **remove** inside the bounds -/
theorem remove_repr {b : RawVec α} {xs : List α} (h : Repr b xs) (idx : Nat) (hi : idx < xs.length) :
    ∃ b', b.remove idx = some (xs[idx]?, b') ∧ Repr b' (xs.eraseIdx idx) ∧ b'.cap = b.cap := by
  obtain ⟨rest, hs, hl⟩ := h
  have hge : ¬ idx ≥ b.len := by omega
  simp only [RawVec.remove, hge, if_false]
  refine ⟨{ slots := RawVec.ptrCopy b.slots (idx + 1) idx (b.len - idx - 1), len := b.len - 1 }, ?_, ?_, ?_⟩
  · simp [hs, List.getD_eq_getElem?_getD, List.getElem?_append, hi]
  · have hx : xs = xs.take idx ++ xs[idx] :: xs.drop (idx + 1) := by
      rw [List.getElem_cons_drop, List.take_append_drop]
    have hsplit : xs.map some ++ rest
        = (xs.take idx).map some ++ some xs[idx] :: (xs.drop (idx + 1)).map some ++ rest := by
      have h2 := congrArg (List.map some) hx
      simp only [List.map_append, List.map_cons] at h2
      rw [h2]
    have hA : ((xs.take idx).map some).length = idx := by simp; omega
    have hB : ((xs.drop (idx + 1)).map some).length = b.len - idx - 1 := by simp; omega
    obtain ⟨y, hy⟩ := ptrCopy_down ((xs.take idx).map some) ((xs.drop (idx + 1)).map some) rest (some xs[idx])
    rw [hA, hB] at hy
    refine ⟨y :: rest, ?_, by simp [List.length_eraseIdx, hl, hi]⟩
    show RawVec.ptrCopy b.slots (idx + 1) idx (b.len - idx - 1) = _
    rw [hs, hsplit, hy, List.eraseIdx_eq_take_drop_succ]
    simp
  · simp [RawVec.cap, RawVec.ptrCopy]
    have : b.slots.length = xs.length + rest.length := by simp [hs]
    omega

theorem remove_oob {b : RawVec α} {xs : List α} (h : Repr b xs) (idx : Nat) (hi : xs.length ≤ idx) :
    b.remove idx = none := by
  have hl0 := h.len
  simp [RawVec.remove]; omega

/-- **index set** -/
theorem set_repr {b : RawVec α} {xs : List α} (h : Repr b xs) (k : Nat) (v : α) (hk : k < xs.length) :
    Repr { b with slots := b.slots.set k (some v) } (xs.set k v) := by
  obtain ⟨rest, hs, hl⟩ := h
  refine ⟨rest, ?_, by simpa using hl⟩
  simp [hs, List.set_append, hk, List.map_set]

/-- **index get** -/
theorem get_repr {b : RawVec α} {xs : List α} (h : Repr b xs) (k : Nat) (hk : k < xs.length) :
    b.slots.getD k none = xs[k]? := by
  obtain ⟨rest, hs, hl⟩ := h
  simp [hs, List.getD_eq_getElem?_getD, List.getElem?_append, hk]

theorem clear_repr {b : RawVec α} {xs : List α} (h : Repr b xs) : Repr (listClear b) [] := by
  obtain ⟨rest, hs, hl⟩ := h
  exact ⟨b.slots, by simp [listClear], rfl⟩

end LaytheVerif.Coll
