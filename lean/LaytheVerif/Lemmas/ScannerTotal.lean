import LaytheVerif.Model.Scanner
/-!
# Lemmas about the scanner model (`Model/Scanner.lean`) used by `Props/C15.lean`

Core Lean only.  Positions are character indices; `St.k` = number of characters consumed.
-/
namespace LaytheVerif.Scanner
open LaytheVerif.Gen (TokenKind)

/-! ## Helper lemmas about the component loops -/

theorem countWhile_le (p : Char → Bool) (l : List Char) : countWhile p l ≤ l.length := by
  fun_induction countWhile p l <;> simp_all <;> omega

theorem identTail_le (r : List Char) : identTail r ≤ r.length := by
  unfold identTail
  have h1 := countWhile_le isAlnum r
  have h2 := List.length_drop (i := countWhile isAlnum r) (l := r)
  generalize countWhile isAlnum r = n at *
  dsimp only
  split
  · rename_i p t heq
    rw [heq] at h2
    simp at h2
    split <;> omega
  · omega

/-- fractional part of a number -/
def fracLen (r1 : List Char) : Nat :=
  match r1 with
  | '.' :: d :: r' => if isDigit d then 2 + countWhile isDigit r' else 0
  | _ => 0

/-- the optional sign of an exponent -/
def sgnLen (r3 : List Char) : Nat :=
  match r3 with
  | '+' :: _ => 1
  | '-' :: _ => 1
  | _ => 0

/-- the exponent part of `numberTail`, after `base` characters of integer and fractional part -/
def expTail (base : Nat) (r2 : List Char) : TokenKind × Option Err × Nat :=
  match r2 with
  | e :: r3 =>
    if e == 'e' || e == 'E' then
      match r3.drop (sgnLen r3) with
      | d :: r5 =>
        if isDigit d then (.Number, none, base + 1 + sgnLen r3 + 1 + countWhile isDigit r5)
        else (.Error, some .unterminatedSci, base + 1 + sgnLen r3)
      | [] => (.Error, some .unterminatedSci, base + 1 + sgnLen r3)
    else (.Number, none, base)
  | [] => (.Number, none, base)

/-- `numberTail` in terms of the three pieces above (definitional). -/
theorem numberTail_eq (r : List Char) :
    numberTail r = expTail (countWhile isDigit r + fracLen (r.drop (countWhile isDigit r)))
      ((r.drop (countWhile isDigit r)).drop (fracLen (r.drop (countWhile isDigit r)))) := rfl

theorem fracLen_le (r : List Char) : fracLen r ≤ r.length := by
  unfold fracLen
  split
  · rename_i d r'
    have := countWhile_le isDigit r'
    split <;> simp <;> omega
  · omega

theorem sgnLen_le (r : List Char) : sgnLen r ≤ r.length := by
  unfold sgnLen
  split <;> simp

theorem expTail_spec (base : Nat) (r2 : List Char) :
    (expTail base r2).2.2 ≤ base + r2.length ∧ (expTail base r2).1 ≠ .Eof := by
  unfold expTail
  split
  · rename_i e r3
    have hs := sgnLen_le r3
    have hd := List.length_drop (i := sgnLen r3) (l := r3)
    split
    · split
      · rename_i d r5 heq
        rw [heq] at hd
        have := countWhile_le isDigit r5
        simp only [List.length_cons] at hd ⊢
        split <;> simp <;> omega
      · simp; omega
    · simp
  · simp

theorem numberTail_spec (r : List Char) :
    (numberTail r).2.2 ≤ r.length ∧ (numberTail r).1 ≠ .Eof := by
  rw [numberTail_eq]
  have h1 := countWhile_le isDigit r
  have hd1 := List.length_drop (i := countWhile isDigit r) (l := r)
  have h2 := fracLen_le (r.drop (countWhile isDigit r))
  have hd2 := List.length_drop (i := fracLen (r.drop (countWhile isDigit r))) (l := r.drop (countWhile isDigit r))
  have := expTail_spec (countWhile isDigit r + fracLen (r.drop (countWhile isDigit r)))
      ((r.drop (countWhile isDigit r)).drop (fracLen (r.drop (countWhile isDigit r))))
  refine ⟨?_, this.2⟩
  omega

theorem punct_spec (c : Char) (r : List Char) (kind : TokenKind) (n : Nat) (h : punct c r = some (kind, n)) :
    n ≤ r.length ∧ kind ≠ .Eof := by
  unfold punct at h
  cases r with
  | nil =>
    dsimp only at h
    split at h <;> simp at h <;> obtain ⟨rfl, rfl⟩ := h <;> simp
  | cons y t =>
    dsimp only at h
    split at h
    all_goals first
      | (simp at h; done)
      | (simp at h; obtain ⟨rfl, rfl⟩ := h; simp; done)
      | (split at h <;> simp at h <;> obtain ⟨rfl, rfl⟩ := h <;> simp; done)

theorem keywords_ne_eof : ∀ kw ∈ LaytheVerif.Gen.keywords, kw.2 ≠ .Eof := by decide

theorem keywordKind_ne_eof (sl : List Char) : keywordKind sl ≠ .Eof := by
  unfold keywordKind
  split
  · rename_i kw h
    exact keywords_ne_eof kw (List.mem_of_find?_eq_some h)
  · simp

/-- what `scanToken_spec` establishes for the result `p` of a `scan_token` call that started at `k0` with `total` characters overall -/
def TokOk (k0 total : Nat) (p : Token × St) : Prop :=
  p.2.k + p.2.rest.length = total ∧
  (p.1.kind ≠ .Eof → k0 ≤ p.1.start ∧ p.1.start < p.1.stop ∧ p.1.stop = p.2.k) ∧
  (p.1.kind = .Eof → p.2.rest = [] ∧ p.1.start = p.2.k - 1 ∧ p.1.stop = off p.2.k)

theorem simpleTok_ok (k0 : Nat) (r : List Char) (k : Nat) (ls : List Nat) (is : List (Nat × Char))
    (kind : TokenKind) (n : Nat) (e : Option Err) (hn : n ≤ r.length) (hk : kind ≠ .Eof) (h0 : k0 ≤ k) :
    TokOk k0 (k + (r.length + 1)) (simpleTok r k ls is kind n e) := by
  unfold TokOk simpleTok
  dsimp only
  rw [List.length_drop]
  exact ⟨by omega, fun _ => ⟨h0, by omega, rfl⟩, fun h => absurd h hk⟩

/-- `Scanner::string` never reads past the input and consumes what it reports. -/
theorem strLoop_account (q : Char) (kind : TokenKind) (m : SMode) (r : List Char) (k : Nat) (ls : List Nat) :
    (strLoop q kind m r k ls).k + (strLoop q kind m r k ls).rest.length = k + r.length ∧
    k ≤ (strLoop q kind m r k ls).k := by
  fun_induction strLoop q kind m r k ls <;> simp_all <;> omega

/-- `Scanner::string` never produces an `Eof` token. -/
theorem strLoop_kind_ne_eof (q : Char) (kind : TokenKind) (m : SMode) (r : List Char) (k : Nat) (ls : List Nat)
    (hk : kind ≠ .Eof) : (strLoop q kind m r k ls).kind ≠ .Eof := by
  fun_induction strLoop q kind m r k ls <;> simp_all
  all_goals (split <;> simp_all)

theorem scanString_ok (k0 : Nat) (s : St) (start : Nat) (kind : TokenKind) (q : Char) (r : List Char) (k : Nat)
    (is : List (Nat × Char)) (ls : List Nat) (hk : kind ≠ .Eof) (h0 : k0 ≤ start) (h1 : start < k) :
    TokOk k0 (k + r.length) (scanString s start kind q r k is ls) := by
  have ha := strLoop_account q kind .str r k ls
  have hne := strLoop_kind_ne_eof q kind .str r k ls hk
  unfold TokOk scanString
  dsimp only
  exact ⟨ha.1, fun _ => ⟨h0, by omega, rfl⟩, fun h => absurd h hne⟩

theorem skipWs_account (b : Bool) (r : List Char) (k : Nat) (ls : List Nat) :
    (skipWs b r k ls).2.1 + (skipWs b r k ls).1.length = k + r.length ∧ k ≤ (skipWs b r k ls).2.1 := by
  fun_induction skipWs b r k ls <;> simp_all <;> omega

/-- All facts about one `scan_token` call at once (account, span of a non-EOF token, the EOF token). -/
theorem scanToken_spec (s : St) : TokOk s.k (s.k + s.rest.length) (scanToken s) := by
  have hs := skipWs_account false s.rest s.k s.lines
  unfold scanToken
  split
  · rename_i k ls heq
    rw [heq] at hs
    simp at hs
    unfold TokOk
    dsimp only
    exact ⟨by simp; omega, fun h => absurd rfl h, fun _ => ⟨rfl, rfl, rfl⟩⟩
  · rename_i c r k ls heq
    rw [heq] at hs
    simp only [List.length_cons] at hs
    obtain ⟨hs1, hs2⟩ := hs
    rw [← hs1]
    split
    · split <;> exact simpleTok_ok _ _ _ _ _ _ _ _ (by simp) (by simp) hs2
    split
    · split
      · split
        · have := scanString_ok s.k s k .StringSegment ‹_› r (k+1) ‹_› ls (by simp) hs2 (by omega)
          rwa [Nat.add_right_comm, Nat.add_assoc] at this
        · exact simpleTok_ok _ _ _ _ _ _ _ _ (by simp) (by simp) hs2
      · exact simpleTok_ok _ _ _ _ _ _ _ _ (by simp) (by simp) hs2
    split
    · have := scanString_ok s.k s k .String c r (k+1) s.interps ls (by simp) hs2 (by omega)
      rwa [Nat.add_right_comm, Nat.add_assoc] at this
    split
    · exact simpleTok_ok _ _ _ _ _ _ _ _ (identTail_le r) (by simp) hs2
    split
    · rename_i kind n hp
      have := punct_spec c r kind n hp
      exact simpleTok_ok _ _ _ _ _ _ _ _ this.1 this.2 hs2
    split
    · have := numberTail_spec r
      split
      rename_i kind e n hnt
      rw [hnt] at this
      exact simpleTok_ok _ _ _ _ _ _ _ _ this.1 this.2 hs2
    split
    · exact simpleTok_ok _ _ _ _ _ _ _ _ (identTail_le r) (keywordKind_ne_eof _) hs2
    · exact simpleTok_ok _ _ _ _ _ _ _ _ (by simp) (by simp) hs2

/-- Every character is accounted for: consumed + unread is invariant under `scan_token`. -/
theorem scanToken_account (s : St) :
    (scanToken s).2.k + (scanToken s).2.rest.length = s.k + s.rest.length :=
  (scanToken_spec s).1

/-- A non-EOF token is non-empty, starts at or after the scanner position and ends exactly at the new position. -/
theorem scanToken_span (s : St) (h : (scanToken s).1.kind ≠ .Eof) :
    s.k ≤ (scanToken s).1.start ∧ (scanToken s).1.start < (scanToken s).1.stop ∧
    (scanToken s).1.stop = (scanToken s).2.k :=
  (scanToken_spec s).2.1 h

/-- The EOF token: everything has been consumed; its span is `[current, current_offset())`. -/
theorem scanToken_eof (s : St) (h : (scanToken s).1.kind = .Eof) :
    (scanToken s).2.rest = [] ∧ (scanToken s).1.start = (scanToken s).2.k - 1 ∧
    (scanToken s).1.stop = off (scanToken s).2.k :=
  (scanToken_spec s).2.2 h

/-- Progress: a non-EOF token consumes at least one character (this is why `scan`'s fuel suffices). -/
theorem scanToken_progress (s : St) (h : (scanToken s).1.kind ≠ .Eof) :
    (scanToken s).2.rest.length < s.rest.length := by
  have a := scanToken_account s
  have b := scanToken_span s h
  omega

/-- The shape of a complete token stream over `n` characters. -/
structure StreamOk (lo n : Nat) (ts : List Token) : Prop where
  shape : ∃ body eof, ts = body ++ [eof] ∧ eof.kind = .Eof ∧ eof.start = n - 1 ∧ eof.stop = off n ∧
    (∀ t ∈ body, t.kind ≠ .Eof ∧ lo ≤ t.start ∧ t.start < t.stop ∧ t.stop ≤ n) ∧
    body.Pairwise (fun a b => a.stop ≤ b.start)

/-- The lower bound of a stream may be weakened. -/
theorem StreamOk.mono {lo lo' n : Nat} {ts : List Token} (h : StreamOk lo n ts) (hl : lo' ≤ lo) :
    StreamOk lo' n ts := by
  obtain ⟨body, eof, h1, h2, h3, h4, h5, h6⟩ := h.shape
  refine ⟨body, eof, h1, h2, h3, h4, fun t ht => ?_, h6⟩
  have := h5 t ht
  exact ⟨this.1, by omega, this.2.2⟩

theorem scanAll_ok (fuel : Nat) (s : St) (h : s.rest.length < fuel) :
    StreamOk s.k (s.k + s.rest.length) (scanAll fuel s) := by
  induction fuel generalizing s with
  | zero => omega
  | succ fuel ih =>
    unfold scanAll
    have hacc := scanToken_account s
    generalize hp : scanToken s = p at *
    obtain ⟨t, s'⟩ := p
    dsimp only at hacc ⊢
    by_cases hk : t.kind = .Eof
    · rw [if_pos hk]
      have he := scanToken_eof s (by rw [hp]; exact hk)
      rw [hp] at he
      dsimp only at he
      obtain ⟨he1, he2, he3⟩ := he
      rw [he1] at hacc
      simp only [List.length_nil, Nat.add_zero] at hacc
      refine ⟨[], t, rfl, hk, ?_, ?_, ?_, List.Pairwise.nil⟩
      · rw [← hacc]; exact he2
      · rw [← hacc]; exact he3
      · intro t' ht'; cases ht'
    · rw [if_neg hk]
      have hsp := scanToken_span s (by rw [hp]; exact hk)
      have hpr := scanToken_progress s (by rw [hp]; exact hk)
      rw [hp] at hsp hpr
      dsimp only at hsp hpr
      obtain ⟨hs1, hs2, hs3⟩ := hsp
      have := ih s' (by omega)
      obtain ⟨body, eof, h1, h2, h3, h4, h5, h6⟩ := this.shape
      rw [hacc] at h3 h4 h5
      refine ⟨t :: body, eof, by rw [h1]; rfl, h2, h3, h4, ?_, ?_⟩
      · intro t' ht'
        rcases List.mem_cons.mp ht' with rfl | hm
        · exact ⟨hk, hs1, hs2, by omega⟩
        · have := h5 t' hm
          exact ⟨this.1, by omega, this.2.2⟩
      · refine List.pairwise_cons.mpr ⟨fun t' hm => ?_, h6⟩
        have := h5 t' hm
        omega

theorem init_account (input : List Char) : (init input).k + (init input).rest.length = input.length := by
  have hc := countWhile_le (fun c => c != '\n') input
  unfold init
  split
  · dsimp only
    rw [List.length_drop]
    omega
  · simp

theorem scan_ok (input : List Char) : StreamOk 0 input.length (scan input) := by
  unfold scan
  have := scanAll_ok (input.length + 1) (init input) (by have := init_account input; omega)
  rw [init_account] at this
  exact this.mono (Nat.zero_le _)

/-- Reaching the end of the input inside `Scanner::string` (in any of its states) yields an error token. -/
theorem strLoop_end_is_error (q : Char) (kind : TokenKind) (m : SMode) (k : Nat) (ls : List Nat) :
    (strLoop q kind m [] k ls).kind = .Error := by
  cases m <;> simp [strLoop]

/-- An unterminated plain string body (no quote, backslash or `$`) is consumed entirely and becomes
"Unterminated string.". -/
theorem strLoop_unterminated (q : Char) (kind : TokenKind) (body : List Char) (k : Nat) (ls : List Nat)
    (h : ∀ c ∈ body, c ≠ q ∧ c ≠ '\\' ∧ c ≠ '$') :
    (strLoop q kind .str body k ls).kind = .Error ∧ (strLoop q kind .str body k ls).err = some .unterminatedString ∧
    (strLoop q kind .str body k ls).rest = [] ∧ (strLoop q kind .str body k ls).k = k + body.length := by
  induction body generalizing k ls with
  | nil => simp [strLoop]
  | cons c r ih =>
    have hc := h c (by simp)
    have hr : ∀ c ∈ r, c ≠ q ∧ c ≠ '\\' ∧ c ≠ '$' := fun c hc => h c (by simp [hc])
    unfold strLoop
    by_cases hn : c = '\n'
    · simp [hn]
      have := ih (k+1) ((k+1) :: ls) hr
      simp [this]; omega
    · have := ih (k+1) ls hr
      simp [hn, hc, this]; omega

end LaytheVerif.Scanner
