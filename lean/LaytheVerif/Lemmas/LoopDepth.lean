import LaytheVerif.Model.LoopDepth
/-!
# `loop_depth` is balanced on every path, so `break`/`continue` are accepted exactly inside a loop of the same function

1. `Call.run_balanced`: every parser call returns with the `loop_depth` it was entered with and never executes
   `loop_depth -= 1` at 0 — whether it succeeds or fails, whatever error recovery happened inside.
2. `Call.run_diags`: diagnostics only accumulate.
3. `Call.comp_ok`: on a text that parses without a diagnostic the compiler's `loop_attributes` is `Some` at every
   `break`/`continue` it visits (the `expect("Parser should have caught the loop constraint")` sites are not reached).
-/
namespace LaytheVerif.LoopDepth

theorem PS.dec_succ (s : PS) (d : Nat) (h : s.depth = d + 1) : s.dec = { s with depth := d } := by
  unfold PS.dec
  simp [h]

mutual
  theorem Call.run_balanced : ∀ (c : Call) (s : PS),
      (Call.run c s).1.depth = s.depth ∧ (Call.run c s).1.underflow = s.underflow
    | .brk, s => by simp [Call.run]
    | .fail, s => by simp [Call.run]
    | .loop cond body, s => by
      have h1 := Calls.run_balanced cond { s with depth := s.depth + 1 }
      unfold Call.run
      split
      · rename_i s1 heq
        rw [heq] at h1
        simp only at h1
        rw [PS.dec_succ s1 s.depth h1.1]
        exact ⟨rfl, h1.2⟩
      · rename_i s1 heq
        rw [heq] at h1
        simp only at h1
        have h2 := Calls.run_balanced body s1
        rw [PS.dec_succ _ s.depth (h2.1.trans h1.1)]
        exact ⟨rfl, h2.2.trans h1.2⟩
    | .fn sig body, s => by
      have h1 := Calls.run_balanced sig s
      unfold Call.run
      split
      · rename_i s1 heq
        rw [heq] at h1
        exact h1
      · rename_i s1 heq
        rw [heq] at h1
        simp only at h1
        have h2 := Calls.run_balanced body { s1 with depth := 0 }
        exact ⟨h1.1, h2.2.trans h1.2⟩
    | .decl c recovers, s => by
      have h1 := Calls.run_balanced c s
      unfold Call.run
      split
      · rename_i s1 heq
        rw [heq] at h1
        exact h1
      · rename_i s1 heq
        rw [heq] at h1
        exact h1
    | .node c, s => by
      unfold Call.run
      exact Calls.run_balanced c s
  theorem Calls.run_balanced : ∀ (c : Calls) (s : PS),
      (Calls.run c s).1.depth = s.depth ∧ (Calls.run c s).1.underflow = s.underflow
    | .nil, s => by simp [Calls.run]
    | .cons c r, s => by
      have h1 := Call.run_balanced c s
      unfold Calls.run
      split
      · rename_i s1 heq
        rw [heq] at h1
        exact h1
      · rename_i s1 heq
        rw [heq] at h1
        simp only at h1
        have h2 := Calls.run_balanced r s1
        exact ⟨h2.1.trans h1.1, h2.2.trans h1.2⟩
end

theorem PS.dec_diags (s : PS) : s.dec.diags = s.diags := by
  unfold PS.dec
  split <;> rfl

mutual
  theorem Call.run_diags : ∀ (c : Call) (s : PS), s.diags ≤ (Call.run c s).1.diags
    | .brk, s => by simp [Call.run]
    | .fail, s => by simp [Call.run]
    | .loop cond body, s => by
      have h1 := Calls.run_diags cond { s with depth := s.depth + 1 }
      unfold Call.run
      split
      · rename_i s1 heq
        rw [heq] at h1
        simp only at h1 ⊢
        rw [PS.dec_diags]
        exact h1
      · rename_i s1 heq
        rw [heq] at h1
        simp only at h1 ⊢
        have h2 := Calls.run_diags body s1
        rw [PS.dec_diags]
        exact Nat.le_trans h1 h2
    | .fn sig body, s => by
      have h1 := Calls.run_diags sig s
      unfold Call.run
      split
      · rename_i s1 heq
        rw [heq] at h1
        exact h1
      · rename_i s1 heq
        rw [heq] at h1
        simp only at h1 ⊢
        have h2 := Calls.run_diags body { s1 with depth := 0 }
        exact Nat.le_trans h1 h2
    | .decl c recovers, s => by
      have h1 := Calls.run_diags c s
      unfold Call.run
      split
      · rename_i s1 heq
        rw [heq] at h1
        exact h1
      · rename_i s1 heq
        rw [heq] at h1
        simp only at h1 ⊢
        omega
    | .node c, s => by
      unfold Call.run
      exact Calls.run_diags c s
  theorem Calls.run_diags : ∀ (c : Calls) (s : PS), s.diags ≤ (Calls.run c s).1.diags
    | .nil, s => by simp [Calls.run]
    | .cons c r, s => by
      have h1 := Call.run_diags c s
      unfold Calls.run
      split
      · rename_i s1 heq
        rw [heq] at h1
        exact h1
      · rename_i s1 heq
        rw [heq] at h1
        simp only at h1 ⊢
        exact Nat.le_trans h1 (Calls.run_diags r s1)
end

mutual
  /-- a call that succeeds without a new diagnostic, entered in statement position with the compiler's flag equal to
  "`loop_depth ≠ 0`" (in expression position: with any flag), compiles without reaching the `expect` -/
  theorem Call.comp_ok : ∀ (c : Call) (s : PS) (inLoop expr : Bool),
      Call.gram c expr = true → (expr = false → inLoop = decide (s.depth ≠ 0)) →
      (Call.run c s).2 = true → (Call.run c s).1.diags = s.diags → Call.comp c inLoop = true
    | .brk, s, inLoop, expr => by
      intro hg hl hok _
      simp only [Call.gram, Bool.not_eq_true'] at hg
      simp only [Call.run] at hok
      simp only [Call.comp]
      rw [hl hg]
      exact hok
    | .fail, s, inLoop, expr => by
      intro _ _ hok _
      simp [Call.run] at hok
    | .loop cond body, s, inLoop, expr => by
      intro hg hl hok hd
      simp only [Call.gram, Bool.and_eq_true, Bool.not_eq_true'] at hg
      obtain ⟨⟨he, hgc⟩, hgb⟩ := hg
      have b1 := Calls.run_balanced cond { s with depth := s.depth + 1 }
      have d1 := Calls.run_diags cond { s with depth := s.depth + 1 }
      have ih1 := Calls.comp_ok cond { s with depth := s.depth + 1 } inLoop true hgc (by intro h; cases h)
      unfold Call.run at hok hd
      split at hok
      · simp at hok
      · rename_i s1 heq
        rw [heq] at b1 d1 ih1
        simp only at b1 d1 ih1 hok hd
        rw [heq] at hd
        simp only at hd
        have d2 := Calls.run_diags body s1
        rw [PS.dec_diags] at hd
        have ih2 := Calls.comp_ok body s1 true false hgb (by intro _; simp [b1.1]) hok (by omega)
        simp only [Call.comp, Bool.and_eq_true]
        exact ⟨ih1 trivial (by omega), ih2⟩
    | .fn sig body, s, inLoop, expr => by
      intro hg hl hok hd
      simp only [Call.gram, Bool.and_eq_true] at hg
      have d1 := Calls.run_diags sig s
      have ih1 := Calls.comp_ok sig s inLoop true hg.1 (by intro h; cases h)
      unfold Call.run at hok hd
      split at hok
      · simp at hok
      · rename_i s1 heq
        rw [heq] at d1 ih1
        simp only at d1 ih1 hok hd
        rw [heq] at hd
        simp only at hd
        have d2 := Calls.run_diags body { s1 with depth := 0 }
        have ih2 := Calls.comp_ok body { s1 with depth := 0 } false false hg.2 (by intro _; simp) hok (by simp only at d2 ⊢; omega)
        simp only [Call.comp, Bool.and_eq_true]
        exact ⟨ih1 trivial (by simp only at d2; omega), ih2⟩
    | .decl c recovers, s, inLoop, expr => by
      intro hg hl hok hd
      simp only [Call.gram] at hg
      have d1 := Calls.run_diags c s
      have ih1 := Calls.comp_ok c s inLoop expr hg hl
      unfold Call.run at hok hd
      split at hok
      · rename_i s1 heq
        rw [heq] at ih1 hd
        simp only at ih1 hd
        simp only [Call.comp]
        exact ih1 trivial hd
      · rename_i s1 heq
        rw [heq] at d1 hd
        simp only at d1 hd
        omega
    | .node c, s, inLoop, expr => by
      intro hg hl hok hd
      simp only [Call.gram] at hg
      unfold Call.run at hok hd
      simp only [Call.comp]
      exact Calls.comp_ok c s inLoop expr hg hl hok hd
  theorem Calls.comp_ok : ∀ (c : Calls) (s : PS) (inLoop expr : Bool),
      Calls.gram c expr = true → (expr = false → inLoop = decide (s.depth ≠ 0)) →
      (Calls.run c s).2 = true → (Calls.run c s).1.diags = s.diags → Calls.comp c inLoop = true
    | .nil, s, inLoop, expr => by
      intro _ _ _ _
      rfl
    | .cons c r, s, inLoop, expr => by
      intro hg hl hok hd
      simp only [Calls.gram, Bool.and_eq_true] at hg
      have b1 := Call.run_balanced c s
      have d1 := Call.run_diags c s
      have ih1 := Call.comp_ok c s inLoop expr hg.1 hl
      unfold Calls.run at hok hd
      split at hok
      · simp at hok
      · rename_i s1 heq
        rw [heq] at b1 d1 ih1
        simp only at b1 d1 ih1 hok hd
        rw [heq] at hd
        simp only at hd
        have d2 := Calls.run_diags r s1
        have ih2 := Calls.comp_ok r s1 inLoop expr hg.2 (by intro h; rw [b1.1]; exact hl h) hok (by omega)
        simp only [Calls.comp, Bool.and_eq_true]
        exact ⟨ih1 trivial (by omega), ih2⟩
end

end LaytheVerif.LoopDepth
