/-
Lemmas/ScopeGen.lean — the tables regenerated from the Rust text (`Gen/Scope.lean`, `Gen/ByteCode.lean`)
against the hand-written model `Model/Scope.lean`.  An edit to `SymbolState`, to a transition of
`Symbol`, to the capture-marking guard of the resolver, to the de-duplication or the bound of
`add_capture`, to the constructors used by `resolve_capture`, to the arms of `op_closure` or to the
stack effect of a box/capture instruction re-opens one of these.
-/
import LaytheVerif.Gen.Scope
import LaytheVerif.Gen.ByteCode
import LaytheVerif.Model.Scope
namespace LaytheVerif.Scope

def SymState.rustName : SymState → String
  | .uninit => "Uninitialized" | .localInit => "LocalInitialized" | .moduleInit => "ModuleInitialized"
  | .alreadyInit => "AlreadyInitialized" | .globalInit => "GlobalInitialized" | .localCaptured => "LocalCaptured"

def allStates : List SymState := [.uninit, .localInit, .moduleInit, .alreadyInit, .globalInit, .localCaptured]

/-- the model's states are the variants of `SymbolState`, in order -/
theorem gen_symbolStates : allStates.map SymState.rustName = Gen.Scope.symbolStates := by decide

/-- a generated transition `(f, A, B)` read as a function on states -/
def genTransition (f : String) (st : SymState) : SymState :=
  match Gen.Scope.symbolTransitions.find? (·.1 = f) with
  | some (_, a, b) => if st.rustName = a then (allStates.find? (·.rustName = b)).getD st else st
  | none => st

/-- `Symbol::capture`, `initialize`, `module_initialize` of the model are the generated transitions -/
theorem gen_capture (s : RSym) : s.capture.state = genTransition "capture" s.state := by
  unfold RSym.capture; cases hs : s.state <;> simp [hs] <;> decide

theorem gen_initialize (s : RSym) : s.initialize.state = genTransition "initialize" s.state := by
  unfold RSym.initialize; cases hs : s.state <;> simp [hs] <;> decide

theorem gen_moduleInitialize (s : RSym) : s.moduleInitialize.state = genTransition "module_initialize" s.state := by
  unfold RSym.moduleInitialize; cases hs : s.state <;> simp [hs] <;> decide

/-- `resolveIn` marks with `decide (t.funDepth < curFun)` -/
theorem gen_capture_condition : Gen.Scope.captureCondition = "table.fun_depth < self.fun_depth" := by decide

/-- `dedup` only ever merges two `Local` captures with the same slot; `addCapture` stops at 255 -/
theorem gen_add_capture :
    Gen.Scope.addCaptureDedup =
      ["(CaptureIndex::Local(existing), CaptureIndex::Local(new)) => *existing == *new", "_ => false"] ∧
    Gen.Scope.addCaptureBound = "u8::MAX" := by decide

/-- `resolveCapture`: `Local(local)` when the parent has the local, `Enclosing(capture)` otherwise -/
theorem gen_resolve_capture : Gen.Scope.resolveCaptureCtors = [("Local", "local"), ("Enclosing", "capture")] := by decide

/-- `Machine.opClosure`: the box reference in the slot, resp. the parent's capture — no copy -/
theorem gen_op_closure :
    Gen.Scope.opClosureArms =
      [("Local", "(*self.fiber.stack_start().offset(index as isize)) .to_obj() .to_box()"),
       ("Enclosing", "self.fiber.captures().get_capture(index as usize)")] := by decide

/-- the stack discipline the machine's `declareSlot`/`defineSlot` assume: `EmptyBox` pushes the box,
`FillBox` pops the value below which the box stays, `Box` works in place, reads push, writes keep the
value, `Closure` pushes the closure and its `CaptureIndex` operands are pure operands -/
theorem gen_stack_effects (s : Nat) (c : Gen.CaptureIndex) :
    Gen.Sym.stackEffect .EmptyBox = 1 ∧ Gen.Sym.stackEffect .FillBox = -1 ∧ Gen.Sym.stackEffect (.Box s) = 0 ∧
    Gen.Sym.stackEffect (.GetBox s) = 1 ∧ Gen.Sym.stackEffect (.SetBox s) = 0 ∧
    Gen.Sym.stackEffect (.GetCapture s) = 1 ∧ Gen.Sym.stackEffect (.SetCapture s) = 0 ∧
    Gen.Sym.stackEffect (.GetLocal s) = 1 ∧ Gen.Sym.stackEffect (.SetLocal s) = 0 ∧
    Gen.Sym.stackEffect (.Closure s) = 1 ∧ Gen.Sym.stackEffect (.CaptureIndex c) = 0 := by
  refine ⟨rfl, rfl, rfl, rfl, rfl, rfl, rfl, rfl, rfl, rfl, rfl⟩

end LaytheVerif.Scope
