/-
Lemmas/ScopeGen.lean — the tables regenerated from the Rust text (`Gen/Scope.lean`, `Gen/ByteCode.lean`)
against the hand-written model `Model/Scope.lean`.  An edit to `SymbolState`, to a transition of
`Symbol`, to the capture-marking guard of the resolver, to the de-duplication or the bound of
`add_capture`, to the constructors used by `resolve_capture`, to the arms of `op_closure`, to the
stack effect of a box/capture instruction, or to the path that gives a declared variable its first value
(`Compiler::let_`/`Resolver::let_`, the box instructions of `declare_/define_local_variable`,
`define_module_variable`, the content of an empty box, `op_fill_box`) re-opens one of these.
-/
import LaytheVerif.Gen.Scope
import LaytheVerif.Gen.ByteCode
import LaytheVerif.Model.Scope
namespace LaytheVerif.Scope

def SymState.rustName : SymState → String
  | .uninit => "Uninitialized" | .localInit => "LocalInitialized" | .moduleInit => "ModuleInitialized"
  | .alreadyInit => "AlreadyInitialized" | .globalInit => "GlobalInitialized" | .localCaptured => "LocalCaptured"

def allStates : List SymState := [.uninit, .localInit, .moduleInit, .alreadyInit, .globalInit, .localCaptured]

/-- the model's states are the variants of `SymbolState`, in order -/
theorem gen_symbolStates : allStates.map SymState.rustName = Gen.Scope.symbolStates := by decide

/-- a generated transition `(f, A, B)` read as a function on states -/
def genTransition (f : String) (st : SymState) : SymState :=
  match Gen.Scope.symbolTransitions.find? (·.1 = f) with
  | some (_, a, b) => if st.rustName = a then (allStates.find? (·.rustName = b)).getD st else st
  | none => st

/-- `Symbol::capture`, `initialize`, `module_initialize` of the model are the generated transitions -/
theorem gen_capture (s : RSym) : s.capture.state = genTransition "capture" s.state := by
  unfold RSym.capture; cases hs : s.state <;> simp [hs] <;> decide

theorem gen_initialize (s : RSym) : s.initialize.state = genTransition "initialize" s.state := by
  unfold RSym.initialize; cases hs : s.state <;> simp [hs] <;> decide

theorem gen_moduleInitialize (s : RSym) : s.moduleInitialize.state = genTransition "module_initialize" s.state := by
  unfold RSym.moduleInitialize; cases hs : s.state <;> simp [hs] <;> decide

/-- `resolveIn` marks with `decide (t.funDepth < curFun)` -/
theorem gen_capture_condition : Gen.Scope.captureCondition = "table.fun_depth < self.fun_depth" := by decide

/-- `dedup` only ever merges two `Local` captures with the same slot; `addCapture` stops at 255 -/
theorem gen_add_capture :
    Gen.Scope.addCaptureDedup =
      ["(CaptureIndex::Local(existing), CaptureIndex::Local(new)) => *existing == *new", "_ => false"] ∧
    Gen.Scope.addCaptureBound = "u8::MAX" := by decide

/-- `resolveCapture`: `Local(local)` when the parent has the local, `Enclosing(capture)` otherwise -/
theorem gen_resolve_capture : Gen.Scope.resolveCaptureCtors = [("Local", "local"), ("Enclosing", "capture")] := by decide

/-- `Machine.opClosure`: the box reference in the slot, resp. the parent's capture — no copy -/
theorem gen_op_closure :
    Gen.Scope.opClosureArms =
      [("Local", "(*self.fiber.stack_start().offset(index as isize)) .to_obj() .to_box()"),
       ("Enclosing", "self.fiber.captures().get_capture(index as usize)")] := by decide

/-- [G] `comp (.letS d x e)` / `comp (.letN d x)`: `Compiler::let_` is `declare_variable`, then the initialiser **or
`Nil`** (exactly two arms, no guard: the `Nil` is emitted whatever state `declare_variable` returned), then
`define_variable` with that state — unconditionally; `res (.letN d x)`: `Resolver::let_` declares, resolves the
initialiser if there is one, defines. -/
theorem gen_let :
    Gen.Scope.letValueArms =
      [("Some(v)", "self.expr(v)"), ("None", "self.emit_byte(SymbolicByteCode::Nil, let_.name.end())")] ∧
    Gen.Scope.letSkeleton =
      ["let (var_state, name_slot) = self.declare_variable(let_.name.str(), let_.span())",
       "match &let_.value {…} self.define_variable(let_.name.str(), var_state, let_.span())", "name_slot"] ∧
    Gen.Scope.resolverLet =
      "self.declare_variable(&let_.name); if let Some(v) = &mut let_.value { self.expr(v) } self.define_variable(&let_.name);" := by
  decide

/-- [G] `CS.declareLocal` (`EmptyBox` for a captured symbol), `CS.defineVariable` (`FillBox` for a captured local — and
nothing else —, `SetModSym` for a module symbol), `Machine.opEmptyBox` (the new box holds `undef`, so it is the
`Nil; FillBox` of `let_` that makes `let x;` nil) and `Machine.opFillBox` (the popped value goes into the box below it) -/
theorem gen_declare_define :
    Gen.Scope.declareLocalBoxOp = "EmptyBox" ∧
    Gen.Scope.defineLocalBody = "if let SymbolState::LocalCaptured = state { self.emit_byte(SymbolicByteCode::FillBox, span.end); }" ∧
    Gen.Scope.defineModuleOps = ["SetModSym", "Drop"] ∧
    Gen.Scope.emptyBoxValue = "VALUE_UNDEFINED" ∧
    Gen.Scope.opEmptyBox = "let value = val!(self.manage_obj(LyBox::default())); self.fiber.push(value); ExecutionSignal::Ok" ∧
    Gen.Scope.opFillBox = "let value = self.fiber.pop(); self.fiber.peek(0).to_obj().to_box().value = value; ExecutionSignal::Ok" := by
  decide

/-- the stack discipline the machine's `declareSlot`/`defineSlot` assume: `EmptyBox` pushes the box,
`FillBox` pops the value below which the box stays, `Box` works in place, reads push, writes keep the
value, `Closure` pushes the closure and its `CaptureIndex` operands are pure operands -/
theorem gen_stack_effects (s : Nat) (c : Gen.CaptureIndex) :
    Gen.Sym.stackEffect .EmptyBox = 1 ∧ Gen.Sym.stackEffect .FillBox = -1 ∧ Gen.Sym.stackEffect (.Box s) = 0 ∧
    Gen.Sym.stackEffect (.GetBox s) = 1 ∧ Gen.Sym.stackEffect (.SetBox s) = 0 ∧
    Gen.Sym.stackEffect (.GetCapture s) = 1 ∧ Gen.Sym.stackEffect (.SetCapture s) = 0 ∧
    Gen.Sym.stackEffect (.GetLocal s) = 1 ∧ Gen.Sym.stackEffect (.SetLocal s) = 0 ∧
    Gen.Sym.stackEffect (.Closure s) = 1 ∧ Gen.Sym.stackEffect (.CaptureIndex c) = 0 := by
  refine ⟨rfl, rfl, rfl, rfl, rfl, rfl, rfl, rfl, rfl, rfl, rfl⟩

/-- `Nil` pushes the value that `FillBox` pops / `SetModSym` assigns / stays in the new local's slot -/
theorem gen_nil_stack_effect : Gen.Sym.stackEffect .Nil = 1 := rfl

end LaytheVerif.Scope
