/-
Refused operations: the failing branches of the `List` methods (list.rs) and of the list natives
(laythe_lib/src/global/primitives/list.rs) perform no relocation and — when the receiver's header
is not a forwarding pointer — do not touch the heap or the stack at all.  No hypothesis on the heap.
-/
import LaytheVerif.Lemmas.ListFwdOps
namespace LaytheVerif.ListFwd
open HCmd

/-! ### `grows` of composite programs -/

@[simp] theorem grows_pure {α : Type} (x : α) (h : Heap) : (pure x : HCmd α).grows h = 0 := rfl

theorem grows_bind_aux {α β : Type} (p : HCmd α) (f : α → HCmd β) :
    ∀ h, (p.bind f).grows h = p.grows h + (f (p.run h).1).grows (p.run h).2 := by
  induction p with
  | ret x => intro h; simp [HCmd.bind, HCmd.grows, HCmd.run]
  | read a k ih => intro h; exact ih (h.mem a) h
  | limit k ih => intro h; exact ih h.next h
  | allocVec cap items k ih => intro h; exact ih _ _
  | allocObj o k ih => intro h; exact ih _ _
  | setItems b items k ih => intro h; exact ih _
  | setObj a o k ih => intro h; exact ih _
  | grow b nc k ih =>
    intro h
    simp only [HCmd.bind, HCmd.grows, HCmd.run]
    rw [ih _ _, Nat.add_assoc]

@[simp] theorem grows_bind {α β : Type} (p : HCmd α) (f : α → HCmd β) (h : Heap) :
    (p >>= f).grows h = p.grows h + (f (p.run h).1).grows (p.run h).2 := grows_bind_aux p f h

@[simp] theorem grows_readM (a : Nat) (h : Heap) : (readM a).grows h = 0 := rfl
@[simp] theorem grows_limitM (h : Heap) : limitM.grows h = 0 := rfl
@[simp] theorem grows_setItemsM (b : Nat) (ys : List Val) (h : Heap) : (setItemsM b ys).grows h = 0 := rfl
@[simp] theorem grows_setObjM (a : Nat) (o : OCell) (h : Heap) : (setObjM a o).grows h = 0 := rfl
@[simp] theorem run_setObjM (a : Nat) (o : OCell) (h : Heap) : (setObjM a o).run h = ((), h.setObj a o) := rfl

/-! ### the shared shape of the `List` methods -/

/-- whatever holds of the default answer on the untouched heap and of the action on every `Here`
vector holds of the method, for every fuel and every alias (result, final heap, relocations) -/
theorem withHere_ind {β : Type} (d : β) (act : Nat → Nat → Nat → List Val → HCmd β) (h : Heap)
    (R : β × Heap → Nat → Prop) (hd : R (d, h) 0)
    (ha : ∀ b o cap xs, h.mem b = .vec o cap xs → R ((act b o cap xs).run h) ((act b o cap xs).grows h)) :
    ∀ f a, R ((withHere d act f a).run h) ((withHere d act f a).grows h) := by
  intro f
  induction f with
  | zero => intro a; exact hd
  | succ f ih =>
    intro a
    unfold withHere
    simp only [HCmd.run, HCmd.grows]
    cases hm : h.mem a with
    | fwd t => exact ih t
    | vec o cap xs => exact ha a o cap xs hm
    | free => exact hd
    | obj o => exact hd

/-! ### list.rs: a refused operation -/

/-- `List::insert` answering `OutOfBounds` has not touched the heap and has not relocated anything:
the bound is tested before `ensure_capacity`. -/
theorem listInsert_refused (reloc : Bool) (fuel a i : Nat) (v : Val) (h : Heap)
    (hr : ((listInsert reloc fuel a i v).run h).1 = false) :
    ((listInsert reloc fuel a i v).run h).2 = h ∧ (listInsert reloc fuel a i v).grows h = 0 := by
  have key := withHere_ind false (fun b _ cap xs =>
      if i > xs.length then pure false else do
        let l ← ensureCapacity reloc b (xs.length + 1) cap
        setItemsM l (insertAt xs i v)
        pure true) h
    (fun r g => r.1 = false → r.2 = h ∧ g = 0) (fun _ => ⟨rfl, rfl⟩)
    (by
      intro b o cap xs _
      by_cases hi : i > xs.length
      · simp [hi]
      · simp [hi]) fuel a
  exact key hr

/-- `List::remove` answering `OutOfBounds` has not touched the heap. -/
theorem listRemove_refused (fuel a i : Nat) (h : Heap) (hr : ((listRemove fuel a i).run h).1 = none) :
    ((listRemove fuel a i).run h).2 = h ∧ (listRemove fuel a i).grows h = 0 := by
  have key := withHere_ind none (fun b _ _ xs =>
      match xs[i]? with
      | none => pure none
      | some v => do setItemsM b (xs.eraseIdx i); pure (some v)) h
    (fun r g => r.1 = none → r.2 = h ∧ g = 0) (fun _ => ⟨rfl, rfl⟩)
    (by
      intro b o cap xs _
      cases hx : xs[i]? with
      | none => simp
      | some v => simp) fuel a
  exact key hr

/-- `List::pop` answering `None` has not touched the heap. -/
theorem listPop_refused (fuel a : Nat) (h : Heap) (hr : ((listPop fuel a).run h).1 = none) :
    ((listPop fuel a).run h).2 = h ∧ (listPop fuel a).grows h = 0 := by
  have key := withHere_ind none (fun b _ _ xs =>
      match xs.getLast? with
      | none => pure none
      | some v => do setItemsM b xs.dropLast; pure (some v)) h
    (fun r g => r.1 = none → r.2 = h ∧ g = 0) (fun _ => ⟨rfl, rfl⟩)
    (by
      intro b o cap xs _
      cases hx : xs.getLast? with
      | none => simp
      | some v => simp) fuel a
  exact key hr

/-- reading the contents never changes the heap -/
theorem listItems_heap (fuel a : Nat) (h : Heap) :
    ((listItems fuel a).run h).2 = h ∧ (listItems fuel a).grows h = 0 :=
  withHere_ind [] (fun _ _ _ xs => pure xs) h (fun r g => r.2 = h ∧ g = 0) ⟨rfl, rfl⟩
    (fun _ _ _ _ _ => ⟨rfl, rfl⟩) fuel a

/-- pop / remove / in-place writes never relocate, whatever they answer -/
theorem listPop_grows (fuel a : Nat) (h : Heap) : (listPop fuel a).grows h = 0 :=
  withHere_ind none (fun b _ _ xs =>
      match xs.getLast? with
      | none => pure none
      | some v => do setItemsM b xs.dropLast; pure (some v)) h
    (fun _ g => g = 0) rfl
    (by
      intro b o cap xs _
      cases hx : xs.getLast? with
      | none => simp
      | some v => simp) fuel a

theorem listRemove_grows (fuel a i : Nat) (h : Heap) : (listRemove fuel a i).grows h = 0 :=
  withHere_ind none (fun b _ _ xs =>
      match xs[i]? with
      | none => pure none
      | some v => do setItemsM b (xs.eraseIdx i); pure (some v)) h
    (fun _ g => g = 0) rfl
    (by
      intro b o cap xs _
      cases hx : xs[i]? with
      | none => simp
      | some v => simp) fuel a

theorem listSet_grows (fuel a i : Nat) (v : Val) (h : Heap) : (listSet fuel a i v).grows h = 0 :=
  withHere_ind () (fun b _ _ xs => setItemsM b (xs.set i v)) h (fun _ g => g = 0) rfl
    (fun _ _ _ _ _ => rfl) fuel a

/-! ### `scan_roots` never relocates -/

theorem compactVal_grows (v : Val) (h : Heap) : (compactVal v).grows h = 0 ∧ ((compactVal v).run h).2 = h := by
  cases v <;> simp [compactVal, HCmd.grows, HCmd.run]
  next x => cases h.mem x <;> simp

theorem compactSlice_grows : ∀ (xs : List Val) (h : Heap), (compactSlice xs).grows h = 0 ∧ ((compactSlice xs).run h).2 = h := by
  intro xs
  induction xs with
  | nil => intro h; exact ⟨rfl, rfl⟩
  | cons x xs ih =>
    intro h
    simp only [compactSlice, grows_bind, run_bind, (compactVal_grows x h).1, (compactVal_grows x h).2, (ih h).1, (ih h).2]
    simp

theorem compactEntries_grows : ∀ (es : List (Val × Val)) (h : Heap),
    (compactEntries es).grows h = 0 ∧ ((compactEntries es).run h).2 = h := by
  intro es
  induction es with
  | nil => intro h; exact ⟨rfl, rfl⟩
  | cons e es ih =>
    intro h
    obtain ⟨k, v⟩ := e
    simp only [compactEntries, grows_bind, run_bind, (compactVal_grows v h).1, (compactVal_grows v h).2, (ih h).1, (ih h).2]
    simp

theorem listReplace_compact_grows (fuel a : Nat) (h : Heap) : (listReplace fuel a compactSlice).grows h = 0 :=
  withHere_ind () (fun b _ _ xs => do let ys ← compactSlice xs; setItemsM b ys) h (fun _ g => g = 0) rfl
    (by
      intro b o cap xs _
      simp [(compactSlice_grows xs h).1]) fuel a

theorem scanSlot_grows (fuel : Nat) (v : Val) (h : Heap) : (scanSlot fuel v).grows h = 0 := by
  cases v <;> simp [scanSlot, HCmd.grows]
  next a =>
    cases hm : h.mem a with
    | free => simp
    | vec o c xs => simp [listReplace_compact_grows]
    | fwd t => simp [listReplace_compact_grows]
    | obj ob =>
      cases ob with
      | tuple xs => simp [(compactSlice_grows xs h).1]
      | inst xs => simp [(compactSlice_grows xs h).1]
      | map es => simp [(compactEntries_grows es h).1]
      | box v => simp
      | clos c => simp

theorem scanStack_grows (fuel : Nat) : ∀ (vs : List Val) (h : Heap), (scanStack fuel vs).grows h = 0 := by
  intro vs
  induction vs with
  | nil => intro h; rfl
  | cons v vs ih =>
    intro h
    simp [scanStack, scanSlot_grows, ih]

theorem scanRoots_grows (m : M) (h : Heap) : (m.scanRoots).grows h = 0 := by
  simp [M.scanRoots, scanStack_grows]

theorem hasMoved_run (a : Nat) (h : Heap) : (hasMoved a).run h = (isFwd h a, h) := by
  simp only [hasMoved, run_bind, run_readM, run_pure, isFwd]

theorem scanIfMoved_grows (m : M) (a : Nat) (h : Heap) : (m.scanIfMoved a).grows h = 0 := by
  simp only [M.scanIfMoved, grows_bind, hasMoved_run]
  have : (hasMoved a).grows h = 0 := by simp [hasMoved]
  rw [this]
  cases isFwd h a <;> simp [scanRoots_grows]

/-- the header is not a forwarding pointer: `if list.has_moved() { hooks.scan_roots() }` does nothing -/
theorem scanIfMoved_here (m : M) (a : Nat) (h : Heap) (hn : isFwd h a = false) : (m.scanIfMoved a).run h = (m, h) := by
  simp [M.scanIfMoved, hasMoved_run, hn]

end LaytheVerif.ListFwd
