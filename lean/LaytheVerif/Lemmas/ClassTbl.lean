/-
Helper lemmas about the association-list tables of `Model/Classes.lean`.
-/
import LaytheVerif.Model.Classes
namespace LaytheVerif.Classes

namespace Tbl

theorem get_insert (t : Tbl) (k k' : String) (v : Nat) :
    get (insert t k v) k' = if k = k' then some v else get t k' := by
  induction t with
  | nil => simp [insert, get]
  | cons p t ih =>
    obtain ⟨a, b⟩ := p
    simp only [insert]
    by_cases h : a = k
    · subst h
      by_cases h2 : a = k' <;> simp [get, h2]
    · simp only [h, if_false, get]
      by_cases h2 : a = k'
      · subst h2
        have : ¬ k = a := fun e => h e.symm
        simp [this]
      · simp [h2, ih]

theorem get_none_iff_not_mem (t : Tbl) (k : String) : get t k = none ↔ k ∉ keys t := by
  induction t with
  | nil => simp [get, keys]
  | cons p t ih =>
    obtain ⟨a, b⟩ := p
    by_cases h : a = k
    · simp [get, keys, h]
    · simp only [get, h, if_false, keys, List.map_cons, List.mem_cons, not_or]
      constructor
      · intro hn; exact ⟨fun e => h e.symm, by simpa [keys] using ih.mp hn⟩
      · intro hn; exact ih.mpr (by simpa [keys] using hn.2)

theorem get_some_mem (t : Tbl) (k : String) (v : Nat) (h : get t k = some v) : k ∈ keys t := by
  by_cases hm : k ∈ keys t
  · exact hm
  · rw [← get_none_iff_not_mem] at hm; simp [hm] at h

theorem insert_absent (t : Tbl) (k : String) (v : Nat) (h : get t k = none) :
    insert t k v = t ++ [(k, v)] := by
  induction t with
  | nil => simp [insert]
  | cons p t ih =>
    obtain ⟨a, b⟩ := p
    simp only [get] at h
    by_cases hk : a = k
    · simp [hk] at h
    · simp only [hk, if_false] at h
      simp [insert, hk, ih h]

theorem insert_present_length (t : Tbl) (k : String) (v : Nat) (h : k ∈ keys t) :
    (insert t k v).length = t.length := by
  induction t with
  | nil => simp [keys] at h
  | cons p t ih =>
    obtain ⟨a, b⟩ := p
    by_cases hk : a = k
    · simp [insert, hk]
    · simp only [keys, List.map_cons, List.mem_cons] at h
      have : k ∈ keys t := by
        rcases h with h | h
        · exact absurd h.symm hk
        · exact h
      simp [insert, hk, ih this]

theorem keys_insert_present (t : Tbl) (k : String) (v : Nat) (h : k ∈ keys t) :
    keys (insert t k v) = keys t := by
  induction t with
  | nil => simp [keys] at h
  | cons p t ih =>
    obtain ⟨a, b⟩ := p
    by_cases hk : a = k
    · simp [insert, hk, keys]
    · simp only [keys, List.map_cons, List.mem_cons] at h
      have : k ∈ keys t := by
        rcases h with h | h
        · exact absurd h.symm hk
        · exact h
      have ih' := ih this
      simp only [keys] at ih'
      simp [insert, hk, keys, ih']

theorem keys_insert_absent (t : Tbl) (k : String) (v : Nat) (h : k ∉ keys t) :
    keys (insert t k v) = keys t ++ [k] := by
  rw [← get_none_iff_not_mem] at h
  simp [insert_absent t k v h, keys]

/-- `insert` keeps keys distinct -/
theorem insert_nodup (t : Tbl) (k : String) (v : Nat) (h : (keys t).Nodup) : (keys (insert t k v)).Nodup := by
  by_cases hm : k ∈ keys t
  · rw [keys_insert_present t k v hm]; exact h
  · rw [keys_insert_absent t k v hm]
    rw [List.nodup_append]
    refine ⟨h, by simp, ?_⟩
    intro a ha b hb
    simp at hb; subst hb
    intro e; subst e; exact hm ha

theorem mem_keys_insert (t : Tbl) (k : String) (v : Nat) (x : String) :
    x ∈ keys (insert t k v) ↔ x = k ∨ x ∈ keys t := by
  by_cases hm : k ∈ keys t
  · rw [keys_insert_present t k v hm]
    constructor
    · intro h; exact Or.inr h
    · rintro (h | h)
      · subst h; exact hm
      · exact h
  · rw [keys_insert_absent t k v hm]
    simp only [List.mem_append, List.mem_singleton]
    constructor
    · rintro (h | h)
      · exact Or.inr h
      · exact Or.inl h
    · rintro (h | h)
      · exact Or.inr h
      · exact Or.inl h

/-- copying a table with distinct keys into an empty one, entry by entry, gives the same table -/
theorem foldl_insert_copy (src acc : Tbl) (h : (keys (acc ++ src)).Nodup) :
    src.foldl (fun fs p => insert fs p.1 p.2) acc = acc ++ src := by
  induction src generalizing acc with
  | nil => simp
  | cons p src ih =>
    obtain ⟨a, b⟩ := p
    simp only [List.foldl]
    have hn : get acc a = none := by
      rw [get_none_iff_not_mem]
      intro hm
      simp only [keys, List.map_append, List.map_cons] at h
      rw [List.nodup_append] at h
      exact h.2.2 a (by simpa [keys] using hm) a (by simp) rfl
    rw [insert_absent acc a b hn]
    have : acc ++ [(a, b)] ++ src = acc ++ (a, b) :: src := by simp
    rw [ih (acc ++ [(a, b)]) (by rw [this]; exact h), this]

/-- the method copy of `inherit` (skip keys already present) into an empty table -/
theorem foldl_insert_absent_copy (src acc : Tbl) (h : (keys (acc ++ src)).Nodup) :
    src.foldl (fun ms p => insertIfAbsent ms p.1 p.2) acc = acc ++ src := by
  induction src generalizing acc with
  | nil => simp
  | cons p src ih =>
    obtain ⟨a, b⟩ := p
    simp only [List.foldl]
    have hn : get acc a = none := by
      rw [get_none_iff_not_mem]
      intro hm
      simp only [keys, List.map_append, List.map_cons] at h
      rw [List.nodup_append] at h
      exact h.2.2 a (by simpa [keys] using hm) a (by simp) rfl
    have hstep : insertIfAbsent acc a b = acc ++ [(a, b)] := by
      simp only [insertIfAbsent, hn]; exact insert_absent acc a b hn
    rw [hstep]
    have : acc ++ [(a, b)] ++ src = acc ++ (a, b) :: src := by simp
    rw [ih (acc ++ [(a, b)]) (by rw [this]; exact h), this]

theorem get_append (l r : Tbl) (k : String) :
    get (l ++ r) k = match get l k with | some v => some v | none => get r k := by
  induction l with
  | nil => simp [get]
  | cons p l ih =>
    obtain ⟨a, b⟩ := p
    simp only [List.cons_append, get]
    split <;> simp_all

end Tbl

end LaytheVerif.Classes
