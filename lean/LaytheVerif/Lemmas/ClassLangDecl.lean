/-
What one evaluation of a class declaration does to the world of the Spec evaluator (Model/ClassLang.lean):
`declareClass` run to completion, as an equation on worlds.  Used by Props/C03.lean for the statements about
class declarations that are evaluated more than once (class factories).
-/
import LaytheVerif.Model.ClassLang
namespace LaytheVerif.ClassLang
set_option linter.unusedSimpArgs false

/-- run an action of the evaluator on a world -/
def runM {α} (m : M α) (w : World) : Except Ctl α × World := (m.run.run w)

theorem addCodes_run (lex : Option Nat) (st : Bool) (env : List (String × Val)) (fs : List FunSrc) (w : World) :
    ∃ r w', runM (addCodes lex st env fs) w = (.ok r, w') ∧ w'.classes = w.classes ∧ w'.globals = w.globals
      ∧ w'.heap = w.heap ∧ w'.out = w.out := by
  induction fs generalizing w with
  | nil => exact ⟨[], w, rfl, rfl, rfl, rfl, rfl⟩
  | cons f r ih =>
    obtain ⟨r', w', h1, h2, h3, h4, h5⟩ := ih { w with codes := w.codes.push { name := f.name, params := f.params, body := f.body, lexCls := lex, isStatic := st, env := env } }
    refine ⟨(f.name, w.codes.size) :: r', w', ?_, h2, h3, h4, h5⟩
    simp only [runM] at h1 ⊢
    simp only [addCodes, addCode, bind, ExceptT.bind, ExceptT.mk, ExceptT.run, ExceptT.bindCont, StateT.bind, get, getThe, MonadStateOf.get, liftM, monadLift, MonadLift.monadLift, ExceptT.lift, StateT.get, set, StateT.set, pure, ExceptT.pure, StateT.pure, StateT.run, Functor.map, StateT.map] at h1 ⊢
    rw [h1]; rfl

/-- the part of `declareClass` after the slot has been reserved -/
theorem declare_tail (d : ClassDecl) (cenv : List (String × Val)) (cid : Nat) (parent : Option Nat) (W0 : World)
    (initId : Option Nat) :
    ∃ w', runM (do
        let ms ← addCodes (some cid) false cenv d.methods
        let ss ← addCodes (some cid) true cenv d.statics
        let body : LaytheVerif.Classes.ClassBody := {
          initFields := match d.init with | some f => assignedStmts f.body | none => []
          init := initId, methods := ms, statics := ss }
        modify fun w => { w with classes := w.classes.set! cid { name := d.name, parent := parent, body := body, statics := ss } }
        pure cid : M Nat) W0 = (.ok cid, w') ∧
      (∃ k, w'.classes = W0.classes.set! cid k ∧ k.parent = parent ∧ k.name = d.name) ∧
      w'.out = W0.out ∧ w'.heap = W0.heap ∧ w'.globals = W0.globals := by
  obtain ⟨ms, w1, hm, c1, g1, p1, o1⟩ := addCodes_run (some cid) false cenv d.methods W0
  obtain ⟨ss, w2, hs, c2, g2, p2, o2⟩ := addCodes_run (some cid) true cenv d.statics w1
  simp only [runM] at hm hs ⊢
  simp only [bind, ExceptT.bind, ExceptT.mk, ExceptT.run, ExceptT.bindCont, StateT.bind, pure, ExceptT.pure, StateT.pure, StateT.run, Functor.map, StateT.map, modify, modifyGet, MonadStateOf.modifyGet, StateT.modifyGet, liftM, monadLift, MonadLift.monadLift, ExceptT.lift] at hm hs ⊢
  rw [hm]
  simp only [StateT.bind, ExceptT.bindCont, StateT.map, StateT.modifyGet, StateT.pure, bind, pure]
  rw [hs]
  simp only [StateT.bind, ExceptT.bindCont, StateT.map, StateT.modifyGet, StateT.pure, bind, pure]
  refine ⟨_, rfl, ⟨ClassRt.mk d.name parent ⟨(match d.init with | some f => assignedStmts f.body | none => []), initId, ms, ss⟩ ss,
    ?_, rfl, rfl⟩, ?_, ?_, ?_⟩
  · simp only [c2, c1]
  · simp only [o2, o1]
  · simp only [p2, p1]
  · simp only [g2, g1]

theorem classes_after (cs : Array ClassRt) (x k : ClassRt) (cs' : Array ClassRt) (c : Option Nat)
    (hk : cs' = (cs.push x).set! cs.size k) (hkp : k.parent = c) :
    (cs'[cs.size]?).map (·.parent) = some c ∧ cs'.size = cs.size + 1 ∧ ∀ i, i < cs.size → cs'[i]? = cs[i]? := by
  subst hk
  refine ⟨?_, by simp, ?_⟩
  · simp [hkp]
  · intro i hi
    have : cs.size ≠ i := by omega
    simp [Array.getElem?_setIfInBounds_ne this, Array.getElem?_push_lt hi]

/-- **declare_parent.**  A local declaration `class D : B {..}` evaluated where `B` denotes class `c`: it runs to
completion, the new class is the next free id, its parent is `c`, and nothing else is touched — every class
that existed (earlier evaluations of the same declaration included), the heap, the output, the module variables. -/
theorem declare_parent (d : ClassDecl) (env : List (String × Val)) (w : World) (B : String) (c : Nat)
    (hd : d.parent = some B) (hB : lookupEnv env B = some (.cls c)) :
    ∃ w', runM (declareClass d env false) w = (.ok w.classes.size, w') ∧
      (w'.classes[w.classes.size]?).map (·.parent) = some (some c) ∧
      w'.classes.size = w.classes.size + 1 ∧
      (∀ i, i < w.classes.size → w'.classes[i]? = w.classes[i]?) ∧
      w'.out = w.out ∧ w'.heap = w.heap ∧ w'.globals = w.globals := by
  cases hinit : d.init with
  | none =>
    obtain ⟨w', h, ⟨k, hk, hkp, _⟩, ho, hh, hg⟩ := declare_tail d ((d.name, Val.cls w.classes.size) :: env) w.classes.size (some c)
      { w with classes := w.classes.push { name := d.name, parent := some c, body := { initFields := [], init := none, methods := [], statics := [] }, statics := [] } } none
    obtain ⟨a1, a2, a3⟩ := classes_after w.classes _ k w'.classes (some c) hk hkp
    refine ⟨w', ?_, a1, a2, a3, ho, hh, hg⟩
    simp only [runM] at h ⊢
    simp only [declareClass, hd, resolveSuper, hB, superOfVal, hinit]
    simp only [bind, ExceptT.bind, ExceptT.mk, ExceptT.run, ExceptT.bindCont, StateT.bind, get, getThe, MonadStateOf.get, liftM, monadLift, MonadLift.monadLift, ExceptT.lift, StateT.get, set, StateT.set, pure, ExceptT.pure, StateT.pure, StateT.run, Functor.map, StateT.map, modify, modifyGet, MonadStateOf.modifyGet, StateT.modifyGet] at h ⊢
    simp only [hinit] at h
    simp only [Bool.false_eq_true, if_false]
    exact h
  | some f =>
    obtain ⟨w', h, ⟨k, hk, hkp, _⟩, ho, hh, hg⟩ := declare_tail d ((d.name, Val.cls w.classes.size) :: env) w.classes.size (some c)
      { w with classes := w.classes.push { name := d.name, parent := some c, body := { initFields := [], init := none, methods := [], statics := [] }, statics := [] },
               codes := w.codes.push { name := "init", params := f.params, body := f.body, lexCls := some w.classes.size, isInit := true,
                                       env := (d.name, Val.cls w.classes.size) :: env } } (some w.codes.size)
    obtain ⟨a1, a2, a3⟩ := classes_after w.classes _ k w'.classes (some c) hk hkp
    refine ⟨w', ?_, a1, a2, a3, ho, hh, hg⟩
    simp only [runM] at h ⊢
    simp only [declareClass, hd, resolveSuper, hB, superOfVal, hinit, addCode]
    simp only [bind, ExceptT.bind, ExceptT.mk, ExceptT.run, ExceptT.bindCont, StateT.bind, get, getThe, MonadStateOf.get, liftM, monadLift, MonadLift.monadLift, ExceptT.lift, StateT.get, set, StateT.set, pure, ExceptT.pure, StateT.pure, StateT.run, Functor.map, StateT.map, modify, modifyGet, MonadStateOf.modifyGet, StateT.modifyGet] at h ⊢
    simp only [hinit] at h
    simp only [Bool.false_eq_true, if_false]
    exact h

end LaytheVerif.ClassLang
