import LaytheVerif.Lemmas.C01Pratt
/-! Ternary and assignment cases of the absorption lemma, and the round trip itself. -/
set_option linter.unusedSimpArgs false
namespace LaytheVerif.Pratt
open LaytheVerif.Gen

theorem absorbs_ternary (c t e : PExpr) (hw : wf (.ternary c t e) = true)
    (ihc : Absorbs c) (iht : Absorbs t) (ihe : Absorbs e) : Absorbs (.ternary c t e) := by
  intro q rest f r hq1 hq hh h
  have e2 : (infixRule .QuestionMark).2.toNat = 2 := rfl
  simp only [wf, e2, Bool.and_eq_true, decide_eq_true_eq] at hw
  obtain ⟨⟨⟨_, hwt⟩, hwe⟩, hlc⟩ := hw
  have hf := bind_some_pos h
  have hA : Precedence.Assignment.toNat = 1 := rfl
  simp only [lvl, rbl, e2, hA] at hq hh
  -- then-branch, up to the colon
  have ht : parsePrec (f + K t + K e + 2) exprPrecedence (tokensOf t ++ (⟨.Colon, ""⟩ :: (tokensOf e ++ rest)))
      = some (t, ⟨.Colon, ""⟩ :: (tokensOf e ++ rest)) := by
    apply operand iht
    · decide
    · simpa [exprPrecedence, hA] using lvl_pos hwt
    · have := rbl_pos t
      simp [headOk, infixRule, Precedence.toNat, isAssignTok, assignOps]; exact decide_eq_true (by omega)
    · simp [headOk, infixRule, exprPrecedence, Precedence.toNat, isAssignTok, assignOps]
    · omega
  have he : parsePrec (f + K t + K e + 2) exprPrecedence (tokensOf e ++ rest) = some (e, rest) := by
    apply operand ihe
    · decide
    · simpa [exprPrecedence, hA] using lvl_pos hwe
    · exact headOk_mono hh (rbl_pos e)
    · simpa [exprPrecedence, hA] using hh
    · omega
  have hact : infixAct (f + K t + K e + 2 + 1) .Ternary .Ternary c ⟨.QuestionMark, ""⟩
      (tokensOf t ++ (⟨.Colon, ""⟩ :: (tokensOf e ++ rest))) = some (.ternary c t e, rest) := by
    simp [infixAct, resolve, recurseTernaryThen, recurseTernaryElse, ht, he]
  have hloop : (infixLoop (f + K t + K e + 3 + 1) q c
      (⟨.QuestionMark, ""⟩ :: (tokensOf t ++ (⟨.Colon, ""⟩ :: (tokensOf e ++ rest))))).bind (finish q) = some r := by
    rw [loop_step (inf := .Ternary) (own := .Ternary) (by simp [infixRule])
      (by simp only [precLe, decide_eq_true_eq]; exact hq) hact]
    exact loop_bind_mono h (by omega)
  have htok : tokensOf (.ternary c t e) ++ rest =
      tokensOf c ++ (⟨.QuestionMark, ""⟩ :: (tokensOf t ++ (⟨.Colon, ""⟩ :: (tokensOf e ++ rest)))) := by
    simp [tokensOf]
  have hfuel : f + K (.ternary c t e) = (f + K t + K e + 3 + 1) + K c := by simp [K]; omega
  rw [htok, hfuel]
  apply ihc q _ _ r hq1 (by omega) _ hloop
  have hra : 2 < rbl c := by have := rbl_ge c 3 (by omega) hlc; omega
  simp [headOk, infixRule, Precedence.toNat, isAssignTok, assignOps]
  exact decide_eq_true hra

theorem absorbs_assign (x : String) (op : TokenKind) (e : PExpr) (hw : wf (.assign x op e) = true)
    (ihe : Absorbs e) : Absorbs (.assign x op e) := by
  intro q rest f r hq1 hq hh h
  simp only [wf, Bool.and_eq_true] at hw
  obtain ⟨hop, hwe⟩ := hw
  have hf := bind_some_pos h
  have hA : Precedence.Assignment.toNat = 1 := rfl
  simp only [lvl, rbl, hA] at hq hh
  have hca : precLe q .Assignment = true := by simp only [precLe, decide_eq_true_eq]; exact hq
  have he : parsePrec (f + K e + 1) exprPrecedence (tokensOf e ++ rest) = some (e, rest) := by
    apply operand ihe
    · decide
    · simpa [exprPrecedence, hA] using lvl_pos hwe
    · exact headOk_mono hh (rbl_pos e)
    · simpa [exprPrecedence, hA] using hh
    · omega
  have htok : tokensOf (.assign x op e) ++ rest = ⟨.Identifier, x⟩ :: (⟨op, ""⟩ :: (tokensOf e ++ rest)) := by
    simp [tokensOf]
  have hfuel : f + K (.assign x op e) = (f + K e + 2) + 1 := by simp [K]; omega
  rw [htok, hfuel, parsePrec_succ]
  have hpa : prefixAct (f + K e + 1 + 1) .Variable (precLe q .Assignment) ⟨.Identifier, x⟩
      (⟨op, ""⟩ :: (tokensOf e ++ rest)) = some (.assign x op e, rest) := by
    simp [prefixAct, hca, hop, he]
  simp only [prefixRule]
  rw [show f + K e + 2 = f + K e + 1 + 1 from rfl, hpa]
  exact loop_bind_mono h (by omega)

/-- every admissible rendering is absorbed -/
theorem absorbs_all (e : PExpr) (hw : wf e = true) : Absorbs e := by
  induction e with
  | num s => exact absorbs_num s
  | ident x => exact absorbs_ident x
  | lit k => exact absorbs_lit k hw
  | group x ih => exact absorbs_group x hw (ih (by simpa [wf] using hw))
  | unary op x ih =>
    have : wf x = true := by simp [wf] at hw; exact hw.1.2
    exact absorbs_unary op x hw (ih this)
  | binary op a b iha ihb =>
    have h := hw
    simp [wf] at h
    exact absorbs_binary op a b hw (iha h.1.1.1.2) (ihb h.1.1.2)
  | and a b iha ihb =>
    have h := hw
    simp only [wf, Bool.and_eq_true] at h
    exact absorbs_and a b hw (iha h.1.1.1) (ihb h.1.1.2)
  | or a b iha ihb =>
    have h := hw
    simp only [wf, Bool.and_eq_true] at h
    exact absorbs_or a b hw (iha h.1.1.1) (ihb h.1.1.2)
  | ternary c t e ihc iht ihe =>
    have h := hw
    simp only [wf, Bool.and_eq_true] at h
    exact absorbs_ternary c t e hw (ihc h.1.1.1) (iht h.1.1.2) (ihe h.1.2)
  | assign x op e ih =>
    have h := hw
    simp only [wf, Bool.and_eq_true] at h
    exact absorbs_assign x op e hw (ih h.2)

theorem K_le (e : PExpr) : K e ≤ 4 * (tokensOf e).length := by
  induction e <;> simp [K, tokensOf] <;> omega

end LaytheVerif.Pratt
