/-
Lemmas about `Cls.addField / addMethod / inheritFrom`, the compiler's field numbering and `buildCls`
(Model/Classes.lean).  The property theorems are in Props/C03.lean.
-/
import LaytheVerif.Lemmas.ClassTbl
namespace LaytheVerif.Classes

/-- a field table as every reachable class has it: the indices are `0 … len-1` in insertion order and
the names are distinct -/
def FieldsWF (t : Tbl) : Prop := t.map (·.2) = List.range t.length ∧ (Tbl.keys t).Nodup

/-- class invariant: field table well formed, method names distinct, `init` cached consistently -/
structure ClsWF (c : Cls) : Prop where
  fields : FieldsWF c.fields
  methods : (Tbl.keys c.methods).Nodup
  init : c.init = c.methods.get "init"

theorem bare_wf (n : String) : ClsWF (Cls.bare n) := by
  refine ⟨⟨by simp [Cls.bare], by simp [Cls.bare, Tbl.keys]⟩, by simp [Cls.bare, Tbl.keys], by simp [Cls.bare, Tbl.get]⟩

/-! ### add_field -/

theorem addField_fields_absent (c : Cls) (n : String) (h : c.fields.get n = none) :
    (c.addField n).fields = c.fields ++ [(n, c.fields.length)] := by
  simp [Cls.addField, h, Tbl.insert_absent]

theorem addField_fields_present (c : Cls) (n : String) (i : Nat) (h : c.fields.get n = some i) :
    (c.addField n) = c := by
  simp [Cls.addField, h]

theorem addField_fieldsWF (c : Cls) (n : String) (h : FieldsWF c.fields) : FieldsWF (c.addField n).fields := by
  cases hg : c.fields.get n with
  | some i => rw [addField_fields_present c n i hg]; exact h
  | none =>
    rw [addField_fields_absent c n hg]
    obtain ⟨h1, h2⟩ := h
    refine ⟨by simp [List.map_append, h1, List.range_succ], ?_⟩
    have := Tbl.insert_nodup c.fields n c.fields.length h2
    rwa [Tbl.insert_absent _ _ _ hg] at this

theorem addField_methods (c : Cls) (n : String) : (c.addField n).methods = c.methods := by
  unfold Cls.addField; split <;> rfl

theorem addField_init (c : Cls) (n : String) : (c.addField n).init = c.init := by
  unfold Cls.addField; split <;> rfl

theorem addField_name (c : Cls) (n : String) : (c.addField n).name = c.name := by
  unfold Cls.addField; split <;> rfl

theorem addField_wf (c : Cls) (n : String) (h : ClsWF c) : ClsWF (c.addField n) :=
  ⟨addField_fieldsWF c n h.fields, by rw [addField_methods]; exact h.methods,
   by rw [addField_init, addField_methods]; exact h.init⟩

/-- an existing field keeps its index when another field is added -/
theorem addField_preserves (c : Cls) (n f : String) (i : Nat) (h : c.getFieldIndex f = some i) :
    (c.addField n).getFieldIndex f = some i := by
  unfold Cls.getFieldIndex at *
  cases hg : c.fields.get n with
  | some j => rw [addField_fields_present c n j hg]; exact h
  | none => rw [addField_fields_absent c n hg, Tbl.get_append, h]

theorem addField_length_le (c : Cls) (n : String) : c.fields.length ≤ (c.addField n).fields.length := by
  cases hg : c.fields.get n with
  | some j => rw [addField_fields_present c n j hg]; exact Nat.le_refl _
  | none => rw [addField_fields_absent c n hg]; simp

theorem mem_keys_addField (c : Cls) (n x : String) :
    x ∈ Tbl.keys (c.addField n).fields ↔ x = n ∨ x ∈ Tbl.keys c.fields := by
  cases hg : c.fields.get n with
  | some j =>
    rw [addField_fields_present c n j hg]
    constructor
    · exact Or.inr
    · rintro (h | h)
      · subst h; exact Tbl.get_some_mem _ _ _ hg
      · exact h
  | none =>
    rw [addField_fields_absent c n hg]
    simp only [Tbl.keys, List.map_append, List.mem_append, List.map_cons, List.map_nil, List.mem_singleton]
    constructor
    · rintro (h | h)
      · exact Or.inr h
      · exact Or.inl h
    · rintro (h | h)
      · exact Or.inr h
      · exact Or.inl h

/-! ### folds of add_field (`emit_fields` → `Field*`) -/

theorem foldl_addField_wf (fs : List String) (c : Cls) (h : ClsWF c) : ClsWF (fs.foldl Cls.addField c) := by
  induction fs generalizing c with
  | nil => simpa
  | cons f fs ih => exact ih _ (addField_wf c f h)

theorem foldl_addField_fieldsWF (fs : List String) (c : Cls) (h : FieldsWF c.fields) :
    FieldsWF (fs.foldl Cls.addField c).fields := by
  induction fs generalizing c with
  | nil => simpa
  | cons f fs ih => exact ih _ (addField_fieldsWF c f h)

theorem foldl_addField_preserves (fs : List String) (c : Cls) (f : String) (i : Nat)
    (h : c.getFieldIndex f = some i) : (fs.foldl Cls.addField c).getFieldIndex f = some i := by
  induction fs generalizing c with
  | nil => simpa
  | cons g fs ih => exact ih _ (addField_preserves c g f i h)

theorem foldl_addField_methods (fs : List String) (c : Cls) : (fs.foldl Cls.addField c).methods = c.methods := by
  induction fs generalizing c with
  | nil => rfl
  | cons f fs ih => simp only [List.foldl]; rw [ih, addField_methods]

theorem foldl_addField_init (fs : List String) (c : Cls) : (fs.foldl Cls.addField c).init = c.init := by
  induction fs generalizing c with
  | nil => rfl
  | cons f fs ih => simp only [List.foldl]; rw [ih, addField_init]

theorem foldl_addField_name (fs : List String) (c : Cls) : (fs.foldl Cls.addField c).name = c.name := by
  induction fs generalizing c with
  | nil => rfl
  | cons f fs ih => simp only [List.foldl]; rw [ih, addField_name]

theorem foldl_addField_length_le (fs : List String) (c : Cls) :
    c.fields.length ≤ (fs.foldl Cls.addField c).fields.length := by
  induction fs generalizing c with
  | nil => exact Nat.le_refl _
  | cons f fs ih => exact Nat.le_trans (addField_length_le c f) (ih _)

theorem mem_keys_foldl_addField (fs : List String) (c : Cls) (x : String) :
    x ∈ Tbl.keys (fs.foldl Cls.addField c).fields ↔ x ∈ fs ∨ x ∈ Tbl.keys c.fields := by
  induction fs generalizing c with
  | nil => simp
  | cons f fs ih =>
    simp only [List.foldl, ih, mem_keys_addField, List.mem_cons]
    constructor
    · rintro (h | h | h)
      · exact Or.inl (Or.inr h)
      · exact Or.inl (Or.inl h)
      · exact Or.inr h
    · rintro ((h | h) | h)
      · exact Or.inr (Or.inl h)
      · exact Or.inl h
      · exact Or.inr (Or.inr h)

/-! ### add_method -/

theorem addMethod_fields (c : Cls) (n : String) (m : Nat) : (c.addMethod n m).fields = c.fields := rfl
theorem addMethod_name (c : Cls) (n : String) (m : Nat) : (c.addMethod n m).name = c.name := rfl

theorem addMethod_get (c : Cls) (n k : String) (m : Nat) :
    (c.addMethod n m).getMethod k = if n = k then some m else c.getMethod k := by
  simp [Cls.addMethod, Cls.getMethod, Tbl.get_insert]

theorem addMethod_wf (c : Cls) (n : String) (m : Nat) (h : ClsWF c) : ClsWF (c.addMethod n m) := by
  refine ⟨h.fields, Tbl.insert_nodup _ _ _ h.methods, ?_⟩
  simp only [Cls.addMethod, Tbl.get_insert]
  by_cases hn : n = "init"
  · simp [hn]
  · simp [hn, h.init]

theorem foldl_addMethod_fields (ms : List (String × Nat)) (c : Cls) :
    (ms.foldl (fun c p => c.addMethod p.1 p.2) c).fields = c.fields := by
  induction ms generalizing c with
  | nil => rfl
  | cons m ms ih => simp only [List.foldl]; rw [ih]; rfl

theorem foldl_addMethod_name (ms : List (String × Nat)) (c : Cls) :
    (ms.foldl (fun c p => c.addMethod p.1 p.2) c).name = c.name := by
  induction ms generalizing c with
  | nil => rfl
  | cons m ms ih => simp only [List.foldl]; rw [ih]; rfl

theorem foldl_addMethod_wf (ms : List (String × Nat)) (c : Cls) (h : ClsWF c) :
    ClsWF (ms.foldl (fun c p => c.addMethod p.1 p.2) c) := by
  induction ms generalizing c with
  | nil => simpa
  | cons m ms ih => exact ih _ (addMethod_wf c m.1 m.2 h)

/-- after a run of `Method` ops the *last* definition of a name wins; names not mentioned keep what
the class had before -/
theorem foldl_addMethod_get (ms : List (String × Nat)) (c : Cls) (k : String) :
    (ms.foldl (fun c p => c.addMethod p.1 p.2) c).getMethod k =
      match Tbl.get ms.reverse k with | some v => some v | none => c.getMethod k := by
  induction ms generalizing c with
  | nil => simp [Tbl.get]
  | cons m ms ih =>
    obtain ⟨n, v⟩ := m
    simp only [List.foldl]
    rw [ih]
    simp only [List.reverse_cons, Tbl.get_append, addMethod_get, Tbl.get]
    cases Tbl.get ms.reverse k with
    | some w => simp
    | none => by_cases hn : n = k <;> simp [hn]

/-! ### inherit -/

/-- `inherit` on a fresh class copies both tables and `init` (the case the VM and
`with_inheritance` run) -/
theorem inheritFrom_bare (n : String) (id : Nat) (sup : Cls) (h : ClsWF sup) :
    ((Cls.bare n).inheritFrom id sup).fields = sup.fields ∧
    ((Cls.bare n).inheritFrom id sup).methods = sup.methods ∧
    ((Cls.bare n).inheritFrom id sup).init = sup.init ∧
    ((Cls.bare n).inheritFrom id sup).name = n ∧
    ((Cls.bare n).inheritFrom id sup).superClass = some id ∧
    ((Cls.bare n).inheritFrom id sup).metaClass = none := by
  refine ⟨?_, ?_, rfl, rfl, rfl, rfl⟩
  · simp only [Cls.inheritFrom, Cls.bare]
    rw [Tbl.foldl_insert_copy sup.fields [] (by simpa using h.fields.2)]; simp
  · simp only [Cls.inheritFrom, Cls.bare]
    rw [Tbl.foldl_insert_absent_copy sup.methods [] (by simpa using h.methods)]; simp

theorem inheritFrom_bare_wf (n : String) (id : Nat) (sup : Cls) (h : ClsWF sup) :
    ClsWF ((Cls.bare n).inheritFrom id sup) := by
  obtain ⟨h1, h2, h3, _⟩ := inheritFrom_bare n id sup h
  exact ⟨by rw [h1]; exact h.fields, by rw [h2]; exact h.methods, by rw [h3, h2]; exact h.init⟩

/-! ### the compiler's numbering -/

theorem findKnownField_lt (fs : List String) (f : String) (p : Nat) (h : findKnownField fs f = some p) :
    p < fs.length := by
  induction fs generalizing p with
  | nil => simp [findKnownField] at h
  | cons g r ih =>
    simp only [findKnownField] at h
    by_cases hg : g = f
    · simp [hg] at h; subst h; simp
    · simp only [hg, if_false, Option.map_eq_some_iff] at h
      obtain ⟨q, hq, rfl⟩ := h
      have := ih q hq
      simp; omega

theorem findKnownField_none_iff (fs : List String) (f : String) : findKnownField fs f = none ↔ f ∉ fs := by
  induction fs with
  | nil => simp [findKnownField]
  | cons g r ih =>
    by_cases hg : g = f
    · simp [findKnownField, hg]
    · simp only [findKnownField, hg, if_false, Option.map_eq_none_iff, ih, List.mem_cons, not_or]
      exact ⟨fun h => ⟨fun e => hg e.symm, h⟩, fun h => h.2⟩

theorem findKnownField_append_left (fs gs : List String) (f : String) (p : Nat)
    (h : findKnownField fs f = some p) : findKnownField (fs ++ gs) f = some p := by
  induction fs generalizing p with
  | nil => simp [findKnownField] at h
  | cons g r ih =>
    simp only [findKnownField, List.cons_append] at *
    by_cases hg : g = f
    · simpa [hg] using h
    · simp only [hg, if_false, Option.map_eq_some_iff] at *
      obtain ⟨q, hq, rfl⟩ := h
      exact ⟨q, ih q hq, rfl⟩

/-- `record_field` never renumbers: positions handed out earlier stay valid -/
theorem recordField_preserves (fs : List String) (g f : String) (p : Nat)
    (h : findKnownField fs f = some p) : findKnownField (recordField fs g) f = some p := by
  unfold recordField
  split
  · exact h
  · exact findKnownField_append_left fs [g] f p h

theorem foldl_recordField_preserves (gs fs : List String) (f : String) (p : Nat)
    (h : findKnownField fs f = some p) : findKnownField (gs.foldl recordField fs) f = some p := by
  induction gs generalizing fs with
  | nil => simpa
  | cons g gs ih => exact ih _ (recordField_preserves fs g f p h)

/-- a position found while the initialiser is still being compiled (after any prefix of its
assignments) is the position in the final list -/
theorem compileInitFields_prefix (as : List String) (n : Nat) (f : String) (p : Nat)
    (h : findKnownField (compileInitFields (as.take n)) f = some p) :
    findKnownField (compileInitFields as) f = some p := by
  have : as = as.take n ++ as.drop n := (List.take_append_drop n as).symm
  rw [this]
  unfold compileInitFields at *
  rw [List.foldl_append]
  exact foldl_recordField_preserves _ _ f p h

theorem recordField_nodup (fs : List String) (g : String) (h : fs.Nodup) : (recordField fs g).Nodup := by
  unfold recordField
  split
  · exact h
  · next hn =>
    rw [findKnownField_none_iff] at hn
    rw [List.nodup_append]
    refine ⟨h, by simp, ?_⟩
    intro a ha b hb
    simp at hb; subst hb
    intro e; subst e; exact hn ha

theorem foldl_recordField_nodup (gs fs : List String) (h : fs.Nodup) : (gs.foldl recordField fs).Nodup := by
  induction gs generalizing fs with
  | nil => simpa
  | cons g gs ih => exact ih _ (recordField_nodup fs g h)

theorem compileInitFields_nodup (as : List String) : (compileInitFields as).Nodup :=
  foldl_recordField_nodup as [] (by simp)

theorem mem_recordField (fs : List String) (g x : String) : x ∈ recordField fs g ↔ x = g ∨ x ∈ fs := by
  unfold recordField
  split
  · next p hp =>
    constructor
    · exact Or.inr
    · rintro (h | h)
      · subst h
        by_cases hm : x ∈ fs
        · exact hm
        · rw [← findKnownField_none_iff] at hm; simp [hm] at hp
      · exact h
  · simp only [List.mem_append, List.mem_singleton]
    constructor
    · rintro (h | h)
      · exact Or.inr h
      · exact Or.inl h
    · rintro (h | h)
      · exact Or.inr h
      · exact Or.inl h

theorem mem_foldl_recordField (gs fs : List String) (x : String) :
    x ∈ gs.foldl recordField fs ↔ x ∈ gs ∨ x ∈ fs := by
  induction gs generalizing fs with
  | nil => simp
  | cons g gs ih =>
    simp only [List.foldl, ih, mem_recordField, List.mem_cons]
    constructor
    · rintro (h | h | h)
      · exact Or.inl (Or.inr h)
      · exact Or.inl (Or.inl h)
      · exact Or.inr h
    · rintro ((h | h) | h)
      · exact Or.inr (Or.inl h)
      · exact Or.inl h
      · exact Or.inr (Or.inr h)

/-- the compiler's field list mentions exactly the names assigned in the initialiser -/
theorem mem_compileInitFields (as : List String) (x : String) : x ∈ compileInitFields as ↔ x ∈ as := by
  simp [compileInitFields, mem_foldl_recordField]

/-- `Field*` for a duplicate-free list of names that are all new to the class numbers them
consecutively from `len`: the runtime index is `len + position` -/
theorem foldl_addField_new (fs : List String) (c : Cls) (hn : fs.Nodup)
    (hd : ∀ x ∈ fs, c.fields.get x = none) (f : String) (p : Nat) (h : findKnownField fs f = some p) :
    (fs.foldl Cls.addField c).getFieldIndex f = some (c.fields.length + p) := by
  induction fs generalizing c p with
  | nil => simp [findKnownField] at h
  | cons g r ih =>
    have hg : c.fields.get g = none := hd g (by simp)
    simp only [List.foldl]
    simp only [findKnownField] at h
    by_cases hgf : g = f
    · subst hgf
      simp at h; subst h
      apply foldl_addField_preserves
      simp [Cls.getFieldIndex, addField_fields_absent c g hg, Tbl.get_append, hg, Tbl.get]
    · simp only [hgf, if_false, Option.map_eq_some_iff] at h
      obtain ⟨q, hq, rfl⟩ := h
      have hnr : r.Nodup := (List.nodup_cons.mp hn).2
      have hgr : g ∉ r := (List.nodup_cons.mp hn).1
      have := ih (c.addField g) hnr (by
        intro x hx
        rw [addField_fields_absent c g hg, Tbl.get_append, hd x (by simp [hx])]
        have : g ≠ x := fun e => hgr (e ▸ hx)
        simp [Tbl.get, this]) q hq
      rw [this, addField_fields_absent c g hg]
      simp; omega

end LaytheVerif.Classes
