import LaytheVerif.Model.Machine
import LaytheVerif.Model.Lower
/-!
Toolkit for `C01_lower_expr_correct`: big-step facts about `Machine.exec` on label-based code
(`RunsTo`, `Fails`), composition, one-instruction steps, taken jumps to a uniquely placed label.
-/
set_option linter.unusedSimpArgs false
namespace LaytheVerif.C01Lower
open LaytheVerif.Machine LaytheVerif.Gen
open LaytheVerif.LayRef (Value OpErr)

theorem labelsOf_append (a b : List Sym) : labelsOf (a ++ b) = labelsOf a ++ labelsOf b := by
  fun_induction labelsOf a <;> simp_all [labelsOf]

theorem after_unique (l : Nat) (a b : List Sym) (h : l ∉ labelsOf a) :
    after l (a ++ .Label l :: b) = b := by
  induction a with
  | nil => simp [after]
  | cons i a ih =>
    cases i <;> simp_all [after, labelsOf]
    omega

theorem exec_cons (consts : List Value) (prog : List Sym) (fuel : Nat) (i : Sym) (r : List Sym) (s : St) :
    exec consts prog fuel (i :: r) s =
      match step consts i s with
      | .next s' => exec consts prog fuel r s'
      | .goto l s' => match fuel with
        | 0 => .outOfFuel
        | f + 1 => exec consts prog f (after l prog) s'
      | .err m => .err m
      | .stuck => .stuck := by
  rw [exec]
  cases step consts i s <;> rfl

/-- a label that sits right after `pfx` in a program with unique labels is found there -/
theorem after_at (prog pfx post : List Sym) (l : Nat) (hp : prog = pfx ++ .Label l :: post)
    (hn : (labelsOf prog).Nodup) : after l prog = post := by
  subst hp
  apply after_unique
  rw [labelsOf_append] at hn
  simp only [labelsOf] at hn
  have := (List.nodup_append.mp hn).2.2
  intro hmem
  exact this l hmem l (by simp) rfl

/-- from state `s`, running `code` (followed by `post`) inside `prog` reaches `post` in state `s'` -/
def RunsTo (K : List Value) (prog code post : List Sym) (s s' : St) : Prop :=
  ∃ k, ∀ f, exec K prog (f + k) (code ++ post) s = exec K prog f post s'
/-- … raises `m` -/
def Fails (K : List Value) (prog code post : List Sym) (s : St) (m : OpErr) : Prop :=
  ∃ k, ∀ f, exec K prog (f + k) (code ++ post) s = .err m

variable {K : List Value}

theorem RunsTo.trans {prog a b post : List Sym} {s1 s2 s3 : St}
    (h1 : RunsTo K prog a (b ++ post) s1 s2) (h2 : RunsTo K prog b post s2 s3) :
    RunsTo K prog (a ++ b) post s1 s3 := by
  obtain ⟨k1, h1⟩ := h1; obtain ⟨k2, h2⟩ := h2
  refine ⟨k2 + k1, fun f => ?_⟩
  rw [← Nat.add_assoc, List.append_assoc, h1, h2]

theorem RunsTo.fails {prog a b post : List Sym} {s1 s2 : St} {m : OpErr}
    (h1 : RunsTo K prog a (b ++ post) s1 s2) (h2 : Fails K prog b post s2 m) :
    Fails K prog (a ++ b) post s1 m := by
  obtain ⟨k1, h1⟩ := h1; obtain ⟨k2, h2⟩ := h2
  refine ⟨k2 + k1, fun f => ?_⟩
  rw [← Nat.add_assoc, List.append_assoc, h1, h2]

theorem Fails.left {prog a b post : List Sym} {s1 : St} {m : OpErr}
    (h1 : Fails K prog a (b ++ post) s1 m) : Fails K prog (a ++ b) post s1 m := by
  obtain ⟨k1, h1⟩ := h1
  exact ⟨k1, fun f => by rw [List.append_assoc, h1]⟩

theorem RunsTo.nil {prog post : List Sym} {s : St} : RunsTo K prog [] post s s :=
  ⟨0, fun f => by simp⟩

/-- one fall-through instruction -/
theorem RunsTo.one {prog post : List Sym} {i : Sym} {s s' : St} (h : step K i s = .next s') :
    RunsTo K prog [i] post s s' :=
  ⟨0, fun f => by simp [exec_cons, h]⟩

theorem Fails.one {prog post : List Sym} {i : Sym} {s : St} {m} (h : step K i s = .err m) :
    Fails K prog [i] post s m :=
  ⟨0, fun f => by simp [exec_cons, h]⟩

/-- a taken jump: the skipped code does not matter -/
theorem RunsTo.goto {prog post skipped : List Sym} {i : Sym} {l : Nat} {s s' : St}
    (h : step K i s = .goto l s') (ha : after l prog = post) :
    RunsTo K prog (i :: skipped) post s s' :=
  ⟨1, fun f => by simp [exec_cons, h, ha]⟩

end LaytheVerif.C01Lower
