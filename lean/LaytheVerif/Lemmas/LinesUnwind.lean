/-
Helper lemmas for C18: the invariant of an unwind in progress (`pause_unwind` extends the captured
instruction pointers by exactly the frames not yet captured, and those frames still hold the
instruction pointer they had when the error was raised).
-/
import LaytheVerif.Model.Lines
namespace LaytheVerif.LinesUnwind
open LaytheVerif.Lines

theorem setIp_length (fs : List Frame) (i ip : Nat) : (setIp fs i ip).length = fs.length := by
  fun_induction setIp fs i ip <;> simp_all

theorem setIp_map_fn (fs : List Frame) (i ip : Nat) : (setIp fs i ip).map Frame.fn = fs.map Frame.fn := by
  fun_induction setIp fs i ip <;> simp_all

theorem setIp_take (fs : List Frame) (i ip k : Nat) (hk : k ≤ i) : (setIp fs i ip).take k = fs.take k := by
  fun_induction setIp fs i ip generalizing k with
  | case1 => rfl
  | case2 fr fs ip => have : k = 0 := by omega
                      subst this; rfl
  | case3 fr fs i ip ih =>
    cases k with
    | zero => rfl
    | succ k => simp [ih k (by omega)]

/-- zipping frames with the saved ips of frames that have the same functions -/
theorem zip_saved (A X : List Frame) (h : A.map Frame.fn = X.map Frame.fn) :
    (A.zip (X.map Frame.ip)).map (fun (p : Frame × Nat) => (p.1.fn, reportOffset p.2)) =
      X.map fun x => (x.fn, reportOffset x.ip) := by
  induction A generalizing X with
  | nil => cases X <;> simp_all
  | cons a A ih =>
    cases X with
    | nil => simp at h
    | cons x X =>
      simp only [List.map_cons, List.cons.injEq] at h
      simp [h.1, ih X h.2]

/-- State of an unwind in progress, relative to the frames `F0` at the moment of the raise: the
search has reached depth `d` (`d = F0.length + 1`: not started). -/
structure Pre (F0 : List Frame) (g : Fiber) (d : Nat) : Prop where
  len : g.frames.length = F0.length
  fns : g.frames.map Frame.fn = F0.map Frame.fn
  below : g.frames.take (d - 1) = F0.take (d - 1)
  ips : g.backtraceIps = (F0.reverse.take (F0.length + 1 - d)).map Frame.ip
  hs : sortedFrom (min d F0.length) g.handlers = true
  dpos : 1 ≤ d
  dle : d ≤ F0.length + 1

/-- What a successful catch looks like relative to `F0`. -/
def Caught (F0 : List Frame) (bt : List (Nat × Nat)) (f' : Fiber) : Prop :=
  ∃ c, 1 ≤ c ∧ c ≤ F0.length ∧ f'.frames.length = c ∧
    bt = (F0.reverse.take (F0.length + 1 - c)).map (fun fr => (fr.fn, reportOffset fr.ip)) ∧
    f'.frames.take (c - 1) = F0.take (c - 1) ∧
    f'.frames.map Frame.fn = (F0.take c).map Frame.fn ∧
    f'.backtraceIps = []

theorem stackUnwind_pre (F0 : List Frame) (g : Fiber) (d : Nat) (bottom : Option Nat) (pre : Pre F0 g d)
    (f' : Fiber) (h : stackUnwind g bottom = .potentiallyHandled f') :
    ∃ hd rest, g.handlers = hd :: rest ∧ f'.handlers = hd :: rest ∧ f'.cur = hd.depth - 1 ∧
      hd.depth ≤ d ∧ Pre F0 f' hd.depth := by
  unfold stackUnwind at h
  cases hh : g.handlers with
  | nil =>
    rw [hh] at h
    cases bottom <;> simp at h
  | cons hd rest =>
    rw [hh] at h
    simp only at h
    split at h
    · injection h with h
      subst h
      have hs := pre.hs
      rw [hh] at hs
      simp only [sortedFrom, Bool.and_eq_true, decide_eq_true_eq] at hs
      obtain ⟨⟨h1, h2⟩, h3⟩ := hs
      have hn := pre.len
      have hd1 := pre.dpos
      have hd2 := pre.dle
      refine ⟨hd, rest, rfl, ?_, rfl, by omega, ?_⟩
      · simp [pauseUnwind, hh]
      · refine ⟨?_, ?_, ?_, ?_, ?_, h1, by omega⟩
        · simp [pauseUnwind, setIp_length, hn]
        · simp [pauseUnwind, setIp_map_fn, pre.fns]
        · simp only [pauseUnwind]
          rw [setIp_take _ _ _ _ (Nat.le_refl _)]
          have := congrArg (List.take (hd.depth - 1)) pre.below
          simp only [List.take_take] at this
          rw [Nat.min_eq_left (by omega)] at this
          exact this
        · simp only [pauseUnwind, pre.ips]
          have hlen : (List.map Frame.ip (List.take (F0.length + 1 - d) F0.reverse)).length = F0.length + 1 - d := by
            simp; omega
          rw [hlen, List.drop_reverse, hn]
          have e1 : F0.length - (F0.length + 1 - d) = d - 1 := by omega
          rw [e1, pre.below, ← e1, ← List.drop_reverse]
          have e2 : F0.length - hd.depth + 1 - (F0.length + 1 - d) = d - hd.depth := by omega
          rw [e2, ← List.map_append, ← List.take_add]
          congr 2
          omega
        · simp only [pauseUnwind, hh, sortedFrom, Bool.and_eq_true, decide_eq_true_eq]
          exact ⟨⟨h1, by omega⟩, h3⟩
    · cases h


theorem continue_pre (F0 : List Frame) (f1 : Fiber) (hd : Handler) (rest : List Handler) (ip' : Nat)
    (hh : f1.handlers = hd :: rest) (hc : f1.cur = hd.depth - 1) (pre : Pre F0 f1 hd.depth) :
    Pre F0 (storeIp (continueUnwind f1) ip') hd.depth := by
  have hs := pre.hs
  rw [hh] at hs
  simp only [sortedFrom, Bool.and_eq_true, decide_eq_true_eq] at hs
  refine ⟨?_, ?_, ?_, ?_, ?_, pre.dpos, pre.dle⟩
  · simp [storeIp, continueUnwind, setIp_length, pre.len]
  · simp [storeIp, continueUnwind, setIp_map_fn, pre.fns]
  · simp only [storeIp, continueUnwind, hc]
    rw [setIp_take _ _ _ _ (Nat.le_refl _)]
    exact pre.below
  · simp [storeIp, continueUnwind, pre.ips]
  · simp only [storeIp, continueUnwind, hh, List.tail_cons]
    rw [Nat.min_eq_left (by omega)]
    exact hs.2

theorem finish_caught (F0 : List Frame) (f1 : Fiber) (hd : Handler) (rest : List Handler)
    (hh : f1.handlers = hd :: rest) (pre : Pre F0 f1 hd.depth) (bt : List (Nat × Nat)) (f2 : Fiber)
    (h : finishUnwind f1 = some (bt, f2)) : Caught F0 bt f2 := by
  have hs := pre.hs
  rw [hh] at hs
  simp only [sortedFrom, Bool.and_eq_true, decide_eq_true_eq] at hs
  obtain ⟨⟨h1, h2⟩, -⟩ := hs
  have hn := pre.len
  simp only [finishUnwind, hh, Option.some.injEq, Prod.mk.injEq] at h
  obtain ⟨hbt, hf2⟩ := h
  subst hf2
  refine ⟨hd.depth, h1, by omega, ?_, ?_, ?_, ?_, rfl⟩
  · simp [hn]; omega
  · rw [← hbt]
    simp only [errorBacktrace, pre.ips, hn]
    have e : F0.length - hd.depth + 1 = F0.length + 1 - hd.depth := by omega
    rw [e]
    apply zip_saved
    rw [List.map_take, List.map_take, List.map_reverse, List.map_reverse, pre.fns]
  · simp only [List.take_take]
    rw [Nat.min_eq_left (by omega)]
    exact pre.below
  · simp [List.map_take, pre.fns]

theorem unwindFrom_caught (F0 : List Frame) (bottom : Option Nat) (ds : List (Bool × Nat)) (g : Fiber) (d : Nat)
    (pre : Pre F0 g d) (bt : List (Nat × Nat)) (f' : Fiber)
    (h : unwindFrom bottom g ds = .caught bt f') : Caught F0 bt f' := by
  induction ds generalizing g d with
  | nil =>
    simp only [unwindFrom] at h
    split at h <;> cases h
  | cons dec ds ih =>
    obtain ⟨m, ip'⟩ := dec
    cases m with
    | true =>
      simp only [unwindFrom] at h
      split at h
      · cases h
      · cases h
      · rename_i f1 hsu
        obtain ⟨hd, rest, -, hh, -, -, pre1⟩ := stackUnwind_pre F0 g d bottom pre f1 hsu
        split at h
        · rename_i bt' f2 hfin
          injection h with hb hf
          subst hb; subst hf
          exact finish_caught F0 f1 hd rest hh pre1 _ _ hfin
        · cases h
    | false =>
      simp only [unwindFrom] at h
      split at h
      · cases h
      · cases h
      · rename_i f1 hsu
        obtain ⟨hd, rest, -, hh, hc, -, pre1⟩ := stackUnwind_pre F0 g d bottom pre f1 hsu
        exact ih _ _ (continue_pre F0 f1 hd rest ip' hh hc pre1) h

theorem pre_initial (g : Fiber) (h : sortedFrom g.frames.length g.handlers = true) (hb : g.backtraceIps = []) :
    Pre g.frames g (g.frames.length + 1) := by
  refine ⟨rfl, rfl, rfl, ?_, ?_, by omega, by omega⟩
  · simp [hb]
  · rw [Nat.min_eq_right (by omega)]; exact h

/-- an uncaught error: the fiber `print_error` runs on is still in a state of the search (`Pre`) -/
theorem unwindFrom_uncaught (F0 : List Frame) (bottom : Option Nat) (ds : List (Bool × Nat)) (g : Fiber) (d : Nat)
    (pre : Pre F0 g d) (f' : Fiber) (h : unwindFrom bottom g ds = .uncaught f') :
    ∃ d', d' ≤ d ∧ Pre F0 f' d' := by
  induction ds generalizing g d with
  | nil =>
    simp only [unwindFrom] at h
    split at h
    · injection h with h; subst h
      exact ⟨d, Nat.le_refl _, pre⟩
    · cases h
    · cases h
  | cons dec ds ih =>
    obtain ⟨m, ip'⟩ := dec
    cases m with
    | true =>
      simp only [unwindFrom] at h
      split at h
      · injection h with h; subst h
        exact ⟨d, Nat.le_refl _, pre⟩
      · cases h
      · split at h <;> cases h
    | false =>
      simp only [unwindFrom] at h
      split at h
      · injection h with h; subst h
        exact ⟨d, Nat.le_refl _, pre⟩
      · cases h
      · rename_i f1 hsu
        obtain ⟨hd, rest, hg, hh, hc, hle, pre1⟩ := stackUnwind_pre F0 g d bottom pre f1 hsu
        obtain ⟨d', hd', pre'⟩ := ih _ _ (continue_pre F0 f1 hd rest ip' hh hc pre1) h
        exact ⟨d', by omega, pre'⟩

/-! ### what `print_error` reports -/

/-- `print_error`'s loop (`enumerate` + `backtrace_ips.get(index)`) as a recursion over the frames
(innermost first) and the saved ips. -/
def tbGo : List Frame → List Nat → List (Nat × Nat)
  | [], _ => []
  | fr :: frs, [] => (fr.fn, reportOffset fr.ip) :: tbGo frs []
  | fr :: frs, ip :: ips => (fr.fn, reportOffset ip) :: tbGo frs ips

theorem tbGo_nil (R : List Frame) : tbGo R [] = R.map fun fr => (fr.fn, reportOffset fr.ip) := by
  induction R with
  | nil => rfl
  | cons a R ih => simp [tbGo, ih]

theorem mapIdx_eq_tbGo (R : List Frame) (ips : List Nat) :
    (R.mapIdx fun index fr => (fr.fn, reportOffset (match ips[index]? with | some ip => ip | none => fr.ip))) =
      tbGo R ips := by
  induction R generalizing ips with
  | nil => rfl
  | cons a R ih =>
    cases ips with
    | nil =>
      have h0 := ih []
      simp only [List.getElem?_nil] at h0
      simp only [List.mapIdx_cons, List.getElem?_nil, tbGo]
      rw [h0]
    | cons ip ips =>
      simp only [List.mapIdx_cons, List.getElem?_cons_zero, List.getElem?_cons_succ, tbGo]
      rw [ih ips]

theorem tracebackEntries_eq_tbGo (g : Fiber) : tracebackEntries g = tbGo g.frames.reverse g.backtraceIps := by
  rw [← mapIdx_eq_tbGo]
  rfl

/-- frames `R` (innermost first) of which all but the first `n` are still those of `R0`, reported
with the ips saved from the first `n` frames of `R0`: everything is reported as in `R0` -/
theorem tbGo_saved (R R0 : List Frame) (n : Nat) (hf : R.map Frame.fn = R0.map Frame.fn)
    (hd : R.drop n = R0.drop n) :
    tbGo R ((R0.take n).map Frame.ip) = R0.map fun fr => (fr.fn, reportOffset fr.ip) := by
  induction R generalizing R0 n with
  | nil => cases R0 <;> simp_all [tbGo]
  | cons a R ih =>
    cases R0 with
    | nil => simp at hf
    | cons b R0 =>
      simp only [List.map_cons, List.cons.injEq] at hf
      cases n with
      | zero =>
        simp only [List.drop_zero] at hd
        rw [hd]
        simp [tbGo_nil]
      | succ n =>
        simp only [List.drop_succ_cons] at hd
        simp only [List.take_succ_cons, List.map_cons, tbGo, hf.1]
        rw [ih R0 n hf.2 hd]

/-- In every state of the search, `print_error` would report the frames of the moment of the raise:
same functions, innermost first, each with the ip it had when the error was raised. -/
theorem pre_traceback (F0 : List Frame) (g : Fiber) (d : Nat) (pre : Pre F0 g d) :
    tracebackEntries g = F0.reverse.map fun fr => (fr.fn, reportOffset fr.ip) := by
  rw [tracebackEntries_eq_tbGo, pre.ips]
  apply tbGo_saved
  · rw [List.map_reverse, List.map_reverse, pre.fns]
  · have hn := pre.len
    have h1 := pre.dpos
    have h2 := pre.dle
    rw [List.drop_reverse, List.drop_reverse, hn]
    have e : F0.length - (F0.length + 1 - d) = d - 1 := by omega
    rw [e, pre.below]

/-! ### nested interpreter loops (a native called back) -/

/-- a nested loop only accepts a handler of a frame pushed above its bottom -/
theorem stackUnwind_above (g : Fiber) (b : Nat) (f' : Fiber)
    (h : stackUnwind g (some b) = .potentiallyHandled f') :
    ∃ hd rest, g.handlers = hd :: rest ∧ b < hd.depth := by
  unfold stackUnwind at h
  cases hh : g.handlers with
  | nil => rw [hh] at h; simp at h
  | cons hd rest =>
    rw [hh] at h
    simp only [Option.getD_some, Gen.handlerBelongsToLoop, decide_eq_true_eq] at h
    split at h
    · exact ⟨hd, rest, rfl, by omega⟩
    · cases h

theorem unwindFrom_caught_above (F0 : List Frame) (b : Nat) (ds : List (Bool × Nat)) (g : Fiber) (d : Nat)
    (pre : Pre F0 g d) (bt : List (Nat × Nat)) (f' : Fiber)
    (h : unwindFrom (some b) g ds = .caught bt f') : b < f'.frames.length := by
  induction ds generalizing g d with
  | nil =>
    simp only [unwindFrom] at h
    split at h <;> cases h
  | cons dec ds ih =>
    obtain ⟨m, ip'⟩ := dec
    cases m with
    | true =>
      simp only [unwindFrom] at h
      split at h
      · cases h
      · cases h
      · rename_i f1 hsu
        obtain ⟨hd0, rest0, hg0, hb⟩ := stackUnwind_above g b f1 hsu
        obtain ⟨hd, rest, hg, hh, -, -, pre1⟩ := stackUnwind_pre F0 g d (some b) pre f1 hsu
        rw [hg0] at hg
        injection hg with e1 e2
        subst e1
        split at h
        · rename_i bt' f2 hfin
          injection h with hb' hf
          subst hf
          have hs := pre1.hs
          rw [hh] at hs
          simp only [sortedFrom, Bool.and_eq_true, decide_eq_true_eq] at hs
          have hn := pre1.len
          simp only [finishUnwind, hh, Option.some.injEq, Prod.mk.injEq] at hfin
          rw [← hfin.2]
          simp only [List.length_take, hn]
          omega
        · cases h
    | false =>
      simp only [unwindFrom] at h
      split at h
      · cases h
      · cases h
      · rename_i f1 hsu
        obtain ⟨hd, rest, -, hh, hc, -, pre1⟩ := stackUnwind_pre F0 g d (some b) pre f1 hsu
        exact ih _ _ (continue_pre F0 f1 hd rest ip' hh hc pre1) h

/-- a handler a nested loop accepts is accepted by a search without bottom -/
theorem stackUnwind_none_of_some (g : Fiber) (b : Nat) (f' : Fiber)
    (h : stackUnwind g (some b) = .potentiallyHandled f') : stackUnwind g none = .potentiallyHandled f' := by
  obtain ⟨hd, rest, hg, hb⟩ := stackUnwind_above g b f' h
  unfold stackUnwind at h ⊢
  rw [hg] at h ⊢
  simp only [Option.getD_some, Option.getD_none, Gen.handlerBelongsToLoop, decide_eq_true_eq] at h ⊢
  rw [if_pos hb] at h
  rw [if_pos (by omega)]
  exact h

theorem stackUnwind_some_cases (g : Fiber) (b : Nat) :
    stackUnwind g (some b) = .unwindStopped ∨ ∃ f', stackUnwind g (some b) = .potentiallyHandled f' := by
  unfold stackUnwind
  cases g.handlers with
  | nil => exact Or.inl rfl
  | cons hd rest =>
    simp only
    split
    · exact Or.inr ⟨_, rfl⟩
    · exact Or.inl rfl

/-- One nested loop in front of a continuation `K` that agrees with the single search: the whole
agrees with the single search. -/
theorem unwindFrom_some_then (b : Nat) (K : Fiber → List (Bool × Nat) → Outcome)
    (hK : ∀ g ds, K g ds = unwindFrom none g ds) (ds : List (Bool × Nat)) (g : Fiber) :
    (match unwindFrom (some b) g ds with
     | .stopped g' rest => K g' rest
     | o => o) = unwindFrom none g ds := by
  induction ds generalizing g with
  | nil =>
    rcases stackUnwind_some_cases g b with hs | ⟨f', hs⟩
    · simp only [unwindFrom, hs]; exact hK g []
    · have hn := stackUnwind_none_of_some g b f' hs
      simp only [unwindFrom, hs, hn]
  | cons dec ds ih =>
    obtain ⟨m, ip'⟩ := dec
    rcases stackUnwind_some_cases g b with hs | ⟨f', hs⟩
    · cases m <;> (simp only [unwindFrom, hs]; exact hK g _)
    · have hn := stackUnwind_none_of_some g b f' hs
      cases m with
      | true =>
        simp only [unwindFrom, hs, hn]
        cases finishUnwind f' with
        | none => rfl
        | some p => rfl
      | false =>
        simp only [unwindFrom, hs, hn]
        apply ih

theorem unwindLoops_eq (bs : List Nat) (g : Fiber) (ds : List (Bool × Nat)) :
    unwindLoops bs g ds = unwindFrom none g ds := by
  induction bs generalizing g ds with
  | nil => rfl
  | cons b bs ih =>
    simp only [unwindLoops]
    exact unwindFrom_some_then b (unwindLoops bs) (fun g ds => ih g ds) ds g

end LaytheVerif.LinesUnwind
