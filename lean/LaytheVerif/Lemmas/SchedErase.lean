/-
The history (ghost) fields of `Model/Sched.lean` — `done`, `acc`, `rcv`, `ack` of a fiber, `accepted`,
`delivered`, `owners` of a channel, the VM's `trace` — never influence what the scheduler does:
erasing them commutes with every instruction.  (`erase_step`.)  This makes them genuinely *ghost*,
and lets symbolic executions (`Props/C08PC.lean`) run on erased states.
-/
import LaytheVerif.Lemmas.SchedOutcome

namespace LaytheVerif.Sched
open LaytheVerif.ChanQueue

def Fiber.erase (f : Fiber) : Fiber := { f with done := [], acc := [], rcv := [], ack := none }
def Chan.erase (ch : Chan) : Chan := { ch with accepted := [], delivered := [], owners := [] }
def VM.erase (vm : VM) : VM :=
  { vm with fibers := vm.fibers.map Fiber.erase, chans := vm.chans.map Chan.erase, trace := [] }

@[simp] theorem erase_bodies (vm : VM) : vm.erase.bodies = vm.bodies := rfl
@[simp] theorem erase_cur (vm : VM) : vm.erase.cur = vm.cur := rfl
@[simp] theorem erase_runq (vm : VM) : vm.erase.runq = vm.runq := rfl
@[simp] theorem erase_out (vm : VM) : vm.erase.out = vm.out := rfl
@[simp] theorem erase_outcome (vm : VM) : vm.erase.outcome = vm.outcome := rfl
@[simp] theorem erase_len (vm : VM) : vm.erase.fibers.length = vm.fibers.length := by simp [VM.erase]

@[simp] theorem Fiber.erase_nil : Fiber.nil.erase = Fiber.nil := rfl
@[simp] theorem Chan.erase_nil : Chan.nil.erase = Chan.nil := rfl
@[simp] theorem Fiber.erase_erase (f : Fiber) : f.erase.erase = f.erase := rfl
@[simp] theorem Chan.erase_erase (c : Chan) : c.erase.erase = c.erase := rfl
@[simp] theorem Fiber.erase_state (f : Fiber) : f.erase.state = f.state := rfl
@[simp] theorem Fiber.erase_parent (f : Fiber) : f.erase.parent = f.parent := rfl
@[simp] theorem Fiber.erase_channels (f : Fiber) : f.erase.channels = f.channels := rfl
@[simp] theorem Fiber.erase_runnable (f : Fiber) : f.erase.runnable = f.runnable := rfl
@[simp] theorem Fiber.erase_prog (f : Fiber) : f.erase.prog = f.prog := rfl
@[simp] theorem Fiber.erase_env (f : Fiber) : f.erase.env = f.env := rfl
@[simp] theorem Fiber.erase_tmpl (f : Fiber) : f.erase.tmpl = f.tmpl := rfl
@[simp] theorem Chan.erase_q (c : Chan) : c.erase.q = c.q := rfl

@[simp] theorem erase_fiber (vm : VM) (i : Nat) : vm.erase.fiber i = (vm.fiber i).erase := by
  simp only [VM.fiber, VM.erase, List.getElem?_map]
  cases vm.fibers[i]? <;> rfl

@[simp] theorem erase_chan (vm : VM) (c : Nat) : vm.erase.chan c = (vm.chan c).erase := by
  simp only [VM.chan, VM.erase, List.getElem?_map]
  cases vm.chans[c]? <;> rfl

@[simp] theorem erase_me (vm : VM) : vm.erase.me = vm.me.erase := by simp [VM.me]
@[simp] theorem erase_flags (vm : VM) : vm.erase.flags = vm.flags := by funext w; simp [VM.flags]
@[simp] theorem erase_arg (vm : VM) : vm.erase.arg = vm.arg := by funext p; simp [VM.arg]

@[simp] theorem erase_erase (vm : VM) : vm.erase.erase = vm.erase := by
  simp [VM.erase, Function.comp_def]

theorem erase_setFiber (vm : VM) (i : Nat) (f : Fiber) : (vm.setFiber i f).erase = vm.erase.setFiber i f.erase := by
  simp [VM.erase, VM.setFiber, List.map_set]

theorem erase_setChan (vm : VM) (c : Nat) (ch : Chan) : (vm.setChan c ch).erase = vm.erase.setChan c ch.erase := by
  simp [VM.erase, VM.setChan, List.map_set]

@[simp] theorem erase_log (vm : VM) (t : Tr) : (vm.log t).erase = vm.erase := rfl
theorem erase_emit (vm : VM) (e : Event) : (vm.emit e).erase = vm.erase.emit e := rfl
theorem erase_fail (vm : VM) (a : Assert) : (vm.fail a).erase = vm.erase.fail a := rfl
theorem erase_stop (vm : VM) (o : Outcome) : (vm.stop o).erase = vm.erase.stop o := rfl

/-- two states with the same erasure -/
def Sim (a b : VM) : Prop := a.erase = b.erase

theorem sim_erase (vm : VM) : Sim vm vm.erase := (erase_erase vm).symm

theorem Sim.fiber {a b : VM} (h : Sim a b) (i : Nat) : (a.fiber i).erase = (b.fiber i).erase := by
  have := congrArg (fun v => VM.fiber v i) h
  simpa using this

theorem Sim.chan {a b : VM} (h : Sim a b) (c : Nat) : (a.chan c).erase = (b.chan c).erase := by
  have := congrArg (fun v => VM.chan v c) h
  simpa using this

theorem Sim.q {a b : VM} (h : Sim a b) (c : Nat) : (a.chan c).q = (b.chan c).q := by
  have := congrArg Chan.q (h.chan c); simpa using this

theorem Sim.cur {a b : VM} (h : Sim a b) : a.cur = b.cur := by simpa using congrArg VM.cur h
theorem Sim.runq {a b : VM} (h : Sim a b) : a.runq = b.runq := by simpa using congrArg VM.runq h
theorem Sim.out {a b : VM} (h : Sim a b) : a.out = b.out := by simpa using congrArg VM.out h
theorem Sim.outcome {a b : VM} (h : Sim a b) : a.outcome = b.outcome := by simpa using congrArg VM.outcome h
theorem Sim.bodies {a b : VM} (h : Sim a b) : a.bodies = b.bodies := by simpa using congrArg VM.bodies h
theorem Sim.len {a b : VM} (h : Sim a b) : a.fibers.length = b.fibers.length := by
  simpa using congrArg (fun v => v.fibers.length) h
theorem Sim.flags {a b : VM} (h : Sim a b) : a.flags = b.flags := by
  have := congrArg VM.flags h; simpa using this
theorem Sim.arg {a b : VM} (h : Sim a b) : a.arg = b.arg := by
  have := congrArg VM.arg h; simpa using this
theorem Sim.me {a b : VM} (h : Sim a b) : a.me.erase = b.me.erase := by
  unfold VM.me; rw [h.cur]; exact h.fiber _
theorem Sim.state {a b : VM} (h : Sim a b) (i : Nat) : (a.fiber i).state = (b.fiber i).state := by
  simpa using congrArg Fiber.state (h.fiber i)
theorem Sim.me_state {a b : VM} (h : Sim a b) : a.me.state = b.me.state := by
  simpa using congrArg Fiber.state h.me
theorem Sim.me_prog {a b : VM} (h : Sim a b) : a.me.prog = b.me.prog := by
  simpa using congrArg Fiber.prog h.me
theorem Sim.me_channels {a b : VM} (h : Sim a b) : a.me.channels = b.me.channels := by
  simpa using congrArg Fiber.channels h.me
theorem Sim.me_parent {a b : VM} (h : Sim a b) : a.me.parent = b.me.parent := by
  simpa using congrArg Fiber.parent h.me
theorem Sim.me_tmpl {a b : VM} (h : Sim a b) : a.me.tmpl = b.me.tmpl := by
  simpa using congrArg Fiber.tmpl h.me

/-- updating the same fiber on both sides with fibers that erase equally -/
theorem Sim.setFiber {a b : VM} (h : Sim a b) (i : Nat) (f g : Fiber) (hf : f.erase = g.erase) :
    Sim (a.setFiber i f) (b.setFiber i g) := by
  unfold Sim; rw [erase_setFiber, erase_setFiber, h, hf]

theorem Sim.setChan {a b : VM} (h : Sim a b) (c : Nat) (x y : Chan) (hx : x.erase = y.erase) :
    Sim (a.setChan c x) (b.setChan c y) := by
  unfold Sim; rw [erase_setChan, erase_setChan, h, hx]

theorem Sim.log {a b : VM} (h : Sim a b) (t u : Tr) : Sim (a.log t) (b.log u) := h
theorem Sim.log_l {a b : VM} (h : Sim a b) (t : Tr) : Sim (a.log t) b := h
theorem Sim.emit {a b : VM} (h : Sim a b) (e : Event) : Sim (a.emit e) (b.emit e) := by
  unfold Sim; rw [erase_emit, erase_emit, h]
theorem Sim.fail {a b : VM} (h : Sim a b) (x : Assert) : Sim (a.fail x) (b.fail x) := by
  unfold Sim; rw [erase_fail, erase_fail, h]
theorem Sim.stop {a b : VM} (h : Sim a b) (o : Outcome) : Sim (a.stop o) (b.stop o) := by
  unfold Sim; rw [erase_stop, erase_stop, h]

/-- a field update that erasure forgets or that is the same on both sides -/
theorem erase_congr_state {f g : Fiber} (h : f.erase = g.erase) (s : FState) :
    ({ f with state := s } : Fiber).erase = ({ g with state := s } : Fiber).erase := by
  cases f; cases g; simp_all [Fiber.erase]

theorem sim_getRunnable {a b : VM} (h : Sim a b) (cs : List Nat) :
    Sim (getRunnable a cs).1 (getRunnable b cs).1 ∧ (getRunnable a cs).2 = (getRunnable b cs).2 := by
  induction cs generalizing a b with
  | nil => exact ⟨h, rfl⟩
  | cons c cs ih =>
    have h1 : Sim (a.setChan c { a.chan c with q := ((a.chan c).q.runnableWaiter a.flags).1 })
                  (b.setChan c { b.chan c with q := ((b.chan c).q.runnableWaiter b.flags).1 }) := by
      apply h.setChan
      rw [h.q c, h.flags]
      have := h.chan c
      cases hx : a.chan c; cases hy : b.chan c
      simp_all [Chan.erase]
    unfold getRunnable
    rw [h.q c, h.flags]
    split
    · exact ⟨by rw [h.q c, h.flags] at h1; exact h1, rfl⟩
    · rw [h.q c, h.flags] at h1
      exact ih h1

theorem Sim.withRunq {a b : VM} (h : Sim a b) (r : List Nat) :
    Sim { a with runq := r } { b with runq := r } := by
  unfold Sim at *
  show ({ a.erase with runq := r } : VM) = { b.erase with runq := r }
  rw [h]

theorem sim_queueBlocked {a b : VM} (h : Sim a b) (w : Nat) : Sim (queueBlocked a w) (queueBlocked b w) := by
  unfold queueBlocked
  rw [h.state w, h.runq]
  split
  · exact (h.setFiber w { a.fiber w with state := .pending } { b.fiber w with state := .pending }
      (erase_congr_state (h.fiber w) _)).withRunq _
  · exact h.withRunq _
  · exact h.fail _

theorem sim_wake {a b : VM} (h : Sim a b) (r : Option Nat) : Sim (wake a r) (wake b r) := by
  unfold wake
  split
  · exact sim_queueBlocked (h.log _ _) _
  · have hg := sim_getRunnable h a.me.channels
    rw [h.me_channels] at hg ⊢
    rw [hg.2]
    split
    · exact sim_queueBlocked (hg.1.log _ _) _
    · exact hg.1

theorem erase_congr_channels {f g : Fiber} (h : f.erase = g.erase) (cs : List Nat) :
    ({ f with channels := cs } : Fiber).erase = ({ g with channels := cs } : Fiber).erase := by
  cases f; cases g; simp_all [Fiber.erase]

theorem sim_addUsed {a b : VM} (h : Sim a b) (c : Nat) : Sim (addUsed a c) (addUsed b c) := by
  unfold addUsed
  rw [h.me_channels, h.cur]
  split
  · exact h
  · exact h.setFiber _ _ _ (erase_congr_channels h.me _)

theorem erase_congr_sleep {f g : Fiber} (h : f.erase = g.erase) :
    ({ f with state := .pending, runnable := true } : Fiber).erase = ({ g with state := .pending, runnable := true } : Fiber).erase := by
  cases f; cases g; simp_all [Fiber.erase]

theorem sim_sleep {a b : VM} (h : Sim a b) : Sim (sleep a) (sleep b) := by
  unfold sleep
  rw [h.me_state, h.cur]
  split
  · exact (h.setFiber _ _ _ (erase_congr_sleep h.me)).log _ _
  · exact h.fail _

theorem sim_block {a b : VM} (h : Sim a b) : Sim (block a) (block b) := by
  unfold block
  rw [h.me_state, h.cur]
  split
  · exact (h.setFiber _ _ _ (erase_congr_state h.me _)).log _ _
  · exact h.fail _

theorem erase_congr_activate {f g : Fiber} (h : f.erase = g.erase) :
    ({ f with state := .running, ack := none } : Fiber).erase = ({ g with state := .running, ack := none } : Fiber).erase := by
  cases f; cases g; simp_all [Fiber.erase]

theorem Sim.withOutcome {a b : VM} (h : Sim a b) (o : Outcome) :
    Sim { a with outcome := o } { b with outcome := o } := by
  unfold Sim at *
  show ({ a.erase with outcome := o } : VM) = { b.erase with outcome := o }
  rw [h]

theorem Sim.withCur {a b : VM} (h : Sim a b) (c : Nat) :
    Sim { a with cur := c } { b with cur := c } := by
  unfold Sim at *
  show ({ a.erase with cur := c } : VM) = { b.erase with cur := c }
  rw [h]

theorem Sim.withTrace {a b : VM} (h : Sim a b) (t u : List Tr) :
    Sim { a with trace := t } { b with trace := u } := h

theorem sim_contextSwitch {a b : VM} (h : Sim a b) : Sim (contextSwitch a) (contextSwitch b) := by
  unfold contextSwitch
  have hq := h.runq
  cases ha : a.runq with
  | nil =>
    rw [ha] at hq; rw [← hq]
    exact (h.withRunq []).withOutcome _
  | cons f rest =>
    rw [ha] at hq; rw [← hq]
    simp only []
    rw [h.state f]
    split
    · have h1 := h.setFiber f { a.fiber f with state := .running, ack := none } { b.fiber f with state := .running, ack := none }
        (erase_congr_activate (h.fiber f))
      exact ((h1.withCur f).withRunq rest).withTrace _ _
    · exact (h.withRunq rest).withOutcome _

theorem sim_next {a b : VM} (h : Sim a b) (f : VM → VM) (hf : ∀ x y, Sim x y → Sim (f x) (f y)) :
    Sim (a.next f) (b.next f) := by
  unfold VM.next
  rw [h.outcome]
  split
  · exact hf _ _ h
  · exact h

theorem sim_park_block {a b : VM} (h : Sim a b) (r : Option Nat) :
    Sim ((wake a r).next fun vm => (block vm).next contextSwitch) ((wake b r).next fun vm => (block vm).next contextSwitch) :=
  sim_next (sim_wake h r) _ fun _ _ h1 => sim_next (sim_block h1) _ fun _ _ h2 => sim_contextSwitch h2

theorem sim_park_sleep {a b : VM} (h : Sim a b) (r : Option Nat) :
    Sim ((wake a r).next fun vm => (sleep vm).next contextSwitch) ((wake b r).next fun vm => (sleep vm).next contextSwitch) :=
  sim_next (sim_wake h r) _ fun _ _ h1 => sim_next (sim_sleep h1) _ fun _ _ h2 => sim_contextSwitch h2

theorem erase_congr_complete {f g : Fiber} (h : f.erase = g.erase) :
    ({ f with state := .complete, runnable := false } : Fiber).erase = ({ g with state := .complete, runnable := false } : Fiber).erase := by
  cases f; cases g; simp_all [Fiber.erase]

theorem sim_markComplete {a b : VM} (h : Sim a b) : Sim (markComplete a) (markComplete b) := by
  unfold markComplete
  rw [h.cur]
  exact (h.setFiber _ _ _ (erase_congr_complete h.me)).log _ _

theorem sim_pickWaiter {a b : VM} (h : Sim a b) (par : Option Nat) (cs : List Nat) :
    Sim (pickWaiter a par cs).1 (pickWaiter b par cs).1 ∧ (pickWaiter a par cs).2 = (pickWaiter b par cs).2 := by
  unfold pickWaiter
  split
  · rename_i p
    rw [h.state p]
    split
    · exact ⟨h.log _ _, rfl⟩
    · exact sim_getRunnable h cs
  · exact sim_getRunnable h cs

theorem sim_clearChannels {a b : VM} (h : Sim a b) : Sim (clearChannels a) (clearChannels b) := by
  unfold clearChannels
  rw [h.cur]
  exact h.setFiber _ _ _ (erase_congr_channels h.me _)

theorem sim_complete {a b : VM} (h : Sim a b) :
    Sim (complete a).1 (complete b).1 ∧ (complete a).2 = (complete b).2 := by
  unfold complete
  rw [h.me_state, h.me_parent, h.me_channels]
  split
  · have := sim_pickWaiter (sim_markComplete h) b.me.parent b.me.channels
    exact ⟨sim_clearChannels this.1, this.2⟩
  · exact ⟨h.fail _, rfl⟩

theorem erase_congr_advance {f g : Fiber} (h : f.erase = g.erase) (rest : List Op) (d d' : List Op) :
    ({ f with prog := rest, done := d } : Fiber).erase = ({ g with prog := rest, done := d' } : Fiber).erase := by
  cases f; cases g; simp_all [Fiber.erase]

theorem sim_advance {a b : VM} (h : Sim a b) : Sim (advance a) (advance b) := by
  unfold advance
  rw [h.me_prog, h.cur]
  split
  · exact h
  · exact h.setFiber _ _ _ (erase_congr_advance h.me _ _ _)

theorem erase_congr_acc {f g : Fiber} (h : f.erase = g.erase) (x y : List (Nat × Nat)) (k k' : Option Nat) :
    ({ f with acc := x, ack := k } : Fiber).erase = ({ g with acc := y, ack := k' } : Fiber).erase := by
  cases f; cases g; simp_all [Fiber.erase]

theorem erase_congr_rcv {f g : Fiber} (h : f.erase = g.erase) (x y : List (Nat × Option Nat)) :
    ({ f with rcv := x } : Fiber).erase = ({ g with rcv := y } : Fiber).erase := by
  cases f; cases g; simp_all [Fiber.erase]

theorem sim_setQ {a b : VM} (h : Sim a b) (c : Nat) (q : Q) : Sim (a.setQ c q) (b.setQ c q) := by
  unfold VM.setQ
  apply h.setChan
  have := h.chan c
  cases hx : a.chan c; cases hy : b.chan c
  simp_all [Chan.erase]

theorem sim_accept {a b : VM} (h : Sim a b) (c v : Nat) (q : Q) (k : Option Nat) :
    Sim (accept a c v q k) (accept b c v q k) := by
  unfold accept
  rw [h.cur]
  refine Sim.setFiber (Sim.setChan h c _ _ ?_) _ _ _ (erase_congr_acc h.me _ _ _ _)
  simp [Chan.erase]

theorem sim_deliver {a b : VM} (h : Sim a b) (c : Nat) (q : Q) (r : Option Nat) :
    Sim (deliver a c q r) (deliver b c q r) := by
  unfold deliver
  rw [h.cur, h.me_tmpl]
  apply Sim.emit
  refine Sim.setFiber ?_ _ _ _ (erase_congr_rcv h.me _ _)
  cases r with
  | none => exact sim_setQ h c q
  | some x => exact Sim.setChan h c _ _ (by simp [Chan.erase])

theorem sim_sendOn {a b : VM} (h : Sim a b) (c v : Nat) : Sim (sendOn a c v) (sendOn b c v) := by
  unfold sendOn
  rw [h.flags, h.q c, h.cur]
  split
  · exact sim_advance (sim_accept h _ _ _ _)
  · exact sim_park_block (sim_advance (sim_accept h _ _ _ _)) _
  · exact sim_park_sleep ((sim_setQ h _ _).log _ _) _
  · exact h.stop _
  · exact h.stop _

theorem sim_recvOn {a b : VM} (h : Sim a b) (c : Nat) : Sim (recvOn a c) (recvOn b c) := by
  unfold recvOn
  rw [h.flags, h.q c, h.cur]
  split
  · exact sim_advance (sim_deliver h _ _ _)
  · exact sim_advance (sim_deliver h _ _ _)
  · exact sim_park_block ((sim_setQ h _ _).log _ _) _
  · exact sim_park_sleep ((sim_setQ h _ _).log _ _) _
  · exact h.stop _

theorem sim_execLaunch {a b : VM} (h : Sim a b) (t : Nat) (args : List Nat) :
    Sim (execLaunch a t args) (execLaunch b t args) := by
  unfold execLaunch
  apply sim_advance
  rw [h.cur, h.bodies, h.arg, h.runq, h.len]
  unfold Sim at *
  simp only [VM.erase, List.map_append] at h ⊢
  simp_all

theorem sim_execReturn {a b : VM} (h : Sim a b) : Sim (execReturn a) (execReturn b) := by
  unfold execReturn
  rw [h.cur]
  split
  · exact h.stop _
  · have hc := sim_complete h
    rw [hc.2]
    split
    · exact sim_next (sim_queueBlocked hc.1 _) _ fun _ _ h2 => sim_contextSwitch h2
    · exact sim_next hc.1 _ fun _ _ h2 => sim_contextSwitch h2

theorem sim_exec {a b : VM} (h : Sim a b) : Sim (exec a) (exec b) := by
  unfold exec
  rw [h.me_prog]
  split
  · exact sim_execReturn h
  · rw [h.me_tmpl]; exact sim_advance (h.emit _)
  · exact sim_execLaunch h _ _
  · unfold execClose
    rw [h.arg, h.q]
    split
    · exact sim_advance (sim_setQ h _ _)
    · exact h.stop _
  · unfold execSend; rw [h.arg]; exact sim_sendOn (sim_addUsed h _) _ _
  · unfold execRecv; rw [h.arg]; exact sim_recvOn (sim_addUsed h _) _

theorem sim_step {a b : VM} (h : Sim a b) : Sim (step a) (step b) :=
  sim_next h _ fun _ _ h1 => sim_exec h1

theorem sim_run (n : Nat) {a b : VM} (h : Sim a b) : Sim (run n a) (run n b) := by
  induction n generalizing a b with
  | zero => exact h
  | succ n ih => exact ih (sim_step h)

/-- **Ghost fields are ghost.** Erasing the history fields commutes with running. -/
theorem erase_run (n : Nat) (vm : VM) : (run n vm).erase = (run n vm.erase).erase :=
  sim_run n (sim_erase vm)

/-- one instruction on erased states -/
def stepE (vm : VM) : VM := (step vm).erase

def runE : Nat → VM → VM
  | 0, vm => vm
  | n + 1, vm => runE n (stepE vm)

theorem runE_eq (n : Nat) (vm : VM) : runE n vm.erase = (run n vm).erase := by
  induction n generalizing vm with
  | zero => rfl
  | succ n ih =>
    show runE n (step vm.erase).erase = (run n (step vm)).erase
    rw [ih (step vm.erase)]
    exact sim_run n (sim_step (sim_erase vm)).symm

/-- what a run prints and how it ends can be computed on erased states -/
theorem run_observe (n : Nat) (vm : VM) :
    (run n vm).outcome = (runE n vm.erase).outcome ∧ (run n vm).out = (runE n vm.erase).out := by
  rw [runE_eq]; exact ⟨rfl, rfl⟩

end LaytheVerif.Sched
