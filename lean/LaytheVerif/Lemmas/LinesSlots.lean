/-
Helper lemmas for C18: `peephole_optimize` (Model/Peephole.lean) keeps every cache-slot
pseudo-instruction directly behind its owner instruction, with the owner's line.
-/
import LaytheVerif.Model.Lines
import LaytheVerif.Props.C12
namespace LaytheVerif.LinesSlots
open LaytheVerif.Gen LaytheVerif.Lines LaytheVerif.Peephole

theorem slotsOwned_tail (a : IL) (r : List IL) (h : slotsOwned (a :: r) = true) : slotsOwned r = true := by
  cases r with
  | nil => rfl
  | cons b r' => simp only [slotsOwned, Bool.and_eq_true] at h; exact h.2

/-- after a non-owner instruction no slot may follow -/
theorem slotsOwned_head (a : IL) (r : List IL) (h : slotsOwned (a :: r) = true) (ha : isOwner a.1 = false) :
    ∀ b, r.head? = some b → isSlot b.1 = false := by
  intro b hb
  cases r with
  | nil => simp at hb
  | cons c r' =>
    simp only [List.head?_cons, Option.some.injEq] at hb
    subst hb
    simp only [slotsOwned, Bool.and_eq_true, Bool.or_eq_true, Bool.not_eq_true', ha, Bool.false_and, Bool.false_eq_true, or_false] at h
    exact h.1

theorem opt_head_slot (p : List IL) (hs : slotsOwned p = true) :
    ∀ b, (opt p).head? = some b → isSlot b.1 = true → p.head? = some b := by
  fun_induction opt p <;> intro b hb hslot
  all_goals (try (simp_all [isSlot]; done))
  all_goals first
    | (simp only [List.head?_cons, Option.some.injEq] at hb; subst hb; simp [isSlot] at hslot; done)
    | (rename_i ih
       have h1 := ih (slotsOwned_tail _ _ hs) b hb hslot
       have h2 := slotsOwned_head _ _ hs (by rfl) b h1
       rw [h2] at hslot; cases hslot)

theorem spanDropsK_slots (k : Nat) (r : List IL) (l : Nat) (h : slotsOwned ((Sym.Drop, l) :: r) = true) :
    slotsOwned (spanDropsK k r).2 = true ∧ ∀ b, (spanDropsK k r).2.head? = some b → isSlot b.1 = false := by
  fun_induction spanDropsK k r generalizing l with
  | case1 k l' r ih => exact ih l' (slotsOwned_tail _ _ h)
  | case2 k r hne => exact ⟨slotsOwned_tail _ _ h, slotsOwned_head _ _ h rfl⟩

theorem spanDrops_slots (r : List IL) (l : Nat) (h : slotsOwned ((Sym.Drop, l) :: r) = true) :
    slotsOwned (spanDrops r).2 = true ∧ ∀ b, (spanDrops r).2.head? = some b → isSlot b.1 = false :=
  spanDropsK_slots _ r l h

theorem spanEq_slots (i : Sym) (hi : isOwner i = false) (r : List IL) (l : Nat) (h : slotsOwned ((i, l) :: r) = true) :
    slotsOwned (spanEq i r).2 = true ∧ ∀ b, (spanEq i r).2.head? = some b → isSlot b.1 = false := by
  fun_induction spanEq i r generalizing l with
  | case1 l' r ih => exact ih l' (slotsOwned_tail _ _ h)
  | case2 j l' r hne => exact ⟨slotsOwned_tail _ _ h, slotsOwned_head _ _ h hi⟩
  | case3 => exact ⟨rfl, by simp⟩

theorem skipDead_slots (r : List IL) (h : slotsOwned r = true) :
    slotsOwned (skipDead r) = true ∧ ∀ b, (skipDead r).head? = some b → isSlot b.1 = false := by
  fun_induction skipDead r with
  | case1 l n r => exact ⟨h, by simp [isSlot]⟩
  | case2 x r hne ih => exact ih (slotsOwned_tail _ _ h)
  | case3 => exact ⟨rfl, by simp⟩

theorem slotsOwned_cons_dups (ls : List Nat) (a : IL) (q : List IL) (hq : slotsOwned q = true)
    (hh : ∀ b, q.head? = some b → isSlot b.1 = false) : slotsOwned (a :: (dups ls ++ q)) = true := by
  induction ls generalizing a with
  | nil =>
    cases q with
    | nil => rfl
    | cons b q' =>
      have := hh b rfl
      simp only [dups, List.map_nil, List.nil_append, slotsOwned, this, Bool.not_false, Bool.true_or, Bool.true_and]
      exact hq
  | cons x xs ih =>
    have := ih (Sym.Dup, x)
    simp only [dups, List.map_cons, List.cons_append, slotsOwned, isSlot, Bool.not_false, Bool.true_or, Bool.true_and] at this ⊢
    exact this

theorem slotsOwned_cons (a : IL) (q : List IL) (hq : slotsOwned q = true)
    (hh : ∀ b, q.head? = some b → isSlot b.1 = true → isOwner a.1 = true ∧ a.2 = b.2) :
    slotsOwned (a :: q) = true := by
  cases q with
  | nil => rfl
  | cons b q' =>
    simp only [slotsOwned, Bool.and_eq_true, Bool.or_eq_true, Bool.not_eq_true', beq_iff_eq]
    refine ⟨?_, hq⟩
    cases hb : isSlot b.1 with
    | false => exact Or.inl rfl
    | true => exact Or.inr (hh b rfl hb)

/-- no slot at the head -/
theorem slotsOwned_cons_noslot (a : IL) (q : List IL) (hq : slotsOwned q = true)
    (hh : ∀ b, q.head? = some b → isSlot b.1 = false) : slotsOwned (a :: q) = true :=
  slotsOwned_cons a q hq (fun b hb hs => by rw [hh b hb] at hs; cases hs)

theorem slotsOwned_head_owner (a : IL) (r : List IL) (h : slotsOwned (a :: r) = true) :
    ∀ b, r.head? = some b → isSlot b.1 = true → isOwner a.1 = true ∧ a.2 = b.2 := by
  intro b hb hsl
  cases r with
  | nil => simp at hb
  | cons c r' =>
    simp only [List.head?_cons, Option.some.injEq] at hb
    subst hb
    simp only [slotsOwned, Bool.and_eq_true, Bool.or_eq_true, Bool.not_eq_true', beq_iff_eq] at h
    rcases h.1 with h1 | h1
    · rw [h1] at hsl; cases hsl
    · exact h1

theorem opt_head_noslot (q : List IL) (hq : slotsOwned q = true)
    (hh : ∀ b, q.head? = some b → isSlot b.1 = false) :
    ∀ b, (opt q).head? = some b → isSlot b.1 = false := by
  intro b hb
  cases h : isSlot b.1 with
  | false => rfl
  | true =>
    have := opt_head_slot q hq b hb h
    rw [hh b this] at h
    cases h

/-- The optimiser keeps every cache slot directly behind an owner with the same line. -/
theorem opt_slotsOwned (p : List IL) (hs : slotsOwned p = true) : slotsOwned (opt p) = true := by
  have tl := slotsOwned_tail
  fun_induction opt p with
  | case1 => rfl
  | case2 l s r ih =>
    obtain ⟨hq, hh⟩ := spanDrops_slots r s (tl _ _ hs)
    exact slotsOwned_cons_noslot _ _ (ih hq) (opt_head_noslot _ hq hh)
  | case3 n l l2 a l3 r ih =>
    have h3 := tl _ _ (tl _ _ hs)
    have inner := slotsOwned_cons_noslot (Sym.InvokeSlot, l) (opt r) (ih (tl _ _ h3))
      (opt_head_noslot r (tl _ _ h3) (slotsOwned_head _ _ h3 rfl))
    exact slotsOwned_cons _ _ inner (fun b hb _ => by
      simp only [List.head?_cons, Option.some.injEq] at hb; subst hb; exact ⟨rfl, rfl⟩)
  | case4 n l a l3 r ih =>
    have h3 := tl _ _ hs
    have inner := slotsOwned_cons_noslot (Sym.InvokeSlot, l) (opt r) (ih (tl _ _ h3))
      (opt_head_noslot r (tl _ _ h3) (slotsOwned_head _ _ h3 rfl))
    exact slotsOwned_cons _ _ inner (fun b hb _ => by
      simp only [List.head?_cons, Option.some.injEq] at hb; subst hb; exact ⟨rfl, rfl⟩)
  | case5 l l2 g l3 r ih | case7 l l2 g l3 r ih | case9 l l2 g l3 r ih | case11 l l2 g l3 r ih =>
    have h3 := tl _ _ (tl _ _ hs)
    exact slotsOwned_cons_noslot _ _ (ih (tl _ _ h3)) (opt_head_noslot r (tl _ _ h3) (slotsOwned_head _ _ h3 rfl))
  | case6 s l l2 g l3 r hne ih | case8 s l l2 g l3 r hne ih | case10 s l l2 g l3 r hne ih
  | case12 s l l2 g l3 r hne ih =>
    have h2 := tl _ _ hs
    exact slotsOwned_cons_noslot _ _ (ih h2) (opt_head_noslot _ h2 (by
      intro b hb; simp only [List.head?_cons, Option.some.injEq] at hb; subst hb; rfl))
  | case13 s l r ih | case14 s l r ih | case15 s l r ih | case16 s l r ih =>
    obtain ⟨hq, hh⟩ := spanEq_slots _ rfl r l hs
    exact slotsOwned_cons_dups _ _ _ (ih hq) (opt_head_noslot _ hq hh)
  | case17 t l r ih | case18 t l r ih =>
    obtain ⟨hq, hh⟩ := skipDead_slots r (tl _ _ hs)
    exact slotsOwned_cons_noslot _ _ (ih hq) (opt_head_noslot _ hq hh)
  | case19 l r ih | case20 l r ih =>
    obtain ⟨hq, hh⟩ := skipDead_slots r (tl _ _ hs)
    exact slotsOwned_cons_noslot _ _ (ih hq) (opt_head_noslot _ hq hh)
  | case21 l r ih => exact ih (tl _ _ hs)
  | case22 i r _ _ _ _ _ _ _ _ _ _ _ _ _ _ _ _ ih =>
    exact slotsOwned_cons i (opt r) (ih (tl _ _ hs)) (fun b hb hsl =>
      slotsOwned_head_owner i r hs b (opt_head_slot r (tl _ _ hs) b hb hsl) hsl)

theorem opt_headNotSlot (p : List IL) (hs : slotsOwned p = true) (hh : headNotSlot p = true) :
    headNotSlot (opt p) = true := by
  cases h : opt p with
  | nil => rfl
  | cons b q =>
    simp only [headNotSlot, Bool.not_eq_true']
    cases hb : isSlot b.1 with
    | false => rfl
    | true =>
      have := opt_head_slot p hs b (by simp [h]) hb
      cases p with
      | nil => simp at this
      | cons a r =>
        simp only [List.head?_cons, Option.some.injEq] at this
        subst this
        simp [headNotSlot, hb] at hh

/-- `peephole_optimize` keeps the stream well slotted. -/
theorem opt_wellSlotted (p : List IL) (h : wellSlotted p = true) : wellSlotted (opt p) = true := by
  simp only [wellSlotted, Bool.and_eq_true] at h ⊢
  exact ⟨opt_headNotSlot p h.2 h.1, opt_slotsOwned p h.2⟩
end LaytheVerif.LinesSlots