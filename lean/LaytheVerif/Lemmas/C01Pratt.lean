import LaytheVerif.Model.PrattParser
/-! Lemmas about the fuelled Pratt parser model: more fuel never changes a successful parse. -/
set_option linter.unusedSimpArgs false
namespace LaytheVerif.Pratt
open LaytheVerif.Gen

/-- all four functions are monotone in the fuel -/
theorem mono (f : Nat) :
    (∀ q ts r f', parsePrec f q ts = some r → f ≤ f' → parsePrec f' q ts = some r) ∧
    (∀ p ca t ts r f', prefixAct f p ca t ts = some r → f ≤ f' → prefixAct f' p ca t ts = some r) ∧
    (∀ q e ts r f', infixLoop f q e ts = some r → f ≤ f' → infixLoop f' q e ts = some r) ∧
    (∀ i o l t ts r f', infixAct f i o l t ts = some r → f ≤ f' → infixAct f' i o l t ts = some r) := by
  induction f with
  | zero =>
    refine ⟨?_, ?_, ?_, ?_⟩ <;> intros <;> simp_all [parsePrec, prefixAct, infixLoop, infixAct]
  | succ f ih =>
    obtain ⟨ih1, ih2, ih3, ih4⟩ := ih
    refine ⟨?_, ?_, ?_, ?_⟩
    · intro q ts r f' h hle
      obtain ⟨g, rfl⟩ : ∃ g, f' = g + 1 := ⟨f' - 1, by omega⟩
      have hg : f ≤ g := by omega
      cases ts with
      | nil => simp [parsePrec] at h
      | cons t rest =>
        simp only [parsePrec] at h ⊢
        split at h
        · cases h
        · next pre hpre =>
          split at h
          · cases h
          · next e1 r1 hp =>
            rw [ih2 _ _ _ _ _ g hp hg]
            simp only []
            split at h
            · cases h
            · next e2 r2 hl =>
              rw [ih3 _ _ _ _ g hl hg]
              exact h
    · intro p ca t ts r f' h hle
      obtain ⟨g, rfl⟩ : ∃ g, f' = g + 1 := ⟨f' - 1, by omega⟩
      have hg : f ≤ g := by omega
      simp only [prefixAct] at h ⊢
      split at h
      · exact h
      · exact h
      · -- Grouping
        split at h
        · next e1 t1 r1 hp =>
          rw [ih1 _ _ _ g hp hg]
          exact h
        · cases h
      · -- Unary
        split at h
        · cases h
        · next p1 hres =>
          split at h
          · next e1 r1 hp =>
            rw [ih1 _ _ _ g hp hg]
            exact h
          · cases h
      · -- Variable
        split at h
        · next t1 r1 =>
          by_cases hc : isAssignTok t1.kind = true
          · simp only [hc, if_true] at h ⊢
            split at h
            · next e1 r2 hp =>
              rw [ih1 _ _ _ g hp hg]
              exact h
            · cases h
          · simp only [hc, if_false, Bool.false_eq_true] at h ⊢
            exact h
        · exact h
      · cases h
    · intro q e ts r f' h hle
      obtain ⟨g, rfl⟩ : ∃ g, f' = g + 1 := ⟨f' - 1, by omega⟩
      have hg : f ≤ g := by omega
      cases ts with
      | nil => simpa [infixLoop] using h
      | cons t rest =>
        simp only [infixLoop] at h ⊢
        by_cases hc : precLe q (infixRule t.kind).snd = true
        · simp only [hc, if_true] at h ⊢
          split at h
          · cases h
          · next inf hinf =>
            split at h
            · cases h
            · next e1 r1 ha =>
              rw [ih4 _ _ _ _ _ _ g ha hg]
              exact ih3 _ _ _ _ g h hg
        · simp only [hc, if_false, Bool.false_eq_true] at h ⊢
          exact h
    · intro i o l t ts r f' h hle
      obtain ⟨g, rfl⟩ : ∃ g, f' = g + 1 := ⟨f' - 1, by omega⟩
      have hg : f ≤ g := by omega
      simp only [infixAct] at h ⊢
      split at h
      · -- Binary
        split at h
        · cases h
        · split at h
          · next e1 r1 hp => rw [ih1 _ _ _ g hp hg]; exact h
          · cases h
      · split at h
        · cases h
        · split at h
          · next e1 r1 hp => rw [ih1 _ _ _ g hp hg]; exact h
          · cases h
      · split at h
        · cases h
        · split at h
          · next e1 r1 hp => rw [ih1 _ _ _ g hp hg]; exact h
          · cases h
      · -- Ternary
        split at h
        · next p1 p2 h1 h2 =>
          split at h
          · next thn c r1 hp =>
            rw [ih1 _ _ _ g hp hg]
            simp only []
            by_cases hc : (c.kind == TokenKind.Colon) = true
            · simp only [hc, if_true] at h ⊢
              split at h
              · next els r2 hp2 => rw [ih1 _ _ _ g hp2 hg]; exact h
              · cases h
            · simp only [hc, if_false, Bool.false_eq_true] at h
              cases h
          · cases h
        · cases h
      · cases h

end LaytheVerif.Pratt

namespace LaytheVerif.Pratt
open LaytheVerif.Gen

theorem parsePrec_mono {f f' q ts r} (h : parsePrec f q ts = some r) (hle : f ≤ f') : parsePrec f' q ts = some r :=
  (mono f).1 q ts r f' h hle
theorem infixLoop_mono {f f' q e ts r} (h : infixLoop f q e ts = some r) (hle : f ≤ f') : infixLoop f' q e ts = some r :=
  (mono f).2.2.1 q e ts r f' h hle

/-- the last step of `parse_precedence`: "Invalid assignment target." -/
def finish (q : Precedence) (x : PExpr × List Tok) : Option (PExpr × List Tok) :=
  match x.2 with
  | t' :: _ => if precLe q .Assignment && t'.kind == .Equal then none else some x
  | [] => some x

theorem parsePrec_succ (F : Nat) (q : Precedence) (t : Tok) (rest : List Tok) :
    parsePrec (F + 1) q (t :: rest) =
      match (prefixRule t.kind).1 with
      | none => none
      | some pre =>
        match prefixAct F pre (precLe q .Assignment) t rest with
        | none => none
        | some (e, rest) => (infixLoop F q e rest).bind (finish q) := by
  cases hpre : (prefixRule t.kind).1 with
  | none => simp [parsePrec, hpre]
  | some pre =>
    cases hp : prefixAct F pre (precLe q .Assignment) t rest with
    | none => simp [parsePrec, hpre, hp]
    | some y =>
      obtain ⟨e1, r1⟩ := y
      cases hl : infixLoop F q e1 r1 with
      | none => simp [parsePrec, hpre, hp, hl]
      | some x =>
        obtain ⟨e2, r2⟩ := x
        cases r2 <;> simp [parsePrec, hpre, hp, hl, finish]

theorem infixLoop_pos {f q e ts r} (h : infixLoop f q e ts = some r) : 0 < f := by
  cases f with
  | zero => simp [infixLoop] at h
  | succ n => omega

theorem loop_bind_mono {f F q e ts r} (h : (infixLoop f q e ts).bind (finish q) = some r) (hle : f ≤ F) :
    (infixLoop F q e ts).bind (finish q) = some r := by
  cases hl : infixLoop f q e ts with
  | none => simp [hl] at h
  | some y => rw [infixLoop_mono hl hle]; simpa [hl] using h

/-- binding level of the outermost construct, from the generated table -/
def lvl : PExpr → Nat
  | .num _ | .ident _ | .lit _ | .group _ => Precedence.Primary.toNat
  | .unary _ _ => Precedence.Unary.toNat
  | .binary op _ _ => (infixRule op).2.toNat
  | .and _ _ => (infixRule .And).2.toNat
  | .or _ _ => (infixRule .Or).2.toNat
  | .ternary _ _ _ => (infixRule .QuestionMark).2.toNat
  | .assign _ _ _ => Precedence.Assignment.toNat

/-- the level at which the rightmost operand of the construct is parsed: the token that follows must bind below it -/
def rbl : PExpr → Nat
  | .unary _ _ => Precedence.Unary.toNat
  | .binary op _ _ => (infixRule op).2.toNat + 1
  | .and _ _ => (infixRule .And).2.toNat
  | .or _ _ => (infixRule .Or).2.toNat
  | .ternary _ _ _ => Precedence.Assignment.toNat
  | .assign _ _ _ => Precedence.Assignment.toNat
  | _ => Precedence.Primary.toNat + 1

/-- **the required parentheses**: a rendering is admissible when every operand that binds too loosely for its position
is a `group`; any further `group` is allowed anywhere.  Decidable, computed from the generated rule table. -/
def wf : PExpr → Bool
  | .num _ | .ident _ => true
  | .lit k => (prefixRule k).1 == some .Literal
  | .group e => wf e
  | .unary op e => (prefixRule op).1 == some .Unary && wf e && decide (Precedence.Unary.toNat ≤ lvl e)
  | .binary op a b =>
    (infixRule op).1 == some .Binary && (binaryOps.lookup op).isSome && wf a && wf b &&
      decide ((infixRule op).2.toNat ≤ lvl a) && decide ((infixRule op).2.toNat + 1 ≤ lvl b)
  | .and a b => wf a && wf b && decide ((infixRule .And).2.toNat + 1 ≤ lvl a) && decide ((infixRule .And).2.toNat ≤ lvl b)
  | .or a b => wf a && wf b && decide ((infixRule .Or).2.toNat + 1 ≤ lvl a) && decide ((infixRule .Or).2.toNat ≤ lvl b)
  | .ternary c t e => wf c && wf t && wf e && decide ((infixRule .QuestionMark).2.toNat + 1 ≤ lvl c)
  | .assign _ op e => isAssignTok op && wf e

/-- the token after the expression neither continues it (`bound`) nor is an assignment operator -/
def headOk (bound : Nat) : List Tok → Bool
  | [] => true
  | t :: _ => decide ((infixRule t.kind).2.toNat < bound) && !isAssignTok t.kind

/-- fuel overhead of parsing `e` -/
def K : PExpr → Nat
  | .num _ | .ident _ | .lit _ => 1
  | .group e => K e + 3
  | .unary _ e => K e + 3
  | .binary _ a b => K a + K b + 3
  | .and a b => K a + K b + 3
  | .or a b => K a + K b + 3
  | .ternary c t e => K c + K t + K e + 4
  | .assign _ _ e => K e + 3

theorem rbl_pos (e : PExpr) : 1 ≤ rbl e := by
  cases e <;> simp [rbl, Precedence.toNat, infixRule]

theorem rbl_ge (e : PExpr) (n : Nat) (h3 : 3 ≤ n) (h : n ≤ lvl e) : n ≤ rbl e := by
  cases e <;> simp_all [rbl, lvl, Precedence.toNat, infixRule] <;> omega

theorem headOk_mono {a b : Nat} {ts : List Tok} (h : headOk a ts = true) (hab : a ≤ b) : headOk b ts = true := by
  cases ts with
  | nil => rfl
  | cons t r => simp [headOk] at h ⊢; exact ⟨by omega, h.2⟩

/-- when the next token binds below `q` the loop stops at once and the final check passes -/
theorem loop_stop (q : Precedence) (x : PExpr) (rest : List Tok) (h : headOk q.toNat rest = true) :
    (infixLoop 1 q x rest).bind (finish q) = some (x, rest) := by
  cases rest with
  | nil => simp [infixLoop, finish]
  | cons t r =>
    simp [headOk] at h
    have hp : precLe q (infixRule t.kind).2 = false := by simp [precLe]; omega
    have hne : (t.kind == TokenKind.Equal) = false := by
      cases hk : t.kind <;> simp_all [isAssignTok, assignOps]
    simp [infixLoop, hp, finish, hne]

end LaytheVerif.Pratt

namespace LaytheVerif.Pratt
open LaytheVerif.Gen

/-- what the induction proves for one expression: parsing tokens that start with a complete admissible rendering of `e`
is the same as having `e` as the left operand and continuing the infix loop after it -/
def Absorbs (e : PExpr) : Prop :=
  ∀ (q : Precedence) (rest : List Tok) (f : Nat) (r : PExpr × List Tok),
    1 ≤ q.toNat → q.toNat ≤ lvl e → headOk (rbl e) rest = true →
    (infixLoop f q e rest).bind (finish q) = some r →
    parsePrec (f + K e) q (tokensOf e ++ rest) = some r

theorem bind_some_pos {f q e ts r} (h : (infixLoop f q e ts).bind (finish q) = some r) : 0 < f := by
  cases hl : infixLoop f q e ts with
  | none => simp [hl] at h
  | some y => exact infixLoop_pos hl

theorem headOk_noAssign {b : Nat} {t : Tok} {r : List Tok} (h : headOk b (t :: r) = true) : isAssignTok t.kind = false := by
  simp [headOk] at h; exact h.2

theorem absorbs_num (s : String) : Absorbs (.num s) := by
  intro q rest f r _ _ _ h
  obtain ⟨g, rfl⟩ : ∃ g, f = g + 1 := ⟨f - 1, by have := bind_some_pos h; omega⟩
  show parsePrec (g + 1 + 1) q (⟨.Number, s⟩ :: rest) = some r
  rw [parsePrec_succ]
  simp [prefixRule, prefixAct, h]

theorem absorbs_lit (k : TokenKind) (hk : wf (.lit k) = true) : Absorbs (.lit k) := by
  intro q rest f r _ _ _ h
  obtain ⟨g, rfl⟩ : ∃ g, f = g + 1 := ⟨f - 1, by have := bind_some_pos h; omega⟩
  show parsePrec (g + 1 + 1) q (⟨k, ""⟩ :: rest) = some r
  rw [parsePrec_succ]
  simp [wf] at hk
  simp [hk, prefixAct, h]

theorem absorbs_ident (x : String) : Absorbs (.ident x) := by
  intro q rest f r _ _ hh h
  obtain ⟨g, rfl⟩ : ∃ g, f = g + 1 := ⟨f - 1, by have := bind_some_pos h; omega⟩
  show parsePrec (g + 1 + 1) q (⟨.Identifier, x⟩ :: rest) = some r
  rw [parsePrec_succ]
  cases rest with
  | nil => cases hc : precLe q .Assignment <;> simp [prefixRule, prefixAct, hc, h]
  | cons t rs =>
    have := headOk_noAssign hh
    cases hc : precLe q .Assignment <;> simp [prefixRule, prefixAct, hc, this, h]

end LaytheVerif.Pratt

namespace LaytheVerif.Pratt
open LaytheVerif.Gen

/-- a complete operand: parsing `e` at level `q` when the next token stops the loop gives exactly `e` -/
theorem operand {e : PExpr} (he : Absorbs e) (q : Precedence) (rest : List Tok) (F : Nat)
    (hq1 : 1 ≤ q.toNat) (hq : q.toNat ≤ lvl e) (h1 : headOk (rbl e) rest = true) (h2 : headOk q.toNat rest = true)
    (hF : 1 + K e ≤ F) : parsePrec F q (tokensOf e ++ rest) = some (e, rest) :=
  parsePrec_mono (he q rest 1 (e, rest) hq1 hq h1 (loop_stop q e rest h2)) hF

/-- facts about the rows dispatched to `binary`, read off the generated table -/
theorem binary_row {op : TokenKind} (h : (infixRule op).1 = some .Binary) :
    5 ≤ (infixRule op).2.toNat ∧ (infixRule op).2.toNat ≤ 8 ∧ isAssignTok op = false := by
  cases op <;> simp_all [infixRule, Precedence.toNat, isAssignTok, assignOps]

theorem lvl_pos {e : PExpr} (hw : wf e = true) : 1 ≤ lvl e := by
  cases e with
  | binary op a b =>
    simp [wf] at hw
    have := binary_row hw.1.1.1.1.1
    simp [lvl]; omega
  | _ => simp [lvl, Precedence.toNat, infixRule]

theorem absorbs_group (x : PExpr) (hw : wf (.group x) = true) (ih : Absorbs x) : Absorbs (.group x) := by
  intro q rest f r _ _ _ h
  have hpos := bind_some_pos h
  have hx : parsePrec (f + K x + 1) exprPrecedence (tokensOf x ++ ⟨.RightParen, ""⟩ :: rest)
      = some (x, ⟨.RightParen, ""⟩ :: rest) := by
    apply operand ih
    · decide
    · have : 1 ≤ lvl x := lvl_pos (by simpa [wf] using hw)
      simpa [exprPrecedence, Precedence.toNat] using this
    · have := rbl_pos x
      simp [headOk, infixRule, Precedence.toNat, isAssignTok, assignOps]; exact decide_eq_true (by omega)
    · simp [headOk, infixRule, exprPrecedence, Precedence.toNat, isAssignTok, assignOps]
    · omega
  have htok : tokensOf (.group x) ++ rest = ⟨.LeftParen, ""⟩ :: (tokensOf x ++ ⟨.RightParen, ""⟩ :: rest) := by
    simp [tokensOf]
  have hfuel : f + K (.group x) = (f + K x + 2) + 1 := by simp [K]; omega
  rw [htok, hfuel, parsePrec_succ]
  have hpa : prefixAct (f + K x + 1 + 1) .Grouping (precLe q .Assignment) ⟨.LeftParen, ""⟩
      (tokensOf x ++ ⟨.RightParen, ""⟩ :: rest) = some (.group x, rest) := by
    simp [prefixAct, hx]
  simp only [prefixRule]
  rw [show f + K x + 2 = f + K x + 1 + 1 from rfl, hpa]
  exact loop_bind_mono h (by omega)

theorem absorbs_unary (op : TokenKind) (x : PExpr) (hw : wf (.unary op x) = true) (ih : Absorbs x) :
    Absorbs (.unary op x) := by
  intro q rest f r _ _ hh h
  simp [wf] at hw
  obtain ⟨⟨hop, _⟩, hl⟩ := hw
  have hx : parsePrec (f + K x + 1) .Unary (tokensOf x ++ rest) = some (x, rest) := by
    apply operand ih
    · decide
    · exact hl
    · exact headOk_mono hh (rbl_ge x Precedence.Unary.toNat (by decide) hl)
    · exact hh
    · have := bind_some_pos h; omega
  have htok : tokensOf (.unary op x) ++ rest = ⟨op, ""⟩ :: (tokensOf x ++ rest) := by simp [tokensOf]
  have hfuel : f + K (.unary op x) = (f + K x + 2) + 1 := by simp [K]; omega
  rw [htok, hfuel, parsePrec_succ]
  have hpa : prefixAct (f + K x + 1 + 1) .Unary (precLe q .Assignment) ⟨op, ""⟩ (tokensOf x ++ rest)
      = some (.unary op x, rest) := by
    simp [prefixAct, resolve, recurseUnary, hx]
  simp only [hop]
  rw [show f + K x + 2 = f + K x + 1 + 1 from rfl, hpa]
  exact loop_bind_mono h (by omega)

end LaytheVerif.Pratt

namespace LaytheVerif.Pratt
open LaytheVerif.Gen

theorem loop_step {F : Nat} {q : Precedence} {lhs : PExpr} {t : Tok} {rest : List Tok} {inf : Infix} {own : Precedence}
    {e' : PExpr} {rest' : List Tok} (hrule : infixRule t.kind = (some inf, own)) (hle : precLe q own = true)
    (hact : infixAct F inf own lhs t rest = some (e', rest')) :
    infixLoop (F + 1) q lhs (t :: rest) = infixLoop F q e' rest' := by
  simp [infixLoop, hrule, hle, hact]

theorem higher_succ (p : Precedence) (h : p.toNat ≤ 10) : ∃ p', p.higher = some p' ∧ p'.toNat = p.toNat + 1 := by
  cases p <;> simp_all [Precedence.higher, Precedence.toNat]

theorem absorbs_binary (op : TokenKind) (a b : PExpr) (hw : wf (.binary op a b) = true)
    (iha : Absorbs a) (ihb : Absorbs b) : Absorbs (.binary op a b) := by
  intro q rest f r hq1 hq hh h
  simp [wf] at hw
  obtain ⟨⟨⟨⟨⟨hrow, hlook⟩, _⟩, _⟩, hla⟩, hlb⟩ := hw
  obtain ⟨h5, h8, hna⟩ := binary_row hrow
  have hf := bind_some_pos h
  generalize hown : (infixRule op).2 = own at *
  obtain ⟨P', hhigh, hP'⟩ := higher_succ own (by omega)
  simp only [lvl, rbl, hown] at hq hh
  -- the right operand
  have hb : parsePrec (f + K b + 1) P' (tokensOf b ++ rest) = some (b, rest) := by
    apply operand ihb
    · omega
    · omega
    · exact headOk_mono hh (rbl_ge b _ (by omega) hlb)
    · rw [hP']; exact hh
    · omega
  have hact : infixAct (f + K b + 1 + 1) .Binary own a ⟨op, ""⟩ (tokensOf b ++ rest) = some (.binary op a b, rest) := by
    simp [infixAct, resolve, recurseBinary, hhigh, hb, hlook]
  have hrule : infixRule (⟨op, ""⟩ : Tok).kind = (some .Binary, own) := by
    show infixRule op = _
    rw [← hown, ← hrow]
  have hloop : (infixLoop (f + K b + 2 + 1) q a (⟨op, ""⟩ :: (tokensOf b ++ rest))).bind (finish q) = some r := by
    rw [loop_step hrule (by simp [precLe]; omega) hact]
    exact loop_bind_mono h (by omega)
  have htok : tokensOf (.binary op a b) ++ rest = tokensOf a ++ (⟨op, ""⟩ :: (tokensOf b ++ rest)) := by
    simp [tokensOf]
  have hfuel : f + K (.binary op a b) = (f + K b + 2 + 1) + K a := by simp [K]; omega
  rw [htok, hfuel]
  apply iha q _ _ r hq1 (by omega) _ hloop
  -- the operator binds below what `a` reaches on its right
  have hra : own.toNat < rbl a := by
    cases a <;> simp_all [rbl, lvl, Precedence.toNat, infixRule] <;> omega
  simp [headOk, hown, hna]
  exact hra

end LaytheVerif.Pratt

namespace LaytheVerif.Pratt
open LaytheVerif.Gen

theorem absorbs_and (a b : PExpr) (hw : wf (.and a b) = true) (iha : Absorbs a) (ihb : Absorbs b) :
    Absorbs (.and a b) := by
  intro q rest f r hq1 hq hh h
  have e4 : (infixRule .And).2.toNat = 4 := rfl
  simp only [wf, e4, Bool.and_eq_true, decide_eq_true_eq] at hw
  obtain ⟨⟨⟨_, _⟩, hla⟩, hlb⟩ := hw
  have hf := bind_some_pos h
  simp only [lvl, rbl, e4] at hq hh
  have hb : parsePrec (f + K b + 1) .And (tokensOf b ++ rest) = some (b, rest) := by
    apply operand ihb
    · decide
    · simpa [Precedence.toNat] using hlb
    · exact headOk_mono hh (rbl_ge b 4 (by omega) hlb)
    · simpa [Precedence.toNat] using hh
    · omega
  have hact : infixAct (f + K b + 1 + 1) .And .And a ⟨.And, ""⟩ (tokensOf b ++ rest) = some (.and a b, rest) := by
    simp [infixAct, resolve, recurseAnd, hb]
  have hloop : (infixLoop (f + K b + 2 + 1) q a (⟨.And, ""⟩ :: (tokensOf b ++ rest))).bind (finish q) = some r := by
    rw [loop_step (inf := .And) (own := .And) (by simp [infixRule]) (by simp only [precLe, decide_eq_true_eq]; exact hq) hact]
    exact loop_bind_mono h (by omega)
  have htok : tokensOf (.and a b) ++ rest = tokensOf a ++ (⟨.And, ""⟩ :: (tokensOf b ++ rest)) := by simp [tokensOf]
  have hfuel : f + K (.and a b) = (f + K b + 2 + 1) + K a := by simp [K]; omega
  rw [htok, hfuel]
  apply iha q _ _ r hq1 (by omega) _ hloop
  have hra : 4 < rbl a := by have := rbl_ge a 5 (by omega) hla; omega
  simp [headOk, infixRule, Precedence.toNat, isAssignTok, assignOps]
  exact decide_eq_true hra

theorem absorbs_or (a b : PExpr) (hw : wf (.or a b) = true) (iha : Absorbs a) (ihb : Absorbs b) :
    Absorbs (.or a b) := by
  intro q rest f r hq1 hq hh h
  have e4 : (infixRule .Or).2.toNat = 3 := rfl
  simp only [wf, e4, Bool.and_eq_true, decide_eq_true_eq] at hw
  obtain ⟨⟨⟨_, _⟩, hla⟩, hlb⟩ := hw
  have hf := bind_some_pos h
  simp only [lvl, rbl, e4] at hq hh
  have hb : parsePrec (f + K b + 1) .Or (tokensOf b ++ rest) = some (b, rest) := by
    apply operand ihb
    · decide
    · simpa [Precedence.toNat] using hlb
    · exact headOk_mono hh (rbl_ge b 3 (by omega) hlb)
    · simpa [Precedence.toNat] using hh
    · omega
  have hact : infixAct (f + K b + 1 + 1) .Or .Or a ⟨.Or, ""⟩ (tokensOf b ++ rest) = some (.or a b, rest) := by
    simp [infixAct, resolve, recurseOr, hb]
  have hloop : (infixLoop (f + K b + 2 + 1) q a (⟨.Or, ""⟩ :: (tokensOf b ++ rest))).bind (finish q) = some r := by
    rw [loop_step (inf := .Or) (own := .Or) (by simp [infixRule]) (by simp only [precLe, decide_eq_true_eq]; exact hq) hact]
    exact loop_bind_mono h (by omega)
  have htok : tokensOf (.or a b) ++ rest = tokensOf a ++ (⟨.Or, ""⟩ :: (tokensOf b ++ rest)) := by simp [tokensOf]
  have hfuel : f + K (.or a b) = (f + K b + 2 + 1) + K a := by simp [K]; omega
  rw [htok, hfuel]
  apply iha q _ _ r hq1 (by omega) _ hloop
  have hra : 3 < rbl a := by have := rbl_ge a 4 (by omega) hla; omega
  simp [headOk, infixRule, Precedence.toNat, isAssignTok, assignOps]
  exact decide_eq_true hra

end LaytheVerif.Pratt
