import LaytheVerif.Model.Contract
/-!
# The resolver ⇒ compiler contract (`Model/Contract.lean`): events, then the AST in the two traversal orders

Structure of the proof of `resolve_then_compile_events` (sections 1–5; the id of a declaration travels with the event):
1. `Le` / `stepR_le` / `foldl_le`: the resolver's counters, captured set and module names only grow, so a clean final
   state means every prefix was clean and the final oracles (`mods`, `cap`) cover every intermediate state.
2. `wf` / `sortedF`: on an error-free run the frame stack is well bracketed (ghost flag `isFun`), hence depth-sorted.
3. `findIn_erase`, `resolveLocalF_*`, `resolveCapture_loc`, `useC_module`, `useC_of_findR`: the compiler's per-function
   lookups + `enclosing` chain agree with the resolver's flat scan + depth comparison.
4. `Inv` / `step_sim` / `foldl_sim`: the compiler state is the erasure of the resolver state, step by step.
5. `resolve_then_compile_events`, `compile_eraseDefs`.

Section 6 (`resolve_then_compile_ast`): the resolver's and the compiler's traversals of a program perform the same
declarations, scope brackets and lookups in the same order — they differ only in where the `define` events sit (and in
the resolver's hoisting pre-pass), which the compiler's lookups ignore (`Items.eraseDefs_revs`).  So the compiler, run
over its OWN traversal, ends in literally the state it reaches over the resolver's (`compile_orders_agree`), and the
event-level contract transfers to the AST for EVERY program of the skeleton — no envelope.  (Until resolver.rs visited
the iterable of a `for` before declaring the loop variable and the class of a `catch` before declaring the catch variable
— repo commits 22c8429, b3a40ba — the two orders differed in more than `define`s and the statement needed the envelope
"no `for` iterable reads its loop variable, no `catch` class is its variable"; outside it the real code panicked.)
-/
namespace LaytheVerif.Contract

/-- the compiler's view of a resolver table -/
def Frame.erase (f : Frame) : CFrame := ⟨f.funDepth, f.syms.map fun s => (s.name, s.id)⟩

/-! ### 1. Monotonicity of the resolver run -/

/-- `r'` is reachable-later than `r`: the counters and the two ghost sets only grow -/
structure Le (r r' : RState) : Prop where
  errors : r.errors ≤ r'.errors
  unhoisted : r.unhoisted ≤ r'.unhoisted
  captured : ∀ i, i ∈ r.captured → i ∈ r'.captured
  mods : ∀ n, n ∈ r.modSyms.map (·.1) → n ∈ r'.modSyms.map (·.1)

theorem Le.refl (r : RState) : Le r r := ⟨Nat.le_refl _, Nat.le_refl _, fun _ h => h, fun _ h => h⟩

theorem Le.trans {a b c : RState} (h1 : Le a b) (h2 : Le b c) : Le a c :=
  ⟨Nat.le_trans h1.errors h2.errors, Nat.le_trans h1.unhoisted h2.unhoisted,
   fun i h => h2.captured i (h1.captured i h), fun n h => h2.mods n (h1.mods n h)⟩

/-- `define` at module level rewrites states only, not names -/
theorem map_fst_define (n : Name) (l : List (Name × SymState)) :
    (l.map (fun m => if m.1 = n then (m.1, SymState.init) else m)).map (·.1) = l.map (·.1) := by
  induction l with
  | nil => rfl
  | cons a l ih =>
    simp only [List.map_cons, ih]
    split <;> rfl

/-- every resolver step only grows errors / unhoisted / captured / module names -/
theorem stepR_le (g : Name → Bool) (r : RState) (e : Ev) : Le r (stepR g r e) := by
  cases e <;> simp only [stepR] <;> (repeat' split) <;>
    first
    | exact Le.refl _
    | exact ⟨by simp, by simp, by simp +contextual,
        by (try simp only [map_fst_define]); simp +contextual⟩

theorem foldl_le (g : Name → Bool) (es : List Ev) : ∀ r, Le r (es.foldl (stepR g) r) := by
  induction es with
  | nil => intro r; exact Le.refl r
  | cons e es ih => intro r; exact Le.trans (stepR_le g r e) (ih _)


/-! ### 2. Well-bracketedness of the resolver's frame stack -/

/-- the frame stack is what a well-bracketed event prefix produces at function depth `d` -/
def wf : Nat → List Frame → Prop
  | d, [] => d = 0
  | d, f :: fs => f.funDepth = d ∧ (f.isFun = true → 0 < d ∧ wf (d - 1) fs) ∧ (f.isFun = false → wf d fs)

/-- every frame is at depth `≤ d`, and depths do not increase towards the outside -/
def sortedF : Nat → List Frame → Prop
  | _, [] => True
  | d, f :: fs => f.funDepth ≤ d ∧ sortedF f.funDepth fs

theorem sortedF_mono : ∀ (fs : List Frame) (d d' : Nat), sortedF d fs → d ≤ d' → sortedF d' fs
  | [], _, _, _, _ => trivial
  | _ :: _, _, _, h, hle => ⟨Nat.le_trans h.1 hle, h.2⟩

theorem wf_sortedF : ∀ (fs : List Frame) (d : Nat), wf d fs → sortedF d fs
  | [], _, _ => trivial
  | f :: fs, d, h => by
    obtain ⟨hd, ht, hf⟩ := h
    refine ⟨Nat.le_of_eq hd, ?_⟩
    rw [hd]
    cases hb : f.isFun with
    | true => exact sortedF_mono fs (d - 1) d (wf_sortedF fs (d - 1) (ht hb).2) (Nat.sub_le _ _)
    | false => exact wf_sortedF fs d (hf hb)

/-! ### 3. Lookup agreement -/

/-- `define` in a local table is invisible to the compiler's erasure -/
theorem map_setState (n : Name) (st : SymState) (l : List Sym) :
    (setState n st l).map (fun s => (s.name, s.id)) = l.map (fun s => (s.name, s.id)) := by
  induction l with
  | nil => rfl
  | cons a l ih =>
    simp only [setState]
    split <;> simp only [List.map_cons, ih]

theorem find_map_aux (l : List Sym) (n : Name) :
    ((l.map fun s => (s.name, s.id)).find? (fun p => p.1 = n)).map (·.2)
      = (l.find? (fun s => s.name = n)).map (·.id) := by
  induction l with
  | nil => rfl
  | cons a l ih =>
    simp only [List.map_cons, List.find?_cons]
    by_cases h : a.name = n
    · simp only [h, decide_true, Option.map_some]
    · simp only [h, decide_false]
      exact ih

/-- (L0) one table: the compiler's `findIn` is the resolver's `SymbolTable::get` -/
theorem findIn_erase (f : Frame) (n : Name) : findIn f.erase.locals n = (f.find n).map (·.id) := by
  unfold findIn Frame.find Frame.erase
  simp only
  rw [← List.map_reverse]
  exact find_map_aux _ _

/-- (L1) a name the flat scan misses is in nobody's locals -/
theorem resolveLocalF_none_of_findR (n : Name) : ∀ (fs : List Frame), findR fs n = none →
    ∀ d', resolveLocalF (fs.map Frame.erase) d' n = none
  | [], _, _ => rfl
  | f :: fs, h, d' => by
    simp only [findR] at h
    cases hf : f.find n with
    | some s => simp [hf] at h
    | none =>
      simp only [hf] at h
      have ih := resolveLocalF_none_of_findR n fs h d'
      simp only [List.map_cons, resolveLocalF, findIn_erase, hf, Option.map_none, ih]
      split <;> rfl

/-- frames that are all shallower than `d'` contribute nothing to the compiler at depth `d'` -/
theorem resolveLocalF_none_of_lt (n : Name) : ∀ (fs : List Frame) (d0 d' : Nat), sortedF d0 fs → d0 < d' →
    resolveLocalF (fs.map Frame.erase) d' n = none
  | [], _, _, _, _ => rfl
  | f :: fs, d0, d', h, hlt => by
    have hne : ¬ f.erase.funDepth = d' := by
      show ¬ f.funDepth = d'
      have := h.1; omega
    have ih := resolveLocalF_none_of_lt n fs f.funDepth d' h.2 (Nat.lt_of_le_of_lt h.1 hlt)
    simp only [List.map_cons, resolveLocalF, hne, if_false, ih]

/-- (L2) where the flat scan finds `n`, the compiler at that depth finds the same id, and no deeper compiler has it -/
theorem resolveLocalF_of_findR (n : Name) (f : Frame) (s : Sym) : ∀ (fs : List Frame) (d : Nat),
    findR fs n = some (f, s) → sortedF d fs →
    resolveLocalF (fs.map Frame.erase) f.funDepth n = some s.id ∧
    (∀ d', f.funDepth < d' → resolveLocalF (fs.map Frame.erase) d' n = none) ∧ f.funDepth ≤ d
  | [], _, h, _ => by simp [findR] at h
  | g :: gs, d, h, hs => by
    simp only [findR] at h
    cases hf : g.find n with
    | some s' =>
      simp only [hf, Option.some.injEq, Prod.mk.injEq] at h
      obtain ⟨rfl, rfl⟩ := h
      refine ⟨?_, ?_, hs.1⟩
      · have : g.erase.funDepth = g.funDepth := rfl
        simp only [List.map_cons, resolveLocalF, this, if_true, findIn_erase, hf, Option.map_some]
      · intro d' hlt
        have hne : ¬ g.erase.funDepth = d' := by
          show ¬ g.funDepth = d'
          omega
        simp only [List.map_cons, resolveLocalF, hne, if_false]
        exact resolveLocalF_none_of_lt n gs g.funDepth d' hs.2 hlt
    | none =>
      simp only [hf] at h
      obtain ⟨h1, h2, h3⟩ := resolveLocalF_of_findR n f s gs g.funDepth h hs.2
      refine ⟨?_, ?_, Nat.le_trans h3 hs.1⟩
      · simp only [List.map_cons, resolveLocalF, findIn_erase, hf, Option.map_none, h1]
        split <;> rfl
      · intro d' hlt
        simp only [List.map_cons, resolveLocalF, findIn_erase, hf, Option.map_none, h2 d' hlt]
        split <;> rfl

/-- (L3) a local of an enclosing function is reached by the `enclosing` chain -/
theorem resolveCapture_loc (cf : List CFrame) (mods : List Name) (n : Name) (d0 : Nat) (i : Id)
    (h0 : resolveLocalF cf d0 n = some i) (hn : ∀ d', d0 < d' → resolveLocalF cf d' n = none) :
    ∀ d, d0 < d → resolveCapture cf mods d n = some (.loc i)
  | 0, h => by omega
  | d + 1, h => by
    by_cases hd : d = d0
    · subst hd
      simp only [resolveCapture, resolveLocal, h0]
    · have hlt : d0 < d := by omega
      have hz : ¬ d = 0 := by omega
      simp only [resolveCapture, resolveLocal, hn d hlt, hz, false_and, if_false]
      exact resolveCapture_loc cf mods n d0 i h0 hn d hlt

/-- (L4) a name nobody has as a local, but which is in the module table, is found as a module variable -/
theorem useC_module (cf : List CFrame) (mods : List Name) (cap : Id → Bool) (n : Name)
    (hn : ∀ d', resolveLocalF cf d' n = none) (hm : mods.contains n = true) :
    ∀ d, useC cf mods cap d n = true := by
  have h0 : resolveLocal cf mods 0 n = some .module := by
    simp only [resolveLocal, hn 0, hm, and_self, if_true]
  have hc : ∀ d, resolveCapture cf mods (d + 1) n = some .module := by
    intro d
    induction d with
    | zero => simp only [resolveCapture, h0]
    | succ d ih =>
      have : resolveLocal cf mods (d + 1) n = none := by
        simp [resolveLocal, hn (d + 1)]
      rw [resolveCapture, this]
      exact ih
  intro d
  cases d with
  | zero => simp only [useC, h0]
  | succ d =>
    have : resolveLocal cf mods (d + 1) n = none := by
      simp [resolveLocal, hn (d + 1)]
    simp only [useC, this, hc d]


/-- the compiler's `variable_get` succeeds wherever the resolver's flat scan finds an initialised local, provided the
symbol is marked captured whenever it belongs to an enclosing function -/
theorem useC_of_findR (mods : List Name) (cap : Id → Bool) (n : Name) (f : Frame) (s : Sym) (fs : List Frame) (d : Nat)
    (hfr : findR fs n = some (f, s)) (hs : sortedF d fs) (hc : f.funDepth < d → cap s.id = true) :
    useC (fs.map Frame.erase) mods cap d n = true := by
  obtain ⟨h1, h2, h3⟩ := resolveLocalF_of_findR n f s fs d hfr hs
  by_cases hlt : f.funDepth < d
  · have hz : ¬ d = 0 := by omega
    have hl : resolveLocal (fs.map Frame.erase) mods d n = none := by
      simp only [resolveLocal, h2 d hlt, hz, false_and, if_false]
    have hcp := resolveCapture_loc (fs.map Frame.erase) mods n f.funDepth s.id h1 h2 d hlt
    simp only [useC, hl, hcp, hc hlt]
  · have he : f.funDepth = d := by omega
    rw [he] at h1
    simp only [useC, resolveLocal, h1]

theorem mem_names_of_any (n : Name) (l : List (Name × SymState)) (h : l.any (fun m => m.1 = n) = true) :
    n ∈ l.map (·.1) := by
  simp at h ⊢
  exact h

/-! ### 4. Simulation -/

/-- the compiler state is the erasure of the resolver state, and the resolver's stack is well bracketed -/
structure Inv (r : RState) (c : CState) : Prop where
  frames : c.frames = r.frames.map Frame.erase
  funDepth : c.funDepth = r.funDepth
  wf : wf r.funDepth r.frames

/-- one step of the simulation: a resolver step that raises neither counter is matched by a panic-free compiler
step, given that the compiler's oracles (`mods`, `cap`) cover the resolver's module table / captured set after the step -/
theorem step_sim (g : Name → Bool) (mods : List Name) (cap : Id → Bool) (r : RState) (c : CState) (e : Ev)
    (hinv : Inv r c) (hok : c.ok = true)
    (herr : (stepR g r e).errors = r.errors) (hun : (stepR g r e).unhoisted = r.unhoisted)
    (hmods : ∀ n, n ∈ (stepR g r e).modSyms.map (·.1) → mods.contains n = true)
    (hcap : ∀ i, i ∈ (stepR g r e).captured → cap i = true) :
    Inv (stepR g r e) (stepC mods cap c e) ∧ (stepC mods cap c e).ok = true := by
  obtain ⟨hf, hd, hw⟩ := hinv
  obtain ⟨rf, rm, rd0, re, ru, rc⟩ := r
  obtain ⟨cfs, rd, cok⟩ := c
  simp only at hf hd hw hok
  subst hf hd hok
  generalize hr1 : stepR g _ e = r1 at *
  cases e with
  | hoist n =>
    simp only [stepR] at hr1
    split at hr1 <;> subst hr1
    · simp at herr
    · exact ⟨⟨rfl, rfl, hw⟩, rfl⟩
  | beginScope =>
    simp only [stepR] at hr1
    subst hr1
    exact ⟨⟨rfl, rfl, rfl, fun h => by simp at h, fun _ => hw⟩, rfl⟩
  | endScope =>
    cases rf with
    | nil => simp only [stepR] at hr1; subst hr1; simp at herr
    | cons f fs =>
      simp only [stepR] at hr1
      split at hr1 <;> subst hr1
      · simp at herr
      · rename_i hb
        exact ⟨⟨rfl, rfl, hw.2.2 (by simpa using hb)⟩, rfl⟩
  | beginFun =>
    simp only [stepR] at hr1
    subst hr1
    exact ⟨⟨rfl, rfl, rfl, fun _ => ⟨Nat.succ_pos _, hw⟩, fun h => by simp at h⟩, rfl⟩
  | endFun =>
    cases rf with
    | nil => simp only [stepR] at hr1; subst hr1; simp at herr
    | cons f fs =>
      simp only [stepR] at hr1
      split at hr1 <;> subst hr1
      · simp at herr
      · rename_i hb
        simp only [Bool.or_eq_true, decide_eq_true_eq, Bool.not_eq_true', not_or, Bool.not_eq_false] at hb
        have hz : ¬ rd = 0 := hb.1
        simp only [stepC, List.map_cons, hz, if_false]
        exact ⟨⟨rfl, rfl, (hw.2.1 hb.2).2⟩, by trivial⟩
  | declare n i =>
    cases rf with
    | nil =>
      simp only [stepR] at hr1
      split at hr1 <;> subst hr1
      · rename_i ha
        have hm := hmods n (mem_names_of_any n rm ha)
        simp only [stepC, List.map_nil, hm, if_true]
        exact ⟨⟨rfl, rfl, hw⟩, by trivial⟩
      · simp at hun
    | cons f fs =>
      simp only [stepR] at hr1
      split at hr1 <;> subst hr1
      · simp at herr
      · refine ⟨⟨?_, rfl, hw⟩, rfl⟩
        simp [stepC, Frame.erase]
  | define n =>
    cases rf with
    | nil =>
      simp only [stepR] at hr1
      split at hr1 <;> subst hr1
      · exact ⟨⟨rfl, rfl, hw⟩, rfl⟩
      · simp at herr
    | cons f fs =>
      simp only [stepR] at hr1
      split at hr1 <;> subst hr1
      · refine ⟨⟨?_, rfl, hw⟩, rfl⟩
        simp [stepC, Frame.erase, map_setState]
      · simp at herr
  | use n =>
    have hsorted := wf_sortedF rf rd hw
    cases hfr : findR rf n with
    | none =>
      have hnone := resolveLocalF_none_of_findR n rf hfr
      simp only [stepR, hfr] at hr1
      have key : ∀ (hm : mods.contains n = true) (rm' : List (Name × SymState)),
          Inv ⟨rf, rm', rd, re, ru, rc⟩ (stepC mods cap ⟨rf.map Frame.erase, rd, true⟩ (.use n)) ∧
          (stepC mods cap ⟨rf.map Frame.erase, rd, true⟩ (.use n)).ok = true := by
        intro hm rm'
        simp only [stepC, useC_module _ mods cap n hnone hm rd, if_true]
        exact ⟨⟨rfl, rfl, hw⟩, by trivial⟩
      split at hr1
      · rename_i ha
        subst hr1
        exact key (hmods n (mem_names_of_any n rm ha)) _
      · split at hr1 <;> subst hr1
        · exact key (hmods n (by simp)) _
        · simp at herr
    | some p =>
      obtain ⟨f, s⟩ := p
      simp only [stepR, hfr] at hr1
      cases hst : s.state with
      | uninit => simp only [hst] at hr1; subst hr1; simp at herr
      | init =>
        simp only [hst] at hr1
        have key : ∀ (hc : f.funDepth < rd → cap s.id = true) (rc' : List Id),
            Inv ⟨rf, rm, rd, re, ru, rc'⟩ (stepC mods cap ⟨rf.map Frame.erase, rd, true⟩ (.use n)) ∧
            (stepC mods cap ⟨rf.map Frame.erase, rd, true⟩ (.use n)).ok = true := by
          intro hc rc'
          simp only [stepC, useC_of_findR mods cap n f s rf rd hfr hsorted hc, if_true]
          exact ⟨⟨rfl, rfl, hw⟩, by trivial⟩
        split at hr1 <;> subst hr1
        · exact key (fun _ => hcap s.id (by simp)) _
        · rename_i hlt
          exact key (fun h => absurd h hlt) _

/-- the simulation over a whole run -/
theorem foldl_sim (g : Name → Bool) (mods : List Name) (cap : Id → Bool) : ∀ (es : List Ev) (r : RState) (c : CState),
    Inv r c → c.ok = true →
    (es.foldl (stepR g) r).errors = r.errors → (es.foldl (stepR g) r).unhoisted = r.unhoisted →
    (∀ n, n ∈ (es.foldl (stepR g) r).modSyms.map (·.1) → mods.contains n = true) →
    (∀ i, i ∈ (es.foldl (stepR g) r).captured → cap i = true) →
    (es.foldl (stepC mods cap) c).ok = true
  | [], _, _, _, hok, _, _, _, _ => hok
  | e :: es, r, c, hinv, hok, herr, hun, hmods, hcap => by
    simp only [List.foldl_cons] at herr hun hmods hcap ⊢
    have l1 := stepR_le g r e
    have l2 := foldl_le g es (stepR g r e)
    have e1 : (stepR g r e).errors = r.errors := by
      have := l1.errors; have := l2.errors; omega
    have u1 : (stepR g r e).unhoisted = r.unhoisted := by
      have := l1.unhoisted; have := l2.unhoisted; omega
    obtain ⟨hinv', hok'⟩ := step_sim g mods cap r c e hinv hok e1 u1
      (fun n h => hmods n (l2.mods n h)) (fun i h => hcap i (l2.captured i h))
    exact foldl_sim g mods cap es _ _ hinv' hok' (by omega) (by omega) hmods hcap

/-! ### 5. The contract -/

/-- **Event-level contract.**  For every sequence of scoping events: if the resolver run reports no error (and the
ghost counter of un-hoisted module declarations is 0) then the compiler run over the *same* events, reading the final
module table and the final captured-ness, reaches none of its `panic!`/`expect` lookup sites. -/
theorem resolve_then_compile_events (isGlobal : Name → Bool) (es : List Ev)
    (herr : (resolve isGlobal es).errors = 0) (hh : (resolve isGlobal es).unhoisted = 0) :
    (compileAfter isGlobal es es).ok = true := by
  unfold compileAfter compile
  unfold resolve at herr hh ⊢
  refine foldl_sim isGlobal _ _ es {} {} ⟨rfl, rfl, rfl⟩ rfl herr hh ?_ ?_
  · intro n h
    simpa using h
  · intro i h
    simpa using h

/-- `define` and `hoist` are no-ops of the compiler step, from any state -/
theorem stepC_eraseDefs (mods : List Name) (cap : Id → Bool) : ∀ (es : List Ev) (c : CState),
    (eraseDefs es).foldl (stepC mods cap) c = es.foldl (stepC mods cap) c
  | [], _ => rfl
  | e :: es, c => by
    have ih := stepC_eraseDefs mods cap es
    unfold eraseDefs at ih ⊢
    cases e <;> simp only [List.filter_cons, List.foldl_cons, stepC, ih, if_true, if_false, Bool.false_eq_true]

/-- the compiler's lookups ignore `define` and `hoist` events -/
theorem compile_eraseDefs (mods : List Name) (cap : Id → Bool) (es : List Ev) :
    (compile mods cap (eraseDefs es)).ok = (compile mods cap es).ok := by
  unfold compile
  rw [stepC_eraseDefs]

/-! ### 6. The two traversals perform the same scoping events, up to `define`/`hoist` -/

theorem eraseDefs_append (a b : List Ev) : eraseDefs (a ++ b) = eraseDefs a ++ eraseDefs b := by
  simp [eraseDefs]

/-- `declare; define` per parameter (resolver) against `declare` per parameter (compiler) -/
theorem eraseDefs_params (ps : List (Name × Id)) :
    eraseDefs (ps.flatMap fun p => [Ev.declare p.1 p.2, Ev.define p.1]) = ps.map fun p => Ev.declare p.1 p.2 := by
  induction ps with
  | nil => rfl
  | cons p ps ih =>
    rw [List.flatMap_cons, eraseDefs_append, ih]
    simp [eraseDefs]

theorem eraseDefs_params_c (ps : List (Name × Id)) :
    eraseDefs (ps.map fun p => Ev.declare p.1 p.2) = ps.map fun p => Ev.declare p.1 p.2 := by
  induction ps with
  | nil => rfl
  | cons p ps ih =>
    rw [List.map_cons, ← List.singleton_append, eraseDefs_append, ih]
    simp [eraseDefs]

theorem eraseDefs_hoistOf : ∀ b : Items, eraseDefs (hoistOf b) = []
  | .nil => rfl
  | .cons (.use _) r => by simpa [hoistOf] using eraseDefs_hoistOf r
  | .cons (.letD _ _ _) r => by
    have := eraseDefs_hoistOf r
    simp only [hoistOf, eraseDefs, List.filter_cons] at this ⊢
    simpa using this
  | .cons (.funD _ _ _ _) r => by
    have := eraseDefs_hoistOf r
    simp only [hoistOf, eraseDefs, List.filter_cons] at this ⊢
    simpa using this
  | .cons (.lam _ _) r => by simpa [hoistOf] using eraseDefs_hoistOf r
  | .cons (.block _) r => by simpa [hoistOf] using eraseDefs_hoistOf r
  | .cons (.forD _ _ _ _) r => by simpa [hoistOf] using eraseDefs_hoistOf r
  | .cons (.catchD _ _ _ _) r => by simpa [hoistOf] using eraseDefs_hoistOf r

mutual
  /-- **Same events in the same order.**  Item by item the resolver's traversal (`revs`) and the compiler's (`cevs`)
  agree once `define` events are dropped: `let`, `fn` (the compiler defines the name after the body, the resolver
  before), parameters, blocks, `for` (iterable, `$iter`, item, body) and `catch` (class, variable, body). -/
  theorem Item.eraseDefs_revs : ∀ i : Item, eraseDefs (Item.revs i) = eraseDefs (Item.cevs i)
    | .use _ => rfl
    | .letD n i init => by
      simp only [Item.revs, Item.cevs, eraseDefs_append, Items.eraseDefs_revs init]
    | .funD n i ps b => by
      simp only [Item.revs, Item.cevs, eraseDefs_append, Items.eraseDefs_revs b, eraseDefs_params, eraseDefs_params_c]
      simp [eraseDefs]
    | .lam ps b => by
      simp only [Item.revs, Item.cevs, eraseDefs_append, Items.eraseDefs_revs b, eraseDefs_params, eraseDefs_params_c]
      simp [eraseDefs]
    | .block b => by
      simp only [Item.revs, Item.cevs, eraseDefs_append, Items.eraseDefs_revs b]
    | .forD x i it b => by
      simp only [Item.revs, Item.cevs, eraseDefs_append, Items.eraseDefs_revs it, Items.eraseDefs_revs b]
    | .catchD n i cls b => by
      simp only [Item.revs, Item.cevs, eraseDefs_append, Items.eraseDefs_revs b]
  theorem Items.eraseDefs_revs : ∀ b : Items, eraseDefs (Items.revs b) = eraseDefs (Items.cevs b)
    | .nil => rfl
    | .cons i r => by
      simp only [Items.revs, Items.cevs, eraseDefs_append, Item.eraseDefs_revs i, Items.eraseDefs_revs r]
end

/-- **The traversal orders agree**, for every program: the compiler ends in literally the same state (frames, depth,
panic flag) whether it is fed the resolver's event sequence or its own — for every module table and every
captured-ness oracle. -/
theorem compile_orders_agree (mods : List Name) (cap : Id → Bool) (prog : Items) :
    compile mods cap (resolverEvents prog) = compile mods cap (compilerEvents prog) := by
  unfold compile resolverEvents compilerEvents
  rw [← stepC_eraseDefs, ← stepC_eraseDefs mods cap (Items.cevs prog), eraseDefs_append, eraseDefs_hoistOf,
    List.nil_append, Items.eraseDefs_revs]

/-! ### 7. The AST-level contract -/

/-- **AST-level contract, no envelope.**  For every program of the scoping skeleton: a clean resolver run over the
resolver's traversal implies a panic-free compiler run over the COMPILER's traversal. -/
theorem resolve_then_compile_ast (isGlobal : Name → Bool) (prog : Items)
    (herr : (resolve isGlobal (resolverEvents prog)).errors = 0)
    (hh : (resolve isGlobal (resolverEvents prog)).unhoisted = 0) :
    (compileAfter isGlobal (resolverEvents prog) (compilerEvents prog)).ok = true := by
  have h := resolve_then_compile_events isGlobal (resolverEvents prog) herr hh
  unfold compileAfter at h ⊢
  simp only at h ⊢
  rw [← compile_orders_agree _ _ prog]
  exact h

/-! ### Regression facts and non-vacuity (by evaluation) -/

/-- `for x in x {}` at module level, `x` otherwise unknown: the iterable is resolved before `x` exists — one
"undeclared variable" diagnostic (before commit 22c8429 the resolver was clean and the compiler panicked). -/
theorem regress_for_self :
    let prog := Items.ofList [.forD 10 1 (Items.ofList [.use 10]) .nil]
    (resolve (fun _ => false) (resolverEvents prog)).errors = 1 := by decide

/-- `catch e: e {}`: the class is looked up before `e` exists — one diagnostic (before commit b3a40ba: compiler panic). -/
theorem regress_catch_self :
    let prog := Items.ofList [.catchD 10 1 10 .nil]
    (resolve (fun _ => false) (resolverEvents prog)).errors = 1 := by decide

/-- `fn f() { let x; fn g() { for x in x {} } }`: the iterable's `x` is the local of the enclosing function, which is
marked captured (id 2); resolver clean, compiler ok (before 22c8429: `Unexpected symbol x … LocalInitialized`). -/
theorem regress_for_shadow :
    let prog := Items.ofList [.funD 20 1 [] (Items.ofList [.letD 10 2 .nil,
      .funD 21 3 [] (Items.ofList [.forD 10 4 (Items.ofList [.use 10]) .nil])])]
    let g : Name → Bool := fun _ => false
    (resolve g (resolverEvents prog)).errors = 0 ∧ (resolve g (resolverEvents prog)).unhoisted = 0 ∧
    (resolve g (resolverEvents prog)).captured = [2] ∧
    (compileAfter g (resolverEvents prog) (compilerEvents prog)).ok = true := by decide

/-- non-vacuity: a closure capturing an outer local, a `for` whose iterable reads an outer variable NAMED LIKE THE LOOP
VARIABLE and contains a capturing lambda with a nested `for`, a `catch` whose class is a global and one whose variable is
named like its (global) class — resolver clean, captures recorded, compiler ok. -/
theorem example_contract :
    let prog := Items.ofList [.funD 20 1 [(12, 2)] (Items.ofList [
      .letD 10 3 .nil,
      .letD 11 9 .nil,
      .letD 13 4 (Items.ofList [.lam [(15, 5)] (Items.ofList [.use 10, .use 15])]),
      .forD 11 6 (Items.ofList [.use 11, .lam [] (Items.ofList [.use 12, .use 11, .forD 11 7 (Items.ofList [.use 13]) .nil])])
        (Items.ofList [.use 11, .use 10]),
      .block (Items.ofList [.catchD 14 8 50 (Items.ofList [.use 14, .use 50]), .catchD 50 10 50 (Items.ofList [.use 50])])])]
    let g : Name → Bool := fun n => n == 50
    (resolve g (resolverEvents prog)).errors = 0 ∧ (resolve g (resolverEvents prog)).unhoisted = 0 ∧
    (resolve g (resolverEvents prog)).captured ≠ [] ∧
    (compileAfter g (resolverEvents prog) (compilerEvents prog)).ok = true := by decide

end LaytheVerif.Contract
