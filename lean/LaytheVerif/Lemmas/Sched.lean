/-
Helper lemmas about `Model/Sched.lean`: how each building block of an instruction changes the
fibers, the channels' waiter lists, the run queue and the outcome.  Property theorems are in
`Props/C08.lean` and `Props/C07Sched.lean`.
-/
import LaytheVerif.Model.Sched

namespace LaytheVerif.Sched
open LaytheVerif.ChanQueue

/-! ### field access through the setters -/

theorem fiber_setFiber (vm : VM) (i j : Nat) (f : Fiber) :
    (vm.setFiber i f).fiber j = if i = j ∧ i < vm.fibers.length then f else vm.fiber j := by
  unfold VM.fiber VM.setFiber
  simp only [List.getElem?_set]
  by_cases h : i = j
  · subst h
    by_cases h2 : i < vm.fibers.length
    · simp [h2]
    · simp [h2, List.getElem?_eq_none (Nat.le_of_not_lt h2)]
  · simp [h]

theorem chan_setChan (vm : VM) (c d : Nat) (ch : Chan) :
    (vm.setChan c ch).chan d = if c = d ∧ c < vm.chans.length then ch else vm.chan d := by
  unfold VM.chan VM.setChan
  simp only [List.getElem?_set]
  by_cases h : c = d
  · subst h
    by_cases h2 : c < vm.chans.length
    · simp [h2]
    · simp [h2, List.getElem?_eq_none (Nat.le_of_not_lt h2)]
  · simp [h]

@[simp] theorem setFiber_chans (vm : VM) (i f) : (vm.setFiber i f).chans = vm.chans := rfl
@[simp] theorem setFiber_cur (vm : VM) (i f) : (vm.setFiber i f).cur = vm.cur := rfl
@[simp] theorem setFiber_runq (vm : VM) (i f) : (vm.setFiber i f).runq = vm.runq := rfl
@[simp] theorem setFiber_out (vm : VM) (i f) : (vm.setFiber i f).out = vm.out := rfl
@[simp] theorem setFiber_outcome (vm : VM) (i f) : (vm.setFiber i f).outcome = vm.outcome := rfl
@[simp] theorem setFiber_bodies (vm : VM) (i f) : (vm.setFiber i f).bodies = vm.bodies := rfl
@[simp] theorem setFiber_len (vm : VM) (i f) : (vm.setFiber i f).fibers.length = vm.fibers.length := by
  simp [VM.setFiber]
@[simp] theorem setFiber_chan (vm : VM) (i f c) : (vm.setFiber i f).chan c = vm.chan c := rfl

@[simp] theorem setChan_fibers (vm : VM) (c ch) : (vm.setChan c ch).fibers = vm.fibers := rfl
@[simp] theorem setChan_cur (vm : VM) (c ch) : (vm.setChan c ch).cur = vm.cur := rfl
@[simp] theorem setChan_runq (vm : VM) (c ch) : (vm.setChan c ch).runq = vm.runq := rfl
@[simp] theorem setChan_out (vm : VM) (c ch) : (vm.setChan c ch).out = vm.out := rfl
@[simp] theorem setChan_outcome (vm : VM) (c ch) : (vm.setChan c ch).outcome = vm.outcome := rfl
@[simp] theorem setChan_bodies (vm : VM) (c ch) : (vm.setChan c ch).bodies = vm.bodies := rfl
@[simp] theorem setChan_fiber (vm : VM) (c ch i) : (vm.setChan c ch).fiber i = vm.fiber i := rfl
@[simp] theorem setChan_me (vm : VM) (c ch) : (vm.setChan c ch).me = vm.me := rfl
@[simp] theorem setChan_flags (vm : VM) (c ch) : (vm.setChan c ch).flags = vm.flags := rfl
@[simp] theorem setChan_len (vm : VM) (c ch) : (vm.setChan c ch).chans.length = vm.chans.length := by
  simp [VM.setChan]

@[simp] theorem log_fibers (vm : VM) (t) : (vm.log t).fibers = vm.fibers := rfl
@[simp] theorem log_chans (vm : VM) (t) : (vm.log t).chans = vm.chans := rfl
@[simp] theorem log_cur (vm : VM) (t) : (vm.log t).cur = vm.cur := rfl
@[simp] theorem log_runq (vm : VM) (t) : (vm.log t).runq = vm.runq := rfl
@[simp] theorem log_out (vm : VM) (t) : (vm.log t).out = vm.out := rfl
@[simp] theorem log_outcome (vm : VM) (t) : (vm.log t).outcome = vm.outcome := rfl
@[simp] theorem log_bodies (vm : VM) (t) : (vm.log t).bodies = vm.bodies := rfl
@[simp] theorem log_fiber (vm : VM) (t i) : (vm.log t).fiber i = vm.fiber i := rfl
@[simp] theorem log_chan (vm : VM) (t c) : (vm.log t).chan c = vm.chan c := rfl
@[simp] theorem log_me (vm : VM) (t) : (vm.log t).me = vm.me := rfl
@[simp] theorem log_flags (vm : VM) (t) : (vm.log t).flags = vm.flags := rfl

@[simp] theorem emit_fibers (vm : VM) (e) : (vm.emit e).fibers = vm.fibers := rfl
@[simp] theorem emit_chans (vm : VM) (e) : (vm.emit e).chans = vm.chans := rfl
@[simp] theorem emit_cur (vm : VM) (e) : (vm.emit e).cur = vm.cur := rfl
@[simp] theorem emit_runq (vm : VM) (e) : (vm.emit e).runq = vm.runq := rfl
@[simp] theorem emit_outcome (vm : VM) (e) : (vm.emit e).outcome = vm.outcome := rfl
@[simp] theorem emit_bodies (vm : VM) (e) : (vm.emit e).bodies = vm.bodies := rfl
@[simp] theorem emit_fiber (vm : VM) (e i) : (vm.emit e).fiber i = vm.fiber i := rfl
@[simp] theorem emit_chan (vm : VM) (e c) : (vm.emit e).chan c = vm.chan c := rfl
@[simp] theorem emit_me (vm : VM) (e) : (vm.emit e).me = vm.me := rfl

@[simp] theorem fail_fibers (vm : VM) (a) : (vm.fail a).fibers = vm.fibers := rfl
@[simp] theorem fail_chans (vm : VM) (a) : (vm.fail a).chans = vm.chans := rfl
@[simp] theorem fail_cur (vm : VM) (a) : (vm.fail a).cur = vm.cur := rfl
@[simp] theorem fail_runq (vm : VM) (a) : (vm.fail a).runq = vm.runq := rfl
@[simp] theorem fail_out (vm : VM) (a) : (vm.fail a).out = vm.out := rfl
@[simp] theorem fail_outcome (vm : VM) (a) : (vm.fail a).outcome = .panic a := rfl
@[simp] theorem fail_bodies (vm : VM) (a) : (vm.fail a).bodies = vm.bodies := rfl
@[simp] theorem fail_fiber (vm : VM) (a i) : (vm.fail a).fiber i = vm.fiber i := rfl
@[simp] theorem fail_chan (vm : VM) (a c) : (vm.fail a).chan c = vm.chan c := rfl
@[simp] theorem fail_me (vm : VM) (a) : (vm.fail a).me = vm.me := rfl

theorem me_setFiber_cur (vm : VM) (f : Fiber) (h : vm.cur < vm.fibers.length) :
    (vm.setFiber vm.cur f).me = f := by
  simp [VM.me, fiber_setFiber, h]

/-! ### the queue operations only hand out, and only keep, waiters that were parked before -/

/-- every parked waiter of `q` satisfies `P` -/
def WaitersP (P : Nat → Prop) (q : Q) : Prop := ∀ w, (w ∈ q.sendW ∨ w ∈ q.recvW) → P w

theorem findRunnable_mem (flags : Nat → Bool) (l : List Nat) :
    (∀ w, (findRunnable flags l).1 = some w → w ∈ l) ∧ (∀ x, x ∈ (findRunnable flags l).2 → x ∈ l) := by
  induction l with
  | nil => simp [findRunnable]
  | cons a l ih =>
    unfold findRunnable
    split
    · simp; exact fun x hx => Or.inr hx
    · exact ⟨fun w h => List.mem_cons_of_mem _ (ih.1 w h), fun x h => List.mem_cons_of_mem _ (ih.2 x h)⟩

theorem popSend_P (P : Nat → Prop) (flags : Nat → Bool) (q : Q) (h : WaitersP P q) :
    WaitersP P (q.popSend flags).1 ∧ ∀ w, (q.popSend flags).2 = some w → P w := by
  have := findRunnable_mem flags q.sendW
  refine ⟨fun w hw => ?_, fun w hw => h w (Or.inl (this.1 w hw))⟩
  rcases hw with hw | hw
  · exact h w (Or.inl (this.2 w hw))
  · exact h w (Or.inr hw)

theorem popRecv_P (P : Nat → Prop) (flags : Nat → Bool) (q : Q) (h : WaitersP P q) :
    WaitersP P (q.popRecv flags).1 ∧ ∀ w, (q.popRecv flags).2 = some w → P w := by
  have := findRunnable_mem flags q.recvW
  refine ⟨fun w hw => ?_, fun w hw => h w (Or.inr (this.1 w hw))⟩
  rcases hw with hw | hw
  · exact h w (Or.inl hw)
  · exact h w (Or.inr (this.2 w hw))

theorem runnableWaiter_P (P : Nat → Prop) (flags : Nat → Bool) (q : Q) (h : WaitersP P q) :
    WaitersP P (q.runnableWaiter flags).1 ∧ ∀ w, (q.runnableWaiter flags).2 = some w → P w := by
  unfold Q.runnableWaiter
  split
  · split
    · exact popSend_P P flags q h
    · exact popRecv_P P flags q h
  · split
    · exact popSend_P P flags q h
    · split
      · exact popRecv_P P flags q h
      · split
        · rename_i w hw
          exact ⟨(popSend_P P flags q h).1, fun w' hw' => by cases hw'; exact (popSend_P P flags q h).2 _ hw⟩
        · exact popRecv_P P flags _ (popSend_P P flags q h).1

theorem send_P (P : Nat → Prop) (flags : Nat → Bool) (q : Q) (me v : Nat) (h : WaitersP P q) (hme : P me) :
    WaitersP P (q.send flags me v).1 ∧
    (∀ w, (q.send flags me v).2 = .fullBlock (some w) ∨ (q.send flags me v).2 = .full (some w) → P w) := by
  have hf := findRunnable_mem flags q.recvW
  unfold Q.send
  split
  · split
    · refine ⟨fun w hw => ?_, fun w hw => ?_⟩
      · simp only [List.mem_append, List.mem_singleton] at hw
        rcases hw with (hw | rfl) | hw
        · exact h w (Or.inl hw)
        · exact hme
        · exact h w (Or.inr (hf.2 w hw))
      · simp at hw; exact h w (Or.inr (hf.1 w hw))
    · split
      · exact ⟨h, fun w hw => by simp at hw⟩
      · refine ⟨fun w hw => ?_, fun w hw => ?_⟩
        · simp only [List.mem_append, List.mem_singleton] at hw
          rcases hw with (hw | rfl) | hw
          · exact h w (Or.inl hw)
          · exact hme
          · exact h w (Or.inr (hf.2 w hw))
        · simp at hw; exact h w (Or.inr (hf.1 w hw))
  · exact ⟨h, fun w hw => by simp at hw⟩

theorem recv_P (P : Nat → Prop) (flags : Nat → Bool) (q : Q) (me : Nat) (h : WaitersP P q) (hme : P me) :
    WaitersP P (q.recv flags me).1 ∧
    (∀ w, (q.recv flags me).2 = .emptyBlock (some w) ∨ (q.recv flags me).2 = .empty (some w) → P w) := by
  have hf := findRunnable_mem flags q.sendW
  unfold Q.recv
  split
  · split
    · exact ⟨h, fun w hw => by simp at hw⟩
    · have hw' : WaitersP P { q with recvW := q.recvW ++ [me], sendW := (findRunnable flags q.sendW).2 } := by
        intro w hw
        simp only [List.mem_append, List.mem_singleton] at hw
        rcases hw with hw | hw | rfl
        · exact h w (Or.inl (hf.2 w hw))
        · exact h w (Or.inr hw)
        · exact hme
      split
      · exact ⟨hw', fun w hw => by simp at hw; exact h w (Or.inl (hf.1 w hw))⟩
      · exact ⟨hw', fun w hw => by simp at hw; exact h w (Or.inl (hf.1 w hw))⟩
  · split
    · exact ⟨h, fun w hw => by simp at hw⟩
    · exact ⟨h, fun w hw => by simp at hw⟩
  · exact ⟨h, fun w hw => by simp at hw⟩

theorem close_P (P : Nat → Prop) (q : Q) (h : WaitersP P q) : WaitersP P q.close.1 := by
  unfold Q.close
  split
  · exact h
  · split <;> exact h

end LaytheVerif.Sched
