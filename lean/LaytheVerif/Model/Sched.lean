/-
Exact deterministic model of Laythe's fiber scheduler over *network programs*, and the Spec the
scheduler is judged against (C08; the fiber-level half of C07).

Mirrored Rust (branch for branch, warts included):
  laythe_vm/src/vm/ops.rs     op_launch, op_send, op_receive            → `exec`
  laythe_vm/src/vm/basic.rs   context_switch, pop_frame, queue_blocked_fiber → `contextSwitch`, `exec []`, `queueBlocked`
  laythe_vm/src/vm/mod.rs     execute: the `ContextSwitch` arm (pop `fiber_queue` or "Fatal error deadlock.")
  laythe_vm/src/fiber/mod.rs  FiberState, activate / sleep / block / unblock / complete (with their
                              `assert!`s, which are *not* debug assertions), get_runnable, add_used_channel
  laythe_core/.../channel     through `Model/ChanQueue.lean` (imported, not duplicated)
  laythe_lib/.../channel.rs   ChannelClose (native `close`)

A network program: channel capacities + one straight-line body per function ("template"); body 0 is
the script (main fiber).  Operations: `send p v`, `recv p` (prints what it got), `close p`,
`launch t args`, `print v`; the end of the list is the function's `return`.  Channels are named
through the fiber's parameter list `env` (what `launch f(a, b)` copied from the launcher), so
argument passing is part of the model.

Waiters are identified with fiber ids (`ChannelWaiter.waiter` points back at its fiber; the
`runnable` flag lives in the fiber record).  `FiberState::Unwinding` is not modelled: it is entered
only by `stack_unwind`, network programs have no handlers, and an unhandled error ends the run.
Core Lean + Std only.
-/
import LaytheVerif.Model.ChanQueue
import Std.Data.HashSet

namespace LaytheVerif.Sched
open LaytheVerif.ChanQueue

/-- `FiberState` (without `Unwinding`, see the header). -/
inductive FState | pending | running | blocked | complete
  deriving DecidableEq, Repr, Inhabited, Hashable

inductive Op
  | send (p v : Nat)
  | recv (p : Nat)
  | close (p : Nat)
  | launch (t : Nat) (args : List Nat)
  | print (v : Nat)
  deriving DecidableEq, Repr, Hashable

/-- What a run prints: `recv` prints `f<t> got <v|nil>`, `print v` prints `f<t> print <v>`. -/
inductive Event
  | got (t : Nat) (v : Option Nat)
  | printed (t v : Nat)
  deriving DecidableEq, Repr, Hashable

/-- The `assert!`s of `Fiber::{activate, sleep, block, unblock, complete}`. -/
inductive Assert | activate | sleep | block | unblock | complete
  deriving DecidableEq, Repr

/-- Runtime errors a network program can raise (nothing catches them: the run ends). -/
inductive Err | sendClosed | alreadyClosed | noAccess
  deriving DecidableEq, Repr

inductive Outcome | running | exit | deadlock | error (e : Err) | panic (a : Assert)
  deriving DecidableEq, Repr

/-- Scheduler events (ghost; used for the distribution counters of the check only). -/
inductive Tr
  | switch (f : Nat) | wakeDirect (w : Nat) | wakeScan (w : Nat) | wakeParent (w : Nat)
  | retry (f : Nat) | park (f : Nat) | finish (f : Nat) | premature (f : Nat)
  deriving DecidableEq, Repr

structure Fiber where
  state : FState
  parent : Option Nat
  /-- `Fiber.channels`: the channels-used list scanned by `get_runnable` -/
  channels : List Nat
  /-- `ChannelWaiter.runnable` of this fiber's waiter -/
  runnable : Bool
  /-- remaining operations (the saved `ip`) -/
  prog : List Op
  /-- the channel arguments `Fiber::split` copied from the launcher's stack -/
  env : List Nat
  tmpl : Nat
  /-- ghost: operations already executed, accepted sends `(channel, value)`, completed receives -/
  done : List Op
  acc : List (Nat × Nat)
  rcv : List (Nat × Option Nat)
  /-- ghost: `some c` while parked after a synchronous deposit on `c` (`FullBlock`) -/
  ack : Option Nat
  deriving Repr, DecidableEq

def Fiber.nil : Fiber :=
  { state := .complete, parent := none, channels := [], runnable := false, prog := [], env := [], tmpl := 0,
    done := [], acc := [], rcv := [], ack := none }

instance : Inhabited Fiber := ⟨Fiber.nil⟩

/-- A channel: the queue model of C07 plus that property's history variables, and (ghost) the
sender of each queued value. -/
structure Chan where
  q : Q
  accepted : List Nat
  delivered : List Nat
  owners : List Nat
  deriving Repr

def Chan.nil : Chan := { q := Q.mkSync, accepted := [], delivered := [], owners := [] }

/-- `none` = `chan()` (synchronous), `some c` = `chan(c)`. -/
def mkChan : Option Nat → Chan
  | none => { q := Q.mkSync, accepted := [], delivered := [], owners := [] }
  | some c => { q := Q.mkBuffered c, accepted := [], delivered := [], owners := [] }

structure Net where
  caps : List (Option Nat)
  bodies : List (List Op)
  deriving Repr, DecidableEq

structure VM where
  bodies : List (List Op)
  fibers : List Fiber
  chans : List Chan
  /-- `Vm.fiber` -/
  cur : Nat
  /-- `Vm.fiber_queue` -/
  runq : List Nat
  out : List Event
  outcome : Outcome
  trace : List Tr
  deriving Repr

def VM.fiber (vm : VM) (i : Nat) : Fiber := (vm.fibers[i]?).getD Fiber.nil
def VM.setFiber (vm : VM) (i : Nat) (f : Fiber) : VM := { vm with fibers := vm.fibers.set i f }
def VM.chan (vm : VM) (c : Nat) : Chan := (vm.chans[c]?).getD Chan.nil
def VM.setChan (vm : VM) (c : Nat) (ch : Chan) : VM := { vm with chans := vm.chans.set c ch }
def VM.me (vm : VM) : Fiber := vm.fiber vm.cur
/-- the `runnable` flags of all waiters, as `ChanQueue` wants them -/
def VM.flags (vm : VM) : Nat → Bool := fun w => (vm.fiber w).runnable
def VM.fail (vm : VM) (a : Assert) : VM := { vm with outcome := .panic a }
def VM.log (vm : VM) (t : Tr) : VM := { vm with trace := vm.trace ++ [t] }

/-- run `f` unless an assertion has already ended the run -/
def VM.next (vm : VM) (f : VM → VM) : VM :=
  match vm.outcome with
  | .running => f vm
  | _ => vm

def init (net : Net) : VM :=
  { bodies := net.bodies,
    fibers := [{ state := .running, parent := none, channels := [], runnable := true,
                 prog := net.bodies.getD 0 [], env := List.range net.caps.length, tmpl := 0,
                 done := [], acc := [], rcv := [], ack := none }],
    chans := net.caps.map mkChan, cur := 0, runq := [], out := [], outcome := .running, trace := [] }

/-- `Fiber::get_runnable`: scan the channels-used list, calling `runnable_waiter` on each channel
(which pops entries) until one yields a waiter.  The Rust iterator chain `.map(..).find(..)` is
lazy: channels after the first hit are not touched. -/
def getRunnable (vm : VM) : List Nat → VM × Option Nat
  | [] => (vm, none)
  | c :: rest =>
    match ((vm.chan c).q.runnableWaiter vm.flags).2 with
    | some w => (vm.setChan c { vm.chan c with q := ((vm.chan c).q.runnableWaiter vm.flags).1 }, some w)
    | none => getRunnable (vm.setChan c { vm.chan c with q := ((vm.chan c).q.runnableWaiter vm.flags).1 }) rest

/-- `Vm::queue_blocked_fiber`: `Fiber::unblock` (asserts `Blocked | Pending`) then `fiber_queue.push_back`.
No check whether the fiber is already queued. -/
def queueBlocked (vm : VM) (w : Nat) : VM :=
  match (vm.fiber w).state with
  | .blocked => { (vm.setFiber w { vm.fiber w with state := .pending }) with runq := vm.runq ++ [w] }
  | .pending => { vm with runq := vm.runq ++ [w] }
  | _ => vm.fail .unblock

/-- `if let Some(waiter) = fiber.or_else(|| self.fiber.get_runnable()) { self.queue_blocked_fiber(waiter) }` -/
def wake (vm : VM) (first : Option Nat) : VM :=
  match first with
  | some w => queueBlocked (vm.log (.wakeDirect w)) w
  | none =>
    match (getRunnable vm vm.me.channels).2 with
    | some w => queueBlocked ((getRunnable vm vm.me.channels).1.log (.wakeScan w)) w
    | none => (getRunnable vm vm.me.channels).1

/-- `Fiber::add_used_channel` -/
def addUsed (vm : VM) (c : Nat) : VM :=
  if vm.me.channels.contains c then vm
  else vm.setFiber vm.cur { vm.me with channels := vm.me.channels ++ [c] }

/-- `Fiber::sleep`: `assert_eq!(state, Running)`; Pending; `waiter.set_runnable(true)` -/
def sleep (vm : VM) : VM :=
  match vm.me.state with
  | .running => (vm.setFiber vm.cur { vm.me with state := .pending, runnable := true }).log (.park vm.cur)
  | _ => vm.fail .sleep

/-- `Fiber::block`: `assert_eq!(state, Running)`; Blocked -/
def block (vm : VM) : VM :=
  match vm.me.state with
  | .running => (vm.setFiber vm.cur { vm.me with state := .blocked }).log (.park vm.cur)
  | _ => vm.fail .block

/-- ghost log entry of an activation: `switch f`, preceded by `premature f` when `f` was parked after a
synchronous deposit (`FullBlock`) that is still in the queue — it is about to proceed although its
value has not been taken (D26) -/
def switchLog (vm : VM) (f : Nat) : List Tr :=
  match (vm.fiber f).ack with
  | some c => if (vm.chan c).owners.contains f then [.premature f, .switch f] else [.switch f]
  | none => [.switch f]

/-- The `ExecutionSignal::ContextSwitch` arm of `Vm::execute` + `Vm::context_switch` + `Fiber::activate`
(`assert!(Pending | Unwinding)`). -/
def contextSwitch (vm : VM) : VM :=
  match vm.runq with
  | [] => { vm with outcome := .deadlock }
  | f :: rest =>
    match (vm.fiber f).state with
    | .pending =>
      { (vm.setFiber f { vm.fiber f with state := .running, ack := none }) with
        cur := f, runq := rest, trace := vm.trace ++ switchLog vm f }
    | _ => { vm with runq := rest, outcome := .panic .activate }

/-- `Fiber::complete`, first half: `assert_eq!(state, Running)` passed; Complete; flag off -/
def markComplete (vm : VM) : VM :=
  (vm.setFiber vm.cur { vm.me with state := .complete, runnable := false }).log (.finish vm.cur)

/-- `self.parent.filter(|p| p.is_pending()).map(|p| p.waiter).or_else(|| self.get_runnable())`:
the parent if it is `Pending` (whether or not it can progress), else a scan of the used channels -/
def pickWaiter (vm : VM) (parent : Option Nat) (channels : List Nat) : VM × Option Nat :=
  match parent with
  | some p =>
    if (vm.fiber p).state = .pending then (vm.log (.wakeParent p), some p)
    else getRunnable vm channels
  | none => getRunnable vm channels

/-- `self.channels.clear()` -/
def clearChannels (vm : VM) : VM := vm.setFiber vm.cur { vm.me with channels := [] }

/-- `Fiber::complete` -/
def complete (vm : VM) : VM × Option Nat :=
  match vm.me.state with
  | .running =>
    (clearChannels (pickWaiter (markComplete vm) vm.me.parent vm.me.channels).1,
     (pickWaiter (markComplete vm) vm.me.parent vm.me.channels).2)
  | _ => (vm.fail .complete, none)

/-- move the instruction pointer past the current operation -/
def advance (vm : VM) : VM :=
  match vm.me.prog with
  | [] => vm
  | op :: rest => vm.setFiber vm.cur { vm.me with prog := rest, done := vm.me.done ++ [op] }

def VM.emit (vm : VM) (e : Event) : VM := { vm with out := vm.out ++ [e] }

/-- the channel a parameter position denotes in the current fiber -/
def VM.arg (vm : VM) (p : Nat) : Nat := vm.me.env.getD p 0

/-- end the run -/
def VM.stop (vm : VM) (o : Outcome) : VM := { vm with outcome := o }

/-- replace the queue of channel `c` -/
def VM.setQ (vm : VM) (c : Nat) (q : Q) : VM := vm.setChan c { vm.chan c with q := q }

/-- bookkeeping of a send the queue took (`Ok` / `FullBlock`): new queue, the channel's `accepted`
history (C07), and the ghost fields -/
def accept (vm : VM) (c v : Nat) (q : Q) (ack : Option Nat) : VM :=
  (vm.setChan c { vm.chan c with q := q, accepted := (vm.chan c).accepted ++ [v],
                                 owners := (vm.chan c).owners ++ [vm.cur] }).setFiber vm.cur
    { vm.me with acc := vm.me.acc ++ [(c, v)], ack := ack }

/-- bookkeeping of a completed receive (`Ok(v)` / `Closed` → nil) and the line the program prints -/
def deliver (vm : VM) (c : Nat) (q : Q) (r : Option Nat) : VM :=
  (((match r with
     | some v => vm.setChan c { vm.chan c with q := q, delivered := (vm.chan c).delivered ++ [v],
                                               owners := (vm.chan c).owners.tail }
     | none => vm.setQ c q).setFiber vm.cur { vm.me with rcv := vm.me.rcv ++ [(c, r)] }).emit
    (.got vm.me.tmpl r))

/-- `op_send` once the channel is in the used list: `channel.send(self.fiber.waiter(), value)` and the
five arms of the `match` -/
def sendOn (vm : VM) (c v : Nat) : VM :=
  match chanSend vm.flags .bi (vm.chan c).q vm.cur v with
  | (q, .ok) => advance (accept vm c v q none)
  | (q, .fullBlock w) =>
    -- the value is enqueued, the ip is *not* rewound; wake, `block()`, ContextSwitch
    (wake (advance (accept vm c v q (some c))) w).next fun vm => (block vm).next contextSwitch
  | (q, .full w) =>
    -- channel pushed back, `update_ip(-1)`: the instruction is retried later; wake, `sleep()`, ContextSwitch
    (wake ((vm.setQ c q).log (.retry vm.cur)) w).next fun vm => (sleep vm).next contextSwitch
  | (_, .closed) => vm.stop (.error .sendClosed)
  | (_, .noSendAccess) => vm.stop (.error .noAccess)

/-- `op_send` -/
def execSend (vm : VM) (p v : Nat) : VM := sendOn (addUsed vm (vm.arg p)) (vm.arg p) v

/-- `op_receive` once the channel is in the used list -/
def recvOn (vm : VM) (c : Nat) : VM :=
  match chanRecv vm.flags .bi (vm.chan c).q vm.cur with
  | (q, .ok v) => advance (deliver vm c q (some v))
  | (q, .closed) => advance (deliver vm c q none)
  | (q, .emptyBlock w) =>
    (wake ((vm.setQ c q).log (.retry vm.cur)) w).next fun vm => (block vm).next contextSwitch
  | (q, .empty w) =>
    (wake ((vm.setQ c q).log (.retry vm.cur)) w).next fun vm => (sleep vm).next contextSwitch
  | (_, .noReceiveAccess) => vm.stop (.error .noAccess)

/-- `op_receive` -/
def execRecv (vm : VM) (p : Nat) : VM := recvOn (addUsed vm (vm.arg p)) (vm.arg p)

/-- native `Channel.close` (`ChannelClose::call`): no wake-up, no `add_used_channel` -/
def execClose (vm : VM) (p : Nat) : VM :=
  match (vm.chan (vm.arg p)).q.close with
  | (q, .ok) => advance (vm.setQ (vm.arg p) q)
  | (_, .alreadyClosed) => vm.stop (.error .alreadyClosed)

/-- `op_launch` + `Fiber::split`: the callee's frame becomes a new `Pending` fiber whose parent is
the launcher, with the argument values copied; it is pushed to the back of `fiber_queue`; the
launcher keeps running. -/
def execLaunch (vm : VM) (t : Nat) (args : List Nat) : VM :=
  let nf : Fiber :=
    { state := .pending, parent := some vm.cur, channels := [], runnable := true,
      prog := vm.bodies.getD t [], env := args.map vm.arg, tmpl := t,
      done := [], acc := [], rcv := [], ack := none }
  advance { vm with fibers := vm.fibers ++ [nf], runq := vm.runq ++ [vm.fibers.length] }

/-- `pop_frame` → `FiberPopResult::Emptied`: the main fiber exits the VM, any other fiber completes,
queues whoever `complete` returned, and signals a context switch. -/
def execReturn (vm : VM) : VM :=
  if vm.cur = 0 then vm.stop .exit
  else
    match (complete vm).2 with
    | some w => (queueBlocked (complete vm).1 w).next contextSwitch
    | none => (complete vm).1.next contextSwitch

/-- one instruction of the running fiber, including the context switch it may signal -/
def exec (vm : VM) : VM :=
  match vm.me.prog with
  | [] => execReturn vm
  | .print v :: _ => advance (vm.emit (.printed vm.me.tmpl v))
  | .launch t args :: _ => execLaunch vm t args
  | .close p :: _ => execClose vm p
  | .send p v :: _ => execSend vm p v
  | .recv p :: _ => execRecv vm p

def step (vm : VM) : VM := vm.next exec

def run : Nat → VM → VM
  | 0, vm => vm
  | n + 1, vm => run n (step vm)

def runNet (fuel : Nat) (net : Net) : VM := run fuel (init net)

/-! ## Spec: the abstract process network

No run queue, no waiter lists, no fiber states: a fiber is *enabled* iff its next operation can
complete.  A synchronous send is two-phase (deposit, then wait until the value has been taken).
-/
namespace Spec

structure SFiber where
  prog : List Op
  env : List Nat
  tmpl : Nat
  /-- `some c`: deposited on the synchronous channel `c`, waiting for the value to be taken -/
  ack : Option Nat
  deriving Repr, DecidableEq, Hashable

structure SChan where
  /-- queued `(value, sender)` -/
  queue : List (Nat × Nat)
  /-- `none` = synchronous -/
  cap : Option Nat
  closed : Bool
  deriving Repr, DecidableEq, Hashable

structure S where
  fibers : List SFiber
  chans : List SChan
  deriving Repr, DecidableEq, Hashable

def SChan.nil : SChan := { queue := [], cap := none, closed := false }
def S.chan (s : S) (c : Nat) : SChan := (s.chans[c]?).getD SChan.nil

def SChan.hasRoom (ch : SChan) : Bool :=
  match ch.cap with
  | none => ch.queue.isEmpty
  | some k => ch.queue.length < k

/-- fiber `i` can complete its next operation now -/
def enabled (s : S) (i : Nat) : Bool :=
  match s.fibers[i]? with
  | none => false
  | some f =>
    match f.ack with
    | some c => !((s.chan c).queue.any (·.2 == i))
    | none =>
      match f.prog with
      | [] => false
      | .send p _ :: _ => (s.chan (f.env.getD p 0)).closed || (s.chan (f.env.getD p 0)).hasRoom
      | .recv p :: _ => (s.chan (f.env.getD p 0)).closed || !(s.chan (f.env.getD p 0)).queue.isEmpty
      | _ => true

def finished (f : SFiber) : Bool := f.prog.isEmpty && f.ack.isNone

/-- The situation in which a deadlock report is demanded (and the only one in which it is allowed):
the main fiber has not finished and no fiber is enabled. -/
def deadlocked (s : S) : Bool :=
  (match s.fibers[0]? with | some f => !finished f | none => false) &&
  (List.range s.fibers.length).all (fun i => !enabled s i)

inductive Res
  | ok (s : S) (e : Option Event)
  | err (e : Err)
  | stuck

def S.setFiber (s : S) (i : Nat) (f : SFiber) : S := { s with fibers := s.fibers.set i f }
def S.setChan (s : S) (c : Nat) (ch : SChan) : S := { s with chans := s.chans.set c ch }

/-- the step of fiber `i` (deterministic once `i` is chosen) -/
def stepF (bodies : List (List Op)) (s : S) (i : Nat) : Res :=
  if !enabled s i then .stuck else
  match s.fibers[i]? with
  | none => .stuck
  | some f =>
    match f.ack with
    | some _ => .ok (s.setFiber i { f with ack := none }) none
    | none =>
      match f.prog with
      | [] => .stuck
      | .print v :: rest => .ok (s.setFiber i { f with prog := rest }) (some (.printed f.tmpl v))
      | .launch t args :: rest =>
        .ok { s with fibers := (s.fibers.set i { f with prog := rest }) ++
                [{ prog := bodies.getD t [], env := args.map (fun a => f.env.getD a 0), tmpl := t, ack := none }] } none
      | .close p :: rest =>
        let c := f.env.getD p 0
        if (s.chan c).closed then .err .alreadyClosed
        else .ok ((s.setFiber i { f with prog := rest }).setChan c { s.chan c with closed := true }) none
      | .send p v :: rest =>
        let c := f.env.getD p 0
        if (s.chan c).closed then .err .sendClosed
        else
          let s1 := s.setChan c { s.chan c with queue := (s.chan c).queue ++ [(v, i)] }
          match (s.chan c).cap with
          | none => .ok (s1.setFiber i { f with prog := rest, ack := some c }) none
          | some _ => .ok (s1.setFiber i { f with prog := rest }) none
      | .recv p :: rest =>
        let c := f.env.getD p 0
        match (s.chan c).queue with
        | (v, _) :: q => .ok ((s.setFiber i { f with prog := rest }).setChan c { s.chan c with queue := q })
                             (some (.got f.tmpl (some v)))
        | [] => .ok (s.setFiber i { f with prog := rest }) (some (.got f.tmpl none))

end Spec

def Spec.init (net : Net) : Spec.S :=
  { fibers := [{ prog := net.bodies.getD 0 [], env := List.range net.caps.length, tmpl := 0, ack := none }],
    chans := net.caps.map fun c => { queue := [], cap := c, closed := false } }

/-! ### Abstraction of a scheduler state, and the state-level verdict -/

def Fiber.abs (f : Fiber) : Spec.SFiber := { prog := f.prog, env := f.env, tmpl := f.tmpl, ack := f.ack }

def Chan.abs (ch : Chan) : Spec.SChan :=
  { queue := ch.q.queue.zip ch.owners,
    cap := (match ch.q.kind with | .sync => none | .buffered => some ch.q.cap),
    closed := ch.q.isClosed }

def VM.abs (vm : VM) : Spec.S := { fibers := vm.fibers.map Fiber.abs, chans := vm.chans.map Chan.abs }

/-- What the Spec says about the way a run of the model ended. -/
inductive Verdict
  | ok
  /-- "Fatal error deadlock." while some fiber is enabled (the lowest such fiber id is given) -/
  | spuriousDeadlock (enabledFiber : Nat)
  | hostPanic (a : Assert)
  | unfinished
  deriving DecidableEq, Repr

def firstEnabled (s : Spec.S) : Option Nat := (List.range s.fibers.length).find? (Spec.enabled s)

def verdict (vm : VM) : Verdict :=
  match vm.outcome with
  | .exit => .ok
  | .error _ => .ok
  | .deadlock =>
    match firstEnabled vm.abs with
    | some i => .spuriousDeadlock i
    | none => .ok
  | .panic a => .hostPanic a
  | .running => .unfinished

/-! ### Trace-level verdict: is an observed outcome one the abstract network can produce?

Breadth-first search over Spec states paired with the number of observed events already matched.
Used by the driver to judge the *implementation's* output (and the model's) without looking at any
scheduler state. -/

inductive Term | exit | deadlock | error (e : Err)
  deriving DecidableEq, Repr

inductive Explained | yes | no | unknown
  deriving DecidableEq, Repr

def accepts (s : Spec.S) (term : Term) : Bool :=
  match term with
  | .exit => (match s.fibers[0]? with | some f => Spec.finished f | none => false)
  | .deadlock => Spec.deadlocked s
  | .error _ => false

/-- expand one search node; returns (accepted, successors) -/
def expand (bodies : List (List Op)) (obs : Array Event) (term : Term) (node : Spec.S × Nat) :
    Bool × List (Spec.S × Nat) :=
  let s := node.1
  let pos := node.2
  let atEnd := pos == obs.size
  let acc0 := atEnd && accepts s term
  (List.range s.fibers.length).foldl (init := (acc0, [])) fun (acc, succ) i =>
    match Spec.stepF bodies s i with
    | .stuck => (acc, succ)
    | .err e => (acc || (atEnd && term == .error e), succ)
    | .ok s' none => (acc, (s', pos) :: succ)
    | .ok s' (some ev) =>
      if h : pos < obs.size then
        if obs[pos] == ev then (acc, (s', pos + 1) :: succ) else (acc, succ)
      else (acc, succ)

def search (bodies : List (List Op)) (obs : Array Event) (term : Term) :
    Nat → List (Spec.S × Nat) → Std.HashSet (Spec.S × Nat) → Explained
  | 0, _, _ => .unknown
  | _ + 1, [], _ => .no
  | fuel + 1, node :: work, seen =>
    let r := expand bodies obs term node
    if r.1 then .yes
    else
      let fresh := r.2.filter (fun n => !seen.contains n)
      search bodies obs term fuel (fresh.eraseDups ++ work) (fresh.foldl (fun h n => h.insert n) seen)

/-- once the main fiber has finished the VM exits: nothing after that can be observed, so an `exit`
observation is explained by any schedule that reaches the end of main having printed exactly `obs`. -/
def explains (net : Net) (obs : List Event) (term : Term) (limit : Nat := 400000) : Explained :=
  search net.bodies obs.toArray term limit [(Spec.init net, 0)] ((∅ : Std.HashSet _).insert (Spec.init net, 0))

end LaytheVerif.Sched
