/-
The release side of laythe_core/src/allocator.rs (C20: garbage is reclaimed).

`Model/Alloc.lean` says which handles a collection keeps.  The Rust sweeps (`Vec::retain`,
`drain(..).filter(..)` + `extend`) *drop* every handle they do not keep; dropping an `ObjectHandle`
runs `impl Drop for ObjectHandle` (laythe_core/src/reference/obj_reference.rs), whose arm for the
object's kind hands the block back to the system allocator — if and only if that arm reaches its
`dealloc` call.  Dropping a `Box<dyn Manage>` (the `heap` list) always frees the box.  Dropping the
`Allocator` itself (teardown of the vm) drops the three owner lists.

This file adds, next to `A.collect`, the list of handles a collection drops and the log of blocks
it hands back, parameterised by `rel x` = "the `Drop` arm for block `x` reaches its `dealloc`".
`Lemmas/DropGen.lean` derives `rel` from the table generated from the Rust text.
-/
import LaytheVerif.Model.Alloc
namespace LaytheVerif.Alloc

/-- What one sweep does with one owner list: (handles kept, handles dropped), both in list order. -/
def sweepList (keep : Nat → Bool) (l : List Nat) : List Nat × List Nat :=
  (l.filter keep, l.filter fun x => !keep x)

/-- A collection together with what it lets go of. -/
structure Swept where
  a : A
  /-- handles removed from the owner lists (each is dropped by Rust at that point) -/
  dropped : List Nat
  /-- blocks handed back to the system allocator: the `release` log -/
  released : List Nat
  deriving Repr

/-- `collect_garbage` with its release log.  Order of the log: `sweep_obj_heap` (old generation
first when the sweep is full, then the nursery), then `sweep_heap`. -/
def A.collectLog (a : A) (roots : List Nat) (force : Option Bool) (rel : Nat → Bool) : Swept :=
  let m := a.marked roots
  let keep (x : Nat) : Bool := m.contains x
  let full := force.getD ((a.gcCount + 1) % FULL_EVERY == 0)
  let dOld := if full then (sweepList keep a.old).2 else []      -- sweep_obj_nursery keeps all of obj_heap
  let dNursery := (sweepList keep a.nursery).2
  let dPlain := (sweepList keep a.plain).2
  let dropped := dOld ++ dNursery ++ dPlain
  { a := a.collect roots force, dropped := dropped, released := dropped.filter rel }

/-- Dropping the allocator (`Vm` teardown): the three owner vectors drop all their handles. -/
def A.teardownLog (a : A) (rel : Nat → Bool) : List Nat := a.owned.filter rel

end LaytheVerif.Alloc
