/-
Model of Laythe's import machinery (C17) over an abstract module graph.

Mirrors, branch for branch:
* `laythe_vm/src/vm/ops.rs`: `op_import`, `op_import_symbol` (cache lookup by resolved path; miss →
  `import_module`; `Loaded` → fill `module_cache`, push the module instance / the exported symbol;
  `Compiled` → rewind the instruction pointer, put the importer to sleep, run the body on a child
  fiber whose parent is the importer; `NotFound` → ImportError), `op_export`;
* `laythe_vm/src/vm/source_loader.rs`: `import_module` (package map lookup, `Package::import`, and the
  guard that only package `self` is backed by the files next to the script), `load_missing_module`,
  `find_missing_module`, `Vm::module` (creates a module, does *not* touch the package map) and
  `Vm::main_module` (the only user module registered as a package: `self`);
* `laythe_vm/src/vm/mod.rs`: `Vm::new` (`add_package(std_lib)`), `run` / `repl` (`main_module`);
* `laythe_core/src/module/mod.rs`: `import`, `insert_module`, `get_module`, `export_symbol`,
  `get_exported_symbol_by_name`, `module_instance` (a *fresh snapshot* of the exported symbols);
* `laythe_core/src/module/package.rs`: `Package::import`;
* `laythe_lib/src/lib.rs` `create_std_lib`: the module tree of the standard library (`stdModules`).

Because an importer sleeps until its child fiber has completed (and generated programs have no
other fibers), the set of live fibers is a stack: `St.frames` (head = running fiber, each next
element = its parent).  Only core Lean is used, so the driver links as an executable.
-/
namespace LaytheVerif.Imports

abbrev Path := List String

inductive Kind | let_ | fn | cls
  deriving DecidableEq, Repr, Inhabited

/-- Abstract runtime values of module-level symbols. `const .let_ n` is the number `n`, `const .fn n`
a function returning `n`, `const .cls n` a class whose method `v()` returns `n`; `acc home t` is a
function of the module at tree position `home` that executes `t = t + 1; return t;` on that
module's own symbol `t` (private state reachable only through an exported function). -/
inductive Val
  | const (k : Kind) (n : Nat)
  | acc (home : Path) (target : String)
  deriving DecidableEq, Repr, Inhabited

/-- What a module-level name is bound to: a plain value or a module instance (`module_instance`:
class name + a snapshot of the exported fields). -/
inductive Binding
  | val (v : Val)
  | obj (cls : String) (fields : List (String × Val))
  deriving DecidableEq, Repr, Inhabited

/-- A package name written in an import that is not `self`.  (Imports from `self` are the
constructors `importWhole` / `importSyms`, whose path is relative to the script's directory.) -/
abbrev ForeignPkg := { s : String // s ≠ "self" }

instance : Inhabited ForeignPkg := ⟨⟨"std", by decide⟩⟩

inductive Expr
  | sym (name : String)
  | field (obj name : String)
  deriving DecidableEq, Repr, Inhabited

inductive Stmt
  /-- `print("s");` -/
  | mark (s : String)
  /-- `[export] let x = n;` / `[export] fn x() { return n; }` / `[export] class x { v() { return n; } }` -/
  | decl (exported : Bool) (k : Kind) (name : String) (n : Nat)
  /-- `[export] fn name() { target = target + 1; return target; }` -/
  | declAcc (exported : Bool) (name target : String)
  /-- `name = n;` at module level -/
  | assign (name : String) (n : Nat)
  /-- `import self.p;` / `import self.p as r;` -/
  | importWhole (path : Path) (rename : Option String)
  /-- `import self.p: {a, b as c};` — compiled to one `ImportSym` instruction per listed symbol -/
  | importSyms (path : Path) (syms : List (String × Option String))
  /-- a single `ImportSym` instruction (only produced by `expand`) -/
  | importSym (path : Path) (sym : String) (rename : Option String)
  /-- `import pkg.p as name;` for a package name other than `self` (`std`, or any other identifier —
  notably the name of a user module) -/
  | importPkg (pkg : ForeignPkg) (path : Path) (name : String)
  /-- `print("tag=${e}")` (call / instantiate according to the value's kind; a failing property
  access is caught and prints `tag=!`) -/
  | emit (tag : String) (e : Expr)
  deriving DecidableEq, Repr, Inhabited

/-- The files below the directory of the main script: `main` is the script itself, `files` maps a
file path (`["a","b"]` = `a/b.lay`) to its body. -/
structure Graph where
  main : List Stmt
  files : List (Path × List Stmt)
  deriving Repr, Inhabited

def Graph.file? (g : Graph) (p : Path) : Option (List Stmt) :=
  (g.files.find? (fun f => f.1 == p)).map (·.2)

/-- Body of the module whose file path is `p`; `[]` (no file has that path) is the main script. -/
def Graph.body (g : Graph) (p : Path) : List Stmt :=
  if p = [] then g.main else (g.file? p).getD []

/-- A module object (`Module`) in the package tree: `pos` is its position below the root module of
package `self` (the root, i.e. the main script, has `pos = []`), `file` the path it was loaded from.
`done` is a ghost flag: the fiber running the body has completed. -/
structure ModSt where
  pos : Path
  file : Path
  done : Bool
  syms : List (String × Option Binding)
  exports : List String
  deriving DecidableEq, Repr, Inhabited

structure Frame where
  mod : Path
  body : List Stmt
  deriving DecidableEq, Repr, Inhabited

inductive Status
  | running
  | done
  /-- runtime error (class, message): ends the whole run -/
  | error (cls msg : String)
  /-- host panic (`todo!()`, `unwrap` on `None`, slice index) -/
  | panic (msg : String)
  deriving DecidableEq, Repr, Inhabited

/-- Ghost trace. -/
inductive Event
  | start (file pos : Path)
  | finish (pos : Path)
  /-- the importer (tree position) got a whole-module instance of the module at `pos` -/
  | boundObj (importer : Path) (name : String) (pos : Path) (fields : List (String × Val))
  /-- the importer got exported symbol `sym` of the module at `pos` -/
  | boundSym (importer : Path) (name : String) (pos : Path) (sym : String) (v : Val)
  deriving DecidableEq, Repr, Inhabited

/-- What a package name of `Vm.packages` stands for: the standard library (a fixed module tree,
`stdModules`) or the tree of user modules `St.mods` rooted at the main script. -/
inductive PkgRoot | std | self
  deriving DecidableEq, Repr, Inhabited

structure St where
  mods : List ModSt
  /-- `Vm.packages`: package name → root.  Written by `Vm::new` (`std`) and `Vm::main_module`
  (`self`) only; loading a user module (`Vm::module`) does not touch it. -/
  packages : List (String × PkgRoot)
  /-- `module_cache`: resolved import path → module (by tree position) -/
  cache : List (Path × Path)
  frames : List Frame
  out : List String
  status : Status
  /-- newest first -/
  log : List Event
  deriving Repr, Inhabited

/-! ### symbol tables -/

def lookup {β : Type} (name : String) : List (String × β) → Option β
  | [] => none
  | (k, v) :: rest => if k = name then some v else lookup name rest

def upsert {β : Type} (name : String) (v : β) : List (String × β) → List (String × β)
  | [] => [(name, v)]
  | (k, w) :: rest => if k = name then (k, v) :: rest else (k, w) :: upsert name v rest

def Stmt.declared : Stmt → List String
  | .decl _ _ n _ => [n]
  | .declAcc _ n _ => [n]
  | .importWhole p r => [r.getD (p.getLast?.getD "")]
  | .importSyms _ syms => syms.map (fun s => s.2.getD s.1)
  | .importSym _ sym r => [r.getD sym]
  | .importPkg _ _ n => [n]
  | _ => []

/-- Module-level names are declared up front (`begin_module_scope` emits one `DeclareModSym` per
module symbol before the first statement; the slot holds `undefined`). -/
def declaredNames (body : List Stmt) : List String := body.flatMap Stmt.declared

/-- What the compiler emits for a body: a selected-symbol import becomes one `ImportSym`
instruction per symbol (`Compiler::import`, `ImportStem::Symbols`); an empty list emits nothing. -/
def expand : List Stmt → List Stmt
  | [] => []
  | .importSyms p syms :: rest => syms.map (fun x => Stmt.importSym p x.1 x.2) ++ expand rest
  | st :: rest => st :: expand rest

def ModSt.fresh (pos file : Path) (body : List Stmt) : ModSt :=
  { pos, file, done := false, syms := (declaredNames body).map (fun n => (n, none)), exports := [] }

def ModSt.setSym (m : ModSt) (name : String) (b : Binding) : ModSt :=
  { m with syms := upsert name (some b) m.syms }

/-- `Module::module_instance`: copy the current value of every exported symbol. -/
def ModSt.instanceFields (m : ModSt) : List (String × Val) :=
  m.exports.filterMap (fun e =>
    match lookup e m.syms with
    | some (some (.val v)) => some (e, v)
    | _ => none)

def ModSt.name (m : ModSt) : String := m.pos.getLast?.getD "self"

/-- `Module::get_exported_symbol_by_name` -/
def ModSt.exported? (m : ModSt) (name : String) : Option Val :=
  match lookup name m.syms with
  | some (some (.val v)) => if name ∈ m.exports then some v else none
  | _ => none

/-! ### the package tree -/

def getMod (mods : List ModSt) (pos : Path) : Option ModSt := mods.find? (fun m => m.pos == pos)

def hasMod (mods : List ModSt) (pos : Path) : Bool := (getMod mods pos).isSome

def updMod (mods : List ModSt) (pos : Path) (f : ModSt → ModSt) : List ModSt :=
  mods.map (fun m => if m.pos = pos then f m else m)

/-- `Module::import` walked from `cur`: every segment must name an existing child. -/
def treeImport (mods : List ModSt) (cur : Path) : Path → Option Path
  | [] => none
  | [x] => if hasMod mods (cur ++ [x]) then some (cur ++ [x]) else none
  | x :: y :: rest => if hasMod mods (cur ++ [x]) then treeImport mods (cur ++ [x]) (y :: rest) else none

/-- `Package::import`: the empty path is the root module. -/
def packageImport (mods : List ModSt) (path : Path) : Option Path :=
  if path = [] then some [] else treeImport mods [] path

/-- `find_missing_module(module, path, index)`: walk down the tree along `path[index]`, stop at the
end of the path or at the first segment that is not a child.  Returns the deepest module reached
and the split index. `fuel` bounds the descent (`path.length + 1` always suffices). -/
def findMissing (mods : List ModSt) : Nat → Path → Path → Nat → Path × Nat
  | 0, cur, _, index => (cur, index)
  | fuel + 1, cur, path, index =>
    if index ≥ path.length then (cur, path.length)
    else
      let seg := path.getD index ""
      if hasMod mods (cur ++ [seg]) then findMissing mods fuel (cur ++ [seg]) path (index + 1)
      else (cur, index)

inductive ImportRes
  | loaded (pos : Path)
  /-- a new module object was created at `pos` for file `file`, compiled, not yet run -/
  | compiled (pos file : Path) (body : List Stmt)
  | notFound
  | panic (msg : String)
  deriving DecidableEq, Repr, Inhabited

/-- `load_missing_module`: only the *first* missing segment is loaded per attempt; the import
instruction is re-executed after the child fiber finished and then loads the next one.  The new
module is created by `Vm::module` — which registers nothing in the package map — and attached to
its parent in the tree. -/
def loadMissing (g : Graph) (mods : List ModSt) (path : Path) : ImportRes :=
  let r := findMissing mods (mods.length + path.length + 1) [] path 0
  let parent := r.1
  let index := r.2
  if index > path.length then .panic "split_at: mid > len"
  else
    match path.drop index with
    | [] => .panic "called `Option::unwrap()` on a `None` value"
    | name :: _ =>
      let file := path.take index ++ [name]
      match g.file? file with
      | none => .notFound
      | some body =>
        -- `self.module(..)` creates the module, `parent_module.insert_module(module)`
        if hasMod mods (parent ++ [name]) then .panic "not yet implemented"
        else .compiled (parent ++ [name]) file body

/-- `Vm::import_module` once the package map answered with the tree of user modules for the package
name `self`: `Package::import`, and on `ModuleDoesNotExist` (the guard `package == SELF` holds)
`load_missing_module`. -/
def importModule (g : Graph) (mods : List ModSt) (path : Path) : ImportRes :=
  match packageImport mods path with
  | some pos => .loaded pos
  | none => loadMissing g mods path

def dotted (path : Path) : String := ".".intercalate ("self" :: path)

/-! ### packages other than `self` -/

/-- The module tree of the standard library below its root module (`create_std_lib`: `math`, `io`
with `stdio` and `fs`, `env`, `regexp`).  Tied to the source by `Gen.stdModules`
(`C17_stdModules_gen`) and to the behaviour by the `stdpaths` stream of the check. -/
def stdModules : List Path := [["math"], ["io"], ["io", "stdio"], ["io", "fs"], ["env"], ["regexp"]]

/-- `Package::import` on the standard library: the empty path is its root module, otherwise
`Module::import` walks the (fixed, prefix-closed) tree. -/
def stdHas (path : Path) : Bool := path == [] || stdModules.contains path

/-- `Vm.packages` after `Vm::new` and `Vm::main_module` -/
def initPackages : List (String × PkgRoot) := [("std", .std), ("self", .self)]

inductive ForeignRes
  /-- a module of the standard library (path below its root) -/
  | std (path : Path)
  /-- a user module (tree position) — only possible if the package map hands out the user tree
  under a name other than `self`, which no reachable state does (`C17_packages_constant`) -/
  | user (pos : Path)
  | notFound
  deriving DecidableEq, Repr, Inhabited

/-- `Vm::import_module` for an import whose package name `pkg` is not `self`: the package map is
asked for `pkg`; `Package::import` walks that package's tree; a missing module is `NotFound`
because only package `self` is backed by files (guard `import.package() == SELF`). -/
def importForeign (pkgs : List (String × PkgRoot)) (mods : List ModSt) (pkg : String) (path : Path) : ForeignRes :=
  match lookup pkg pkgs with
  | none => .notFound
  | some .std => if stdHas path then .std path else .notFound
  | some .self =>
    match packageImport mods path with
    | some pos => .user pos
    | none => .notFound

def dottedPkg (pkg : String) (path : Path) : String := ".".intercalate (pkg :: path)

/-! ### the machine -/

def St.top? (s : St) : Option Frame := s.frames.head?

/-- replace the remaining body of the running fiber -/
def St.setBody (s : St) (body : List Stmt) : St :=
  match s.frames with
  | [] => s
  | fr :: rest => { s with frames := { fr with body := body } :: rest }

def St.fail (s : St) (cls msg : String) : St := { s with status := .error cls msg }

def lookupPath (path : Path) : List (Path × Path) → Option Path
  | [] => none
  | (k, v) :: rest => if k = path then some v else lookupPath path rest

/-- Common front part of `op_import` / `op_import_symbol` for an import from `self`: returns the new
state and, when the module is available *now*, its tree position.  `none` means the instruction did
not complete (child fiber started and the instruction will be retried, or error, or panic). -/
def importTarget (g : Graph) (s : St) (path : Path) : St × Option Path :=
  match lookupPath path s.cache with
  | some pos => (s, some pos)
  | none =>
    -- `self.packages.get(&import.package())`
    match lookup "self" s.packages with
    | some .self =>
      match importModule g s.mods path with
      | .loaded pos => ({ s with cache := (path, pos) :: s.cache }, some pos)
      | .compiled pos file body =>
        -- update_ip(-3); fiber.sleep(); create_fiber(fun, Some(self.fiber)); ContextSwitch
        ({ s with mods := s.mods ++ [ModSt.fresh pos file body],
                  frames := { mod := pos, body := expand body } :: s.frames,
                  log := .start file pos :: s.log }, none)
      | .notFound => (s.fail "ImportError" s!"Module {dotted path} not found", none)
      | .panic msg => ({ s with status := .panic msg }, none)
    -- no reachable state: `self` is registered before the script starts and never replaced
    | _ => (s.fail "ImportError" s!"Module {dotted path} not found", none)

/-- print a value the way the generated programs do (`tag=${x}`, `${x()}`, `${x().v()}`) -/
def showVal (s : St) (tag : String) : Val → St
  | .const _ n => { s with out := s.out ++ [s!"{tag}={n}"] }
  | .acc home target =>
    match getMod s.mods home with
    | none => s.fail "RuntimeError" "no home module"
    | some hm =>
      match lookup target hm.syms with
      | some (some (.val (.const .let_ v))) =>
        { s with mods := updMod s.mods home (fun m => m.setSym target (.val (.const .let_ (v + 1)))),
                 out := s.out ++ [s!"{tag}={v + 1}"] }
      | _ => s.fail "RuntimeError" s!"Undefined variable {target}"

/-- One statement of the running fiber `fr` (module `me`), the rest of whose body is `more`. -/
def execStmt (g : Graph) (s : St) (me : ModSt) (st : Stmt) (more : List Stmt) : St :=
  match st with
  | .mark str => { s.setBody more with out := s.out ++ [str] }
  | .decl exported k name n =>
    if exported && name ∈ me.exports then s.fail "ExportError" s!"Symbol {name} already exported"
    else
      { s.setBody more with
        mods := updMod s.mods me.pos (fun m =>
          { m.setSym name (.val (.const k n)) with exports := if exported then m.exports ++ [name] else m.exports }) }
  | .declAcc exported name target =>
    if exported && name ∈ me.exports then s.fail "ExportError" s!"Symbol {name} already exported"
    else
      { s.setBody more with
        mods := updMod s.mods me.pos (fun m =>
          { m.setSym name (.val (.acc me.pos target)) with exports := if exported then m.exports ++ [name] else m.exports }) }
  | .assign name n =>
    { s.setBody more with mods := updMod s.mods me.pos (fun m => m.setSym name (.val (.const .let_ n))) }
  | .importWhole path rename =>
    let r := importTarget g s path
    match r.2 with
    | none => r.1
    | some pos =>
      match getMod r.1.mods pos with
      | none => { r.1 with status := .panic "dangling module" }
      | some m =>
        let name := rename.getD (path.getLast?.getD "self")
        let fields := m.instanceFields
        { r.1.setBody more with
          mods := updMod r.1.mods me.pos (fun x => x.setSym name (.obj m.name fields)),
          log := .boundObj me.pos name pos fields :: r.1.log }
  | .importSyms _ _ => s.setBody more      -- never executed: `expand` removed it
  | .importSym path sym rename =>
    let r := importTarget g s path
    match r.2 with
    | none => r.1
    | some pos =>
      match getMod r.1.mods pos with
      | none => { r.1 with status := .panic "dangling module" }
      | some m =>
        match m.exported? sym with
        | none => r.1.fail "ImportError" s!"Symbol {sym} not exported from module {m.name}"
        | some v =>
          let name := rename.getD sym
          { r.1.setBody more with
            mods := updMod r.1.mods me.pos (fun x => x.setSym name (.val v)),
            log := .boundSym me.pos name pos sym v :: r.1.log }
  | .importPkg pkg path name =>
    -- (the `module_cache` entry of such an import is not modelled: the trees of these packages
    -- never change, so a cache hit and the walk give the same module)
    match importForeign s.packages s.mods pkg.val path with
    | .std p =>
      { s.setBody more with
        mods := updMod s.mods me.pos (fun x => x.setSym name (.obj (p.getLast?.getD pkg.val) [])) }
    | .user pos =>
      match getMod s.mods pos with
      | none => s.fail "InternalError" "dangling module"
      | some m =>
        { s.setBody more with
          mods := updMod s.mods me.pos (fun x => x.setSym name (.obj m.name m.instanceFields)) }
    | .notFound => s.fail "ImportError" s!"Module {dottedPkg pkg.val path} not found"
  | .emit tag (.sym name) =>
    match lookup name me.syms with
    | some (some (.val v)) => showVal (s.setBody more) tag v
    | some (some (.obj cls _)) => { s.setBody more with out := s.out ++ [s!"{tag}=<{cls}>"] }
    | some none => s.fail "RuntimeError" s!"Undefined variable {name}"
    | none => s.fail "CompileError" s!"undeclared variable {name}"
  | .emit tag (.field o name) =>
    match lookup o me.syms with
    | some (some (.obj _ fields)) =>
      match lookup name fields with
      | some v => showVal (s.setBody more) tag v
      | none => { s.setBody more with out := s.out ++ [s!"{tag}=!"] }   -- PropertyError, caught
    | some (some (.val _)) => { s.setBody more with out := s.out ++ [s!"{tag}=!"] }
    | some none => s.fail "RuntimeError" s!"Undefined variable {o}"
    | none => s.fail "CompileError" s!"undeclared variable {o}"

/-- One scheduling step of the VM: run the next statement of the running fiber; a fiber whose body
is exhausted completes and its parent (the importer) is woken and retries its import. -/
def step (g : Graph) (s : St) : St :=
  match s.status with
  | .running =>
    match s.frames with
    | [] => { s with status := .done }
    | fr :: rest =>
      match fr.body with
      | [] =>
        { s with frames := rest,
                 mods := updMod s.mods fr.mod (fun m => { m with done := true }),
                 log := .finish fr.mod :: s.log }
      | st :: more =>
        match getMod s.mods fr.mod with
        | none => { s with status := .panic "no current module" }
        | some me => execStmt g s me st more
  | _ => s

def init (g : Graph) : St :=
  { mods := [ModSt.fresh [] [] g.main], packages := initPackages, cache := [], frames := [{ mod := [], body := expand g.main }],
    out := [], status := .running, log := [.start [] []] }

def run (g : Graph) : Nat → St
  | 0 => init g
  | n + 1 => step g (run g n)

/-! ### import paths of a graph -/

def Stmt.importPath? : Stmt → Option Path
  | .importWhole p _ => some p
  | .importSyms p _ => some p
  | .importSym p _ _ => some p
  | _ => none

def importPaths (body : List Stmt) : List Path := body.filterMap Stmt.importPath?

def Graph.allImportPaths (g : Graph) : List Path :=
  importPaths g.main ++ g.files.flatMap (fun f => importPaths f.2)

/-- non-empty prefixes of a path, shortest first: the files an import of `p` may load -/
def prefixes : Path → List Path
  | [] => []
  | x :: rest => [x] :: (prefixes rest).map (x :: ·)

end LaytheVerif.Imports
