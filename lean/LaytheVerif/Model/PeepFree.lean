/-
A free ("symbolic") semantics for instruction streams: values are terms, every call, store and
uninterpreted instruction is logged as an event.  Two streams with the same observations under
this semantics perform the same stores, calls and control transfers and leave the same stack.
It is (i) the executable Spec used to judge the *implementation's* optimiser output, and
(ii) the witness that the local laws of `Lemmas/PeepSem.lean` are satisfiable by a semantics
that distinguishes programs (C12 non-vacuity).
-/
import LaytheVerif.Lemmas.PeepSem
namespace LaytheVerif.PeepFree
open LaytheVerif.Gen LaytheVerif.Peephole

inductive Term where
  | bot (epoch n : Nat)                    -- n-th value below the known stack since barrier `epoch`
  | init (kind slot : Nat)                 -- initial content of a variable
  | res (ev : Nat)                         -- result of the call logged as event `ev`
  | prop (t : Term) (n : Nat)              -- property / method `n` of `t`
  | sprop (self sup : Term) (n : Nat)      -- `super.n` for (self, superclass)
  deriving DecidableEq, Repr

inductive Event where
  | call (f : Term) (args : List Term)
  | store (kind slot : Nat) (v : Term)
  | op (i : Sym) (stack : List Term) (under : Nat)   -- uninterpreted instruction: a barrier
  | ret (v : Term)
  | raise (v : Term)
  deriving DecidableEq, Repr

structure FS where
  stack : List Term := []       -- top first
  under : Nat := 0              -- how many values were taken from below the known stack
  epoch : Nat := 0              -- index of the last barrier event (+1), 0 initially
  store : List ((Nat × Nat) × Term) := []
  log : List Event := []        -- newest first
  nlog : Nat := 0               -- number of events logged (= log.length, kept for O(1) access)
  deriving DecidableEq, Repr

def FS.pop (s : FS) : Term × FS :=
  match s.stack with
  | t :: r => (t, { s with stack := r })
  | [] => (.bot s.epoch s.under, { s with under := s.under + 1 })

def FS.push (s : FS) (t : Term) : FS := { s with stack := t :: s.stack }

def FS.popN : Nat → FS → List Term × FS
  | 0, s => ([], s)
  | n + 1, s => let r := s.pop; let r2 := FS.popN n r.2; (r.1 :: r2.1, r2.2)

def FS.get (s : FS) (kind slot : Nat) : Term :=
  match s.store.find? (·.1 == (kind, slot)) with
  | some p => p.2
  | none => .init kind slot

def FS.set (s : FS) (kind slot : Nat) : FS :=
  let r := s.pop
  let s' := r.2.push r.1
  { s' with store := ((kind, slot), r.1) :: s'.store.filter (·.1 != (kind, slot)),
            log := .store kind slot r.1 :: s'.log, nlog := s'.nlog + 1 }

def FS.event (s : FS) (e : Event) : FS := { s with log := e :: s.log, nlog := s.nlog + 1 }

def step : Sym → FS → Out FS
  | .Drop, s => .next s.pop.2
  | .DropN n, s => .next (FS.popN n s).2
  | .Dup, s => let r := s.pop; .next ((r.2.push r.1).push r.1)
  | .GetLocal v, s => .next (s.push (s.get 0 v))
  | .GetBox v, s => .next (s.push (s.get 1 v))
  | .GetCapture v, s => .next (s.push (s.get 2 v))
  | .GetModSym v, s => .next (s.push (s.get 3 v))
  | .SetLocal v, s => .next (s.set 0 v)
  | .SetBox v, s => .next (s.set 1 v)
  | .SetCapture v, s => .next (s.set 2 v)
  | .SetModSym v, s => .next (s.set 3 v)
  | .GetPropByName n, s => let r := s.pop; .next (r.2.push (.prop r.1 n))
  | .PropertySlot, s => .next s
  | .InvokeSlot, s => .next s
  | .ArgumentDelimiter, s => .next s
  | .Label _, s => .next s
  | .Call a, s =>
    let args := FS.popN a s
    let f := args.2.pop
    let s' := f.2.event (.call f.1 args.1)
    .next (s'.push (.res s'.nlog))
  | .Invoke n a, s =>
    let args := FS.popN a s
    let f := args.2.pop
    let s' := f.2.event (.call (.prop f.1 n) args.1)
    .next (s'.push (.res s'.nlog))
  | .GetSuper n, s =>
    let sup := s.pop
    let self := sup.2.pop
    .next (self.2.push (.sprop self.1 sup.1 n))
  | .SuperInvoke n a, s =>
    let args := FS.popN a s
    let sup := args.2.pop
    let self := sup.2.pop
    let s' := self.2.event (.call (.sprop self.1 sup.1 n) args.1)
    .next (s'.push (.res s'.nlog))
  | .Jump l, s => .goto l s
  | .Loop l, s => .goto l s
  | .Return, s => let r := s.pop; .stop (r.2.event (.ret r.1))
  | .Raise, s => let r := s.pop; .stop (r.2.event (.raise r.1))
  | i, s =>
    let s' := s.event (.op i s.stack s.under)
    .next { s' with stack := [], under := 0, epoch := s'.nlog }

def labels (p : List IL) : List Nat :=
  p.filterMap fun x => match x.1 with | .Label l => some l | _ => none

/-- Observation from the entry and from every label: the state at the first control transfer. -/
def observe (p : List IL) : List (Out FS) :=
  runLine step p {} :: (labels p).map fun l => runLine step (after l p) {}

/-- Observational equivalence used to judge an optimiser output `q` for input `p`. -/
def equiv (p q : List IL) : Bool :=
  labels p == labels q && observe p == observe q

end LaytheVerif.PeepFree
