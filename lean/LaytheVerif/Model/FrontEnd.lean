import LaytheVerif.Gen.Tokens
import LaytheVerif.Gen.FrontLimits
/-!
# Front-end models for C15 (core Lean only)

## The the parser's declaration loop with `synchronize` (parser.rs: `parse_inner`, `decl`, `synchronize`, `advance`)

Only *progress* is modelled, over token KINDS: the grammar of a declaration is an arbitrary oracle (how many further
tokens it consumes, whether it ends in an error); what is mirrored exactly is
* `advance()` shifts unconditionally and fails iff the new current token is an `Error` token,
* every arm of `decl` / `stmt` / `expr_stmt → expr → parse_precedence` starts with `advance()` (generated table
  `Gen.parserArms`, `Gen.exprChain`),
* `decl().or_else(synchronize)`; `synchronize` loops `while current != Eof || previous == Semicolon`, stops at the
  generated stop kinds `Gen.syncStops`, and otherwise ends each iteration with `advance()?`,
* `parse_inner`: `advance()?; while !match_kind(Eof)? { decl()? }`.

The resolver ⇒ compiler contract is modelled in `Model/Contract.lean`.
-/
namespace LaytheVerif.FrontEnd
open LaytheVerif.Gen (TokenKind)


/-- parser state: `previous`, `current`, and the tokens the scanner has not produced yet (it answers `Eof` for ever
once exhausted). -/
structure PState where
  prev : TokenKind
  cur : TokenKind
  rest : List TokenKind
  deriving Repr, DecidableEq

/-- `Parser::advance`: `previous = replace(current, scan_token())`; `Err` iff the new token is an error token. -/
def PState.advance (p : PState) : PState × Bool :=
  let c := p.rest.headD .Eof
  ({ prev := p.cur, cur := c, rest := p.rest.tail }, c != .Error)

/-- what is left to consume -/
def PState.mu (p : PState) : Nat := p.rest.length + (if p.cur = .Eof then 0 else 1)

/-- `synchronize` stops in front of these kinds (generated from the `match` in `synchronize`). -/
def isStop (k : TokenKind) : Bool := LaytheVerif.Gen.syncStops.contains k.name

/-- The grammar of one declaration, abstracted: after the first `advance()` it consumes `extra` further tokens
(stopping early at an error token) and then succeeds or fails. -/
structure Oracle where
  extra : PState → Nat
  fails : PState → Bool

/-- `n` calls of `advance()?` -/
def advanceN : Nat → PState → PState × Bool
  | 0, p => (p, true)
  | n + 1, p =>
    match p.advance with
    | (p', true) => advanceN n p'
    | (p', false) => (p', false)

/-- the body of `decl()` before `.or_else`: returns the state and whether it is `Ok` -/
def declBody (o : Oracle) (p : PState) : PState × Bool :=
  match p.advance with
  | (p1, false) => (p1, false)
  | (p1, true) =>
    match advanceN (o.extra p1) p1 with
    | (p2, false) => (p2, false)
    | (p2, true) => (p2, !o.fails p2)

/-- `Parser::synchronize`; `none` = the fuel ran out (proved impossible for fuel ≥ 3 * rest.length + 3) -/
def syncLoop : Nat → PState → Option (PState × Bool)
  | 0, _ => none
  | f + 1, p =>
    if p.cur != .Eof || p.prev == .Semicolon then
      if isStop p.cur then some (p, true)
      else match p.advance with
        | (p', true) => syncLoop f p'
        | (p', false) => some (p', false)
    else some (p, true)

/-- `Parser::decl`: `decl.or_else(|error| self.synchronize(error))` -/
def decl (o : Oracle) (p : PState) : Option (PState × Bool) :=
  match declBody o p with
  | (p', true) => some (p', true)
  | (p', false) => syncLoop (3 * p'.rest.length + 3) p'

/-- the `while !match_kind(Eof)? { decls.push(decl()?) }` loop of `parse_inner` -/
def parseLoop : Nat → Oracle → PState → Option (PState × Bool)
  | 0, _, _ => none
  | f + 1, o, p =>
    if p.cur = .Eof then some (p.advance.1, true)
    else match decl o p with
      | none => none
      | some (p', false) => some (p', false)
      | some (p', true) => parseLoop f o p'

/-- `Parser::parse_inner` over the kinds of a token stream -/
def parse (o : Oracle) (toks : List TokenKind) : Option (PState × Bool) :=
  match ({ prev := .Error, cur := .Error, rest := toks } : PState).advance with
  | (p, false) => some (p, false)
  | (p, true) => parseLoop (p.mu + 1) o p

end LaytheVerif.FrontEnd
