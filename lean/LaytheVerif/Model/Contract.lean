/-!
# The resolver ⇒ compiler contract, with declaration ids carried by the events (core Lean only)

This is "Part 2" of `Model/FrontEnd.lean` (resolver.rs: `resolve_variable`, `declare_variable`, `define_variable`,
`begin_scope`/`end_scope`, `function`; compiler/mod.rs: `resolve_local`, `resolve_capture`, `variable_get`,
`declare_variable`/`load_module_variable`, `begin_scope`/`end_scope`, `function`) with ONE change of representation:
the identity of a declaration (`Id`) is no longer drawn from a run-time counter (`nextId`) but is part of the
`declare` event and of the AST node that declares, so that both passes name the same declaration by the same id.

Both passes are folds over one sequence of *scoping events*.  The resolver keeps a flat stack of tables tagged with
`fun_depth` and decides captures by comparing depths; the compiler keeps one list of locals per function and walks
the `enclosing` chain.  `AST → events` (two traversals: the resolver's and the compiler's) is at the end; the two
traversals perform the same declarations, brackets and lookups in the same order and differ only in the position of the
`define` events, which the compiler's lookups ignore (`Lemmas/ContractOrder.lean`).

Ids: nothing in the proofs needs ids to be distinct (both passes find the same table entry, hence the same id).  For
the model to be *faithful*, user declarations should carry pairwise distinct ids `≥ 1`; the hidden names (`nSelf`,
`nSuper`, `nIter`, `nUninit`) are declared with id `0` — no user program can `use` them, so their captured-ness is never
consulted.
-/
namespace LaytheVerif.Contract

abbrev Name := Nat
abbrev Id := Nat

/-- scoping events, in traversal order -/
inductive Ev where
  | hoist (n : Name)      -- resolver pre-pass `declare_module_scoped` → `declare_module_variable`
  | beginScope            -- `begin_scope`
  | endScope              -- `end_scope`
  | beginFun              -- `function`: `fun_depth += 1; begin_scope` / `Compiler::child` + `begin_scope`
  | endFun                -- `end_scope; fun_depth -= 1` / `end_compiler`
  | declare (n : Name) (i : Id)   -- `declare_variable`; `i` = the identity of this declaration (AST node)
  | define (n : Name)     -- `define_variable`
  | use (n : Name)        -- `resolve_variable` / `variable_get` / `variable_set`
  deriving Repr, DecidableEq

/-- `SymbolState` restricted to what the lookups distinguish (captured-ness is recorded in `RState.captured`) -/
inductive SymState where
  | uninit | init
  deriving Repr, DecidableEq

structure Sym where
  name : Name
  id : Id
  state : SymState
  deriving Repr, DecidableEq

/-- `TrackedSymbolTable` -/
structure Frame where
  funDepth : Nat
  isFun : Bool             -- the scope opened by `function` (ghost: used to check that events are well bracketed)
  syms : List Sym          -- in declaration order
  deriving Repr, DecidableEq

structure RState where
  frames : List Frame := []         -- local tables, innermost first (`tables[1..]` reversed)
  modSyms : List (Name × SymState) := []   -- `tables[0]`, the module table (hoisted names and globals)
  funDepth : Nat := 0
  errors : Nat := 0                 -- diagnostics (and the `expect` sites of the resolver itself)
  unhoisted : Nat := 0              -- ghost: a module-level `declare` whose name the pre-pass did not declare
  captured : List Id := []          -- ids whose final state is `LocalCaptured`
  deriving Repr

/-- `SymbolTable::get`: newest symbol with that name -/
def Frame.find (f : Frame) (n : Name) : Option Sym := f.syms.reverse.find? (fun s => s.name = n)

/-- the flat scan of `resolve_variable`: innermost table first -/
def findR : List Frame → Name → Option (Frame × Sym)
  | [], _ => none
  | f :: fs, n => match f.find n with
    | some s => some (f, s)
    | none => findR fs n

def setState (n : Name) (st : SymState) : List Sym → List Sym
  | [] => []
  | s :: r => if s.name = n then { s with state := st } :: setState n st r else s :: setState n st r

/-- one resolver step; `isGlobal` = "exported by the global module" -/
def stepR (isGlobal : Name → Bool) (r : RState) : Ev → RState
  | .hoist n =>
    -- add_symbol: duplicate ⇒ diagnostic
    if r.modSyms.any (fun m => m.1 = n) then { r with errors := r.errors + 1 }
    else { r with modSyms := r.modSyms ++ [(n, .uninit)] }
  | .beginScope => { r with frames := ⟨r.funDepth, false, []⟩ :: r.frames }
  | .endScope =>
    match r.frames with
    | [] => { r with errors := r.errors + 1 }      -- would pop the module table
    | f :: fs => if f.isFun then { r with errors := r.errors + 1 }   -- ill-bracketed (cannot come from a traversal)
      else { r with frames := fs }
  | .beginFun => { r with funDepth := r.funDepth + 1, frames := ⟨r.funDepth + 1, true, []⟩ :: r.frames }
  | .endFun =>
    match r.frames with
    | [] => { r with errors := r.errors + 1 }
    | f :: fs => if r.funDepth = 0 || !f.isFun then { r with errors := r.errors + 1 }   -- ill-bracketed
      else { r with frames := fs, funDepth := r.funDepth - 1 }
  | .declare n i =>
    match r.frames with
    | [] =>
      -- `if self.tables.len() == 1 { return; }` — the pre-pass declared it (ghost check)
      if r.modSyms.any (fun m => m.1 = n) then r else { r with unhoisted := r.unhoisted + 1 }
    | f :: fs =>
      if f.syms.any (fun s => s.name = n) then { r with errors := r.errors + 1 }   -- duplicate_declaration
      else { r with frames := { f with syms := f.syms ++ [⟨n, i, .uninit⟩] } :: fs }
  | .define n =>
    match r.frames with
    | [] =>
      if r.modSyms.any (fun m => m.1 = n) then
        { r with modSyms := r.modSyms.map (fun m => if m.1 = n then (m.1, .init) else m) }
      else { r with errors := r.errors + 1 }        -- `.expect("Expected symbol")`
    | f :: fs =>
      if f.syms.any (fun s => s.name = n) then { r with frames := { f with syms := setState n .init f.syms } :: fs }
      else { r with errors := r.errors + 1 }        -- `.expect("Expected symbol")`
  | .use n =>
    match findR r.frames n with
    | some (f, s) =>
      match s.state with
      | .uninit => { r with errors := r.errors + 1 }   -- "Cannot read local variable in its own initializer." (scope_depth > 0)
      | .init => if f.funDepth < r.funDepth then { r with captured := s.id :: r.captured } else r
    | none =>
      if r.modSyms.any (fun m => m.1 = n) then r        -- module scope: deferred to run time whatever the state
      else if isGlobal n then { r with modSyms := r.modSyms ++ [(n, .init)] }   -- add_symbol_from_global
      else { r with errors := r.errors + 1 }            -- "Attempted to access undeclared variable"

def resolve (isGlobal : Name → Bool) (es : List Ev) : RState := es.foldl (stepR isGlobal) {}

/-- one compiler's scope: the locals it pushed, tagged with the function it belongs to -/
structure CFrame where
  funDepth : Nat
  locals : List (Name × Id)
  deriving Repr, DecidableEq

structure CState where
  frames : List CFrame := []    -- innermost first; the frames with `funDepth = d` are the locals of the compiler at depth d
  funDepth : Nat := 0
  ok : Bool := true             -- false = one of the `panic!` / `expect` sites was reached
  deriving Repr, DecidableEq

def findIn (locals : List (Name × Id)) (n : Name) : Option Id :=
  (locals.reverse.find? (fun l => l.1 = n)).map (·.2)

/-- `self.locals.iter().rev()` of the compiler at depth `d` -/
def resolveLocalF : List CFrame → Nat → Name → Option Id
  | [], _, _ => none
  | f :: fs, d, n =>
    if f.funDepth = d then
      match findIn f.locals n with
      | some i => some i
      | none => resolveLocalF fs d n
    else resolveLocalF fs d n

inductive Found where
  | loc (i : Id)
  | module
  deriving Repr, DecidableEq

/-- `Compiler::resolve_local`: own locals, then (script compiler only) the module table -/
def resolveLocal (frames : List CFrame) (mods : List Name) (d : Nat) (n : Name) : Option Found :=
  match resolveLocalF frames d n with
  | some i => some (.loc i)
  | none => if d = 0 ∧ mods.contains n then some .module else none

/-- `Compiler::resolve_capture`: the `enclosing` chain -/
def resolveCapture (frames : List CFrame) (mods : List Name) : Nat → Name → Option Found
  | 0, _ => none
  | d + 1, n =>
    match resolveLocal frames mods d n with
    | some f => some f
    | none => resolveCapture frames mods d n

/-- `variable_get` / `variable_set` (non-REPL): does it avoid the `panic!` arms? -/
def useC (frames : List CFrame) (mods : List Name) (cap : Id → Bool) (d : Nat) (n : Name) : Bool :=
  match resolveLocal frames mods d n with
  | some _ => true
  | none =>
    match resolveCapture frames mods d n with
    | some (.loc i) => cap i        -- `LocalInitialized` here is the "Unexpected symbol … with state" panic
    | some .module => true
    | none => false                 -- "Symbol … not found in …"

/-- one compiler step; `mods` = names of the final module table, `cap` = final captured-ness -/
def stepC (mods : List Name) (cap : Id → Bool) (c : CState) : Ev → CState
  | .hoist _ => c
  | .beginScope => { c with frames := ⟨c.funDepth, []⟩ :: c.frames }
  | .endScope =>
    match c.frames with
    | [] => { c with ok := false }
    | _ :: fs => { c with frames := fs }
  | .beginFun => { c with funDepth := c.funDepth + 1, frames := ⟨c.funDepth + 1, []⟩ :: c.frames }
  | .endFun =>
    match c.frames with
    | [] => { c with ok := false }
    | _ :: fs => if c.funDepth = 0 then { c with ok := false } else { c with frames := fs, funDepth := c.funDepth - 1 }
  | .declare n i =>
    match c.frames with
    | [] => if mods.contains n then c else { c with ok := false }   -- load_module_variable: `.expect("Expected symbol.")`
    | f :: fs => { c with frames := { f with locals := f.locals ++ [(n, i)] } :: fs }
  | .define _ => c
  | .use n => if useC c.frames mods cap c.funDepth n then c else { c with ok := false }

def compile (mods : List Name) (cap : Id → Bool) (es : List Ev) : CState := es.foldl (stepC mods cap) {}

/-- the compiler run that follows a resolver run -/
def compileAfter (isGlobal : Name → Bool) (resolverEvents compilerEvents : List Ev) : CState :=
  let r := resolve isGlobal resolverEvents
  compile (r.modSyms.map (·.1)) (fun i => r.captured.contains i) compilerEvents

/-! ### AST → events, in the resolver's and in the compiler's traversal order -/

/-- names that cannot be written by a user -/
def nSelf : Name := 0
def nSuper : Name := 1
def nIter : Name := 2
def nUninit : Name := 3

mutual
  /-- scoping skeleton of the AST; every declaring construct carries the id of its declaration (hidden names are
  declared with id `0`) -/
  inductive Item where
    | use (n : Name)
    | letD (n : Name) (i : Id) (init : Items)
    | funD (n : Name) (i : Id) (params : List (Name × Id)) (body : Items)
    | lam (params : List (Name × Id)) (body : Items)
    | block (body : Items)                                  -- bodies of if / while / try
    | forD (x : Name) (i : Id) (iter : Items) (body : Items)
    | catchD (n : Name) (i : Id) (cls : Name) (body : Items)
  /-- `List Item`, as a mutual inductive so that recursion and induction are structural -/
  inductive Items where
    | nil
    | cons (hd : Item) (tl : Items)
end

def Items.ofList : List Item → Items
  | [] => .nil
  | i :: r => .cons i (Items.ofList r)

mutual
  /-- resolver.rs: `let_`, `fun`, `lambda`/`function`, `block`/`scope`, `for_` (the iterable is resolved before `$iter`
  and the item are declared), `try_`/`catch` (the class — or the default `Error` — is resolved before the catch variable is
  declared).  The order of the actions of `for_`/`catch` is tied to the Rust text by the generated table
  `Gen.scopeOrder` (`C15_scope_order_gen`). -/
  def Item.revs : Item → List Ev
    | .use n => [.use n]
    | .letD n i init => [.declare n i] ++ Items.revs init ++ [.define n]
    | .funD n i ps b => [.declare n i, .define n, .beginFun, .declare nUninit 0, .define nUninit] ++
        (ps.flatMap fun p => [.declare p.1 p.2, .define p.1]) ++ Items.revs b ++ [.endFun]
    | .lam ps b => [.beginFun, .declare nUninit 0, .define nUninit] ++
        (ps.flatMap fun p => [.declare p.1 p.2, .define p.1]) ++ Items.revs b ++ [.endFun]
    | .block b => [.beginScope] ++ Items.revs b ++ [.endScope]
    | .forD x i it b => [.beginScope] ++ Items.revs it ++
        [.declare nIter 0, .define nIter, .declare x i, .define x, .beginScope] ++ Items.revs b ++ [.endScope, .endScope]
    | .catchD n i cls b => [.beginScope, .use cls, .declare n i, .define n, .beginScope] ++ Items.revs b ++
        [.endScope, .endScope]
  def Items.revs : Items → List Ev
    | .nil => []
    | .cons i r => Item.revs i ++ Items.revs r
end

mutual
  /-- compiler/mod.rs: `let_`, `fun`, `function`, `scope`, `for_` (iterable first), `catch` (class first) -/
  def Item.cevs : Item → List Ev
    | .use n => [.use n]
    | .letD n i init => [.declare n i] ++ Items.cevs init ++ [.define n]
    | .funD n i ps b => [.declare n i, .beginFun, .declare nUninit 0] ++ (ps.map fun p => .declare p.1 p.2) ++
        Items.cevs b ++ [.endFun, .define n]
    | .lam ps b => [.beginFun, .declare nUninit 0] ++ (ps.map fun p => .declare p.1 p.2) ++ Items.cevs b ++ [.endFun]
    | .block b => [.beginScope] ++ Items.cevs b ++ [.endScope]
    | .forD x i it b => [.beginScope] ++ Items.cevs it ++
        [.declare nIter 0, .define nIter, .declare x i, .define x, .beginScope] ++ Items.cevs b ++ [.endScope, .endScope]
    | .catchD n i cls b => [.beginScope, .use cls, .declare n i, .define n, .beginScope] ++ Items.cevs b ++
        [.endScope, .endScope]
  def Items.cevs : Items → List Ev
    | .nil => []
    | .cons i r => Item.cevs i ++ Items.cevs r
end

/-- `declare_module_scoped`: the names the module-level declarations introduce -/
def hoistOf : Items → List Ev
  | .nil => []
  | .cons (.letD n _ _) r => .hoist n :: hoistOf r
  | .cons (.funD n _ _ _) r => .hoist n :: hoistOf r
  | .cons _ r => hoistOf r

def resolverEvents (prog : Items) : List Ev := hoistOf prog ++ Items.revs prog
def compilerEvents (prog : Items) : List Ev := Items.cevs prog

/-- drop what the compiler's lookups ignore -/
def eraseDefs (es : List Ev) : List Ev :=
  es.filter fun e => match e with
    | .define _ => false
    | .hoist _ => false
    | _ => true

end LaytheVerif.Contract
