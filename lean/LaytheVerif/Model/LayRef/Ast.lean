/-!
# LayRef — abstract syntax of the Laythe core language

The reference interpreter works on this AST, never on text.  `vlib/layref.py` builds the same AST in
Python, renders it as Laythe source (many layouts) for the implementation and as an S-expression
(`LayRef/Sexp.lean`) for this interpreter.

Grouping parentheses are *not* part of the AST: they are a rendering choice.
-/
namespace LaytheVerif.LayRef

/-- Binary operators that evaluate both operands (`ops.rs`: `op_add` … `op_not_equal`). -/
inductive BinOp where
  | add | sub | mul | div | lt | le | gt | ge | eq | ne
  deriving DecidableEq, Repr, Inhabited

inductive UnOp where
  | not | neg
  deriving DecidableEq, Repr, Inhabited

/-- `=` or a compound assignment `+= -= *= /=`. -/
inductive AssignOp where
  | set | add | sub | mul | div
  deriving DecidableEq, Repr, Inhabited

def AssignOp.binop : AssignOp → Option BinOp
  | .set => none | .add => some .add | .sub => some .sub | .mul => some .mul | .div => some .div

mutual
  inductive Expr where
    | nil
    | bool (b : Bool)
    | num (f : Float)
    | str (s : String)
    /-- `"a ${e} b"`: literal segments are `.str`, every segment goes through `str()` (identity on strings). -/
    | interp (parts : List Expr)
    | var (x : String)
    | self
    /-- `super.m` -/
    | super (m : String)
    | un (op : UnOp) (e : Expr)
    | bin (op : BinOp) (a b : Expr)
    | and (a b : Expr)
    | or (a b : Expr)
    | tern (c t e : Expr)
    | assignVar (op : AssignOp) (x : String) (e : Expr)
    | assignProp (op : AssignOp) (obj : Expr) (name : String) (e : Expr)
    | assignIndex (op : AssignOp) (obj idx : Expr) (e : Expr)
    | call (f : Expr) (args : List Expr)
    | prop (obj : Expr) (name : String)
    | index (obj idx : Expr)
    | list (items : List Expr)
    | tuple (items : List Expr)
    | map (entries : List (Expr × Expr))
    /-- `name` is what the implementation calls the function object in arity errors: the name of the innermost `let`
    whose initializer lexically contains the lambda (`Parser::let_name`), else "lambda" -/
    | lambda (name : String) (params : List String) (body : FunBody)

  inductive FunBody where
    | expr (e : Expr)
    | block (body : List Stmt)

  inductive Stmt where
    | let_ (x : String) (init : Option Expr)
    | fn (name : String) (params : List String) (body : List Stmt)
    /-- `class name : super { init(..){..} methods… static methods… }` -/
    | class_ (name : String) (super : Option String) (init : Option (List String × List Stmt))
        (methods : List (String × List String × List Stmt)) (statics : List (String × List String × List Stmt))
    | expr (e : Expr)
    /-- trailing expression without `;` at the end of a function body -/
    | implicitReturn (e : Expr)
    | if_ (c : Expr) (thn : List Stmt) (els : Option (List Stmt))
    | while_ (c : Expr) (body : List Stmt)
    | for_ (x : String) (iter : Expr) (body : List Stmt)
    | break_
    | continue_
    | return_ (e : Option Expr)
    | try_ (body : List Stmt) (catches : List (String × Option String × List Stmt))
    | raise (e : Expr)
end

instance : Inhabited Expr := ⟨.nil⟩
instance : Inhabited Stmt := ⟨.break_⟩
instance : Inhabited FunBody := ⟨.block []⟩

abbrev Program := List Stmt

end LaytheVerif.LayRef
