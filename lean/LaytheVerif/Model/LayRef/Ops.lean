import LaytheVerif.Model.LayRef.Ast
/-!
# LayRef — values and the meaning of the operators, written from the language rules

`binop`/`unop` here are the *Spec* of the operators (README "Basic Types", `laythe.bnf`, and the
documented runtime errors).  `Model/Machine.lean` has the same operators written in the branch order
of `vm/ops.rs`; `Props/C01.lean` proves the two equal (`C01_ops_agree`).
-/
namespace LaytheVerif.LayRef

/-- Runtime values.  Everything that lives on the heap (list, map, tuple, instance, class, closure,
bound method, native, iterator) is a reference with an immutable identity. -/
inductive Value where
  | nil
  | bool (b : Bool)
  | num (f : Float)
  | str (s : String)
  | ref (id : Nat)
  deriving Inhabited

/-- An error raised by an operator: (builtin error class, message). -/
abbrev OpErr := String × String

/-- nil and false are the only falsey values. -/
def Value.falsey : Value → Bool
  | .nil => true
  | .bool false => true
  | _ => false

/-- Strings are ordered by code point, lexicographically (shorter prefix first). -/
def lexLt : List Char → List Char → Bool
  | [], [] => false
  | [], _ :: _ => true
  | _ :: _, [] => false
  | a :: as, b :: bs => a.toNat < b.toNat || (a.toNat == b.toNat && lexLt as bs)

def strLt (s t : String) : Bool := lexLt s.toList t.toList

/-- Language equality: numbers by IEEE `==` (so `NaN != NaN`, `0 == -0`), strings by content,
nil/bool by value, heap objects by identity, different kinds never equal. -/
def Value.equals : Value → Value → Bool
  | .nil, .nil => true
  | .bool a, .bool b => a == b
  | .num a, .num b => a == b
  | .str a, .str b => a == b
  | .ref a, .ref b => a == b
  | _, _ => false

/-- What a pair of operands looks like to an arithmetic/comparison operator. -/
inductive Operands where
  | numbers (x y : Float)
  | strings (s t : String)
  | other

def Operands.of : Value → Value → Operands
  | .num x, .num y => .numbers x y
  | .str s, .str t => .strings s t
  | _, _ => .other

def errTwoNumbersOrStrings : OpErr := ("RuntimeError", "Operands must be two numbers or two strings.")
def errNumbers : OpErr := ("RuntimeError", "Operands must be numbers.")
def errNumbersOrStrings : OpErr := ("RuntimeError", "Operands must be numbers or strings.")
def errNumber : OpErr := ("RuntimeError", "Operand must be a number.")

/-- The binary operators (both operands already evaluated, left first). -/
def binop (op : BinOp) (a b : Value) : Except OpErr Value :=
  match op with
  | .eq => .ok (.bool (a.equals b))
  | .ne => .ok (.bool (!a.equals b))
  | .add =>
    match Operands.of a b with
    | .numbers x y => .ok (.num (x + y))
    | .strings s t => .ok (.str (s ++ t))
    | .other => .error errTwoNumbersOrStrings
  | .sub | .mul | .div =>
    match Operands.of a b with
    | .numbers x y => .ok (.num (match op with | .sub => x - y | .mul => x * y | _ => x / y))
    | _ => .error errNumbers
  | .lt | .le | .gt | .ge =>
    match Operands.of a b with
    | .numbers x y => .ok (.bool (match op with | .lt => x < y | .le => x ≤ y | .gt => x > y | _ => x ≥ y))
    | .strings s t => .ok (.bool (match op with
        | .lt => strLt s t | .le => !strLt t s | .gt => strLt t s | _ => !strLt s t))
    -- the wording of the error differs between `<` and the other three in the pinned code
    | .other => .error (if op = .lt then errNumbers else errNumbersOrStrings)

def unop (op : UnOp) (a : Value) : Except OpErr Value :=
  match op, a with
  | .not, v => .ok (.bool v.falsey)
  | .neg, .num x => .ok (.num (-x))
  | .neg, _ => .error errNumber

end LaytheVerif.LayRef
