/-!
# LayRef — printing numbers exactly as Rust's `{}` does for `f64`

Rust prints the shortest decimal that round-trips, without exponent, `inf`, `-inf`, `NaN`, `-0`.
Everything is exact `Nat` arithmetic on the bit pattern; `Float` operations are not used.
-/
namespace LaytheVerif.LayRef.Fmt

/-- `a/b ≤ c/d` etc. on positive rationals given as numerator/denominator. -/
structure Q where
  n : Nat
  d : Nat

def Q.le (a b : Q) : Bool := a.n * b.d ≤ b.n * a.d
def Q.lt (a b : Q) : Bool := a.n * b.d < b.n * a.d
/-- |a - b| as a rational -/
def Q.dist (a b : Q) : Q :=
  let x := a.n * b.d
  let y := b.n * a.d
  ⟨if x ≥ y then x - y else y - x, a.d * b.d⟩

/-- value `m * 2^e` (e possibly negative) as a rational -/
def pow2Q (m : Nat) (e : Int) : Q :=
  if e ≥ 0 then ⟨m * 2 ^ e.toNat, 1⟩ else ⟨m, 2 ^ (-e).toNat⟩

/-- `D * 10^q` as a rational -/
def decQ (D : Nat) (q : Int) : Q :=
  if q ≥ 0 then ⟨D * 10 ^ q.toNat, 1⟩ else ⟨D, 10 ^ (-q).toNat⟩

/-- number of decimal digits of the integer part: the `n` with `10^(n-1) ≤ x < 10^n` (may be ≤ 0) -/
def magnitude (x : Q) : Int := Id.run do
  -- start from a bit-length estimate and adjust
  let bl : Int := (Nat.log2 x.n : Int) - (Nat.log2 x.d : Int)
  let mut n : Int := bl * 30103 / 100000
  for _ in [0:8] do
    if (decQ 1 n).le x then n := n + 1   -- 10^n ≤ x  → too small
  for _ in [0:8] do
    if x.lt (decQ 1 (n - 1)) then n := n - 1
  return n

def stripZeros (D : Nat) (q : Int) : Nat × Int := Id.run do
  let mut D := D
  let mut q := q
  for _ in [0:400] do
    if D != 0 && D % 10 == 0 then
      D := D / 10
      q := q + 1
  return (D, q)

def positional (D : Nat) (q : Int) : String :=
  let (D, q) := stripZeros D q
  let ds := toString D
  if q ≥ 0 then ds ++ String.ofList (List.replicate q.toNat '0')
  else
    let k := (-q).toNat
    if ds.length > k then
      let cs := ds.toList
      String.ofList (cs.take (ds.length - k)) ++ "." ++ String.ofList (cs.drop (ds.length - k))
    else "0." ++ String.ofList (List.replicate (k - ds.length) '0') ++ ds

/-- shortest round-trip digits of the positive finite double with integer significand `m`,
binary exponent `e` (value `m·2^e`); `lowerHalf` says the gap below is half the gap above. -/
def shortest (m : Nat) (e : Int) (lowerHalf : Bool) : String := Id.run do
  let x := pow2Q m e
  -- interval of reals that round to x: [x - gl/2, x + gu/2], gu = 2^e, gl = 2^e or 2^(e-1)
  let hi := pow2Q (2 * m + 1) (e - 1)
  let lo := if lowerHalf then pow2Q (4 * m - 1) (e - 2) else pow2Q (2 * m - 1) (e - 1)
  let inclusive := m % 2 == 0
  let inside (v : Q) : Bool := if inclusive then lo.le v && v.le hi else lo.lt v && v.lt hi
  let n := magnitude x
  let mut best : Option (Nat × Int) := none
  for k in [1:18] do
    if best.isNone then
      let q : Int := n - (k : Int)
      -- floor(x / 10^q)
      let Df : Nat := if q ≥ 0 then x.n / (x.d * 10 ^ q.toNat) else (x.n * 10 ^ (-q).toNat) / x.d
      let c1 := decQ Df q
      let c2 := decQ (Df + 1) q
      let ok1 := Df != 0 && inside c1
      let ok2 := inside c2
      if ok1 && ok2 then
        let d1 := x.dist c1
        let d2 := x.dist c2
        if d1.lt d2 then best := some (Df, q)
        else if d2.lt d1 then best := some (Df + 1, q)
        else best := some (Df + 1, q)   -- Rust's `format_shortest` rounds a tie up
      else if ok1 then best := some (Df, q)
      else if ok2 then best := some (Df + 1, q)
  match best with
  | some (D, q) => return positional D q
  | none => return "?"

/-- Rust `format!("{}", f64::from_bits(bits))` -/
def ofBits (bits : Nat) : String :=
  let sign : Nat := bits / 2 ^ 63 % 2
  let ex : Nat := bits / 2 ^ 52 % 2048
  let frac : Nat := bits % 2 ^ 52
  let neg := if sign == 1 then "-" else ""
  if ex == 2047 then
    if frac == 0 then neg ++ "inf" else "NaN"
  else if ex == 0 && frac == 0 then neg ++ "0"
  else if ex == 0 then neg ++ shortest frac (-1074) false
  else neg ++ shortest (2 ^ 52 + frac) ((ex : Int) - 1075) (frac == 0 && ex > 1)

def float (f : Float) : String := ofBits f.toBits.toNat

end LaytheVerif.LayRef.Fmt
