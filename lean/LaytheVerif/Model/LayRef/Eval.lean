import LaytheVerif.Model.LayRef.Ops
import LaytheVerif.Model.LayRef.Fmt
/-!
# LayRef — the definitional interpreter

Source-level meaning of the Laythe core language: environments of shared mutable cells, a heap of
objects with immutable identities, classes with explicit most-derived-first method lookup and field
sets, errors as a result (`Res.err` carrying the error *instance*), a step budget (`St.fuel`).
It deliberately does **not** model slots, boxes, jumps, inline caches, forwarding, interning or
collection.  It is an oracle for sampled programs, not the subject of a theorem; the functions are
`partial` (termination comes from the step budget, which `tick` decrements on every node).

Rust anchors are cited where the *observable* behaviour (message text, evaluation order) was read off
the code: `compiler/mod.rs` (evaluation order of assignment forms, `for`, `try`, classes),
`vm/ops.rs` (operators, calls, properties), `laythe_lib/src/global/**` (natives).
-/
namespace LaytheVerif.LayRef

/-- variable name → cell index (innermost binding first) -/
abbrev Env := List (String × Nat)

inductive FunKind where
  | fn | method | init | static
  deriving BEq, Inhabited, Repr

structure Closure where
  name : String
  params : List String
  body : FunBody
  env : Env
  kind : FunKind
  /-- the class whose body declared this method (for `super`) -/
  owner : Option Nat
  deriving Inhabited

structure ClassData where
  name : String
  super : Option Nat
  /-- all fields of instances: inherited first, then those assigned through `self.` in `init` -/
  fields : List String
  /-- methods declared by this class only; lookup walks `super` (most-derived first) -/
  methods : List (String × Value)
  statics : List (String × Value)
  deriving Inhabited

inductive IterSrc where
  | times (max : Float)
  | list (id : Nat)
  | tuple (id : Nat)
  | chars (cs : Array Char)
  deriving Inhabited

structure IterData where
  src : IterSrc
  /-- `times`: the current number (starts at -1); others: next index to read -/
  idx : Int
  current : Value
  deriving Inhabited

inductive Obj where
  | list (items : Array Value)
  | tuple (items : Array Value)
  | map (entries : Array (Value × Value))
  | inst (cls : Nat) (fields : List (String × Value))
  | cls (c : ClassData)
  | closure (c : Closure)
  | bound (recv : Value) (fn : Value)
  | boundNative (recv : Value) (kind : String) (name : String)
  | native (name : String)
  | iter (d : IterData)
  deriving Inhabited

structure St where
  heap : Array Obj := #[]
  cells : Array Value := #[]
  /-- module symbols and builtins, late bound -/
  globals : List (String × Value) := []
  out : String := ""
  fuel : Nat := 0
  depth : Nat := 0
  deriving Inhabited

inductive Res (α : Type) where
  | ok (a : α)
  /-- a raised error: always a reference to an instance of a subclass of `Error` -/
  | err (e : Value)
  | fuel
  | unsupported (what : String)
  deriving Inhabited

abbrev M (α : Type) := St → St × Res α

instance : Monad M where
  pure a := fun st => (st, .ok a)
  bind m f := fun st =>
    match m st with
    | (st, .ok a) => f a st
    | (st, .err e) => (st, .err e)
    | (st, .fuel) => (st, .fuel)
    | (st, .unsupported w) => (st, .unsupported w)

instance {α} : Inhabited (M α) := ⟨fun st => (st, .unsupported "inhabited")⟩

def unsupported {α} (w : String) : M α := fun st => (st, .unsupported w)
def getSt : M St := fun st => (st, .ok st)
def modifySt (f : St → St) : M Unit := fun st => (f st, .ok ())

def tick : M Unit := fun st =>
  match st.fuel with
  | 0 => (st, .fuel)
  | n + 1 => ({ st with fuel := n }, .ok ())

def alloc (o : Obj) : M Nat := fun st => ({ st with heap := st.heap.push o }, .ok st.heap.size)
def allocV (o : Obj) : M Value := do return .ref (← alloc o)
def getObj (id : Nat) : M Obj := fun st => (st, .ok (st.heap[id]!))
def setObj (id : Nat) (o : Obj) : M Unit := modifySt fun st => { st with heap := st.heap.set! id o }
def newCell (v : Value) : M Nat := fun st => ({ st with cells := st.cells.push v }, .ok st.cells.size)
def readCell (c : Nat) : M Value := fun st => (st, .ok (st.cells[c]!))
def writeCell (c : Nat) (v : Value) : M Unit := modifySt fun st => { st with cells := st.cells.set! c v }
def emit (s : String) : M Unit := modifySt fun st => { st with out := st.out ++ s }

def lookupGlobal (x : String) : M (Option Value) := fun st => (st, .ok (st.globals.lookup x))
def setGlobal (x : String) (v : Value) : M Unit := modifySt fun st =>
  { st with globals := (x, v) :: st.globals.filter (fun p => p.1 != x) }

/-! ## builtin classes (`laythe_lib/src/global/primitives/*.rs`, all error classes derive `Error` directly) -/

def errorClassNames : List String :=
  ["TypeError", "FormatError", "ValueError", "IndexError", "DeadLockError", "ChannelError", "SyntaxError",
   "ImportError", "ExportError", "RuntimeError", "PropertyError", "MethodNotFoundError", "KeyError", "AssertError"]

def primitiveClassNames : List String :=
  ["Nil", "Bool", "Number", "String", "List", "Tuple", "Map", "Fun", "Native", "Method", "Iter", "Class"]

/-- heap ids 0.. of the builtin classes, in this order: Object, Error, the error classes, the primitive classes -/
def builtinClassNames : List String := ["Object", "Error"] ++ errorClassNames ++ primitiveClassNames

def classIdOf (name : String) : Nat := (builtinClassNames.findIdx? (· == name)).getD 0

def objectId : Nat := 0
def errorId : Nat := 1

def nativeFunctions : List String := ["print", "assert", "assertEq"]

def initialState (fuel : Nat) : St := Id.run do
  let mut heap : Array Obj := #[]
  let mut globals : List (String × Value) := []
  for name in builtinClassNames do
    let sup : Option Nat := if name == "Object" then none else if errorClassNames.contains name then some errorId else some objectId
    let fields := if name == "Error" || errorClassNames.contains name then ["message", "backTrace", "inner"] else []
    globals := (name, .ref heap.size) :: globals
    heap := heap.push (.cls { name, super := sup, fields, methods := [], statics := [] })
  -- Error.init is a native method (`ErrorInit`)
  let initId := heap.size
  heap := heap.push (.native "Error.init")
  heap := heap.set! errorId (.cls { name := "Error", super := some objectId, fields := ["message", "backTrace", "inner"],
                                    methods := [("init", .ref initId)], statics := [] })
  for name in nativeFunctions do
    globals := (name, .ref heap.size) :: globals
    heap := heap.push (.native name)
  return { heap, globals, fuel }

/-! ## classes -/

partial def findMethod (heap : Array Obj) (cls : Nat) (name : String) : Option Value :=
  match heap[cls]! with
  | .cls c =>
    match c.methods.lookup name with
    | some m => some m
    | none => match c.super with
      | some s => findMethod heap s name
      | none => none
  | _ => none

partial def isSubclass (heap : Array Obj) (cls target : Nat) : Bool :=
  cls == target ||
    match heap[cls]! with
    | .cls c => match c.super with
      | some s => isSubclass heap s target
      | none => false
    | _ => false

def className (heap : Array Obj) (cls : Nat) : String :=
  match heap[cls]! with
  | .cls c => c.name
  | _ => "?"

/-- name of the class of a value as `Vm::value_class(..).name()` reports it -/
def valueClassName (heap : Array Obj) : Value → String
  | .nil => "Nil" | .bool _ => "Bool" | .num _ => "Number" | .str _ => "String"
  | .ref id =>
    match heap[id]! with
    | .list _ => "List" | .tuple _ => "Tuple" | .map _ => "Map"
    | .inst c _ => className heap c
    | .cls c => c.name ++ " metaClass"
    | .closure _ => "Fun"
    | .bound _ _ => "Method" | .boundNative _ _ _ => "Method"
    | .native _ => "Native"
    | .iter _ => "Iter"

/-- which native-method table applies to a value -/
def valueKind (heap : Array Obj) : Value → String
  | .nil => "Nil" | .bool _ => "Bool" | .num _ => "Number" | .str _ => "String"
  | .ref id =>
    match heap[id]! with
    | .list _ => "List" | .tuple _ => "Tuple" | .map _ => "Map"
    | .inst _ _ => "Instance"
    | .cls _ => "Class"
    | .closure _ => "Fun"
    | .bound _ _ => "Method" | .boundNative _ _ _ => "Method"
    | .native _ => "Native"
    | .iter _ => "Iter"

/-- `ParameterKind::from(value)` as displayed in signature errors -/
def paramKindName (heap : Array Obj) : Value → String
  | .bool _ => "boolean" | .num _ => "number" | .nil => "object" | .str _ => "object"
  | .ref id =>
    match heap[id]! with
    | .closure _ | .bound _ _ | .boundNative _ _ _ | .native _ => "callable"
    | _ => "object"

inductive PKind where
  | any | number | bool | string
  deriving BEq, Inhabited

def PKind.name : PKind → String
  | .any => "object" | .number => "number" | .bool => "boolean" | .string => "string"

def PKind.accepts : PKind → Value → Bool
  | .any, _ => true
  | .number, .num _ => true
  | .bool, .bool _ => true
  | .string, .str _ => true
  | _, _ => false

inductive Arity where
  | fixed (n : Nat) | variadic (min : Nat) | default (lo hi : Nat)
  deriving Inhabited

/-- (arity, parameters) of the natives LayRef implements, keyed by receiver kind ("" = function) and name -/
def nativeSig : String → String → Option (Arity × List (String × PKind))
  | "", "print" => some (.variadic 0, [("values", .any)])
  | "", "assert" => some (.fixed 1, [("value", .bool)])
  | "", "assertEq" => some (.fixed 2, [("actual", .any), ("expected", .any)])
  | "Error", "init" => some (.default 1 2, [("message", .string), ("inner", .any)])
  | "Number", "times" => some (.fixed 0, [])
  | "String", "len" => some (.fixed 0, [])
  | "String", "[]" => some (.fixed 1, [("index", .number)])
  | "String", "iter" => some (.fixed 0, [])
  | "List", "len" => some (.fixed 0, [])
  | "List", "push" => some (.variadic 0, [("values", .any)])
  | "List", "pop" => some (.fixed 0, [])
  | "List", "[]" => some (.fixed 1, [("index", .number)])
  | "List", "[]=" => some (.fixed 2, [("val", .any), ("index", .number)])
  | "List", "index" => some (.fixed 1, [("value", .any)])
  | "List", "has" => some (.fixed 1, [("val", .any)])
  | "List", "iter" => some (.fixed 0, [])
  | "Tuple", "len" => some (.fixed 0, [])
  | "Tuple", "[]" => some (.fixed 1, [("index", .number)])
  | "Tuple", "iter" => some (.fixed 0, [])
  | "Map", "len" => some (.fixed 0, [])
  | "Map", "[]" => some (.fixed 1, [("key", .any)])
  | "Map", "[]=" => some (.fixed 2, [("key", .any), ("val", .any)])
  | "Map", "has" => some (.fixed 1, [("key", .any)])
  | "Map", "get" => some (.fixed 1, [("key", .any)])
  | "Iter", "next" => some (.fixed 0, [])
  | "Iter", "current" => some (.fixed 0, [])
  | "Iter", "iter" => some (.fixed 0, [])
  | "Class", "name" => some (.fixed 0, [])
  | "Class", "superCls" => some (.fixed 0, [])
  | _, "str" => some (.fixed 0, [])
  | _, "cls" => some (.fixed 0, [])
  | _, _ => none

/-- native methods exist for every kind except that instances/classes only get the `Object` ones -/
def hasNativeMethod (kind name : String) : Bool :=
  kind != "" && kind != "Error" && (nativeSig kind name).isSome

/-! ## raising -/

def raise {α} (cls msg : String) : M α := fun st =>
  let inst := Obj.inst (classIdOf cls) [("message", .str msg), ("backTrace", .nil), ("inner", .nil)]
  ({ st with heap := st.heap.push inst }, .err (.ref st.heap.size))

def raiseOp {α} (e : OpErr) : M α := raise e.1 e.2

def liftOp (r : Except OpErr Value) : M Value :=
  match r with
  | .ok v => pure v
  | .error e => raiseOp e

/-- run `m`; hand both outcomes to the continuation (used by `try`) -/
def tryCatch {α β} (m : M α) (k : Res α → M β) : M β := fun st =>
  match m st with
  | (st, .fuel) => (st, .fuel)
  | (st, .unsupported w) => (st, .unsupported w)
  | (st, r) => k r st

/-! ## statements: how a statement list ends -/

inductive Completion where
  | normal
  | brk
  | cont
  | ret (v : Value)
  deriving Inhabited

/-- fields assigned through `self.x = …` / `self.x op= …` directly in an initializer (`record_field`);
nested blocks count, nested functions do not -/
partial def initFields : List Stmt → List String
  | [] => []
  | s :: rest =>
    let rec fe : Expr → List String
      | .assignProp _ .self n e => n :: fe e
      | .assignProp _ o _ e => fe o ++ fe e
      | .assignVar _ _ e => fe e
      | .assignIndex _ o i e => fe o ++ fe e ++ fe i
      | .un _ e => fe e
      | .bin _ a b | .and a b | .or a b => fe a ++ fe b
      | .tern c t e => fe c ++ fe t ++ fe e
      | .call f args => fe f ++ args.flatMap fe
      | .prop o _ => fe o
      | .index o i => fe o ++ fe i
      | .list es | .tuple es | .interp es => es.flatMap fe
      | .map es => es.flatMap fun (k, v) => fe k ++ fe v
      | _ => []
    let here := match s with
      | .let_ _ (some e) | .expr e | .implicitReturn e | .raise e | .return_ (some e) => fe e
      | .if_ c t e => fe c ++ initFields t ++ (match e with | some e => initFields e | none => [])
      | .while_ c b => fe c ++ initFields b
      | .for_ _ e b => fe e ++ initFields b
      | .try_ b cs => initFields b ++ cs.flatMap fun (_, _, ss) => initFields ss
      | _ => []
    here ++ initFields rest

def dedup (xs : List String) : List String :=
  xs.foldl (fun acc x => if acc.contains x then acc else acc ++ [x]) []

/-- `determine_index` of list.rs / tuple.rs / string.rs -/
def determineIndex (what : String) (len : Nat) (f : Float) : Except String Nat :=
  if f.isNaN || f.isInf || f.floor != f then .error "Index must be an integer."
  else if f < 0.0 then
    let n := (-f).toUInt64.toNat
    if n > len then .error s!"Index out of bounds. {what} was length {len} but attempted to index with -{n}."
    else .ok (len - n)
  else
    let n := f.toUInt64.toNat
    if n ≥ len then .error s!"Index out of bounds. {what} was length {len} but attempted to index with {n}."
    else .ok n

def checkArity (name : String) (ar : Arity) (n : Nat) : M Unit :=
  match ar with
  | .fixed k => if n != k then raise "RuntimeError" s!"{name} expected {k} argument(s) but received {n}." else pure ()
  | .variadic k => if n < k then raise "RuntimeError" s!"{name} expected at least {k} argument(s) but received {n}." else pure ()
  | .default lo hi =>
    if n < lo then raise "RuntimeError" s!"{name} expected at least {lo} argument(s) but received {n}."
    else if n > hi then raise "RuntimeError" s!"{name} expected at most {hi} argument(s) but received {n}."
    else pure ()

/-- `Native::check_if_valid_call` -/
def checkNativeCall (kind name : String) (args : List Value) : M Unit := do
  match nativeSig kind name with
  | none => unsupported s!"native {kind}.{name}"
  | some (ar, params) =>
    checkArity name ar args.length
    let st ← getSt
    let bad : Option (String × PKind × Value) :=
      match ar with
      | .variadic k =>
        let fixedBad := ((args.zip params).take k).find? fun (a, p) => !p.2.accepts a
        match fixedBad, params[k]? with
        | some (a, p), _ => some (p.1, p.2, a)
        | none, some vp => ((args.drop k).find? fun a => !vp.2.accepts a).map fun a => (vp.1, vp.2, a)
        | none, none => none
      | _ => ((args.zip params).find? fun (a, p) => !p.2.accepts a).map fun (a, p) => (p.1, p.2, a)
    match bad, ar with
    | some _, .default _ _ => raise "RuntimeError" "todo"
    | some (pn, pk, a), _ =>
      raise "RuntimeError" s!"{name}'s parameter \"{pn}\" required a {pk.name} but received a {paramKindName st.heap a}."
    | none, _ => pure ()

def maxFrames : Nat := 255

/-- natives of `nativeSig` declared `.with_stack()` (`NativeEnvironment::Normal`), other than the `str` of lists, maps and
    tuples (those are accounted for in `strOf`): `call_native` runs them under a stub frame that counts toward the frame
    limit like any other frame (tied to the regenerated table by `C01_layref_stack_natives` in `Props/C01.lean`) -/
def nativeUsesStack : String → String → Bool
  | "", "print" | "", "assertEq" => true
  | "List", "[]" | "List", "[]=" | "Map", "[]" | "String", "[]" | "Tuple", "[]" => true
  | _, _ => false

/-- `call_native`, arm `NativeEnvironment::Normal`: at the frame limit the call raises `Stack overflow.` instead of
    pushing the stub frame; otherwise the body runs one frame deeper -/
def withStubFrame {α} (body : M α) : M α := do
  let st ← getSt
  if st.depth + 1 ≥ maxFrames then raise "RuntimeError" "Stack overflow."
  modifySt fun st => { st with depth := st.depth + 1 }
  fun st =>
    match body st with
    | (st, r) => ({ st with depth := st.depth - 1 }, r)

mutual

  /-- the `str()` protocol as used by `print`, interpolation and the collection printers -/
  partial def strOf (v : Value) : M String := do
    tick
    match v with
    | .nil => return "nil"
    | .bool b => return (if b then "true" else "false")
    | .num f => return Fmt.float f
    | .str s => return s
    | .ref id =>
      match ← getObj id with
      -- `List.str` / `Tuple.str` / `Map.str` are stack-using natives: one stub frame per level of nesting
      | .list items => withStubFrame do return "[" ++ ", ".intercalate (← items.toList.mapM quoted) ++ "]"
      | .tuple items => withStubFrame do return "(" ++ ", ".intercalate (← items.toList.mapM quoted) ++ ")"
      | .map entries => withStubFrame do
        if entries.isEmpty then return "{}"
        else
          let parts ← entries.toList.mapM fun (k, v) => do return (← quoted k) ++ ": " ++ (← quoted v)
          return "{ " ++ ", ".intercalate parts ++ " }"
      | .inst c _ =>
        let st ← getSt
        match findMethod st.heap c "str" with
        | some m =>
          match ← callValue (.ref (← alloc (.bound v m))) [] with
          | .str s => return s
          | _ => unsupported "str() returned a non-string (D23)"
        | none => return s!"<{className st.heap c} Pointer \{ addr: ADDR, metadata: N }>"
      | .cls c => return s!"<class {c.name} ADDR>"
      | .closure _ => return "<Fun ADDR>"
      | .bound _ _ | .boundNative _ _ _ => return "<Method ADDR>"
      | .native _ => return "<Native ADDR>"
      | .iter d => return (match d.src with | .times _ => "Times" | .list _ => "List" | .tuple _ => "Tuple" | .chars _ => "String")

  partial def quoted (v : Value) : M String := do
    match v with
    | .str s => return "'" ++ s ++ "'"
    | _ => strOf v

  /-- `o.name` (`op_get_prop_by_name` + `bind_method`; class PropertyError — see D20) -/
  partial def getProp (o : Value) (name : String) : M Value := do
    let st ← getSt
    let undefinedProp : M Value :=
      raise "PropertyError" s!"Undefined property {name} on class {valueClassName st.heap o}."
    match o with
    | .ref id =>
      match st.heap[id]! with
      | .inst c fields =>
        match fields.lookup name with
        | some v => return v
        | none =>
          match findMethod st.heap c name with
          | some m => allocV (.bound o m)
          | none => if hasNativeMethod "Instance" name then allocV (.boundNative o "Instance" name) else undefinedProp
      | .cls c =>
        match c.statics.lookup name with
        | some m => allocV (.bound o m)
        | none => if hasNativeMethod "Class" name then allocV (.boundNative o "Class" name) else undefinedProp
      | _ =>
        let k := valueKind st.heap o
        if hasNativeMethod k name then allocV (.boundNative o k name) else undefinedProp
    | _ =>
      let k := valueKind st.heap o
      if hasNativeMethod k name then allocV (.boundNative o k name) else undefinedProp

  /-- `o.name = v` (`op_set_prop_by_name`) -/
  partial def setProp (o : Value) (name : String) (v : Value) : M Value := do
    let st ← getSt
    match o with
    | .ref id =>
      match st.heap[id]! with
      | .inst c fields =>
        if fields.any (·.1 == name) then
          setObj id (.inst c (fields.map fun (n, old) => if n == name then (n, v) else (n, old)))
          return v
        else raise "PropertyError" s!"Undefined property {name} on class {className st.heap c}."
      | _ => raise "RuntimeError" "Only instances have settable fields."
    | _ => raise "RuntimeError" "Only instances have settable fields."

  /-- invoke a method by name (`Invoke`: `[]`, `[]=`, `iter`, `next`, `current`, `str`) -/
  partial def invoke (o : Value) (name : String) (args : List Value) : M Value := do
    let f ← getProp o name
    callValue f args

  /-- `resolve_call` -/
  partial def callValue (f : Value) (args : List Value) : M Value := do
    tick
    let st ← getSt
    let notCallable : M Value := raise "RuntimeError" s!"{valueClassName st.heap f} is not callable."
    match f with
    | .ref id =>
      match st.heap[id]! with
      | .closure c => callClosure c none args
      | .bound recv m =>
        match m with
        | .ref mid =>
          match st.heap[mid]! with
          | .closure c => callClosure c (some recv) args
          | .native _ => callNative "Error" "init" recv args   -- `ErrorInit`
          | _ => callValue m args
        | _ => notCallable
      | .boundNative recv kind name => callNative kind name recv args
      | .native name => callNative "" name .nil args
      | .cls c =>
        -- `call_class`: a fresh instance with every field nil, then `init` if the class (or an ancestor) has one
        let inst ← allocV (.inst id (c.fields.map fun n => (n, .nil)))
        match findMethod st.heap id "init" with
        | some ini => callValue (.ref (← alloc (.bound inst ini))) args
        | none =>
          if args.length != 0 then raise "RuntimeError" s!"Expected 0 arguments but got {args.length}"
          else return inst
      | _ => notCallable
    | _ => notCallable

  /-- `call_closure`: arity check, frame limit, fresh cells for the parameters, body, result -/
  partial def callClosure (c : Closure) (recv : Option Value) (args : List Value) : M Value := do
    if args.length != c.params.length then
      raise "RuntimeError" s!"{c.name} expected {c.params.length} argument(s) but received {args.length}."
    let st ← getSt
    if st.depth + 1 ≥ maxFrames then raise "RuntimeError" "Stack overflow."
    let mut env := c.env
    match recv with
    | some r =>
      if c.kind == .method || c.kind == .init then
        env := ("self", ← newCell r) :: env
    | none => pure ()
    for (p, a) in c.params.zip args do
      env := (p, ← newCell a) :: env
    modifySt fun st => { st with depth := st.depth + 1 }
    let restore : M Unit := modifySt fun st => { st with depth := st.depth - 1 }
    let selfOrNil : Value := match c.kind, recv with | .init, some r => r | _, _ => .nil
    let body : M Value :=
      match c.body with
      | .expr e => evalExpr env e
      | .block ss => do
        match ← execBlock env false ss with
        | .ret v => pure (if c.kind == .init then selfOrNil else v)
        | _ => pure selfOrNil
    fun st =>
      match body st with
      | (st, r) => (restore st).1 |> fun st => (st, r)

  /-- `call_native`: the signature check, then (stack-using natives) the frame limit and the stub frame, then the body -/
  partial def callNative (kind name : String) (recv : Value) (args : List Value) : M Value := do
    checkNativeCall kind name args
    if nativeUsesStack kind name then withStubFrame (nativeBody kind name recv args)
    else nativeBody kind name recv args

  partial def nativeBody (kind name : String) (recv : Value) (args : List Value) : M Value := do
    let st ← getSt
    match kind, name, recv, args with
    | "", "print", _, [] => unsupported "print() without arguments (D22)"
    | "", "print", _, args => do
      let parts ← args.mapM strOf
      emit (" ".intercalate parts ++ "\n")
      return .nil
    | "", "assert", _, [.bool b] =>
      if b then return .nil else raise "AssertError" "Expected assertion to return true."
    | "", "assertEq", _, [a, b] =>
      if a.equals b then return .nil
      else raise "AssertError" s!"Expected '{← strOf a}' to equal '{← strOf b}'."
    | "Error", "init", .ref id, msg :: rest =>
      match st.heap[id]! with
      | .inst c fields =>
        let bt ← allocV (.list #[])
        let set (fs : List (String × Value)) (n : String) (v : Value) := fs.map fun (k, o) => if k == n then (k, v) else (k, o)
        let fields := set (set fields "message" msg) "backTrace" bt
        let fields := match rest with | i :: _ => set fields "inner" i | [] => fields
        setObj id (.inst c fields)
        return recv
      | _ => unsupported "Error.init on a non-instance"
    | _, "str", v, [] => return .str (← strOf v)
    | _, "cls", v, [] =>
      match v with
      | .ref id =>
        match st.heap[id]! with
        | .inst c _ => return .ref c
        | .cls _ => unsupported "cls() of a class (meta classes are not modelled)"
        | _ => return .ref (classIdOf (valueClassName st.heap v))
      | _ => return .ref (classIdOf (valueClassName st.heap v))
    | "Class", "name", .ref id, [] => return .str (className st.heap id)
    | "Class", "superCls", .ref id, [] =>
      match st.heap[id]! with
      | .cls c => return (match c.super with | some s => .ref s | none => .nil)
      | _ => return .nil
    | "Number", "times", .num f, [] =>
      if f < 0.0 || f.isNaN || f.isInf || f.floor != f then raise "ValueError" "times requires a positive integer."
      else allocV (.iter { src := .times (f - 1.0), idx := -1, current := .nil })
    | "String", "len", .str s, [] => return .num s.length.toFloat
    | "String", "[]", .str s, [.num i] =>
      match determineIndex "string" s.length i with
      | .ok k => return .str (String.ofList [s.toList[k]!])
      | .error m => raise "IndexError" m
    | "String", "iter", .str s, [] => allocV (.iter { src := .chars s.toList.toArray, idx := 0, current := .nil })
    | "List", nm, .ref id, args =>
      match st.heap[id]! with
      | .list items =>
        match nm, args with
        | "len", [] => return .num items.size.toFloat
        | "push", vs => setObj id (.list (items ++ vs.toArray)); return .nil
        | "pop", [] =>
          match items.back? with
          | some v => setObj id (.list items.pop); return v
          | none => return .nil
        | "[]", [.num i] =>
          match determineIndex "list" items.size i with
          | .ok k => return items[k]!
          | .error m => raise "IndexError" m
        | "[]=", [v, .num i] =>
          match determineIndex "list" items.size i with
          | .ok k => setObj id (.list (items.set! k v)); return v
          | .error m => raise "IndexError" m
        | "index", [v] =>
          match items.findIdx? (·.equals v) with
          | some k => return .num k.toFloat
          | none => return .nil
        | "has", [v] => return .bool (items.any (·.equals v))
        | "iter", [] => allocV (.iter { src := .list id, idx := 0, current := .nil })
        | _, _ => unsupported s!"List.{nm}"
      | _ => unsupported "List native on a non-list"
    | "Tuple", nm, .ref id, args =>
      match st.heap[id]! with
      | .tuple items =>
        match nm, args with
        | "len", [] => return .num items.size.toFloat
        | "[]", [.num i] =>
          match determineIndex "list" items.size i with
          | .ok k => return items[k]!
          | .error m => raise "IndexError" m
        | "iter", [] => allocV (.iter { src := .tuple id, idx := 0, current := .nil })
        | _, _ => unsupported s!"Tuple.{nm}"
      | _ => unsupported "Tuple native on a non-tuple"
    | "Map", nm, .ref id, args =>
      match st.heap[id]! with
      | .map entries =>
        match nm, args with
        | "len", [] => return .num entries.size.toFloat
        | "[]", [k] =>
          match entries.find? (·.1.equals k) with
          | some (_, v) => return v
          | none => raise "KeyError" s!"Key not found. {← strOf k} is not present"
        | "get", [k] => return (match entries.find? (·.1.equals k) with | some (_, v) => v | none => .nil)
        | "has", [k] => return .bool (entries.any (·.1.equals k))
        | "[]=", [k, v] =>
          if entries.any (·.1.equals k) then
            setObj id (.map (entries.map fun (k', o) => if k'.equals k then (k', v) else (k', o)))
          else setObj id (.map (entries.push (k, v)))
          return v
        | _, _ => unsupported s!"Map.{nm}"
      | _ => unsupported "Map native on a non-map"
    | "Iter", nm, .ref id, [] =>
      match st.heap[id]! with
      | .iter d =>
        match nm with
        | "iter" => return recv
        | "current" => return d.current
        | "next" =>
          match d.src with
          | .times max =>
            let cur := Float.ofInt d.idx
            if cur < max then
              setObj id (.iter { d with idx := d.idx + 1, current := .num (cur + 1.0) }); return .bool true
            else return .bool false
          | src =>
            let items : Array Value ← (match src with
              | .list l => do match ← getObj l with | .list xs => pure xs | _ => pure #[]
              | .tuple l => do match ← getObj l with | .tuple xs => pure xs | _ => pure #[]
              | .chars cs => pure (cs.map fun c => Value.str (String.ofList [c]))
              | .times _ => pure #[])
            let i := d.idx.toNat
            if i < items.size then
              setObj id (.iter { d with idx := d.idx + 1, current := items[i]! }); return .bool true
            else
              setObj id (.iter { d with current := .nil }); return .bool false
        | _ => unsupported s!"Iter.{nm}"
      | _ => unsupported "Iter native on a non-iterator"
    | k, n, _, _ => unsupported s!"native {k}.{n}"

  partial def lookupVar (env : Env) (x : String) : M Value := do
    match env.lookup x with
    | some c => readCell c
    | none =>
      match ← lookupGlobal x with
      | some v => return v
      | none => unsupported s!"undefined variable {x}"

  partial def assignVar (env : Env) (x : String) (v : Value) : M Unit := do
    match env.lookup x with
    | some c => writeCell c v
    | none =>
      match ← lookupGlobal x with
      | some _ => setGlobal x v
      | none => unsupported s!"assignment to undefined variable {x}"

  partial def evalList (env : Env) : List Expr → M (List Value)
    | [] => pure []
    | e :: es => do
      let v ← evalExpr env e
      let vs ← evalList env es
      return v :: vs

  partial def evalExpr (env : Env) (e : Expr) : M Value := do
    tick
    match e with
    | .nil => return .nil
    | .bool b => return .bool b
    | .num f => return .num f
    | .str s => return .str s
    | .interp parts =>
      -- every `${e}` segment: evaluate, `str()`; then concatenate (`op_interpolate`)
      let mut acc := ""
      for p in parts do
        match p with
        | .str s => acc := acc ++ s
        | p =>
          let v ← evalExpr env p
          match ← invoke v "str" [] with
          | .str s => acc := acc ++ s
          | _ => unsupported "str() returned a non-string (D23)"
      return .str acc
    | .var x => lookupVar env x
    | .self => lookupVar env "self"
    | .super m =>
      let self ← lookupVar env "self"
      let owner ← lookupVar env "$owner"
      let st ← getSt
      match owner with
      | .ref oid =>
        match st.heap[oid]! with
        | .cls c =>
          match c.super with
          | some s =>
            match findMethod st.heap s m with
            | some f => allocV (.bound self f)
            | none => raise "PropertyError" s!"Undefined property {m} on class {className st.heap s}."
          | none => unsupported "super without a superclass"
        | _ => unsupported "super outside of a class"
      | _ => unsupported "super outside of a class"
    | .un op a => do liftOp (unop op (← evalExpr env a))
    | .bin op a b => do
      let va ← evalExpr env a
      let vb ← evalExpr env b
      liftOp (binop op va vb)
    | .and a b => do
      let va ← evalExpr env a
      if va.falsey then return va else evalExpr env b
    | .or a b => do
      let va ← evalExpr env a
      if va.falsey then evalExpr env b else return va
    | .tern c t f => do
      let vc ← evalExpr env c
      if vc.falsey then evalExpr env f else evalExpr env t
    | .assignVar op x rhs =>
      match op.binop with
      | none => do
        let v ← evalExpr env rhs
        assignVar env x v
        return v
      | some bop => do
        let old ← lookupVar env x
        let r ← evalExpr env rhs
        let v ← liftOp (binop bop old r)
        assignVar env x v
        return v
    | .assignProp op o name rhs => do
      let vo ← evalExpr env o
      match op.binop with
      | none =>
        let v ← evalExpr env rhs
        setProp vo name v
      | some bop =>
        let old ← getProp vo name
        let r ← evalExpr env rhs
        let v ← liftOp (binop bop old r)
        setProp vo name v
    | .assignIndex op o i rhs => do
      -- `assign`: receiver, right-hand side, then the index; `assign_binary`: the index is evaluated twice
      let vo ← evalExpr env o
      match op.binop with
      | none =>
        let v ← evalExpr env rhs
        let vi ← evalExpr env i
        invoke vo "[]=" [v, vi]
      | some bop =>
        let vi ← evalExpr env i
        let old ← invoke vo "[]" [vi]
        let r ← evalExpr env rhs
        let v ← liftOp (binop bop old r)
        let vi2 ← evalExpr env i
        invoke vo "[]=" [v, vi2]
    | .call f args => do
      let vf ← evalExpr env f
      let vs ← evalList env args
      callValue vf vs
    | .prop o name => do
      let vo ← evalExpr env o
      getProp vo name
    | .index o i => do
      let vo ← evalExpr env o
      let vi ← evalExpr env i
      invoke vo "[]" [vi]
    | .list items => do allocV (.list (← evalList env items).toArray)
    | .tuple items => do allocV (.tuple (← evalList env items).toArray)
    | .map entries => do
      let mut acc : Array (Value × Value) := #[]
      for (k, v) in entries do
        let vk ← evalExpr env k
        let vv ← evalExpr env v
        acc := if acc.any (·.1.equals vk) then acc.map (fun (k', o) => if k'.equals vk then (k', vv) else (k', o))
               else acc.push (vk, vv)
      allocV (.map acc)
    | .lambda name params body =>
      allocV (.closure { name, params, body, env, kind := .fn, owner := none })

  /-- a statement list in a fresh scope; `top` = module top level (declarations become module symbols) -/
  partial def execBlock (env : Env) (top : Bool) : List Stmt → M Completion
    | [] => pure .normal
    | s :: rest => do
      tick
      match s with
      | .let_ x ini =>
        let v ← match ini with | some e => evalExpr env e | none => pure .nil
        if top then
          setGlobal x v
          execBlock env top rest
        else
          execBlock ((x, ← newCell v) :: env) top rest
      | .fn name params body =>
        if top then
          setGlobal name (← allocV (.closure { name, params, body := .block body, env, kind := .fn, owner := none }))
          execBlock env top rest
        else
          let cell ← newCell .nil
          let env' := (name, cell) :: env
          writeCell cell (← allocV (.closure { name, params, body := .block body, env := env', kind := .fn, owner := none }))
          execBlock env' top rest
      | .class_ name sup ini methods statics =>
        let superId : Nat ← (match sup with
          | none => pure objectId
          | some sname => do
            match ← lookupVar env sname with
            | .ref sid =>
              match ← getObj sid with
              | .cls _ => pure sid
              | _ => raise "RuntimeError" "Superclass must be a class."
            | _ => raise "RuntimeError" "Superclass must be a class.")
        let superFields ← (do match ← getObj superId with | .cls c => pure c.fields | _ => pure [])
        let own := match ini with | some (_, body) => initFields body | none => []
        let cid ← alloc (.cls { name, super := some superId, fields := dedup (superFields ++ own), methods := [], statics := [] })
        let env' ← (if top then do setGlobal name (.ref cid); pure env
                    else do pure ((name, ← newCell (.ref cid)) :: env))
        let menv := ("$owner", ← newCell (.ref cid)) :: env'
        let mk (kind : FunKind) (m : String × List String × List Stmt) : M (String × Value) := do
          return (m.1, ← allocV (.closure { name := m.1, params := m.2.1, body := .block m.2.2, env := menv, kind, owner := some cid }))
        let ms ← methods.mapM (mk .method)
        let ms ← (match ini with
          | some (ps, body) => do pure ((← mk .init ("init", ps, body)) :: ms)
          | none => pure ms)
        let ss ← statics.mapM (mk .static)
        setObj cid (.cls { name, super := some superId, fields := dedup (superFields ++ own), methods := ms, statics := ss })
        execBlock env' top rest
      | .expr e => do
        let _ ← evalExpr env e
        execBlock env top rest
      | .implicitReturn e => do return .ret (← evalExpr env e)
      | .if_ c thn els => do
        let vc ← evalExpr env c
        let r ← (if vc.falsey then
          (match els with | some b => execBlock env false b | none => pure .normal)
          else execBlock env false thn)
        match r with
        | .normal => execBlock env top rest
        | other => return other
      | .while_ c body => do
        match ← loopWhile env c body with
        | .normal => execBlock env top rest
        | other => return other
      | .for_ x it body => do
        let vi ← evalExpr env it
        let iter ← invoke vi "iter" []
        -- one variable for the whole loop (closures created in different iterations share it)
        let cell ← newCell .nil
        match ← loopFor ((x, cell) :: env) cell iter body with
        | .normal => execBlock env top rest
        | other => return other
      | .break_ => return .brk
      | .continue_ => return .cont
      | .return_ none => return .ret .nil
      | .return_ (some e) => do return .ret (← evalExpr env e)
      | .raise e => do
        let v ← evalExpr env e
        let st ← getSt
        match v with
        | .ref id =>
          match st.heap[id]! with
          | .inst c _ =>
            if isSubclass st.heap c errorId then fun st => (st, .err v)
            else raise "RuntimeError" "Can only raise an instance of Error"
          | _ => raise "RuntimeError" "Can only raise an instance of Error"
        | _ => raise "RuntimeError" "Can only raise an instance of Error"
      | .try_ body catches => do
        let depth := (← getSt).depth
        let r ← tryCatch (execBlock env false body) fun
          | .ok c => pure c
          | .err e => do
            modifySt fun st => { st with depth := depth }
            runCatches env e catches
          | _ => unsupported "unreachable"
        match r with
        | .normal => execBlock env top rest
        | other => return other

  partial def runCatches (env : Env) (e : Value) : List (String × Option String × List Stmt) → M Completion
    | [] => fun st => (st, .err e)
    | (x, cls, body) :: more => do
      let cv ← lookupVar env (cls.getD "Error")
      let st ← getSt
      let bad : M Completion := raise "TypeError" "Catch block must be blank or a subclass of Error."
      match cv, e with
      | .ref cid, .ref eid =>
        match st.heap[cid]!, st.heap[eid]! with
        | .cls _, .inst ec _ =>
          if !isSubclass st.heap cid errorId then bad
          else if isSubclass st.heap ec cid then
            execBlock ((x, ← newCell e) :: env) false body
          else runCatches env e more
        | _, _ => bad
      | _, _ => bad

  partial def loopWhile (env : Env) (c : Expr) (body : List Stmt) : M Completion := fun st =>
    match (do tick; evalExpr env c) st with
    | (st, .ok v) =>
      if v.falsey then (st, .ok .normal)
      else
        match execBlock env false body st with
        | (st, .ok .normal) | (st, .ok .cont) => loopWhile env c body st
        | (st, .ok .brk) => (st, .ok .normal)
        | other => other
    | (st, .err e) => (st, .err e)
    | (st, .fuel) => (st, .fuel)
    | (st, .unsupported w) => (st, .unsupported w)

  partial def loopFor (env : Env) (cell : Nat) (iter : Value) (body : List Stmt) : M Completion := fun st =>
    let step : M Bool := do
      tick
      let more ← invoke iter "next" []
      if more.falsey then return false
      let cur ← invoke iter "current" []
      writeCell cell cur
      return true
    match step st with
    | (st, .ok false) => (st, .ok .normal)
    | (st, .ok true) =>
      match execBlock env false body st with
      | (st, .ok .normal) | (st, .ok .cont) => loopFor env cell iter body st
      | (st, .ok .brk) => (st, .ok .normal)
      | other => other
    | (st, .err e) => (st, .err e)
    | (st, .fuel) => (st, .fuel)
    | (st, .unsupported w) => (st, .unsupported w)

end

/-- outcome of a whole program -/
inductive Outcome where
  | ok
  | runtimeError (cls msg : String)
  | fuel
  | unsupported (what : String)
  deriving Repr

/-- (outcome, stdout, ticks used) -/
def run (fuel : Nat) (p : Program) : Outcome × String × Nat :=
  match execBlock [] true p (initialState fuel) with
  | (st, .ok _) => (.ok, st.out, fuel - st.fuel)
  | (st, .fuel) => (.fuel, st.out, fuel)
  | (st, .unsupported w) => (.unsupported w, st.out, fuel - st.fuel)
  | (st, .err e) =>
    match e with
    | .ref id =>
      match st.heap[id]! with
      | .inst c fields =>
        let msg := match fields.lookup "message" with | some (.str m) => m | _ => "?"
        (.runtimeError (className st.heap c) msg, st.out, fuel - st.fuel)
      | _ => (.unsupported "error is not an instance", st.out, fuel - st.fuel)
    | _ => (.unsupported "error is not an instance", st.out, fuel - st.fuel)

end LaytheVerif.LayRef
