import LaytheVerif.Model.LayRef.Ast
/-!
# LayRef — S-expression reader and decoder (the wire format between `vlib/layref.py` and the driver)

```
program ::= (program stmt*)
stmt ::= (let x e?) | (fn name (p*) stmt*) | (class Name Super|- init|- (methods m*) (statics m*))
       | (expr e) | (iret e) | (if c (stmt*) (stmt*)?) | (while c stmt*) | (for x e stmt*)
       | break | continue | (return e?) | (try (stmt*) (catch x Cls|- stmt*)+) | (raise e)
init ::= (init (p*) stmt*)        m ::= (name (p*) stmt*)
e ::= nil | true | false | (num BITS) | (str "..") | (interp part*) | (var x) | self | (super m)
    | (not e) | (neg e) | (OP a b)  OP ∈ + - * / < <= > >= == !=  | (and a b) | (or a b) | (tern c t e)
    | (SET target e)  SET ∈ set set+ set- set* set/   target ::= (var x) | (prop o name) | (index o i)
    | (call f a*) | (prop o name) | (index o i) | (list e*) | (tuple e*) | (map (k v)*)
    | (lambda (p*) (expr e)) | (lambda (p*) (block stmt*))
part ::= (lit "..") | e
```
Numbers travel as the decimal `u64` bit pattern of the `f64`.  Strings use `\"`, `\\`, `\n`, `\t`, `\r`, `\uXXXX;`.
-/
namespace LaytheVerif.LayRef

inductive Sexp where
  | atom (s : String)
  | str (s : String)
  | list (xs : List Sexp)
  deriving Inhabited, Repr

namespace Sexp

def hexVal (c : Char) : Option Nat :=
  if '0' ≤ c && c ≤ '9' then some (c.toNat - '0'.toNat)
  else if 'a' ≤ c && c ≤ 'f' then some (c.toNat - 'a'.toNat + 10)
  else if 'A' ≤ c && c ≤ 'F' then some (c.toNat - 'A'.toNat + 10)
  else none

/-- read the body of a string literal after the opening quote -/
partial def readStr : List Char → List Char → Option (String × List Char)
  | acc, '"' :: r => some (String.ofList acc.reverse, r)
  | acc, '\\' :: 'n' :: r => readStr ('\n' :: acc) r
  | acc, '\\' :: 't' :: r => readStr ('\t' :: acc) r
  | acc, '\\' :: 'r' :: r => readStr ('\r' :: acc) r
  | acc, '\\' :: '"' :: r => readStr ('"' :: acc) r
  | acc, '\\' :: '\\' :: r => readStr ('\\' :: acc) r
  | acc, '\\' :: 'u' :: r =>
    let hs := r.takeWhile (· ≠ ';')
    let rest := (r.dropWhile (· ≠ ';')).drop 1
    match hs.foldl (fun a c => match a, hexVal c with | some n, some d => some (n * 16 + d) | _, _ => none) (some 0) with
    | some n => readStr (Char.ofNat n :: acc) rest
    | none => none
  | acc, c :: r => readStr (c :: acc) r
  | _, [] => none

def isDelim (c : Char) : Bool := c == '(' || c == ')' || c == ' ' || c == '"' || c == '\n' || c == '\t'

/-- a stack-based reader: `stack` holds the partially read enclosing lists (innermost first, items reversed) -/
def read (fuel : Nat) (cs : List Char) (stack : List (List Sexp)) : Option Sexp :=
  match fuel with
  | 0 => none
  | fuel + 1 =>
    match cs with
    | [] => match stack with
      | [[x]] => some x
      | _ => none
    | c :: r =>
      if c == ' ' || c == '\n' || c == '\t' || c == '\r' then read fuel r stack
      else if c == '(' then read fuel r ([] :: stack)
      else if c == ')' then
        match stack with
        | top :: parent :: rest => read fuel r ((Sexp.list top.reverse :: parent) :: rest)
        | _ => none
      else if c == '"' then
        match readStr [] r, stack with
        | some (s, r'), top :: rest => read fuel r' ((Sexp.str s :: top) :: rest)
        | _, _ => none
      else
        let tok := cs.takeWhile (fun c => !isDelim c)
        let r' := cs.dropWhile (fun c => !isDelim c)
        match stack with
        | top :: rest => read fuel r' ((Sexp.atom (String.ofList tok) :: top) :: rest)
        | [] => none

def parse (s : String) : Option Sexp :=
  let cs := s.toList
  read (cs.length + 2) cs [[]]

end Sexp

/-! ## decoding into the AST (fuel = size bound, the input is finite) -/

def atomsOf (xs : List Sexp) : Option (List String) :=
  xs.mapM fun | .atom a => some a | _ => none

def binOpOf : String → Option BinOp
  | "+" => some .add | "-" => some .sub | "*" => some .mul | "/" => some .div
  | "<" => some .lt | "<=" => some .le | ">" => some .gt | ">=" => some .ge
  | "==" => some .eq | "!=" => some .ne | _ => none

def assignOpOf : String → Option AssignOp
  | "set" => some .set | "set+" => some .add | "set-" => some .sub | "set*" => some .mul | "set/" => some .div
  | _ => none

mutual
  partial def decExpr (ln : String) : Sexp → Option Expr
    | .atom "nil" => some .nil
    | .atom "true" => some (.bool true)
    | .atom "false" => some (.bool false)
    | .atom "self" => some .self
    | .list [.atom "num", .atom b] => b.toNat?.map fun n => .num (Float.ofBits (UInt64.ofNat n))
    | .list [.atom "str", .str s] => some (.str s)
    | .list [.atom "lit", .str s] => some (.str s)
    | .list (.atom "interp" :: ps) => (ps.mapM (decExpr ln)).map .interp
    | .list [.atom "var", .atom x] => some (.var x)
    | .list [.atom "super", .atom m] => some (.super m)
    | .list [.atom "not", e] => (decExpr ln e).map (.un .not)
    | .list [.atom "neg", e] => (decExpr ln e).map (.un .neg)
    | .list [.atom "and", a, b] => do some (.and (← decExpr ln a) (← decExpr ln b))
    | .list [.atom "or", a, b] => do some (.or (← decExpr ln a) (← decExpr ln b))
    | .list [.atom "tern", c, t, e] => do some (.tern (← decExpr ln c) (← decExpr ln t) (← decExpr ln e))
    | .list (.atom "call" :: f :: args) => do some (.call (← decExpr ln f) (← args.mapM (decExpr ln)))
    | .list [.atom "prop", o, .atom n] => do some (.prop (← decExpr ln o) n)
    | .list [.atom "index", o, i] => do some (.index (← decExpr ln o) (← decExpr ln i))
    | .list (.atom "list" :: es) => (es.mapM (decExpr ln)).map .list
    | .list (.atom "tuple" :: es) => (es.mapM (decExpr ln)).map .tuple
    | .list (.atom "map" :: es) =>
      (es.mapM fun (x : Sexp) => match x with
        | Sexp.list [k, v] => do some ((← decExpr ln k), (← decExpr ln v))
        | _ => none).map Expr.map
    | .list [.atom "lambda", .list ps, .list [.atom "expr", e]] => do
      some (.lambda ln (← atomsOf ps) (.expr (← decExpr ln e)))
    | .list [.atom "lambda", .list ps, .list (.atom "block" :: ss)] => do
      some (.lambda ln (← atomsOf ps) (.block (← ss.mapM (decStmt ln))))
    | .list [.atom op, a, b] =>
      match binOpOf op, assignOpOf op with
      | some o, _ => do some (.bin o (← decExpr ln a) (← decExpr ln b))
      | none, some ao =>
        match a with
        | .list [.atom "var", .atom x] => do some (.assignVar ao x (← decExpr ln b))
        | .list [.atom "prop", o, .atom n] => do some (.assignProp ao (← decExpr ln o) n (← decExpr ln b))
        | .list [.atom "index", o, i] => do some (.assignIndex ao (← decExpr ln o) (← decExpr ln i) (← decExpr ln b))
        | _ => none
      | none, none => none
    | _ => none

  partial def decMethod (ln : String) : Sexp → Option (String × List String × List Stmt)
    | .list (.atom name :: .list ps :: ss) => do some (name, (← atomsOf ps), (← ss.mapM (decStmt ln)))
    | _ => none

  partial def decStmt (ln : String) : Sexp → Option Stmt
    | .atom "break" => some .break_
    | .atom "continue" => some .continue_
    | .list [.atom "let", .atom x] => some (.let_ x none)
    | .list [.atom "let", .atom x, e] => do some (.let_ x (some (← decExpr x e)))
    | .list (.atom "fn" :: .atom name :: .list ps :: ss) => do some (.fn name (← atomsOf ps) (← ss.mapM (decStmt ln)))
    | .list [.atom "class", .atom name, .atom sup, ini, .list (.atom "methods" :: ms), .list (.atom "statics" :: sts)] => do
      let ini ← match ini with
        | .atom "-" => some none
        | .list (.atom "init" :: .list ps :: ss) => do some (some ((← atomsOf ps), (← ss.mapM (decStmt ln))))
        | _ => none
      some (.class_ name (if sup == "-" then none else some sup) ini (← ms.mapM (decMethod ln)) (← sts.mapM (decMethod ln)))
    | .list [.atom "expr", e] => (decExpr ln e).map .expr
    | .list [.atom "iret", e] => (decExpr ln e).map .implicitReturn
    | .list [.atom "if", c, .list t] => do some (.if_ (← decExpr ln c) (← t.mapM (decStmt ln)) none)
    | .list [.atom "if", c, .list t, .list e] => do some (.if_ (← decExpr ln c) (← t.mapM (decStmt ln)) (some (← e.mapM (decStmt ln))))
    | .list (.atom "while" :: c :: ss) => do some (.while_ (← decExpr ln c) (← ss.mapM (decStmt ln)))
    | .list (.atom "for" :: .atom x :: e :: ss) => do some (.for_ x (← decExpr ln e) (← ss.mapM (decStmt ln)))
    | .list [.atom "return"] => some (.return_ none)
    | .list [.atom "return", e] => do some (.return_ (some (← decExpr ln e)))
    | .list [.atom "raise", e] => (decExpr ln e).map .raise
    | .list (.atom "try" :: .list body :: cs) => do
      let cs ← cs.mapM fun (x : Sexp) => match x with
        | Sexp.list (.atom "catch" :: .atom x :: .atom c :: ss) => do
          some (x, (if c == "-" then none else some c), (← ss.mapM (decStmt ln)))
        | _ => none
      some (.try_ (← body.mapM (decStmt ln)) cs)
    | _ => none
end

def decProgram : Sexp → Option Program
  | .list (.atom "program" :: ss) => ss.mapM (decStmt "lambda")
  | _ => none

def parseProgram (line : String) : Option Program :=
  (Sexp.parse line).bind decProgram

end LaytheVerif.LayRef
