/-
Model of the built-in collections of Laythe (C11), written branch for branch from

  laythe_lib/src/global/primitives/{list,tuple,string,map}.rs   (the natives)
  laythe_core/src/object/list.rs                                 (the raw, capacity-tracked buffer)

and, next to it, the *Spec*: the plain mathematical functions on `List α` / `List Char` / finite maps
that the natives are supposed to implement (`namespace Spec`).  Core Lean only.

Numbers.  Laythe numbers are `f64`.  The collections only look at an argument through
`fract() != 0.0`, `< 0.0`, `>= 0.0`, unary minus and the saturating cast `as usize`; the model
therefore represents an argument by `Num`: an integer, or a non-integral finite number (sign and
magnitude truncated toward zero), or NaN, or ±infinity.  No Lean `Float` appears anywhere.
The iterator adaptors live in `Model/CollectionsIter.lean`.
-/
namespace LaytheVerif.Coll

/-! ## Numbers as the natives see them -/

/-- `usize::MAX` on the 64-bit targets the project builds for. -/
def usizeMax : Nat := 2 ^ 64 - 1

/-- An `f64` argument, as far as the collection natives can observe it. -/
inductive Num where
  /-- an integral finite value (`-0.0` is `int 0`: it is neither `< 0.0` nor has a fraction) -/
  | int (i : Int)
  /-- a finite non-integral value; `neg` = sign, `mag` = |x| truncated toward zero (`0.5 ↦ 0`) -/
  | frac (neg : Bool) (mag : Nat)
  | nan
  | inf (neg : Bool)
  deriving DecidableEq, Repr, Inhabited

namespace Num
/-- `x.fract() != 0.0` (`inf.fract()` and `NaN.fract()` are NaN, and `NaN != 0.0` is true) -/
def fractNonZero : Num → Bool
  | int _ => false
  | _ => true
/-- `x < 0.0` -/
def ltZero : Num → Bool
  | int i => i < 0
  | frac neg _ => neg
  | nan => false
  | inf neg => neg
/-- `x >= 0.0` -/
def geZero : Num → Bool
  | int i => 0 ≤ i
  | frac neg _ => !neg
  | nan => false
  | inf neg => !neg
/-- `x <= 0.0` -/
def leZero : Num → Bool
  | int i => i ≤ 0
  | frac neg _ => neg
  | nan => false
  | inf neg => neg
/-- `-x` -/
def neg : Num → Num
  | int i => int (-i)
  | frac n m => frac (!n) m
  | nan => nan
  | inf n => inf (!n)
/-- `x as usize`: saturating, NaN ↦ 0, truncation toward zero -/
def toUsize : Num → Nat
  | int i => if i < 0 then 0 else min i.toNat usizeMax
  | frac n m => if n then 0 else min m usizeMax
  | nan => 0
  | inf n => if n then 0 else usizeMax
end Num

/-- Error classes the natives raise (`laythe_lib/src/global/primitives/error.rs`).  `runtime` is what the
VM raises when the native signature check (`check_native_arity`) rejects a call; `user` is an `Error`
raised by a callback. -/
inductive ErrClass | index | value | key | type | runtime | user
  deriving DecidableEq, Repr, Inhabited

def ErrClass.name : ErrClass → String
  | .index => "IndexError" | .value => "ValueError" | .key => "KeyError" | .type => "TypeError"
  | .runtime => "RuntimeError" | .user => "Error"

abbrev R (α : Type) := Except ErrClass α

deriving instance DecidableEq for Except

/-! ## `determine_index` (list.rs, tuple.rs) -/

/-- `fn determine_index(list, index: f64) -> Result<usize, String>` — identical text in list.rs and tuple.rs. -/
def determineIndex (len : Nat) (index : Num) : R Nat :=
  if index.fractNonZero then .error .index
  else if index.ltZero then
    let negated := index.neg.toUsize
    if negated > len then .error .index else .ok (len - negated)
  else
    let i := index.toUsize
    if i ≥ len then .error .index else .ok i

/-- `ListSlice::index` / `TupleSlice::index`: `Ok(index as usize)` or `len.saturating_sub(-index as usize)`. -/
def sliceIndex (len : Nat) (index : Num) : R Nat :=
  if index.fractNonZero then .error .index
  else if index.geZero then .ok index.toUsize
  else .ok (len - index.neg.toUsize)   -- `Nat` subtraction is `saturating_sub`

/-- body of `ListSlice::call` / `TupleSlice::call` after the argument count dispatch -/
def sliceOf {α : Type} (xs : List α) (start stop : Num) : R (List α) := do
  let s ← sliceIndex xs.length start
  let e ← sliceIndex xs.length stop
  let s := max s 0
  let e := min e xs.length
  if s ≤ e then .ok ((xs.drop s).take (e - s)) else .ok []

/-- argument-count dispatch of `slice`: `()`, `(start)`, `(start, end)` -/
def sliceArgs {α : Type} (xs : List α) (start stop : Option Num) : R (List α) :=
  match start, stop with
  | none, _ => sliceOf xs (.int 0) (.int xs.length)
  | some s, none => sliceOf xs s (.int xs.length)
  | some s, some e => sliceOf xs s e

/-! ## The raw list buffer (`laythe_core/src/object/list.rs`, `RawSharedVector`) -/

/-- A list allocation: `cap` slots of which the first `len` are initialised.  Slots past `len` keep
whatever was there (`none` = never written).  `slots.length` is the capacity. -/
structure RawVec (α : Type) where
  slots : List (Option α)
  len : Nat
  deriving Repr

namespace RawVec
variable {α : Type}

def cap (b : RawVec α) : Nat := b.slots.length

/-- the sequence the list denotes -/
def toList (b : RawVec α) : List α := (b.slots.take b.len).filterMap id

/-- `list!(slice)` / `VecBuilder::new(slice, max(len, 4))` -/
def ofList (xs : List α) : RawVec α :=
  { slots := xs.map some ++ List.replicate (max xs.length 4 - xs.length) none, len := xs.length }

/-- `VecBuilder::cap_only(cap)`: what `Iter.list`, `List.collect`, `Tuple.collect` allocate from `size_hint` -/
def capOnly (cap : Nat) : RawVec α := { slots := List.replicate cap none, len := 0 }

/-- representation invariant: `len ≤ cap` and the first `len` slots are initialised -/
def WF (b : RawVec α) : Bool := decide (b.len ≤ b.slots.length) && (b.slots.take b.len).all Option.isSome

/-- `ptr::copy(src, dst, count)` inside one allocation (memmove semantics) -/
def ptrCopy {β : Type} (slots : List β) (src dst count : Nat) : List β :=
  slots.take dst ++ (slots.drop src).take count ++ slots.drop (dst + count)

/-- `grow`: allocate `new_cap` slots, copy the `len` live values (`VecBuilder::new(self, new_cap)`); the old
allocation becomes a forwarding pointer (C10's business, not modelled here). -/
def grow (b : RawVec α) (newCap : Nat) : RawVec α :=
  { slots := b.slots.take b.len ++ List.replicate (newCap - b.len) none, len := b.len }

/-- `ensure_capacity(needed, cap)`: `if needed > cap { grow(cap, (cap * 2).max(needed)) }` — doubling alone
would keep a capacity of 0 at 0 (`VecBuilder::cap_only(0)`, what `Iter.list` allocates for a size hint of 0). -/
def ensureCapacity (b : RawVec α) (needed : Nat) : RawVec α :=
  if needed > b.cap then b.grow (max (b.cap * 2) needed) else b

/-- Outcome of an operation that writes through raw pointers: `ub` = a write past the allocation. -/
inductive W (β : Type) | done (b : β) | ub
  deriving Repr

/-- `List::push` -/
def push (b : RawVec α) (v : α) : W (RawVec α) :=
  let l := b.ensureCapacity (b.len + 1)
  if b.len < l.cap then .done { slots := l.slots.set b.len (some v), len := b.len + 1 } else .ub

/-- `List::pop` -/
def pop (b : RawVec α) : Option α × RawVec α :=
  if b.len = 0 then (none, b)
  else ((b.slots.getD (b.len - 1) none), { b with len := b.len - 1 })

/-- `List::insert(index, value)`: `OutOfBounds` if `index > len`; else shift `len - index` values one up. -/
def insert (b : RawVec α) (index : Nat) (v : α) : Option (W (RawVec α)) :=
  if index > b.len then none
  else
    let l := b.ensureCapacity (b.len + 1)
    if b.len < l.cap then
      let s := ptrCopy l.slots index (index + 1) (b.len - index)
      some (.done { slots := s.set index (some v), len := b.len + 1 })
    else some .ub

/-- `List::remove(index)`: `OutOfBounds` if `index >= len`; else shift `len - index - 1` values one down. -/
def remove (b : RawVec α) (index : Nat) : Option (Option α × RawVec α) :=
  if index ≥ b.len then none
  else
    let v := b.slots.getD index none
    some (v, { slots := ptrCopy b.slots (index + 1) index (b.len - index - 1), len := b.len - 1 })
end RawVec

/-! ## List natives (list.rs) -/

/-- A number-or-not argument: the native signature check in front of every native
(`ParameterKind::Number`) rejects a non-number with the VM's `RuntimeError`. -/
inductive Arg where
  | num (n : Num)
  | other          -- any value that is not a number (nil, bool, string, list, ...)
  deriving DecidableEq, Repr, Inhabited

def Arg.toNum : Arg → R Num
  | .num n => .ok n
  | .other => .error .runtime

section ListNatives
variable {α : Type}

/-- `ListIndexGet` -/
def listGet (b : RawVec α) (i : Arg) : R (Option α) := do
  let n ← i.toNum
  let k ← determineIndex b.len n
  .ok (b.slots.getD k none)

/-- `ListIndexSet` -/
def listSet (b : RawVec α) (i : Arg) (v : α) : R (RawVec α) := do
  let n ← i.toNum
  let k ← determineIndex b.len n
  .ok { b with slots := b.slots.set k (some v) }

/-- `ListRemove`: `index.fract() != 0.0` ("Index must be an integer.": fractions, NaN, ±infinity), then
`index < 0.0`, then `List::remove(index as usize)`; every failure is an `IndexError`. -/
def listRemove (b : RawVec α) (i : Arg) : R (Option α × RawVec α) := do
  let n ← i.toNum
  if n.fractNonZero then .error .index
  else if n.ltZero then .error .index
  else match b.remove n.toUsize with
    | some r => .ok r
    | none => .error .index

/-- `ListInsert`: same shape as `ListRemove`. -/
def listInsert (b : RawVec α) (i : Arg) (v : α) : R (RawVec.W (RawVec α)) := do
  let n ← i.toNum
  if n.fractNonZero then .error .index
  else if n.ltZero then .error .index
  else match b.insert n.toUsize v with
    | some r => .ok r
    | none => .error .index

/-- `ListPush` (variadic): pushes left to right -/
def listPush (b : RawVec α) : List α → RawVec.W (RawVec α)
  | [] => .done b
  | v :: vs => match b.push v with
    | .done b' => listPush b' vs
    | .ub => .ub

/-- `ListClear`: `while list.pop().is_some() {}` -/
def listClear (b : RawVec α) : RawVec α := { b with len := 0 }

/-- `ListSlice` (a fresh list `list!(&list[s..e])`) -/
def listSlice (b : RawVec α) (start stop : Option Arg) : R (List α) := do
  let s ← match start with | none => pure none | some a => some <$> a.toNum
  let e ← match stop with | none => pure none | some a => some <$> a.toNum
  sliceArgs b.toList s e

/-- `ListRev` -/
def listRev (b : RawVec α) : List α := b.toList.reverse

/-- `ListHas` / `ListIndex`: `contains` / `iter().position(|x| *x == item)` -/
def listHas [BEq α] (b : RawVec α) (v : α) : Bool := b.toList.any (· == v)
def position [BEq α] (v : α) : List α → Nat → Option Nat
  | [], _ => none
  | x :: xs, k => if x == v then some k else position v xs (k + 1)
def listIndex [BEq α] (b : RawVec α) (v : α) : Option Nat := position v b.toList 0

/-- What the closure that `ListSort` hands to `slice::sort_by` makes of one comparator call. -/
inductive CmpOut where
  /-- `Call::Ok(result)` with `result.is_num()` -/
  | num (n : Num)
  /-- `Call::Ok(result)` with a result that is not a number -/
  | notNum
  /-- `Call::Err(err)`: the comparator raised an error of class `c` -/
  | raised (c : ErrClass)
  deriving DecidableEq, Repr, Inhabited

/-- `result.to_num().partial_cmp(&0.0)`, or the failure that is recorded: the comparator's own error,
`TypeError` ("comparator must return a number." / "... a valid number.") for a non-number and for NaN. -/
def CmpOut.ordering : CmpOut → R Ordering
  | .num (.int i) => .ok (if i < 0 then .lt else if i = 0 then .eq else .gt)
  | .num (.frac neg _) => .ok (if neg then .lt else .gt)
  | .num (.inf neg) => .ok (if neg then .lt else .gt)
  | .num .nan => .error .type
  | .notNum => .error .type
  | .raised c => .error c

/-- insertion of `x` (which stood in front of all of `ys`) into the sorted `ys`: before the first element
that is not less than it (stable).  `cmp y x` is the comparator called on `(y, x)`; the first failure stops
everything (in the Rust text: is recorded, every later comparison answers `Equal` without calling the
comparator, and the recorded failure is what `ListSort` returns). -/
def insertSortedM (cmp : α → α → R Ordering) (x : α) : List α → R (List α)
  | [] => .ok [x]
  | y :: ys =>
    match cmp y x with
    | .error c => .error c
    | .ok .lt => (match insertSortedM cmp x ys with | .ok r => .ok (y :: r) | .error c => .error c)
    | .ok _ => .ok (x :: y :: ys)

/-- `ListSort`: a stable sort (`slice::sort_by`) of a copy, or the first failure of the comparator.  The model
sorts by stable insertion; for a consistent comparator which stable algorithm runs is unobservable, and for
a comparator whose failures all have one class, so is which failing call comes first. -/
def sortM (cmp : α → α → R Ordering) : List α → R (List α)
  | [] => .ok []
  | x :: xs =>
    match sortM cmp xs with
    | .ok s => insertSortedM cmp x s
    | .error c => .error c

/-- `ListSort::call` -/
def listSort (b : RawVec α) (cmp : α → α → CmpOut) : R (List α) :=
  sortM (fun a c => (cmp a c).ordering) b.toList
end ListNatives

/-! ## The native signature check (`laythe_core/src/signature.rs`) -/

/-- `enum ParameterKind` -/
inductive PKind | object | bool | number | string | callable | enumerator | cls
  deriving DecidableEq, Repr, Inhabited

/-- what `ParameterKind::is_valid` looks at: `value.kind()` and, for an object, its `ObjectKind` -/
inductive Shape | nil | bool | number | string | callable | enumerator | cls | otherObj
  deriving DecidableEq, Repr, Inhabited

/-- `ParameterKind::is_valid`; a `false` makes the VM raise `RuntimeError` instead of calling the native -/
def PKind.isValid : PKind → Shape → Bool
  | .object, _ => true
  | .bool, .bool => true
  | .number, .number => true
  | .string, .string => true
  | .callable, .callable => true
  | .enumerator, .enumerator => true
  | .cls, .cls => true
  | _, _ => false

/-! ## Tuple natives (tuple.rs): an immutable `[Value]` -/

section TupleNatives
variable {α : Type}
/-- `TupleIndexGet` -/
def tupleGet (t : List α) (i : Arg) : R (Option α) := do
  let n ← i.toNum
  let k ← determineIndex t.length n
  .ok t[k]?
/-- `TupleSlice` -/
def tupleSlice (t : List α) (start stop : Option Arg) : R (List α) := do
  let s ← match start with | none => pure none | some a => some <$> a.toNum
  let e ← match stop with | none => pure none | some a => some <$> a.toNum
  sliceArgs t s e
def tupleHas [BEq α] (t : List α) (v : α) : Bool := t.any (· == v)
def tupleIndex [BEq α] (t : List α) (v : α) : Option Nat := position v t 0
end TupleNatives

/-! ## String natives (string.rs).  A string is its sequence of characters; the only place bytes show is
`string.len()` (UTF-8 length), used as the default `end` of `slice`. -/

def utf8Len (cs : List Char) : Nat := (cs.map (fun c => c.utf8Size)).sum

/-- `chars.nth(n)` -/
def nth {α : Type} (xs : List α) (n : Nat) : Option α := xs[n]?

/-- `StringLen`: `chars().count()` -/
def strLen (cs : List Char) : Nat := cs.length

/-- `StringIndexGet` -/
def strGet (cs : List Char) (i : Arg) : R Char := do
  let n ← i.toNum
  if n.fractNonZero then .error .index
  else
    let c := if n.geZero then nth cs n.toUsize else nth cs.reverse (n.neg.toUsize - 1)
    match c with
    | some c => .ok c
    | none => .error .index

/-- `StringSlice::string_index`, in character offsets: `char_indices().nth(k)` is the byte offset of the
k-th character, `string.len()` (the end) if there is none; from the back `unwrap_or(0)`. -/
def strIndex (cs : List Char) (n : Num) : R Nat :=
  if n.fractNonZero then .error .index
  else if n.geZero then
    .ok (if n.toUsize < cs.length then n.toUsize else cs.length)
  else
    let k := n.neg.toUsize - 1
    .ok (if k < cs.length then cs.length - 1 - k else 0)

/-- `StringSlice::call`; default bounds `0.0` and `string.len() as f64` (the *byte* length). -/
def strSlice (cs : List Char) (start stop : Option Arg) : R (List Char) := do
  let s ← match start with | none => pure (Num.int 0) | some a => a.toNum
  let e ← match stop with | none => pure (Num.int (utf8Len cs)) | some a => a.toNum
  let si ← strIndex cs s
  let ei ← strIndex cs e
  if si ≤ ei then .ok ((cs.drop si).take (ei - si)) else .ok []

/-- is `p` a prefix of `cs`; returns the rest -/
def stripPrefix (p : List Char) (cs : List Char) : Option (List Char) :=
  match p, cs with
  | [], cs => some cs
  | _ :: _, [] => none
  | a :: p', b :: cs' => if a = b then stripPrefix p' cs' else none

/-- `str::contains(&str)` -/
def strHas (cs sub : List Char) : Bool :=
  match stripPrefix sub cs with
  | some _ => true
  | none => match cs with
    | [] => false
    | _ :: rest => strHas rest sub

/-- `str::split(sep)` for a non-empty separator: leftmost, non-overlapping matches; `acc` is the current
piece, reversed. -/
def splitGo (sep : List Char) (fuel : Nat) (cs : List Char) (acc : List Char) : List (List Char) :=
  match fuel with
  | 0 => [acc.reverse ++ cs]
  | fuel + 1 =>
    match cs with
    | [] => [acc.reverse]
    | c :: rest =>
      match stripPrefix sep cs with
      | some after => acc.reverse :: splitGo sep fuel after []
      | none => splitGo sep fuel rest (c :: acc)

/-- `StringSplit` + `SplitIterator`: Rust's `"abc".split("")` yields `"", "a", "b", "c", ""`. -/
def strSplit (cs sep : List Char) : List (List Char) :=
  match sep with
  | [] => [[]] ++ cs.map (fun c => [c]) ++ [[]]
  | _ :: _ => splitGo sep (cs.length + 1) cs []

/-- `StringIter`: the characters, each as a one-character string -/
def strChars (cs : List Char) : List (List Char) := cs.map (fun c => [c])

/-! ## Map natives (map.rs).  `Map<Value, Value>` is a hash map; its iteration order is unobservable here, so
the model is an association list with unique keys. -/

section MapNatives
variable {κ ν : Type} [DecidableEq κ]

abbrev AMap (κ ν : Type) := List (κ × ν)

def AMap.get (m : AMap κ ν) (k : κ) : Option ν :=
  match m with
  | [] => none
  | (k', v) :: rest => if k' = k then some v else AMap.get rest k

/-- `HashMap::insert`: replace in place or add; returns the previous value -/
def AMap.insert (m : AMap κ ν) (k : κ) (v : ν) : Option ν × AMap κ ν :=
  match m with
  | [] => (none, [(k, v)])
  | (k', v') :: rest =>
    if k' = k then (some v', (k', v) :: rest)
    else let r := AMap.insert rest k v; (r.1, (k', v') :: r.2)

/-- `HashMap::remove` -/
def AMap.remove (m : AMap κ ν) (k : κ) : Option ν × AMap κ ν :=
  match m with
  | [] => (none, [])
  | (k', v') :: rest =>
    if k' = k then (some v', rest)
    else let r := AMap.remove rest k; (r.1, (k', v') :: r.2)

/-- `MapIndexGet`: `KeyError` when absent -/
def mapIndexGet (m : AMap κ ν) (k : κ) : R ν :=
  match m.get k with | some v => .ok v | none => .error .key
/-- `MapGet`: `nil` (here `none`) when absent -/
def mapGet (m : AMap κ ν) (k : κ) : Option ν := m.get k
/-- `MapHas` -/
def mapHas (m : AMap κ ν) (k : κ) : Bool := (m.get k).isSome
/-- `MapSet` / `MapInsert`: previous value or `nil`; `MapIndexSet` returns the new value -/
def mapSet (m : AMap κ ν) (k : κ) (v : ν) : Option ν × AMap κ ν := m.insert k v
/-- `MapRemove`: `KeyError` when absent -/
def mapRemove (m : AMap κ ν) (k : κ) : R (ν × AMap κ ν) :=
  match m.remove k with
  | (some v, m') => .ok (v, m')
  | (none, _) => .error .key
/-- `MapLen` -/
def mapLen (m : AMap κ ν) : Nat := m.length
end MapNatives

/-! ## Spec: the mathematical functions -/

namespace Spec
variable {α : Type}

/-- an index as the documentation describes it: an integer `-len ≤ i < len`, counted from the end when
negative -/
def normIndex (len : Nat) : Num → Option Nat
  | .int i => if -(len : Int) ≤ i ∧ i < len then some ((i + len) % len).toNat else none
  | _ => none

/-- a slice bound: an integer, counted from the end when negative, clamped into `0 … len` -/
def clampIndex (len : Nat) : Num → Option Nat
  | .int i => some (if i < 0 then (len + i).toNat else min i.toNat len)
  | _ => none

def slice (xs : List α) (start stop : Option Num) : R (List α) :=
  let s := match start with | none => some 0 | some n => clampIndex xs.length n
  let e := match stop with | none => some xs.length | some n => clampIndex xs.length n
  match s, e with
  | some s, some e => .ok ((xs.drop s).take (e - s))
  | _, _ => .error .index

def get (xs : List α) (i : Num) : R α :=
  match normIndex xs.length i with
  | some k => match xs[k]? with | some v => .ok v | none => .error .index
  | none => .error .index

def set (xs : List α) (i : Num) (v : α) : R (List α) :=
  match normIndex xs.length i with
  | some k => .ok (xs.set k v)
  | none => .error .index

/-- `insert` takes a position `0 ≤ i ≤ len` -/
def insert (xs : List α) (i : Num) (v : α) : R (List α) :=
  match i with
  | .int i => if 0 ≤ i ∧ i ≤ xs.length then .ok (xs.insertIdx i.toNat v) else .error .index
  | _ => .error .index

/-- `remove` takes a position `0 ≤ i < len` -/
def remove (xs : List α) (i : Num) : R (α × List α) :=
  match i with
  | .int i =>
    if 0 ≤ i then match xs[i.toNat]? with
      | some v => .ok (v, xs.eraseIdx i.toNat)
      | none => .error .index
    else .error .index
  | _ => .error .index

def pop (xs : List α) : Option α × List α := (xs.getLast?, xs.dropLast)

def strGet (cs : List Char) (i : Num) : R Char := get cs i
end Spec

end LaytheVerif.Coll
