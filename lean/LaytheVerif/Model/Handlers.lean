/-
Model of Laythe's exception-handler machine (property C04).

Part 1  the run-time mechanism: `laythe_vm/src/fiber/exception_handler.rs`, `fiber/mod.rs`
        (`push_exception_handler`, `pop_exception_handler`, `stack_unwind` with the `bottom_frame`
        rule, `pause_unwind`/`finish_unwind`, `error_while_handling`), `vm/error.rs` (`stack_unwind`,
        `runtime_error`, `set_error`) and `vm/ops.rs` (`op_push_handler`, `op_pop_handler`,
        `op_check_handler`, `op_finish_unwind`, `op_continue_unwind`, `op_get_error`, `op_raise`).
Part 2  the handler machine of one function over the GENERATED symbolic instruction type
        `LaytheVerif.Gen.Sym` with label-based control flow, and the certificate checkers
        `checkHandlerBalance` / `checkHandlerDepth` that are run on every dumped function.
Part 3  the compile side: the `PopHandler` emission rules of `try_`, `break_`, `continue_`, `return_`,
        `emit_return` exactly as written (a single `Option<TryAttributes>`), over statement skeletons,
        and `apply_stack_effects`' rewriting of `PushHandler`'s slot depth (`compiler/peephole.rs`).

Core Lean only (links into `drv_handlers`).
-/
import LaytheVerif.Gen.ByteCode

namespace LaytheVerif.Handlers
open LaytheVerif.Gen

/-! ## Part 1 — the run-time mechanism -/

/-- A class object together with its chain of super classes (`Class::super_class`). The `id` stands
for the identity of the class object (`self == &*class` in `is_subclass` compares objects). -/
inductive Cls where
  | root (id : Nat)
  | sub (id : Nat) (super : Cls)
  deriving DecidableEq, Repr, Inhabited

def Cls.id : Cls → Nat
  | .root i => i
  | .sub i _ => i

/-- `Class::is_subclass` (laythe_core/src/object/class.rs): equal, or the super class is a subclass. -/
def Cls.isSubclass : Cls → Cls → Bool
  | .root i, d => i == d.id
  | .sub i s, d => i == d.id || s.isSubclass d

/-- values as far as the handler machine looks at them -/
inductive Val where
  | undef
  | nil
  | num (n : Int)
  | str (s : String)
  | cls (c : Cls)
  | inst (c : Cls) (payload : Nat)
  deriving DecidableEq, Repr, Inhabited

/-- `Object`, `Error`, `TypeError`, `RuntimeError` of the global module (`builtin.errors.*`). -/
def objectCls : Cls := .root 0
def errorCls : Cls := .sub 1 objectCls
def typeErrorCls : Cls := .sub 2 errorCls
def runtimeErrorCls : Cls := .sub 3 errorCls

/-- payloads of the two messages the handler ops create -/
def msgCatchNotError : Nat := 1   -- "Catch block must be blank or a subclass of Error."
def msgRaiseNotError : Nat := 2   -- "Can only raise an instance of Error"

/-- `ExceptionHandler` (fiber/exception_handler.rs) -/
structure Handler where
  offset : Nat
  frameDepth : Nat
  slotDepth : Nat
  deriving DecidableEq, Repr, Inhabited

/-- `CallFrame`: function, saved ip, and `stack_start` as an index into the fiber's stack -/
structure Frame where
  fn : Nat
  ip : Nat
  start : Nat
  deriving DecidableEq, Repr, Inhabited

/-- The part of `Fiber` + `Vm` the handler machine touches.  `stack` is `stack[0 .. stack_top)`
(bottom first, so slot `i` of a frame is `stack[frame.start + i]`); `frames` is bottom first and
`frames.length` is `frame_count()`; `cur` is the index of `self.frame` (it differs from the last
frame between `stack_unwind` and `finish_unwind`); `handlers` has the innermost handler FIRST;
`ip` is `vm.ip` as an offset into the current function (at an opcode boundary). -/
structure Fiber where
  stack : List Val := []
  frames : List Frame := []
  cur : Nat := 0
  handlers : List Handler := []
  error : Option Val := none
  unwinding : Bool := false
  ip : Nat := 0
  deriving DecidableEq, Repr, Inhabited

inductive Signal where
  | ok | runtimeError | panic
  deriving DecidableEq, Repr

inductive UnwindResult where
  | potentiallyHandled | unhandled | unwindStopped | panic
  deriving DecidableEq, Repr

/-- moving `stack_top` to absolute index `n`: slots below survive, slots above are abandoned;
a top *above* the current one exposes whatever memory is there (modelled as `undef`). -/
def setTop (n : Nat) (s : List Val) : List Val :=
  s.take n ++ List.replicate (n - s.length) Val.undef

def Fiber.push (f : Fiber) (v : Val) : Fiber := { f with stack := f.stack ++ [v] }
def Fiber.drop (f : Fiber) : Fiber := { f with stack := f.stack.dropLast }
def Fiber.peek (f : Fiber) : Option Val := f.stack.getLast?

/-- `Fiber::push_exception_handler`: records `frame_count()` as the call-frame depth. -/
def Fiber.pushExceptionHandler (f : Fiber) (offset slotDepth : Nat) : Fiber :=
  { f with handlers := ⟨offset, f.frames.length, slotDepth⟩ :: f.handlers }

/-- `Fiber::pop_exception_handler`: `assert!` on an empty vector. -/
def Fiber.popExceptionHandler (f : Fiber) : Option Fiber :=
  match f.handlers with
  | [] => none
  | _ :: r => some { f with handlers := r }

/-- `op_push_handler`: two `u16` operands; the catch offset is relative to the ip *after* the
5-byte instruction (`Gen.Enc.handlerFwd 5`). -/
def opPushHandler (f : Fiber) (slotDepth jump : Nat) : Fiber :=
  let f := { f with ip := f.ip + 5 }
  f.pushExceptionHandler (f.ip + jump) slotDepth

/-- `op_pop_handler` -/
def opPopHandler (f : Fiber) : Signal × Fiber :=
  match f.popExceptionHandler with
  | none => (.panic, f)
  | some f' => (.ok, { f' with ip := f'.ip + 1 })

/-- `Fiber::stack_unwind`: take the innermost handler iff its frame is STRICTLY ABOVE `bottom_frame`
(the frame count at which native code re-entered the interpreter; `unwrap_or(0)` in normal mode):
`exception_handler.call_frame_depth() > bottom_frame` (regenerated as `Gen.unwindBottomCompare`).
A handler at or below it belongs to the caller of the native: the unwind stops and the native
returns the error.  Otherwise mark the fiber unwinding (`pause_unwind`), point the handler's frame
at the catch offset and reset `stack_top` to `frame.stack_start + slot_depth`.  Frames are NOT
truncated here (that is `finish_unwind`).  (`frames[depth - 1]` out of range is the
`debug_assert!`/index panic.) -/
def Fiber.stackUnwind (f : Fiber) (bottom : Option Nat) : UnwindResult × Fiber :=
  match f.handlers with
  | [] =>
    match bottom with
    | some _ => (.unwindStopped, f)
    | none => (.unhandled, f)
  | h :: _ =>
    if bottom.getD 0 < h.frameDepth then
      match f.frames[h.frameDepth - 1]? with
      | none => (.panic, f)
      | some fr =>
        (.potentiallyHandled,
          { f with unwinding := true
                   frames := f.frames.set (h.frameDepth - 1) { fr with ip := h.offset }
                   cur := h.frameDepth - 1
                   stack := setTop (fr.start + h.slotDepth) f.stack })
    else (.unwindStopped, f)

/-- how the regenerated comparison operator of `Fiber::stack_unwind` reads: `depth <op> bottom` -/
def compareOp : String → Nat → Nat → Bool
  | ">", a, b => decide (a > b)
  | ">=", a, b => decide (a ≥ b)
  | "==", a, b => decide (a = b)
  | "<=", a, b => decide (a ≤ b)
  | "<", a, b => decide (a < b)
  | "!=", a, b => decide (a ≠ b)
  | _, _, _ => false

/-- `Vm::store_ip`: save `vm.ip` into the current frame -/
def Fiber.storeIp (f : Fiber) : Fiber :=
  match f.frames[f.cur]? with
  | some fr => { f with frames := f.frames.set f.cur { fr with ip := f.ip } }
  | none => f

/-- `self.ip = frame.ip()` after a successful unwind -/
def Fiber.loadIp (f : Fiber) : Fiber :=
  match f.frames[f.cur]? with
  | some fr => { f with ip := fr.ip }
  | none => f

/-- `Vm::stack_unwind` (vm/error.rs): `store_ip`, unwind the fiber with `bottom_frame` taken from the
execution mode (`Normal ↦ None`, `CallingNativeCode(depth) ↦ Some(depth)`), reload `ip`. -/
def Fiber.raise (f : Fiber) (mode : Option Nat) : UnwindResult × Fiber :=
  match f.storeIp.stackUnwind mode with
  | (.potentiallyHandled, f2) => (.potentiallyHandled, f2.loadIp)
  | r => r

/-- `Vm::run_fun` / `run_method` / `runtime_error` (`Gen.reentrySites`): native code re-enters the
interpreter with `ExecutionMode::CallingNativeCode(self.fiber.frames().len())`, the frame count
BEFORE the callee's frame is pushed. -/
def Fiber.reentryDepth (f : Fiber) : Nat := f.frames.length

/-- An error signalled in the innermost of a chain of nested `Vm::execute` loops.  `levels` are the
`bottom_frame`s of the native re-entries that are on the host stack, innermost first (`[]` = only
the outermost loop, `ExecutionMode::Normal`).  The innermost loop runs `Vm::stack_unwind` in its
mode; on `UnwindStopped` that `execute` returns `RuntimeError`, `to_call_result` hands
`Call::Err(error)` to the native, the native returns it (its `?`; assumption on laythe_lib),
`call_native` does `set_error(error)` and the ENCLOSING loop unwinds in its own mode — the fiber is
not touched in between (frames are only cut by `finish_unwind`).  Answers what the unwind found,
the fiber, and the re-entries still on the host stack when it was found. -/
def Fiber.raiseThrough (f : Fiber) : List Nat → UnwindResult × Fiber × List Nat
  | [] => ((f.raise none).1, (f.raise none).2, [])
  | b :: outer =>
    match f.raise (some b) with
    | (.unwindStopped, f') => f'.raiseThrough outer
    | (r, f') => (r, f', b :: outer)

/-- `Fiber::finish_unwind`: truncate the frames to the handler's depth, back to running. -/
def Fiber.finishUnwind (f : Fiber) : Option Fiber :=
  match f.handlers with
  | [] => none
  | h :: _ =>
    if f.unwinding then some { f with frames := f.frames.take h.frameDepth, unwinding := false }
    else none

/-- `op_finish_unwind` (the back-trace bookkeeping on the error object is not modelled) -/
def opFinishUnwind (f : Fiber) : Signal × Fiber :=
  match f.finishUnwind, f.error with
  | some f', some _ => (.ok, { f' with ip := f'.ip + 1 })
  | _, _ => (.panic, f)

/-- `Vm::runtime_error`: build an instance of `cls` (the constructor call leaves the stack as it
was) and `set_error` it. -/
def runtimeError (f : Fiber) (cls : Cls) (msg : Nat) : Signal × Fiber :=
  (.runtimeError, { f with error := some (.inst cls msg) })

/-- `Fiber::error_while_handling` -/
def Fiber.errorWhileHandling (f : Fiber) : Option Fiber := f.popExceptionHandler

/-- the three ways `op_check_handler` can go (plus the internal-error panics) -/
inductive CheckOutcome where
  /-- filter is a superclass of the error's class: fall through into the clause -/
  | matched (f : Fiber)
  /-- valid filter, no match: jump to the next clause -/
  | mismatch (f : Fiber)
  /-- not a class / not a subclass of `Error`: handler removed, `TypeError` signalled -/
  | typeError (f : Fiber)
  | panic
  deriving Repr

/-- the body of `op_check_handler` after the operand is read: the filter class is on top of the
stack.  Not a class, or not a subclass of `Error` ⇒ `error_while_handling` (the handler is removed)
and a `TypeError` is raised.  Otherwise the filter is dropped on both branches. -/
def checkHandlerCore (f : Fiber) : CheckOutcome :=
  match f.error with
  | some (.inst ec _) =>
    match f.peek with
    | some (.cls c) =>
      if !c.isSubclass errorCls then
        match f.errorWhileHandling with
        | none => .panic
        | some f' => .typeError (runtimeError f' typeErrorCls msgCatchNotError).2
      else if !ec.isSubclass c then .mismatch f.drop
      else .matched f.drop
    | _ =>
      match f.errorWhileHandling with
      | none => .panic
      | some f' => .typeError (runtimeError f' typeErrorCls msgCatchNotError).2
  | _ => .panic

/-- `op_check_handler`: jump (`update_ip(jump)`) exactly when the error's class is NOT a subclass of
the filter. -/
def opCheckHandler (f : Fiber) (jump : Nat) : Signal × Fiber :=
  match checkHandlerCore { f with ip := f.ip + 3 } with
  | .matched f' => (.ok, f')
  | .mismatch f' => (.ok, { f' with ip := f'.ip + jump })
  | .typeError f' => (.runtimeError, f')
  | .panic => (.panic, f)

/-- `op_continue_unwind`: pop the handler and signal the error again. -/
def opContinueUnwind (f : Fiber) : Signal × Fiber :=
  match f.popExceptionHandler with
  | none => (.panic, f)
  | some f' => (.runtimeError, { f' with ip := f'.ip + 1 })

/-- `op_get_error` -/
def opGetError (f : Fiber) : Signal × Fiber :=
  match f.error with
  | some e => (.ok, { f.push e with ip := f.ip + 1 })
  | none => (.panic, f)

/-- `op_raise`: only instances of subclasses of `Error` can be raised; anything else raises a
`RuntimeError` instead. -/
def opRaise (f : Fiber) : Signal × Fiber :=
  let v := f.peek
  let f := { f.drop with ip := f.ip + 1 }
  match v with
  | some (.inst c p) =>
    if c.isSubclass errorCls then (.runtimeError, { f with error := some (.inst c p) })
    else runtimeError f runtimeErrorCls msgRaiseNotError
  | _ => runtimeError f runtimeErrorCls msgRaiseNotError

/-- What the code emitted by `Compiler::try_`/`catch` does once control is at the catch label, for
the clause filters `filters` (the values `variable_get(class)` pushes, in source order):
`(filter; CheckHandler next; FinishUnwind; PopHandler; GetError; <body>)* ContinueUnwind`. -/
inductive ChainResult where
  /-- clause `i` entered: unwinding finished, handler popped, error bound as the clause's local -/
  | clause (i : Nat) (f : Fiber)
  /-- no clause matched: handler popped, error signalled again -/
  | continueUnwind (f : Fiber)
  /-- filter `i` was not a subclass of Error: handler popped, a TypeError is signalled -/
  | filterError (i : Nat) (f : Fiber)
  | panic
  deriving Repr, DecidableEq

/-- (kind, clause index, fiber) of a chain result, for stating examples -/
def ChainResult.view : ChainResult → String × Nat × Option Fiber
  | .clause i f => ("clause", i, some f)
  | .continueUnwind f => ("continue", 0, some f)
  | .filterError i f => ("filter-error", i, some f)
  | .panic => ("panic", 0, none)

/-- `FinishUnwind; PopHandler; GetError` — the prologue of a clause whose filter matched -/
def enterClause (f : Fiber) : Option Fiber :=
  match opFinishUnwind f with
  | (.ok, f2) =>
    match opPopHandler f2 with
    | (.ok, f3) =>
      match opGetError f3 with
      | (.ok, f4) => some f4
      | _ => none
    | _ => none
  | _ => none

def catchChainFrom (i : Nat) : List Val → Fiber → ChainResult
  | [], f =>
    match opContinueUnwind f with
    | (.runtimeError, f') => .continueUnwind f'
    | _ => .panic
  | v :: vs, f =>
    match checkHandlerCore { f.push v with ip := f.ip + 3 } with
    | .typeError f' => .filterError i f'
    | .mismatch f1 => catchChainFrom (i + 1) vs f1      -- (the jump lands on the next clause)
    | .matched f1 =>
      match enterClause f1 with
      | some f4 => .clause i f4
      | none => .panic
    | .panic => .panic

def catchChain (filters : List Val) (f : Fiber) : ChainResult := catchChainFrom 0 filters f

/-! ## Part 2 — the handler machine of one function over `Gen.Sym` -/

/-- index of `Label l` in the instruction list -/
def labelPos : List Sym → Nat → Option Nat
  | [], _ => none
  | i :: rest, l => if i = Sym.Label l then some 0 else (labelPos rest l).map (· + 1)

/-- A flow graph over abstract states `(pc, a)`.  `succ pc a = none` means "the machine's contract
is broken here" (pop of a handler the function does not own, return with live handlers, jump to a
missing label, fall off the end ...). -/
structure Flow (α : Type) where
  size : Nat
  entry : α
  succ : Nat → α → Option (List (Nat × α))

namespace Flow
variable {α : Type}

inductive Step (F : Flow α) : Nat × α → Nat × α → Prop
  | mk {pc : Nat} {a : α} {l : List (Nat × α)} {t : Nat × α} :
      F.succ pc a = some l → t ∈ l → Step F (pc, a) t

/-- every finite path from the entry -/
inductive Reach (F : Flow α) : Nat × α → Prop
  | entry : Reach F (0, F.entry)
  | step {s t} : Reach F s → Step F s t → Reach F t

/-- the state satisfies the machine's contract: an instruction exists and all its clauses hold -/
def Safe (F : Flow α) (s : Nat × α) : Prop := s.1 < F.size ∧ (F.succ s.1 s.2).isSome = true

/-- executable local-consistency check of an annotation `A` (one abstract value per reachable pc) -/
def checkCert [DecidableEq α] (F : Flow α) (A : List (Option α)) : Bool :=
  A.length == F.size && A[0]? == some (some F.entry) &&
  (List.range F.size).all fun pc =>
    match A[pc]? with
    | some (some a) =>
      match F.succ pc a with
      | none => false
      | some l => l.all fun t => A[t.1]? == some (some t.2)
    | _ => true

end Flow

/-- the catch label a raise goes to: the innermost handler of this function stays installed while
its clauses are tested; with no own handler the error leaves the function (no successor here). -/
def excEdge (code : List Sym) (hs : List Nat) : Option (List (Nat × List Nat)) :=
  match hs with
  | [] => some []
  | l :: r => (labelPos code l).map fun p => [(p, l :: r)]

def optAppend {β : Type} (a b : Option (List β)) : Option (List β) :=
  match a, b with
  | some x, some y => some (x ++ y)
  | _, _ => none

/-- Successors of `(pc, hs)` where `hs` is the stack of catch labels of the handlers this function
activation owns (innermost first).  Any instruction may raise (conservative), and calls may return
by raising; the raise edge goes to the innermost own handler.  Clauses: `PopHandler`,
`CheckHandler`, `FinishUnwind`, `ContinueUnwind` need an own handler; `Return` needs none left. -/
def balanceSucc (code : List Sym) (pc : Nat) (hs : List Nat) : Option (List (Nat × List Nat)) :=
  match code[pc]? with
  | none => none
  | some i =>
    match i with
    | .PushHandler _ l => optAppend (some [(pc + 1, l :: hs)]) (excEdge code hs)
    | .PopHandler =>
      match hs with
      | [] => none
      | _ :: r => some [(pc + 1, r)]
    | .ContinueUnwind =>
      match hs with
      | [] => none
      | _ :: r => excEdge code r
    | .CheckHandler l =>
      match hs with
      | [] => none
      | _ :: r =>
        optAppend ((labelPos code l).map fun p => [(pc + 1, hs), (p, hs)]) (excEdge code r)
    | .FinishUnwind =>
      match hs with
      | [] => none
      | _ :: _ => some [(pc + 1, hs)]
    | .Return => if hs = [] then some [] else none
    | .Raise => excEdge code hs
    | .Jump l => (labelPos code l).map fun p => [(p, hs)]
    | .Loop l => (labelPos code l).map fun p => [(p, hs)]
    | .JumpIfFalse l => optAppend ((labelPos code l).map fun p => [(pc + 1, hs), (p, hs)]) (excEdge code hs)
    | .And l => optAppend ((labelPos code l).map fun p => [(pc + 1, hs), (p, hs)]) (excEdge code hs)
    | .Or l => optAppend ((labelPos code l).map fun p => [(pc + 1, hs), (p, hs)]) (excEdge code hs)
    | _ => optAppend (some [(pc + 1, hs)]) (excEdge code hs)

def balanceFlow (code : List Sym) : Flow (List Nat) :=
  { size := code.length, entry := [], succ := balanceSucc code }

/-- outcome of the (untrusted) inference, with diagnostics used only to CLASSIFY rejected
functions against the signatures of known findings -/
inductive InferResult (α : Type) where
  | ok (A : List (Option α))
  /-- edge `src → pc` arrives with `incoming` where `existing` is already recorded -/
  | conflict (src pc : Nat) (incoming existing : α)
  /-- the contract is broken at `pc` in abstract state `a` (reached from `src`) -/
  | breach (src pc : Nat) (a : α)
  | fuel
  deriving Repr

/-- Generic work-list inference of an annotation (UNTRUSTED: only `checkCert` is relied on). -/
def inferLoop {α : Type} [DecidableEq α] (F : Flow α) :
    Nat → List (Nat × Nat × α) → List (Option α) → InferResult α
  | 0, _, _ => .fuel
  | _ + 1, [], A => .ok A
  | fuel + 1, (src, pc, a) :: work, A =>
    match A[pc]? with
    | none => .breach src pc a
    | some (some b) => if a = b then inferLoop F fuel work A else .conflict src pc a b
    | some none =>
      match F.succ pc a with
      | none => .breach src pc a
      | some l => inferLoop F fuel (l.map (fun t => (pc, t.1, t.2)) ++ work) (A.set pc (some a))

def inferX {α : Type} [DecidableEq α] (F : Flow α) : InferResult α :=
  inferLoop F (F.size * 8 + 16) [(0, 0, F.entry)] (List.replicate F.size none)

def infer {α : Type} [DecidableEq α] (F : Flow α) : Option (List (Option α)) :=
  match inferX F with
  | .ok A => some A
  | _ => none

/-- **The verified checker.**  `true` ⇒ every path of the function keeps its handlers balanced
(`Props/C04.lean: C04_handler_balance`). -/
def checkHandlerBalance (code : List Sym) : Bool :=
  match infer (balanceFlow code) with
  | none => false
  | some A => (balanceFlow code).checkCert A

/-- abstract state of the depth analysis: operand depth above slot 0 of the frame, and the own
handlers as (catch label, depth recorded in the `PushHandler`) innermost first -/
abbrev DState := Nat × List (Nat × Nat)

def dExc (code : List Sym) (hs : List (Nat × Nat)) : Option (List (Nat × DState)) :=
  match hs with
  | [] => some []
  | (l, rd) :: r => (labelPos code l).map fun p => [(p, (rd, (l, rd) :: r))]

/-- depth after a fall-through, from the compiler's own `stack_effect` table (`Gen.Sym.stackEffect`);
`none` when the instruction would pop more than there is above slot 0 -/
def applyEffect (d : Nat) (i : Sym) : Option Nat :=
  let r : Int := (d : Int) + i.stackEffect
  if 1 ≤ r then some r.toNat else none

def fallAnd (d : Nat) (i : Sym) (f : Nat → Option (List (Nat × DState))) : Option (List (Nat × DState)) :=
  match applyEffect d i with
  | none => none
  | some d' => f d'

/-- Successors of `(pc, (d, hs))`.  A raise resets the depth to what the handler RECORDED (as
`Fiber::stack_unwind` does).  Clause at `PushHandler rec _`: `rec = d`, the depth live at the `try`.
Clause at `CheckHandler _` under the handler `(_, rec)`: once the filter operand is popped the depth is
`rec` again — between the catch label (entered at `rec` by the unwind) and ANY clause's class test
nothing but the filter is on the operand stack, so a clause that DECLINES the error hands the next
clause (the jump target) exactly the layout the unwind produced, and the clause that accepts it binds
the error in the first slot above everything that was live at the `try` (the slot `Compiler::catch`
gives the variable).
The taken branch of `And`/`Or` keeps the operand; `JumpIfFalse` and `CheckHandler` pop on both. -/
def depthSucc (code : List Sym) (pc : Nat) (s : DState) : Option (List (Nat × DState)) :=
  let d := s.1
  let hs := s.2
  match code[pc]? with
  | none => none
  | some i =>
    match i with
    | .PushHandler rd l =>
      if rd = d then optAppend (some [(pc + 1, (d, (l, rd) :: hs))]) (dExc code hs) else none
    | .PopHandler =>
      match hs with
      | [] => none
      | _ :: r => some [(pc + 1, (d, r))]
    | .ContinueUnwind =>
      match hs with
      | [] => none
      | _ :: r => dExc code r
    | .CheckHandler l =>
      match hs with
      | [] => none
      | (_, rd) :: r =>
        fallAnd d i fun d' =>
          if d' = rd then
            optAppend ((labelPos code l).map fun p => [(pc + 1, (d', hs)), (p, (d', hs))]) (dExc code r)
          else none
    | .FinishUnwind =>
      match hs with
      | [] => none
      | _ :: _ => some [(pc + 1, (d, hs))]
    | .Return => if hs = [] ∧ 2 ≤ d then some [] else none
    | .Raise => if 2 ≤ d then dExc code hs else none
    | .Jump l => (labelPos code l).map fun p => [(p, (d, hs))]
    | .Loop l => (labelPos code l).map fun p => [(p, (d, hs))]
    | .JumpIfFalse l =>
      fallAnd d i fun d' =>
        optAppend ((labelPos code l).map fun p => [(pc + 1, (d', hs)), (p, (d', hs))]) (dExc code hs)
    | .And l =>
      fallAnd d i fun d' =>
        optAppend ((labelPos code l).map fun p => [(pc + 1, (d', hs)), (p, (d, hs))]) (dExc code hs)
    | .Or l =>
      fallAnd d i fun d' =>
        optAppend ((labelPos code l).map fun p => [(pc + 1, (d', hs)), (p, (d, hs))]) (dExc code hs)
    | _ => fallAnd d i fun d' => optAppend (some [(pc + 1, (d', hs))]) (dExc code hs)

/-- entry depth: slot 0 (callee / `self`) plus the parameters -/
def depthFlow (arity : Nat) (code : List Sym) : Flow DState :=
  { size := code.length, entry := (arity + 1, []), succ := depthSucc code }

/-- **Verified checker of the handler clause** ("every handler records the depth live at its try"):
`true` ⇒ on every path every `PushHandler` executes at exactly its recorded depth, and every
`CheckHandler` — the test of the first clause and of every later one — executes with exactly the
filter operand above the depth its handler recorded. -/
def checkHandlerDepth (arity : Nat) (code : List Sym) : Bool :=
  match infer (depthFlow arity code) with
  | none => false
  | some A => (depthFlow arity code).checkCert A

/-- the same code with every `PushHandler`'s depth operand replaced by the analysed depth: used by
the driver to REPORT (recorded, analysed) pairs for functions that fail `checkHandlerDepth`
(classification of known finding D1); untrusted. -/
def analysedDepths (arity : Nat) (code : List Sym) : Option (List (Nat × Nat × Nat)) :=
  -- iterate: replace recorded depths by analysed ones until the clause holds everywhere
  let rec fix (fuel : Nat) (cur : List Sym) : Option (List Sym) :=
    match fuel with
    | 0 => none
    | fuel + 1 =>
      -- analyse with the clause switched off: rewrite operands on the fly
      let F : Flow DState :=
        { size := cur.length, entry := (arity + 1, []),
          succ := fun pc s => match cur[pc]? with
            | some (.PushHandler _ l) => depthSucc (cur.set pc (.PushHandler s.1 l)) pc s
            | _ => depthSucc cur pc s }
      match infer F with
      | none => none
      | some A =>
        let next := (List.range cur.length).map fun pc =>
          match cur[pc]?, A[pc]? with
          | some (.PushHandler _ l), some (some s) => Sym.PushHandler s.1 l
          | some i, _ => i
          | none, _ => Sym.Nil
        if next = cur then some cur else fix fuel next
  match fix 8 code with
  | none => none
  | some fixed =>
    some ((List.range code.length).filterMap fun pc =>
      match (code[pc]? : Option Sym), (fixed[pc]? : Option Sym) with
      | some (Sym.PushHandler rd _), some (Sym.PushHandler d _) => some (pc, rd, d)
      | _, _ => none)

/-- byte offset of each instruction (`compute_label_offsets`' running sum of `Sym.len`) -/
def offsets : List Sym → Nat → List Nat
  | [], _ => []
  | i :: rest, o => o :: offsets rest (o + i.len)

/-! ## Part 3 — the compile side -/

/-- statement skeleton: everything that matters for handler emission -/
inductive Stmt where
  /-- any statement without control flow of its own (`Nil; Drop`) -/
  | op
  /-- `raise e;` -/
  | raise_
  | break_
  | continue_
  /-- `return;` / `return e;` (both emit at most one `PopHandler`) -/
  | return_
  /-- `if c { body }` (a scope) -/
  | if_ (body : List Stmt)
  /-- `while c { body }` -/
  | while_ (body : List Stmt)
  /-- `try { body } catch e: C1 { b1 } catch e: C2 { b2 } ...` -/
  | try_ (body : List Stmt) (catches : List (List Stmt))
  /-- `|| e;` as the FIRST statement of a catch clause, `e` being the clause's variable: a closure that
  captures it, so that the variable is a `LocalCaptured` symbol (it lives in a box: `EmptyBox` where
  it is declared, `FillBox` where it is defined) -/
  | capture
  deriving Repr, Inhabited

/-- the clause's variable is captured (the skeleton generator puts `capture` first in the clause) -/
def clauseCaptured : List Stmt → Bool
  | .capture :: _ => true
  | _ => false

/-- `TryAttributes`, `LoopAttributes`, `scope_depth`, `LabelEmitter` of `Compiler`.
`tryAttrs` holds the `scope_depth` of the open try blocks of this function, innermost first.
`single = true` is the compiler before the repair of D3: `try_attributes: Option<TryAttributes>`,
`try_` does `.replace(..)` and restores the enclosing value, so at most ONE block is ever recorded.
`single = false` is the repaired compiler: `try_attributes: Vec<TryAttributes>`, push / pop. -/
structure CState where
  single : Bool := true
  scopeDepth : Nat := 1
  tryAttrs : List Nat := []                        -- TryAttributes { scope_depth }
  loopAttr : Option (Nat × Nat × Nat) := none      -- LoopAttributes { scope_depth, start, end }
  nextLabel : Nat := 0
  out : List Sym := []
  deriving Repr, Inhabited

def CState.emit (c : CState) (i : Sym) : CState := { c with out := c.out ++ [i] }
def CState.emitN (c : CState) (i : Sym) : Nat → CState
  | 0 => c
  | n + 1 => (c.emit i).emitN i n
def CState.label (c : CState) : Nat × CState := (c.nextLabel, { c with nextLabel := c.nextLabel + 1 })

mutual
/-- `Compiler::stmt` restricted to the skeleton; mirrors `try_`, `catch`, `while_`/`loop_scope`,
`if_`, `break_`, `continue_`, `return_`/`emit_return`, `raise`. -/
def lowerStmt : Stmt → CState → CState
  | .op, c => (c.emit .Nil).emit .Drop
  | .raise_, c => (c.emit .Nil).emit .Raise
  | .capture, c => ((c.emit (.Closure 0)).emit (.CaptureIndex (.Local 0))).emit .Drop
  | .return_, c =>
    let c := c.emit .Nil
    -- before: `if self.try_attributes.is_some() { PopHandler }`
    -- after:  `for _ in 0..self.try_attributes.len() { PopHandler }`
    let c := c.emitN .PopHandler c.tryAttrs.length
    c.emit .Return
  | .break_, c =>
    match c.loopAttr with
    | none => c
    | some (ld, _, e) =>
      -- one `PopHandler` per recorded try with `scope_depth > loop_attributes.scope_depth`
      let c := c.emitN .PopHandler (c.tryAttrs.filter (· > ld)).length
      c.emit (.Jump e)
  | .continue_, c =>
    match c.loopAttr with
    | none => c
    | some (ld, s, _) =>
      let c := c.emitN .PopHandler (c.tryAttrs.filter (· > ld)).length
      c.emit (.Loop s)
  | .if_ body, c =>
    let c := c.emit .True
    let (l, c) := c.label
    let c := c.emit (.JumpIfFalse l)
    let c := { c with scopeDepth := c.scopeDepth + 1 }
    let c := lowerBlock body c
    let c := { c with scopeDepth := c.scopeDepth - 1 }
    c.emit (.Label l)
  | .while_ body, c =>
    let (s, c) := c.label
    let c := c.emit (.Label s)
    let c := c.emit .True
    let (e, c) := c.label
    let c := c.emit (.JumpIfFalse e)
    -- loop_scope: the attributes record the scope depth BEFORE the body's scope opens
    let enclosing := c.loopAttr
    let c := { c with loopAttr := some (c.scopeDepth, s, e) }
    let c := { c with scopeDepth := c.scopeDepth + 1 }
    let c := lowerBlock body c
    let c := { c with scopeDepth := c.scopeDepth - 1 }
    let c := c.emit (.Loop s)
    let c := c.emit (.Label e)
    { c with loopAttr := enclosing }
  | .try_ body catches, c =>
    -- before: `let enclosing_try = self.try_attributes.replace(try_attributes)`
    -- after:  `self.try_attributes.push(try_attributes)`
    let enclosing := c.tryAttrs
    let c := { c with tryAttrs := if c.single then [c.scopeDepth] else c.scopeDepth :: c.tryAttrs }
    let (catchL, c) := c.label
    let c := c.emit (.PushHandler 0 catchL)
    let c := { c with scopeDepth := c.scopeDepth + 1 }
    let c := lowerBlock body c
    let c := { c with scopeDepth := c.scopeDepth - 1 }
    let c := c.emit .PopHandler
    let (endL, c) := c.label
    let c := c.emit (.Jump endL)
    let c := c.emit (.Label catchL)
    -- `self.try_attributes = enclosing_try` / `self.try_attributes.pop()`
    let c := { c with tryAttrs := enclosing }
    let c := lowerCatches catches endL c
    let c := c.emit .ContinueUnwind
    c.emit (.Label endL)

def lowerBlock : List Stmt → CState → CState
  | [], c => c
  | s :: rest, c => lowerBlock rest (lowerStmt s c)

/-- `Compiler::catch` for each clause -/
def lowerCatches : List (List Stmt) → Nat → CState → CState
  | [], _, c => c
  | b :: rest, endL, c =>
    let (nextL, c) := c.label
    let c := c.emit .Nil                -- variable_get(class)
    let c := c.emit (.CheckHandler nextL)
    let c := c.emit .FinishUnwind
    let c := c.emit .PopHandler
    -- `declare_variable` comes only HERE, on the path of the clause that accepted the error: a captured
    -- variable gets its box (`declare_local_variable`: `EmptyBox`), `GetError` pushes the error and
    -- `define_variable` moves it into the box (`define_local_variable`: `FillBox`)
    let c := if clauseCaptured b then c.emit .EmptyBox else c
    let c := c.emit .GetError
    let c := if clauseCaptured b then c.emit .FillBox else c
    let c := { c with scopeDepth := c.scopeDepth + 2 }
    let c := lowerBlock b c
    let c := { c with scopeDepth := c.scopeDepth - 2 }
    let c := c.emit .Drop               -- the catch variable
    let c := c.emit (.Jump endL)
    let c := c.emit (.Label nextL)
    lowerCatches rest endL c
end

/-- a whole function body followed by the implicit `emit_return` -/
def lowerFun (single : Bool) (body : List Stmt) : List Sym :=
  ((lowerBlock body { single := single }).emit .Nil |>.emit .Return).out

/-- `remove_dead_code` as far as it matters here: after `Return`/`Raise`/`Jump`/`Loop`/`ContinueUnwind`
drop everything up to the next label -/
def removeDead : List Sym → Bool → List Sym
  | [], _ => []
  | i :: rest, dead =>
    match i with
    | .Label _ => i :: removeDead rest false
    | _ =>
      if dead then removeDead rest true
      else
        let stop := match i with
          | .Return | .Raise | .Jump _ | .Loop _ | .ContinueUnwind => true
          | _ => false
        i :: removeDead rest stop

/-- `apply_stack_effects` (compiler/peephole.rs) BEFORE the repairs of D1/D2: ONE straight-line pass
that starts at 1 (slot 0 only — the parameters are not counted) and writes the running depth into
each `PushHandler`. -/
def applyStackEffects : List Sym → Int → List Sym
  | [], _ => []
  | i :: rest, slots =>
    let i' := match i with
      | .PushHandler _ l => Sym.PushHandler slots.toNat l
      | _ => i
    i' :: applyStackEffects rest (slots + i'.stackEffect)

/-- the straight-line pass with the parameters added (D1 repaired, D2 not) -/
def applyStackEffectsParams (params : Nat) : List Sym → Int → List Sym
  | [], _ => []
  | i :: rest, slots =>
    let i' := match i with
      | .PushHandler _ l => Sym.PushHandler (slots + (params : Int)).toNat l
      | _ => i
    i' :: applyStackEffectsParams params rest (slots + i'.stackEffect)

/-- `apply_stack_effects` AFTER the repairs: the recorded depth includes `params`
(`parameter_slots()`), and code that is only reachable through a label continues with the depth
recorded by the first transfer that targets the label (`label_slots.entry(..).or_insert(..)`).
With `skipDead` (repair of D2r) a label reached neither by fall-through nor by a recorded transfer
starts an unreachable region that is skipped (`if !reachable { continue; }`: nothing is rewritten,
and `fallthrough` keeps its value) until the next label with a recorded depth. -/
def applyStackEffectsFixed (params : Nat) (skipDead : Bool) :
    List Sym → Int → Bool → Bool → List (Nat × Int) → List Sym
  | [], _, _, _, _ => []
  | i :: rest, slots, fall, reach, labels =>
    let sr : Int × Bool := match i with
      | .Label l =>
        if !fall then
          match labels.lookup l with
          | some t => (t, true)
          | none => (slots, if skipDead then false else reach)
        else (slots, reach)
      | _ => (slots, reach)
    let slots := sr.1
    let reach := sr.2
    if !reach then i :: applyStackEffectsFixed params skipDead rest slots fall reach labels
    else
      let i' := match i with
        | .PushHandler _ l => Sym.PushHandler (slots + (params : Int)).toNat l
        | _ => i
      let before := slots
      let slots := slots + i'.stackEffect
      let ins (l : Nat) (v : Int) := match labels.lookup l with
        | some _ => labels
        | none => (l, v) :: labels
      let labels := match i' with
        | .And l | .Or l | .PushHandler _ l => ins l before
        | .JumpIfFalse l | .Jump l | .CheckHandler l => ins l slots
        | _ => labels
      let fall := match i' with
        | .Jump _ | .Loop _ | .Return | .Raise | .ContinueUnwind => false
        | _ => true
      i' :: applyStackEffectsFixed params skipDead rest slots fall reach labels

/-- the pass as the tree at hand has it: `countsParams`/`followsLabels`/`skipDead` are the regenerated
`Gen.handlerDepthCountsParams`/`Gen.stackPassFollowsLabels`/`Gen.stackPassSkipsDeadLabels` -/
def applyPass (countsParams followsLabels skipDead : Bool) (arity : Nat) (code : List Sym) : List Sym :=
  let params := if countsParams then arity else 0
  if followsLabels then applyStackEffectsFixed params skipDead code 1 true true []
  else applyStackEffectsParams params code 1

/-- forget the recorded depths (what the compiler emits before the pass) -/
def zeroDepths (code : List Sym) : List Sym :=
  code.map fun i => match i with
    | .PushHandler _ l => Sym.PushHandler 0 l
    | _ => i

/-- the envelope E4 of `C04_handler_balance` on skeletons: no `break`/`continue`/`return` leaves two
or more `try` blocks at once.  `tries` = open try blocks of the function, `inLoop` = open try blocks
inside the innermost loop. -/
def inE4 : List Stmt → Nat → Nat → Bool
  | [], _, _ => true
  | s :: rest, tries, inLoop =>
    (match s with
      | .op | .raise_ | .capture => true
      | .return_ => decide (tries ≤ 1)
      | .break_ | .continue_ => decide (inLoop ≤ 1)
      | .if_ b => inE4 b tries inLoop
      | .while_ b => inE4 b tries 0
      | .try_ b cs => inE4 b (tries + 1) (inLoop + 1) && inE4Catches cs tries inLoop) && inE4 rest tries inLoop
where
  inE4Catches : List (List Stmt) → Nat → Nat → Bool
    | [], _, _ => true
    | b :: rest, tries, inLoop => inE4 b tries inLoop && inE4Catches rest tries inLoop

end LaytheVerif.Handlers
