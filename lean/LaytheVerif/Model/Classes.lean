/-
Model of Laythe's class machinery (C03).

* §1 tables: the two `HashMap`s of `laythe_core/src/object/class.rs` as association lists with
  distinct keys (`Tbl.insert` replaces in place or appends, so `length` = `HashMap::len`).
* §2 `Cls`: `Class::{bare, add_field, add_method, get_method, get_field_index, fields, inherit}`.
* §3 `Store`: classes referring to each other (`super_class`, `meta_class`), `meta_from_super`,
  `with_inheritance`, and the VM's `op_class / op_inherit / op_field / op_method / op_static_method`.
* §4 instances: `AllocateObj<Instance> for ObjRef<Class>`, `Instance::{get_field, set_field}`.
* §5 the compiler's field numbering: `record_field`, `find_known_field`, `property_get/property_set`;
  which class a declaration inherits from: `Compiler::class`, `global_get`, `is_global` (`superLoad`).
* §6 the VM's call paths with the inline caches off (cache transparency is C13):
  `op_invoke`, `op_get_prop_by_name`, `op_set_prop_by_name`, `op_get_prop`, `op_set_prop`, `op_call`,
  `resolve_call`, `call_class`, `call_method`, `bind_method`, `op_get_super`, `op_super_invoke`.
* §7 the one inline cache that decides *which class* a call dispatches on although the receiver does not:
  the slot of a fused `super.m()` (`op_super_invoke` with `get_invoke_cache / set_invoke_cache`).

Core Lean only (links into `drv_classes`).
-/
namespace LaytheVerif.Classes

/-! ## §1 tables -/

/-- A `HashMap<LyStr, _>`: association list, first match wins, keys kept distinct by `insert`. -/
abbrev Tbl := List (String × Nat)

namespace Tbl

/-- `HashMap::get` -/
def get : Tbl → String → Option Nat
  | [], _ => none
  | (k', v) :: r, k => if k' = k then some v else get r k

/-- `HashMap::insert`: replace the value of an existing key, otherwise add an entry. -/
def insert : Tbl → String → Nat → Tbl
  | [], k, v => [(k, v)]
  | (k', v') :: r, k, v => if k' = k then (k', v) :: r else (k', v') :: insert r k v

def keys (t : Tbl) : List String := t.map (·.1)

/-- `if self.methods.get(key).is_none() { self.methods.insert(key, value) }` -/
def insertIfAbsent (t : Tbl) (k : String) (v : Nat) : Tbl :=
  match get t k with
  | none => insert t k v
  | some _ => t

end Tbl

/-! ## §2 one class -/

/-- `struct Class` of class.rs.  Method values are opaque ids; `metaClass`/`superClass` are indices
into a `Store`. -/
structure Cls where
  name : String
  init : Option Nat := none
  methods : Tbl := []
  fields : Tbl := []
  metaClass : Option Nat := none
  superClass : Option Nat := none
  deriving Repr, DecidableEq, Inhabited

namespace Cls

/-- `Class::bare` -/
def bare (name : String) : Cls := { name := name }

/-- `Class::fields()` — the number of fields -/
def nfields (c : Cls) : Nat := c.fields.length

/-- `Class::get_method` -/
def getMethod (c : Cls) (name : String) : Option Nat := c.methods.get name

/-- `Class::get_field_index` -/
def getFieldIndex (c : Cls) (name : String) : Option Nat := c.fields.get name

/-- `Class::add_field`: `if !contains_key(name) { insert(name, len) }` -/
def addField (c : Cls) (name : String) : Cls :=
  match c.fields.get name with
  | some _ => c
  | none => { c with fields := c.fields.insert name c.fields.length }

/-- `Class::add_method`: `if name == INIT { init = Some(method) }; methods.insert(name, method)` -/
def addMethod (c : Cls) (name : String) (m : Nat) : Cls :=
  { c with init := if name = "init" then some m else c.init, methods := c.methods.insert name m }

/-- `Class::inherit(super_class)`.  Mirrors the body for an arbitrary `self` (the two
`debug_assert!`s say `self` is fresh, which is what the VM and `with_inheritance` guarantee):
methods are copied unless already present, fields are inserted (overwriting), `init` is kept if set. -/
def inheritFrom (c : Cls) (supId : Nat) (sup : Cls) : Cls :=
  { c with
    methods := sup.methods.foldl (fun ms p => ms.insertIfAbsent p.1 p.2) c.methods
    fields := sup.fields.foldl (fun fs p => fs.insert p.1 p.2) c.fields
    superClass := some supId
    init := match c.init with
            | some i => some i
            | none => sup.init }

end Cls

/-! ## §3 the class store -/

structure Store where
  classes : List Cls := []
  deriving Repr, DecidableEq, Inhabited

namespace Store

def get? (s : Store) (i : Nat) : Option Cls := s.classes[i]?

def set (s : Store) (i : Nat) (c : Cls) : Store := { classes := s.classes.set i c }

/-- allocate a class object; returns its reference -/
def alloc (s : Store) (c : Cls) : Store × Nat := ({ classes := s.classes ++ [c] }, s.classes.length)

/-- `op_class`: `Class::bare(name)` pushed on the stack -/
def opClass (s : Store) (name : String) : Store × Nat := s.alloc (Cls.bare name)

/-- `sub_class.inherit(hooks, super_class)` on two references -/
def inherit (s : Store) (c p : Nat) : Option Store :=
  match s.get? c, s.get? p with
  | some cc, some pc => some (s.set c (cc.inheritFrom p pc))
  | _, _ => none

/-- `Class::meta_from_super`: the three `expect`s become `none`; `set_meta` panics when a metaclass
is already set. -/
def metaFromSuper (s : Store) (c : Nat) : Option Store :=
  match s.get? c with
  | none => none
  | some cc =>
    match cc.superClass with
    | none => none                                   -- "Expected super class."
    | some sup =>
      match s.get? sup with
      | none => none
      | some supc =>
        match supc.metaClass with
        | none => none                               -- "Expected super class to have meta class."
        | some superMeta =>
          match s.get? superMeta with
          | none => none
          | some superMetac =>
            match superMetac.metaClass with
            | none => none                           -- "Expected super meta class to have meta class."
            | some classClass =>
              match s.get? classClass with
              | none => none
              | some classClassC =>
                let metaBare : Cls := { name := cc.name ++ " metaClass", metaClass := some classClass }
                let (s1, metaId) := s.alloc (metaBare.inheritFrom classClass classClassC)
                match cc.metaClass with
                | some _ => none                     -- "Meta class already set!"
                | none => some (s1.set c { cc with metaClass := some metaId })

/-- `op_inherit` (after the operand checks): `inherit` then `meta_from_super` -/
def opInherit (s : Store) (c p : Nat) : Option Store :=
  match s.inherit c p with
  | some s1 => s1.metaFromSuper c
  | none => none

/-- `Class::with_inheritance` -/
def withInheritance (s : Store) (name : String) (p : Nat) : Option (Store × Nat) :=
  let (s1, c) := s.alloc (Cls.bare name)
  match s1.opInherit c p with
  | some s2 => some (s2, c)
  | none => none

/-- `op_field` -/
def opField (s : Store) (c : Nat) (name : String) : Option Store :=
  match s.get? c with
  | some cc => some (s.set c (cc.addField name))
  | none => none

/-- `op_method` -/
def opMethod (s : Store) (c : Nat) (name : String) (m : Nat) : Option Store :=
  match s.get? c with
  | some cc => some (s.set c (cc.addMethod name m))
  | none => none

/-- `op_static_method`: `class.meta_class_mut()` → `meta.add_method`; `none` = "meta class not set" -/
def opStaticMethod (s : Store) (c : Nat) (name : String) (m : Nat) : Option Store :=
  match s.get? c with
  | some cc =>
    match cc.metaClass with
    | some mc => s.opMethod mc name m
    | none => none
  | none => none

def className (s : Store) (c : Nat) : String :=
  match s.get? c with
  | some cc => cc.name
  | none => "?"

/-- the message of every "no such field or method" error -/
def undefinedProperty (s : Store) (name : String) (c : Nat) : String :=
  "Undefined property " ++ name ++ " on class " ++ s.className c ++ "."

/-- `Class::is_subclass` (fuel = number of classes is enough for an acyclic store) -/
def isSubclass (s : Store) : Nat → Nat → Nat → Bool
  | 0, _, _ => false
  | fuel + 1, c, d =>
    if c = d then true
    else match s.get? c with
      | some cc => match cc.superClass with
        | some p => isSubclass s fuel p d
        | none => false
      | none => false

/-- `support::test_object_class` (the same shape as the standard library's bootstrap): `Object`,
`Class` (its own metaclass, inheriting `Object`), `Object metaClass` inheriting `Class`.
Returns the store and the ids of `Object` and `Class`. -/
def bootstrap : Store × Nat × Nat :=
  let object : Cls := Cls.bare "Object"          -- id 0
  let classClass : Cls := ((Cls.bare "Class").inheritFrom 0 object)   -- id 1
  let classClass := { classClass with metaClass := some 1 }
  let objMeta : Cls := ((Cls.bare "Object metaClass").inheritFrom 1 classClass)  -- id 2
  let objMeta := { objMeta with metaClass := some 1 }
  let object := { object with metaClass := some 2 }
  ({ classes := [object, classClass, objMeta] }, 0, 1)

end Store

/-! ## §4 instances -/

/-- Values as far as the class machinery distinguishes them.  `prim c` is any non-object value or
non-callable object whose class (for `value_class`) is `c`; method values in class tables are
closures (`op_method` checks the kind); a bound method is kept as a value (its allocation is not
modelled). -/
inductive Val where
  | prim (cls : Nat) (payload : Int)
  | inst (addr : Nat)
  | cls (c : Nat)
  | closure (f : Nat)
  | native (f : Nat)
  | bound (recv : Val) (method : Val)
  deriving Repr, DecidableEq, Inhabited

structure Inst where
  cls : Nat
  slots : List Val
  deriving Repr, DecidableEq, Inhabited

/-- `AllocateObj<Instance> for ObjRef<Class>`: `NIL_ARRAY[..class.fields()]` (panics above 256). -/
def instantiate (nilV : Val) (cid : Nat) (c : Cls) : Option Inst :=
  if c.nfields > 256 then none else some { cls := cid, slots := List.replicate c.nfields nilV }

/-- `Instance::get_field`: `class.get_field_index(name).map(|i| &self[i])`; the inner `none` is the
slice-index panic. -/
def Inst.getField (i : Inst) (c : Cls) (name : String) : Option (Option Val) :=
  match c.getFieldIndex name with
  | some idx => some i.slots[idx]?
  | none => none

/-- `Instance::set_field` -/
def Inst.setField (i : Inst) (c : Cls) (name : String) (v : Val) : Option Inst :=
  match c.getFieldIndex name with
  | some idx => if idx < i.slots.length then some { i with slots := i.slots.set idx v } else none
  | none => none

/-! ## §5 the compiler's field numbering (laythe_vm/src/compiler/mod.rs) -/

/-- `find_known_field`: `class.fields.iter().position(|f| f == field)` -/
def findKnownField : List String → String → Option Nat
  | [], _ => none
  | g :: r, f => if g = f then some 0 else (findKnownField r f).map (· + 1)

/-- `record_field`: push if not yet present -/
def recordField (fs : List String) (f : String) : List String :=
  match findKnownField fs f with
  | some _ => fs
  | none => fs ++ [f]

/-- the `ClassAttributes.fields` after compiling an initialiser that assigns `self.<f>` for the
given names in textual order -/
def compileInitFields (assigns : List String) : List String := assigns.foldl recordField []

structure ClassAttrs where
  fields : List String
  explicitSuper : Bool
  deriving Repr, DecidableEq

inductive Access where
  | fixed (slot : Nat)        -- `GetProp(slot)` / `SetProp(slot)`
  | byName (name : String)    -- `GetPropByName(name)` / `SetPropByName(name)` + `PropertySlot`
  deriving Repr, DecidableEq

/-- the shared decision of `property_get` and `property_set`; `none` = the receiver is not `self`
(or there is no enclosing class) -/
def propertyAccess (ca : Option ClassAttrs) (f : String) : Access :=
  match ca with
  | some ca =>
    match findKnownField ca.fields f with
    | some pos => if ca.explicitSuper then .byName f else .fixed pos
    | none => .byName f
  | none => .byName f

/-! ### which class a declaration inherits from (`Compiler::class`, `global_get`, `is_global`;
`Resolver::class`, `resolve_global`) -/

/-- what the compiler knows about names at a class declaration: `locals` are the names in
`self.locals` of the compiler and of every enclosing compiler (parameters, `let`s, local functions and
classes, catch variables — innermost first, but only membership matters); `declared` are the names the
program itself declares at module level (every symbol of the module table whose state is not
`GlobalInitialized`). -/
structure NameScope where
  locals : List String := []
  declared : List String := []
  deriving Repr, DecidableEq, Inhabited

/-- `Compiler::is_global`: the name denotes this module's copy of a symbol of the global module — no
local of that name in any enclosing function and no declaration of the program at module level.
(The resolver's `resolve_global` has put the copy into the module table in exactly this case.) -/
def isGlobal (sc : NameScope) (name : String) : Bool :=
  !sc.locals.contains name && !sc.declared.contains name

/-- the instruction that pushes the superclass -/
inductive SuperLoad where
  | lexical (name : String)    -- `variable_get(name)`: an explicit superclass is an ordinary variable read
  | moduleCopy                 -- `GetModSym(slot of "Object")`: the copy the module prologue loaded from the global module
  | loadGlobal                 -- `LoadGlobal("Object")`: read from the global module at the declaration
  deriving Repr, DecidableEq

/-- `Compiler::class`: an explicit superclass is resolved lexically; the implicit one is the symbol
`Object` *of the global module* (`global_get`), through the module's copy when the program does not
use the name itself, otherwise straight from the global module. -/
def superLoad (sc : NameScope) : Option String → SuperLoad
  | some p => .lexical p
  | none => if isGlobal sc "Object" then .moduleCopy else .loadGlobal

/-- the run-time values the three instructions read (class references) -/
structure SuperEnv where
  globalObject : Nat                  -- the symbol `Object` of the global module: the built-in class
  moduleObject : Option Nat           -- this module's symbol `Object` while its state is `GlobalInitialized`
  lexical : String → Option Nat       -- what an ordinary read of a name gives where the class is declared

/-- the value `op_inherit` finds under the new class -/
def superValue (env : SuperEnv) : SuperLoad → Option Nat
  | .lexical p => env.lexical p
  | .moduleCopy => env.moduleObject
  | .loadGlobal => some env.globalObject

/-- what `Compiler::class` emits for the body of one class, as store operations on the class on top
of the stack: `Inherit`, `Method(init)`, `Field*` (emit_fields), `Method*`, `StaticMethod*`. -/
structure ClassBody where
  initFields : List String                 -- names assigned on `self` in the initialiser, textual order
  init : Option Nat                        -- the initialiser's closure
  methods : List (String × Nat)
  statics : List (String × Nat)
  deriving Repr, DecidableEq, Inhabited

/-- the class-level effect of the emitted body on the class itself (metaclass aside) -/
def buildCls (name : String) (supId : Nat) (sup : Cls) (b : ClassBody) : Cls :=
  let c := (Cls.bare name).inheritFrom supId sup
  let c := match b.init with
           | some i => c.addMethod "init" i
           | none => c
  let c := (compileInitFields b.initFields).foldl Cls.addField c
  b.methods.foldl (fun c p => c.addMethod p.1 p.2) c

/-! ## §6 VM call paths (laythe_vm/src/vm/ops.rs), inline caches off -/

inductive ErrKind where
  | property | runtime
  deriving Repr, DecidableEq

/-- classes `value_class` needs for callables -/
structure Builtins where
  nilV : Val
  closureCls : Nat
  nativeCls : Nat
  methodCls : Nat
  deriving Repr, DecidableEq

structure VM where
  store : Store
  heap : List Inst
  stack : List Val        -- head = top of stack
  bi : Builtins
  deriving Repr, DecidableEq

/-- `ExecutionSignal`, refined by what `resolve_call` ended up doing -/
inductive Sig where
  | ok (vm : VM)                                 -- instruction done, no call
  | enter (f : Nat) (argc : Nat) (vm : VM)       -- `call_closure`: new frame for closure `f`, stack as given
  | enterNative (f : Nat) (argc : Nat) (vm : VM) -- `call_native`
  | error (kind : ErrKind) (msg : String)
  | internal (msg : String)                      -- `internal_error` / host panic
  deriving Repr, DecidableEq

namespace VM

def peek (vm : VM) (n : Nat) : Option Val := vm.stack[n]?
def peekSet (vm : VM) (n : Nat) (v : Val) : VM := { vm with stack := vm.stack.set n v }

/-- `value_class` / `BuiltInPrimitives::for_value`; `none` = "Meta class not set." -/
def valueClass (vm : VM) : Val → Option Nat
  | .prim c _ => some c
  | .inst a => (vm.heap[a]?).map (·.cls)
  | .cls c => (vm.store.get? c).bind (·.metaClass)
  | .closure _ => some vm.bi.closureCls
  | .native _ => some vm.bi.nativeCls
  | .bound _ _ => some vm.bi.methodCls

def className (vm : VM) (c : Nat) : String := vm.store.className c

def undefinedProperty (vm : VM) (name : String) (c : Nat) : String := vm.store.undefinedProperty name c

/-- `call_class`: allocate, put the instance in the receiver slot, run `init` if any -/
def callClass (vm : VM) (c : Nat) (argc : Nat) : Sig :=
  match vm.store.get? c with
  | none => .internal "dangling class"
  | some cc =>
    match instantiate vm.bi.nilV c cc with
    | none => .internal "Cannot allocate class with more than 256 fields"
    | some i =>
      let vm1 := { vm with heap := vm.heap ++ [i] }.peekSet argc (.inst vm.heap.length)
      match cc.init with
      | some init => .enter init argc vm1
      | none =>
        if argc ≠ 0 then .error .runtime ("Expected 0 arguments but got " ++ toString argc)
        else .ok vm1

/-- `resolve_call` (+ `call_method`, which rewrites the receiver slot and resolves the method) -/
def resolveCall (vm : VM) : Val → Nat → Sig
  | .closure f, argc => .enter f argc vm
  | .native f, argc => .enterNative f argc vm
  | .cls c, argc => vm.callClass c argc
  | .bound recv m, argc => resolveCall (vm.peekSet argc recv) m argc
  | .prim c _, _ => .error .runtime (vm.className c ++ " is not callable.")
  | .inst a, _ =>
    match vm.valueClass (.inst a) with
    | some c => .error .runtime (vm.className c ++ " is not callable.")
    | none => .internal "dangling instance"

/-- the instance a value denotes, with its class -/
def instOf (vm : VM) : Val → Option (Nat × Inst × Cls)
  | .inst a =>
    match vm.heap[a]? with
    | some i => match vm.store.get? i.cls with
      | some c => some (a, i, c)
      | none => none
    | none => none
  | _ => none

/-- `if_let_obj!(Instance(instance) = receiver) { instance.get_field(name) }`: outer `none` = not an
instance or no such field; inner `none` = the slice-index panic -/
def fieldHit (vm : VM) (v : Val) (name : String) : Option (Option Val) :=
  match vm.instOf v with
  | some (_, i, c) => i.getField c name
  | none => none

/-- `op_invoke` on the cache-miss path -/
def opInvoke (vm : VM) (name : String) (argc : Nat) : Sig :=
  match vm.peek argc with
  | none => .internal "stack underflow"
  | some receiver =>
    match vm.valueClass receiver with
    | none => .internal "Meta class not set."
    | some cid =>
      match vm.fieldHit receiver name with
      | some (some field) => (vm.peekSet argc field).resolveCall field argc
      | some none => .internal "index out of bounds"
      | none =>
        match (vm.store.get? cid).bind (·.getMethod name) with
        | some m => vm.resolveCall (.closure m) argc
        | none => .error .property (vm.undefinedProperty name cid)

/-- `bind_method`: note the error *class* is `runtime` (D20) -/
def bindMethod (vm : VM) (cid : Nat) (name : String) : Sig :=
  match (vm.store.get? cid).bind (·.getMethod name), vm.peek 0 with
  | some m, some recv => .ok (vm.peekSet 0 (.bound recv (.closure m)))
  | some _, none => .internal "stack underflow"
  | none, _ => .error .runtime (vm.undefinedProperty name cid)

/-- `op_get_prop_by_name` on the cache-miss path -/
def opGetPropByName (vm : VM) (name : String) : Sig :=
  match vm.peek 0 with
  | none => .internal "stack underflow"
  | some value =>
    match vm.fieldHit value name with
    | some (some field) => .ok (vm.peekSet 0 field)
    | some none => .internal "index out of bounds"
    | none =>
      match vm.valueClass value with
      | none => .internal "Meta class not set."
      | some cid => vm.bindMethod cid name

/-- `op_call` -/
def opCall (vm : VM) (argc : Nat) : Sig :=
  match vm.peek argc with
  | none => .internal "stack underflow"
  | some callee => vm.resolveCall callee argc

/-- `op_set_prop_by_name` on the cache-miss path: stack `value :: instance :: rest` → `value :: rest` -/
def opSetPropByName (vm : VM) (name : String) : Sig :=
  match vm.stack with
  | value :: target :: rest =>
    match vm.instOf target with
    | some (a, i, c) =>
      match c.getFieldIndex name with
      | some idx =>
        if idx < i.slots.length then
          .ok { vm with stack := value :: rest, heap := vm.heap.set a { i with slots := i.slots.set idx value } }
        else .internal "index out of bounds"
      | none => .error .property (vm.undefinedProperty name i.cls)
    | none => .error .runtime "Only instances have settable fields."
  | _ => .internal "stack underflow"

/-- `op_get_prop` (fixed index) -/
def opGetProp (vm : VM) (slot : Nat) : Sig :=
  match vm.peek 0 with
  | some v =>
    match vm.instOf v with
    | some (_, i, _) =>
      match i.slots[slot]? with
      | some x => .ok (vm.peekSet 0 x)
      | none => .internal "index out of bounds"
    | none => .internal "Attempted to access a non instance"
  | none => .internal "stack underflow"

/-- `op_set_prop` (fixed index) -/
def opSetProp (vm : VM) (slot : Nat) : Sig :=
  match vm.stack with
  | value :: target :: rest =>
    match vm.instOf target with
    | some (a, i, _) =>
      if slot < i.slots.length then
        .ok { vm with stack := value :: rest, heap := vm.heap.set a { i with slots := i.slots.set slot value } }
      else .internal "index out of bounds"
    | none => .internal "Attempted to access a non instance"
  | _ => .internal "stack underflow"

/-- `op_get_super`: stack `superclass :: self :: rest`; pops the class, binds on `self` -/
def opGetSuper (vm : VM) (name : String) : Sig :=
  match vm.stack with
  | .cls sup :: rest => ({ vm with stack := rest }).bindMethod sup name
  | _ => .internal "expected class"

/-- `op_super_invoke` on the cache-miss path: stack `superclass :: args.. :: self :: rest` -/
def opSuperInvoke (vm : VM) (name : String) (argc : Nat) : Sig :=
  match vm.stack with
  | .cls sup :: rest =>
    let vm1 := { vm with stack := rest }
    match (vm.store.get? sup).bind (·.getMethod name) with
    | some m => vm1.resolveCall (.closure m) argc
    | none => .error .property (vm.undefinedProperty name sup)
  | _ => .internal "expected class"

end VM

/-! ## §7 the inline cache slot of a fused super call (laythe_vm/src/cache.rs, `op_super_invoke`)

Every `SuperInvoke` instruction owns one slot of the module's `InlineCache::invoke` vector.  The slot
belongs to the *instruction*, i.e. to the text of the class declaration — not to the class object: when
the declaration is evaluated again (a class factory `fn mk(B) { class D : B { m() { super.m() } } return D; }`)
the same slot is reached with another superclass on the stack. -/

/-- `struct InvokeCache { class, method }` -/
structure InvokeEntry where
  cls : Nat
  method : Val
  deriving Repr, DecidableEq

/-- one element of `InlineCache::invoke` -/
abbrev InvokeSlot := Option InvokeEntry

/-- `InlineCache::get_invoke_cache(inline_slot, class)`: a hit only for the class the entry was filled with -/
def getInvokeCache (slot : InvokeSlot) (cls : Nat) : Option Val :=
  match slot with
  | some e => if e.cls = cls then some e.method else none
  | none => none

/-- what a getter that does not compare the class would answer (not in the code: the mutation the
witness `C03_witness_unkeyed_super_cache` is about) -/
def getInvokeCacheUnkeyed (slot : InvokeSlot) (_cls : Nat) : Option Val := slot.map (·.method)

namespace VM

/-- `op_super_invoke` in full, parameterised by the getter: stack `superclass :: args.. :: self :: rest`;
a hit calls the cached method, a miss looks the method up in the popped class and fills the slot with
(that class, method).  Returns the signal and the slot afterwards. -/
def opSuperInvokeWith (getter : InvokeSlot → Nat → Option Val) (vm : VM) (slot : InvokeSlot) (name : String) (argc : Nat) :
    Sig × InvokeSlot :=
  match vm.stack with
  | .cls sup :: rest =>
    let vm1 := { vm with stack := rest }
    match getter slot sup with
    | some m => (vm1.resolveCall m argc, slot)
    | none =>
      match (vm.store.get? sup).bind (·.getMethod name) with
      | some m => (vm1.resolveCall (.closure m) argc, some { cls := sup, method := .closure m })
      | none => (.error .property (vm.undefinedProperty name sup), slot)
  | _ => (.internal "expected class", slot)

/-- `op_super_invoke` as it is: `get_invoke_cache(inline_slot, super_class)` -/
def opSuperInvokeC (vm : VM) (slot : InvokeSlot) (name : String) (argc : Nat) : Sig × InvokeSlot :=
  opSuperInvokeWith getInvokeCache vm slot name argc

/-- one super call site over a whole run: the executions of the instruction in order (each with the
machine state it meets and its argument count), the slot threaded through -/
def superSiteRun (getter : InvokeSlot → Nat → Option Val) (name : String) : InvokeSlot → List (VM × Nat) → List Sig
  | _, [] => []
  | slot, (vm, argc) :: r =>
    let p := opSuperInvokeWith getter vm slot name argc
    p.1 :: superSiteRun getter name p.2 r

end VM

/-- the facts of `op_super_invoke` / `op_get_super` / `get_invoke_cache` the model above is written from, in
the shape tools/translate_c03.py extracts them from ops.rs and cache.rs (`Gen/SuperSites.lean`; tied by
`C03.super_sites_eq_gen`): per op, where the class comes from, the cache getter with its arguments, the
lookup on a miss, the cache setter with its arguments, what is done with the method (source order). -/
def superSiteFacts : List (String × String × List String) := [
  ("op_super_invoke", "class", ["super_class", "self.fiber.pop().to_obj().to_class()"]),
  ("op_super_invoke", "get", ["get_invoke_cache", "inline_slot", "super_class"]),
  ("op_super_invoke", "call", ["self.resolve_call(method, arg_count)"]),
  ("op_super_invoke", "lookup", ["super_class.get_method(&method_name)"]),
  ("op_super_invoke", "set", ["set_invoke_cache", "inline_slot", "super_class", "method"]),
  ("op_super_invoke", "call", ["self.resolve_call(method, arg_count)"]),
  ("op_get_super", "class", ["super_class", "self.fiber.pop().to_obj().to_class()"]),
  ("op_get_super", "bind", ["self.bind_method(super_class, name)"])]

/-- (getter, it has a class parameter, its only `Some` stands under `cache.class == class`) -/
def invokeGetterFacts : List (String × Bool × Bool) := [("get_invoke_cache", true, true)]

end LaytheVerif.Classes
