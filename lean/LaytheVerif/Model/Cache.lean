/-
Model of the inline caches (laythe_vm/src/cache.rs) as used by `op_get_prop_by_name`,
`op_set_prop_by_name`, `op_invoke` and `op_super_invoke` (vm/ops.rs), one cache slot per site.
Classes are identified by address; the slow path is a function of (class, name) — class tables do
not change after the class expression finished (C03: `declareClass`), which is what `World` records.

A site's result (`Res`) says what it leaves on the operand stack as well: a property op is entered
with the receiver (and, for a write, the value) on the stack, and each of its arms shuffles the stack
with a few statements (`SOp`); the model runs those statements (`writeRes`, `readRes`).
-/
namespace LaytheVerif.Cache

structure World where
  fieldIndex : Nat → String → Option Nat      -- class address → field name → slot
  method : Nat → String → Option Nat          -- class address → method name → method value

inductive Recv where
  | inst (cls : Nat) (fields : List Nat)      -- an instance with its slot values
  | prim (cls : Nat)                          -- any non-instance value, with the class `value_class` gives it
  deriving Repr, DecidableEq

def Recv.cls : Recv → Nat
  | .inst c _ => c
  | .prim c => c

/-- What an operand-stack slot (or a local of the op) holds, as far as one execution of a site can
tell: the receiver the site was entered with, or some other value. -/
inductive Item where
  | recv
  | val (v : Nat)
  deriving DecidableEq, Repr

/-- What a site does, as far as the rest of the program can tell — including what it leaves on the
operand stack (the value of the expression the site belongs to). -/
inductive Res
  | value (left : Item)                -- property read: `left` replaces the receiver on the stack
  | bound (m : Nat)                    -- bound method of the receiver replaces the receiver
  | wrote (slot : Nat) (stored left : Item)
                                       -- property write: `stored` went into the slot; `left` replaces receiver and
                                       -- value on the stack, i.e. it is the value of the assignment expression
  | callMethod (m : Nat)               -- call this method with the receiver (the call leaves its result)
  | callField (v : Nat)                -- call the value stored in a field (field shadows method)
  | propertyError
  | notInstanceError
  | stuck                              -- the op's stack statements do not fit the operand stack (never, for the
                                       -- statements the code has: `C13_shuffles_run`)
  deriving DecidableEq, Repr

/-! ### the operand-stack statements of `op_set_prop_by_name` / `op_get_prop_by_name`

Each arm of the two property ops is a short straight-line sequence of stack statements; the model runs
exactly those sequences (`writeShuffle`, `readShuffle`), and `Props/C13.lean` shows that the statements
the Rust text has on every path (regenerated into `Gen.CacheSites.paths`) read as these sequences. -/

/-- the two locals the property ops keep stack values in -/
inductive Var where
  | inst                               -- `instance`
  | value                              -- `value`
  deriving DecidableEq, Repr

inductive SOp where
  | letPeek (x : Var) (n : Nat)        -- `let x = self.fiber.peek(n)`
  | asInstance (x : Var)               -- taken branch of `if_let_obj!(ObjectKind::Instance(instance) = (x) {..})`
  | popValue                           -- `let value = self.fiber.pop()`
  | drop                               -- `self.fiber.drop()`
  | pushValue                          -- `self.fiber.push(value)`
  | storeValue                         -- `instance[property_slot] = value`
  | storePeek (n : Nat)                -- `instance[property_slot] = self.fiber.peek(n)`
  | peekSetField (n : Nat)             -- `self.fiber.peek_set(n, instance[property_slot])`
  deriving DecidableEq, Repr

/-- operand stack (top first), the two locals, and what was stored into the instance's slot -/
structure Mach where
  stack : List Item
  inst : Option Item := none
  value : Option Item := none
  stored : Option Item := none
  deriving DecidableEq, Repr

/-- One statement; `fv` is the content of the instance's slot before the op.  `none`: the statement does
not fit (empty stack, unbound local, `instance` is not the receiver). -/
def SOp.exec (fv : Nat) (m : Mach) : SOp → Option Mach
  | .letPeek x n => match m.stack[n]? with
    | some it => (match x with | .inst => some { m with inst := some it } | .value => some { m with value := some it })
    | none => none
  | .asInstance x => match (match x with | .inst => m.inst | .value => m.value) with
    | some .recv => some { m with inst := some .recv }
    | _ => none
  | .popValue => match m.stack with
    | it :: st => some { m with stack := st, value := some it }
    | [] => none
  | .drop => match m.stack with
    | _ :: st => some { m with stack := st }
    | [] => none
  | .pushValue => match m.value with
    | some v => some { m with stack := v :: m.stack }
    | none => none
  | .storeValue => match m.inst, m.value with
    | some .recv, some v => some { m with stored := some v }
    | _, _ => none
  | .storePeek n => match m.inst, m.stack[n]? with
    | some .recv, some v => some { m with stored := some v }
    | _, _ => none
  | .peekSetField n => match m.inst with
    | some .recv => if n < m.stack.length then some { m with stack := m.stack.set n (.val fv) } else none
    | _ => none

def runOps (fv : Nat) : List SOp → Mach → Option Mach
  | [], m => some m
  | op :: ops, m => match op.exec fv m with
    | some m' => runOps fv ops m'
    | none => none

/-- both arms of `op_set_prop_by_name` that write: `let instance = self.fiber.peek(1)`, instance test,
`let value = self.fiber.pop(); self.fiber.drop(); self.fiber.push(value); instance[property_slot] = value` -/
def writeShuffle : List SOp := [.letPeek .inst 1, .asInstance .inst, .popValue, .drop, .pushValue, .storeValue]

/-- both arms of `op_get_prop_by_name` that read a field: `let value = self.fiber.peek(0)`, instance test,
`self.fiber.peek_set(0, instance[property_slot])` -/
def readShuffle : List SOp := [.letPeek .value 0, .asInstance .value, .peekSetField 0]

/-- A write whose slot is known, entered with `value :: receiver` on the stack. -/
def writeRes (ops : List SOp) (slot v : Nat) : Res :=
  match runOps 0 ops { stack := [.val v, .recv] } with
  | some m => (match m.stack, m.stored with
    | [left], some s => .wrote slot s left
    | _, _ => .stuck)
  | none => .stuck

/-- A read whose slot is known (content `fv`), entered with the receiver on the stack. -/
def readRes (ops : List SOp) (fv : Nat) : Res :=
  match runOps fv ops { stack := [.recv] } with
  | some m => (match m.stack with
    | [left] => .value left
    | _ => .stuck)
  | none => .stuck

/-- Reading one statement of the Rust text (as normalised by tools/translate.py, `gen_cache_sites`). -/
def parseSOp (s : String) : Option SOp :=
  if s = "let instance = self.fiber.peek(1)" then some (.letPeek .inst 1)
  else if s = "let instance = self.fiber.peek(0)" then some (.letPeek .inst 0)
  else if s = "let value = self.fiber.peek(0)" then some (.letPeek .value 0)
  else if s = "let value = self.fiber.peek(1)" then some (.letPeek .value 1)
  else if s = "if_let_obj ObjectKind::Instance(mut instance) = (instance)" then some (.asInstance .inst)
  else if s = "if_let_obj ObjectKind::Instance(instance) = (instance)" then some (.asInstance .inst)
  else if s = "if_let_obj ObjectKind::Instance(mut instance) = (value)" then some (.asInstance .value)
  else if s = "if_let_obj ObjectKind::Instance(instance) = (value)" then some (.asInstance .value)
  else if s = "let value = self.fiber.pop()" then some .popValue
  else if s = "self.fiber.drop()" then some .drop
  else if s = "self.fiber.push(value)" then some .pushValue
  else if s = "instance[property_slot] = value" then some .storeValue
  else if s = "instance[property_slot as usize] = value" then some .storeValue
  else if s = "instance[property_slot] = self.fiber.peek(0)" then some (.storePeek 0)
  else if s = "instance[property_slot as usize] = self.fiber.peek(0)" then some (.storePeek 0)
  else if s = "instance[property_slot] = self.fiber.peek(1)" then some (.storePeek 1)
  else if s = "self.fiber.peek_set(0, instance[property_slot])" then some (.peekSetField 0)
  else if s = "self.fiber.peek_set(0, instance[property_slot as usize])" then some (.peekSetField 0)
  else none

/-- The stack statements (and instance test) of one path of `Gen.CacheSites.paths`, read as `SOp`s;
`none` when some statement is not one the model knows. -/
def pathOps (items : List (String × String)) : Option (List SOp) :=
  (items.filter (fun it => it.1 = "stack" || it.1 = "bind")).mapM (fun it => parseSOp it.2)

abbrev PCache := Option (Nat × Nat)    -- PropertyCache { class, property_index }
abbrev ICache := Option (Nat × Nat)    -- InvokeCache { class, method }

/-! ### property read -/

def getSlow (w : World) (name : String) (r : Recv) : Res :=
  match r with
  | .inst c fs => match w.fieldIndex c name with
    | some i => .value (.val (fs.getD i 0))
    | none => match w.method c name with | some m => .bound m | none => .propertyError
  | .prim c => match w.method c name with | some m => .bound m | none => .propertyError

/-- `op_get_prop_by_name`, with the stack statements of its hit arm and of its fill arm as parameters -/
def getCachedWith (hitOps missOps : List SOp) (w : World) (name : String) (cache : PCache) (r : Recv) : Res × PCache :=
  match r with
  | .inst c fs =>
    match (match cache with | some (cc, i) => if cc = c then some i else none | none => none) with
    | some i => (readRes hitOps (fs.getD i 0), cache)
    | none =>
      match w.fieldIndex c name with
      | some i' => (readRes missOps (fs.getD i' 0), some (c, i'))
      | none => (match w.method c name with | some m => .bound m | none => .propertyError, none)
  | .prim c => (match w.method c name with | some m => .bound m | none => .propertyError, none)

/-- `op_get_prop_by_name` as it is: both arms run `readShuffle` -/
def getCached : World → String → PCache → Recv → Res × PCache := getCachedWith readShuffle readShuffle

/-! ### property write

A write site is entered with a receiver and the value to assign (`rv = (receiver, value)`).  The Spec
(`setSlow`): the value goes into the field's slot and is what the assignment expression evaluates to. -/

def setSlow (w : World) (name : String) (rv : Recv × Nat) : Res :=
  match rv.1 with
  | .inst c _ => match w.fieldIndex c name with | some i => .wrote i (.val rv.2) (.val rv.2) | none => .propertyError
  | .prim _ => .notInstanceError

/-- `op_set_prop_by_name`, with the stack statements of its hit arm and of its fill arm as parameters -/
def setCachedWith (hitOps missOps : List SOp) (w : World) (name : String) (cache : PCache) (rv : Recv × Nat) : Res × PCache :=
  match rv.1 with
  | .inst c _ =>
    match (match cache with | some (cc, i) => if cc = c then some i else none | none => none) with
    | some i => (writeRes hitOps i rv.2, cache)
    | none =>
      match w.fieldIndex c name with
      | some i' => (writeRes missOps i' rv.2, some (c, i'))
      | none => (.propertyError, cache)
  | .prim _ => (.notInstanceError, cache)

/-- `op_set_prop_by_name` as it is: both arms run `writeShuffle` -/
def setCached : World → String → PCache → Recv × Nat → Res × PCache := setCachedWith writeShuffle writeShuffle

/-! ### invoke -/

def invokeSlow (w : World) (name : String) (r : Recv) : Res :=
  match r with
  | .inst c fs => match w.fieldIndex c name with
    | some i => .callField (fs.getD i 0)
    | none => match w.method c name with | some m => .callMethod m | none => .propertyError
  | .prim c => match w.method c name with | some m => .callMethod m | none => .propertyError

/-- `op_invoke`: the cache is consulted *before* the field-shadows-method test. -/
def invokeCached (w : World) (name : String) (cache : ICache) (r : Recv) : Res × ICache :=
  match (match cache with | some (cc, m) => if cc = r.cls then some m else none | none => none) with
  | some m => (.callMethod m, cache)
  | none =>
    match r with
    | .inst c fs =>
      match w.fieldIndex c name with
      | some i => (.callField (fs.getD i 0), none)                       -- clear_invoke_cache
      | none => match w.method c name with
        | some m => (.callMethod m, some (c, m))
        | none => (.propertyError, cache)
    | .prim c => match w.method c name with
      | some m => (.callMethod m, some (c, m))
      | none => (.propertyError, cache)

/-! ### super invoke (keyed by the lexical superclass) -/

def superSlow (w : World) (name : String) (sup : Nat) : Res :=
  match w.method sup name with | some m => .callMethod m | none => .propertyError

/-- `op_super_invoke` -/
def superCached (w : World) (name : String) (cache : ICache) (sup : Nat) : Res × ICache :=
  match (match cache with | some (cc, m) => if cc = sup then some m else none | none => none) with
  | some m => (.callMethod m, cache)
  | none => match w.method sup name with
    | some m => (.callMethod m, some (sup, m))
    | none => (.propertyError, cache)

/-! ### slot numbering (`CacheIdEmitter`) -/

/-- Ids handed out to the sites of one compile, in emission order, and the final count the
module's cache vectors are created with. -/
def emitIds (n : Nat) : List Nat × Nat := (List.range n, n)

/-- The same for a compile whose emitter was created by `CacheIdEmitter::new(start, ..)` (the REPL's
module from its second compiled entry on, `Vm::compile`): the ids continue after the `start` ids
already handed out, and the module's vectors are grown (`InlineCache::grow`) to the final count. -/
def emitIdsFrom (start n : Nat) : List Nat × Nat := (List.range' start n, start + n)

end LaytheVerif.Cache
