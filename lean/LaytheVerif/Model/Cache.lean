/-
Model of the inline caches (laythe_vm/src/cache.rs) as used by `op_get_prop_by_name`,
`op_set_prop_by_name`, `op_invoke` and `op_super_invoke` (vm/ops.rs), one cache slot per site.
Classes are identified by address; the slow path is a function of (class, name) — class tables do
not change after the class expression finished (C03: `declareClass`), which is what `World` records.
-/
namespace LaytheVerif.Cache

structure World where
  fieldIndex : Nat → String → Option Nat      -- class address → field name → slot
  method : Nat → String → Option Nat          -- class address → method name → method value

inductive Recv where
  | inst (cls : Nat) (fields : List Nat)      -- an instance with its slot values
  | prim (cls : Nat)                          -- any non-instance value, with the class `value_class` gives it
  deriving Repr, DecidableEq

def Recv.cls : Recv → Nat
  | .inst c _ => c
  | .prim c => c

/-- What a site does, as far as the rest of the program can tell. -/
inductive Res
  | value (v : Nat)                    -- property read result
  | bound (m : Nat)                    -- bound method of the receiver
  | wrote (slot : Nat)                 -- property write into this slot
  | callMethod (m : Nat)               -- call this method with the receiver
  | callField (v : Nat)                -- call the value stored in a field (field shadows method)
  | propertyError
  | notInstanceError
  deriving DecidableEq, Repr

abbrev PCache := Option (Nat × Nat)    -- PropertyCache { class, property_index }
abbrev ICache := Option (Nat × Nat)    -- InvokeCache { class, method }

/-! ### property read -/

def getSlow (w : World) (name : String) (r : Recv) : Res :=
  match r with
  | .inst c fs => match w.fieldIndex c name with
    | some i => .value (fs.getD i 0)
    | none => match w.method c name with | some m => .bound m | none => .propertyError
  | .prim c => match w.method c name with | some m => .bound m | none => .propertyError

/-- `op_get_prop_by_name` -/
def getCached (w : World) (name : String) (cache : PCache) (r : Recv) : Res × PCache :=
  match r with
  | .inst c fs =>
    match (match cache with | some (cc, i) => if cc = c then some i else none | none => none) with
    | some i => (.value (fs.getD i 0), cache)
    | none =>
      match w.fieldIndex c name with
      | some i' => (.value (fs.getD i' 0), some (c, i'))
      | none => (match w.method c name with | some m => .bound m | none => .propertyError, none)
  | .prim c => (match w.method c name with | some m => .bound m | none => .propertyError, none)

/-! ### property write -/

def setSlow (w : World) (name : String) (r : Recv) : Res :=
  match r with
  | .inst c _ => match w.fieldIndex c name with | some i => .wrote i | none => .propertyError
  | .prim _ => .notInstanceError

/-- `op_set_prop_by_name` -/
def setCached (w : World) (name : String) (cache : PCache) (r : Recv) : Res × PCache :=
  match r with
  | .inst c _ =>
    match (match cache with | some (cc, i) => if cc = c then some i else none | none => none) with
    | some i => (.wrote i, cache)
    | none =>
      match w.fieldIndex c name with
      | some i' => (.wrote i', some (c, i'))
      | none => (.propertyError, cache)
  | .prim _ => (.notInstanceError, cache)

/-! ### invoke -/

def invokeSlow (w : World) (name : String) (r : Recv) : Res :=
  match r with
  | .inst c fs => match w.fieldIndex c name with
    | some i => .callField (fs.getD i 0)
    | none => match w.method c name with | some m => .callMethod m | none => .propertyError
  | .prim c => match w.method c name with | some m => .callMethod m | none => .propertyError

/-- `op_invoke`: the cache is consulted *before* the field-shadows-method test. -/
def invokeCached (w : World) (name : String) (cache : ICache) (r : Recv) : Res × ICache :=
  match (match cache with | some (cc, m) => if cc = r.cls then some m else none | none => none) with
  | some m => (.callMethod m, cache)
  | none =>
    match r with
    | .inst c fs =>
      match w.fieldIndex c name with
      | some i => (.callField (fs.getD i 0), none)                       -- clear_invoke_cache
      | none => match w.method c name with
        | some m => (.callMethod m, some (c, m))
        | none => (.propertyError, cache)
    | .prim c => match w.method c name with
      | some m => (.callMethod m, some (c, m))
      | none => (.propertyError, cache)

/-! ### super invoke (keyed by the lexical superclass) -/

def superSlow (w : World) (name : String) (sup : Nat) : Res :=
  match w.method sup name with | some m => .callMethod m | none => .propertyError

/-- `op_super_invoke` -/
def superCached (w : World) (name : String) (cache : ICache) (sup : Nat) : Res × ICache :=
  match (match cache with | some (cc, m) => if cc = sup then some m else none | none => none) with
  | some m => (.callMethod m, cache)
  | none => match w.method sup name with
    | some m => (.callMethod m, some (sup, m))
    | none => (.propertyError, cache)

/-! ### slot numbering (`CacheIdEmitter`) -/

/-- Ids handed out to the sites of one compile, in emission order, and the final count the
module's cache vectors are created with. -/
def emitIds (n : Nat) : List Nat × Nat := (List.range n, n)

/-- The same for a compile whose emitter was created by `CacheIdEmitter::new(start, ..)` (the REPL's
module from its second compiled entry on, `Vm::compile`): the ids continue after the `start` ids
already handed out, and the module's vectors are grown (`InlineCache::grow`) to the final count. -/
def emitIdsFrom (start n : Nat) : List Nat × Nat := (List.range' start n, start + n)

end LaytheVerif.Cache
